"""Translator for straight-line filter bodies: parses the body of a Rust method (a subset of Rust: let, assignment,
if / if let / match on values of known shape, arithmetic and comparison operators, clone / abs / unwrap_or_else /
into / filter / saturating_add method calls, struct and tuple patterns and literals, blocks, unsafe blocks), executes it
SYMBOLICALLY on a receiver whose configuration and state fields are symbolic variables, and prints the resulting
output and successor state as Gallina terms over the arithmetic record of coq/Base/Arith.v.  For every state shape
(each Option-valued field None / Some) one lemma is generated that equates the generic model of coq/Model/Generic.v (or
the polymorphic model) applied to that shape with the translated term; the lemmas are proved by computation
(`reflexivity` after unfolding), so the Coq kernel checks that the model IS what the source text says, for all
inputs.  Anything outside the subset raises Unsupported: the obligation then counts as broken.

parse:      Lexer, Parser        -> AST (tuples)
execute:    Sym                  -> symbolic values
print:      coq_T / coq_B / ...  -> Gallina text
"""
import re


class Unsupported(Exception):
    pass


# ------------------------------------------------------------------------------------------------ lexer
TOKEN_RE = re.compile(r"""
    (?P<ws>\s+)
  | (?P<lifetime>'[A-Za-z_][A-Za-z0-9_]*(?!'))
  | (?P<num>0b[01_]+|0x[0-9a-fA-F_]+|\d[\d_]*(?:\.\d[\d_]*)?(?:[eE][+-]?\d+)?(?:_?(?:f32|f64|usize|u8|u16|u32|u64|i8|i16|i32|i64|isize))?)
  | (?P<ident>\$?[A-Za-z_][A-Za-z0-9_]*)
  | (?P<punct>::|=>|->|==|!=|<=|>=|&&|\|\||\.\.=|\.\.|\+=|-=|\*=|/=|[-+*/%=<>!&|.,;:(){}\[\]#?@^~$])
""", re.X)


def strip_comments(txt):
    txt = re.sub(r"/\*.*?\*/", " ", txt, flags=re.S)
    return re.sub(r"//[^\n]*", " ", txt)


def lex(txt):
    toks = []
    pos = 0
    txt = strip_comments(txt)
    while pos < len(txt):
        m = TOKEN_RE.match(txt, pos)
        if not m:
            raise Unsupported("cannot tokenise at %r" % txt[pos:pos + 30])
        pos = m.end()
        k = m.lastgroup
        if k == "ws":
            continue
        toks.append((k, m.group(k)))
    # drop attributes  #[...]  /  #![...]
    out = []
    i = 0
    while i < len(toks):
        if toks[i] == ("punct", "#"):
            j = i + 1
            if j < len(toks) and toks[j] == ("punct", "!"):
                j += 1
            if j < len(toks) and toks[j] == ("punct", "["):
                depth = 0
                while j < len(toks):
                    if toks[j] == ("punct", "["): depth += 1
                    if toks[j] == ("punct", "]"):
                        depth -= 1
                        if depth == 0: break
                    j += 1
                if any(t_ in (("ident", "cfg"), ("ident", "cfg_attr")) for t_ in toks[i:j]):
                    # conditional compilation INSIDE a body (a match arm, a statement, an expression): which text is compiled depends on
                    # the features / the profile, and reading both twins as ordinary code would pick the first
                    raise Unsupported("conditionally compiled code inside the body (%s)" % " ".join(t_[1] for t_ in toks[i:j + 1])[:120])
                i = j + 1
                continue
        out.append(toks[i])
        i += 1
    return out


def find_method(src, impl_re, fn_name):
    """text of the body `{ ... }` of `fn fn_name` inside the first impl block whose header matches impl_re,
    and the list of parameter names after self"""
    txt = strip_comments(src)
    m = re.search(impl_re, txt)
    if not m:
        raise Unsupported("impl header not found: %s" % impl_re)
    i = txt.index("{", m.end())
    blk = balanced(txt, i)
    fms = list(re.finditer(r"\bfn\s+%s\s*(<[^>]*>)?\s*\(" % re.escape(fn_name), blk))
    if not fms:
        raise Unsupported("fn %s not found in impl %s" % (fn_name, impl_re))
    if len(fms) > 1:
        raise Unsupported("fn %s is defined %d times in impl %s (conditional compilation?): which body runs depends on the build" % (fn_name, len(fms), impl_re))
    fm = fms[0]
    attrs = re.search(r"((?:#\[(?:[^\[\]]|\[[^\]]*\])*\]\s*)*)(?:pub(?:\([a-z]+\))?\s+)?(?:unsafe\s+)?(?:const\s+)?$", blk[:fm.start()])
    if attrs and re.search(r"\bcfg", attrs.group(1)):
        raise Unsupported("fn %s in impl %s is conditionally compiled (%s)" % (fn_name, impl_re, " ".join(attrs.group(1).split())))
    j = blk.index("(", fm.start())
    params_txt = balanced(blk, j, "(", ")")
    k = blk.index("{", j + len(params_txt))
    body = balanced(blk, k)
    return body, params_txt[1:-1]


def balanced(txt, i, o="{", c="}"):
    depth = 0
    for j in range(i, len(txt)):
        if txt[j] == o: depth += 1
        elif txt[j] == c:
            depth -= 1
            if depth == 0:
                return txt[i:j + 1]
    raise Unsupported("unbalanced %s" % o)


# ------------------------------------------------------------------------------------------------ parser
BINPREC = [("||",), ("&&",), ("==", "!=", "<", ">", "<=", ">="), ("&",), ("+", "-"), ("*", "/", "%")]


class Parser:
    def __init__(self, toks):
        self.t = toks
        self.i = 0

    def peek(self, k=0):
        return self.t[self.i + k] if self.i + k < len(self.t) else ("eof", "")

    def at(self, v, k=0):
        return self.peek(k)[1] == v and self.peek(k)[0] in ("punct", "ident")

    def eat(self, v=None):
        tok = self.peek()
        if v is not None and tok[1] != v:
            raise Unsupported("expected %r, found %r (token %d)" % (v, tok[1], self.i))
        self.i += 1
        return tok

    # ---- paths and types (types are skipped)
    def path(self):
        segs = [self.eat()[1]]
        while self.at("::"):
            self.eat("::")
            if self.at("<"):
                self.skip_generics()
                continue
            segs.append(self.eat()[1])
        return segs

    def skip_generics(self):
        depth = 0
        while True:
            v = self.eat()[1]
            if v == "<": depth += 1
            elif v == ">":
                depth -= 1
                if depth == 0: return
            elif v == "eof": raise Unsupported("unterminated generics")

    def skip_type(self):
        depth = 0
        while True:
            v = self.peek()[1]
            if depth == 0 and v in ("=", ";", ",", ")", "{", "|"): return
            if v in ("<", "(", "["): depth += 1
            if v in (">", ")", "]"):
                if depth == 0: return
                depth -= 1
            self.eat()

    # ---- patterns
    def pattern(self):
        p = self.pattern1()
        if self.at("|"):
            alts = [p]
            while self.at("|"):
                self.eat("|")
                alts.append(self.pattern1())
            return ("por", alts)
        return p

    def pattern1(self):
        k, v = self.peek()
        if v == "&":
            self.eat()
            if self.at("mut"): self.eat()
            return self.pattern1()
        if v == "(":
            self.eat("(")
            ps = []
            while not self.at(")"):
                ps.append(self.pattern())
                if self.at(","): self.eat(",")
            self.eat(")")
            return ("ptuple", ps) if len(ps) != 1 else ps[0]
        if v == "[":
            self.eat("[")
            ps = []
            while not self.at("]"):
                ps.append(self.pattern())
                if self.at(","): self.eat(",")
            self.eat("]")
            return ("parray", ps)
        if v == "_":
            self.eat()
            return ("pwild",)
        if v in ("ref", "mut"):
            first = self.eat()[1]
            second = None
            if self.at("mut") or self.at("ref"): second = self.eat()[1]
            name = self.eat()[1]
            return ("pid", name, "refmut") if (first == "ref" and second == "mut") else ("pid", name)
        if k == "num" or v == "-":
            neg = ""
            if v == "-": self.eat(); neg = "-"
            return ("plit", neg + self.eat()[1])
        if k == "ident":
            segs = self.path()
            if self.at("("):
                self.eat("(")
                ps = []
                while not self.at(")"):
                    ps.append(self.pattern())
                    if self.at(","): self.eat(",")
                self.eat(")")
                return ("ptstruct", segs, ps)
            if self.at("{"):
                self.eat("{")
                fs = []
                rest = False
                while not self.at("}"):
                    if self.at(".."):
                        self.eat("..")
                        rest = True
                    else:
                        isref = False
                        while self.at("ref") or self.at("mut"):
                            self.eat(); isref = True
                        name = self.eat()[1]
                        if self.at(":"):
                            self.eat(":")
                            fs.append((name, self.pattern()))
                        else:
                            fs.append((name, ("pid", name)))
                    if self.at(","): self.eat(",")
                self.eat("}")
                return ("pstruct", segs, fs, rest)
            if len(segs) == 1 and segs[0][0].islower():
                return ("pid", segs[0])
            return ("ppath", segs)
        raise Unsupported("pattern starting with %r" % v)

    # ---- statements and blocks
    def block(self):
        self.eat("{")
        stmts = []
        tail = None
        while not self.at("}"):
            if self.at(";"):
                self.eat(";")
                continue
            if self.at("let"):
                self.eat("let")
                pat = self.pattern()
                if self.at(":"):
                    self.eat(":")
                    self.skip_type()
                self.eat("=")
                e = self.expr()
                if self.at("else"):
                    self.eat("else")
                    alt = self.block()
                    self.eat(";")
                    stmts.append(("letelse", pat, e, alt))
                    continue
                self.eat(";")
                stmts.append(("let", pat, e))
                continue
            if self.peek()[1] in ("if", "match", "loop", "while", "for", "unsafe", "{") and self.peek()[0] in ("ident", "punct"):
                e = self.primary(False)          # a block-like expression in statement position is a complete statement
                if self.at(".") or self.at("?"): e = self.postfix(e, False)
            else:
                e = self.expr(stmt=True)
            if self.at(";"):
                self.eat(";")
                stmts.append(("expr", e))
            elif self.at("}"):
                tail = e
            elif e[0] in ("if", "iflet", "match", "block", "unsafe", "loop", "while", "whilelet", "for", "return", "break", "continue"):
                stmts.append(("expr", e))
            else:
                raise Unsupported("statement not terminated near token %d (%r)" % (self.i, self.peek()[1]))
        self.eat("}")
        return ("block", stmts, tail)

    # ---- expressions
    def expr(self, stmt=False, nostruct=False):
        lhs = self.binexpr(0, nostruct)
        if self.at(".."):
            self.eat("..")
            lhs = ("range", lhs, self.binexpr(0, nostruct))
        if self.at("="):
            self.eat("=")
            return ("assign", lhs, self.expr(nostruct=nostruct))
        for op in ("+=", "-=", "*=", "/="):
            if self.at(op):
                self.eat(op)
                return ("assign", lhs, ("bin", op[0], lhs, self.expr(nostruct=nostruct)))
        return lhs

    def binexpr(self, level, nostruct):
        if level == len(BINPREC):
            return self.unary(nostruct)
        lhs = self.binexpr(level + 1, nostruct)
        while self.peek()[0] == "punct" and self.peek()[1] in BINPREC[level]:
            op = self.eat()[1]
            rhs = self.binexpr(level + 1, nostruct)
            lhs = ("bin", op, lhs, rhs)
        return lhs

    def unary(self, nostruct):
        if self.at("&"):
            self.eat()
            if self.at("mut"):
                self.eat()
                return ("addrmut", self.unary(nostruct))      # `&mut place`: an alias when bound by `let`, transparent elsewhere
            return self.unary(nostruct)                       # shared references are transparent
        if self.at("*"):
            self.eat()
            return self.unary(nostruct)
        if self.at("!"):
            self.eat()
            return ("un", "!", self.unary(nostruct))
        if self.at("-"):
            self.eat()
            return ("un", "-", self.unary(nostruct))
        e = self.postfix(self.primary(nostruct), nostruct)
        while self.at("as"):
            self.eat("as")
            self.skip_type()
        return e

    def args(self):
        self.eat("(")
        a = []
        while not self.at(")"):
            a.append(self.expr())
            if self.at(","): self.eat(",")
        self.eat(")")
        return a

    def postfix(self, e, nostruct):
        while True:
            if self.at("."):
                self.eat(".")
                k, name = self.eat()
                if self.at("::"):
                    self.eat("::")
                    self.skip_generics()
                if self.at("("):
                    e = ("mcall", e, name, self.args())
                else:
                    e = ("field", e, name)
            elif self.at("("):
                e = ("call", e, self.args())
            elif self.at("["):
                self.eat("[")
                ix = self.expr()
                self.eat("]")
                e = ("index", e, ix)
            elif self.at("?"):
                self.eat("?")
                e = ("try", e)
            else:
                return e

    def primary(self, nostruct):
        k, v = self.peek()
        if k == "num":
            self.eat()
            return ("num", v)
        if v == "(":
            self.eat("(")
            es = []
            trailing = False
            while not self.at(")"):
                es.append(self.expr())
                trailing = False
                if self.at(","):
                    self.eat(","); trailing = True
            self.eat(")")
            if len(es) == 1 and not trailing: return es[0]
            return ("tuple", es)
        if v == "[":
            self.eat("[")
            es = []
            while not self.at("]"):
                es.append(self.expr())
                if self.at(","): self.eat(",")
            self.eat("]")
            return ("array", es)
        if v == "{":
            return self.block()
        if v == "unsafe":
            self.eat()
            return self.block()
        if v == "if":
            self.eat("if")
            if self.at("let"):
                self.eat("let")
                pat = self.pattern()
                self.eat("=")
                scrut = self.expr(nostruct=True)
                th = self.block()
                el = None
                if self.at("else"):
                    self.eat("else")
                    el = self.primary(False) if self.at("if") else self.block()
                return ("iflet", pat, scrut, th, el)
            cond = self.expr(nostruct=True)
            th = self.block()
            el = None
            if self.at("else"):
                self.eat("else")
                el = self.primary(False) if self.at("if") else self.block()
            return ("if", cond, th, el)
        if v == "match":
            self.eat("match")
            scrut = self.expr(nostruct=True)
            self.eat("{")
            arms = []
            while not self.at("}"):
                pat = self.pattern()
                guard = None
                if self.at("if"):
                    self.eat("if"); guard = self.expr(nostruct=True)
                self.eat("=>")
                body = self.block() if self.at("{") else self.expr()      # a block arm is not followed by postfix operators
                arms.append((pat, body) if guard is None else (pat, body, guard))
                if self.at(","): self.eat(",")
            self.eat("}")
            return ("match", scrut, arms)
        if v == "|" or v == "||":
            params = []
            if v == "||":
                self.eat("||")
            else:
                self.eat("|")
                while not self.at("|"):
                    params.append(self.pattern1())
                    if self.at(":"):
                        self.eat(":"); self.skip_type()
                    if self.at(","): self.eat(",")
                self.eat("|")
            return ("closure", params, self.expr())
        if v == "loop":
            self.eat()
            return ("loop", self.block())
        if v == "break":
            self.eat()
            return ("break",)
        if v == "return":
            self.eat()
            return ("return", None if self.at(";") or self.at("}") else self.expr())
        if v == "for":
            self.eat()
            pat = self.pattern()
            self.eat("in")
            it = self.expr(nostruct=True)
            return ("for", pat, it, self.block())
        if v == "while":
            self.eat()
            if self.at("let"):
                self.eat("let")
                pat = self.pattern()
                self.eat("=")
                scrut = self.expr(nostruct=True)
                return ("whilelet", pat, scrut, self.block())
            cond = self.expr(nostruct=True)
            return ("while", cond, self.block())
        if v == "continue":
            self.eat()
            return ("continue",)
        if v == "move":
            self.eat()
            return self.primary(nostruct)
        if k == "ident":
            segs = self.path()
            if self.at("!"):
                if segs[-1] == "matches" and self.peek(1)[1] == "(":
                    self.eat("!"); self.eat("(")
                    scrut = self.expr()
                    self.eat(",")
                    pat = self.pattern()
                    guard = None
                    if self.at("if"):
                        self.eat("if"); guard = self.expr()
                    if self.at(","): self.eat(",")
                    self.eat(")")
                    return ("matches", scrut, pat, guard)
                if segs[-1] in ("unreachable", "panic", "unimplemented", "todo", "debug_assert", "debug_assert_eq") and self.peek(1)[1] == "(":
                    self.eat("!")
                    depth = 0
                    while True:
                        v2 = self.eat()[1]
                        if v2 == "(": depth += 1
                        elif v2 == ")":
                            depth -= 1
                            if depth == 0: break
                        elif v2 == "": raise Unsupported("unterminated macro arguments")
                    return ("diverge", segs[-1]) if not segs[-1].startswith("debug_assert") else ("tuple", [])
                raise Unsupported("macro invocation %s!" % "::".join(segs))
            if self.at("{") and not nostruct and segs[-1][0].isupper():
                self.eat("{")
                fs = []
                while not self.at("}"):
                    if self.at(".."): raise Unsupported("struct update syntax")
                    name = self.eat()[1]
                    if self.at(":"):
                        self.eat(":")
                        fs.append((name, self.expr()))
                    else:
                        fs.append((name, ("path", [name])))
                    if self.at(","): self.eat(",")
                self.eat("}")
                return ("struct", segs, fs)
            return ("path", segs)
        raise Unsupported("expression starting with %r" % v)


def parse_body(body_txt):
    p = Parser(lex(body_txt))
    b = p.block()
    if p.peek()[0] != "eof":
        raise Unsupported("trailing tokens after the body")
    return b


# ------------------------------------------------------------------------------------------------ symbolic values
# sample-typed terms:  ("var", n) ("zero",) ("one",) ("add",a,b) ("sub",a,b) ("mul",a,b) ("div",a,b) ("abs",a) ("neg",a) ("ite",c,a,b)
# booleans:            ("lt",a,b) ("le",a,b) ("eq",a,b) ("not",b) ("and",a,b) ("or",a,b) ("btrue",) ("bfalse",) ("bvar",n)
#                      ("nle", m, n) on counters
# counters (usize):    ("nvar", n) ("nlit", k) ("satsucc", n)
# composite values:    ("T", term) ("B", bool) ("N", counter) ("opt", None | value) ("tuple", [v]) ("struct", {f: v}) ("array", [v])
#                      ("unit",) ("bidx", bool)  (a bool converted into an index)  ("fn", name) ("closure", ast, env)
#                      ("obj", kind, payload)    opaque objects with primitive methods (ring buffer, median window, sub-filter)

PURE_METHODS = ("clone", "len", "is_some", "is_none", "abs", "is_zero", "as_ref", "iter", "rev", "borrow", "to_owned", "into", "partial_cmp", "unwrap",
                "front", "back", "map_or", "map", "cached", "config", "config_ref")
def effectful(node):
    """may this expression change state?  Every method call that is not known to be pure counts, and so does every call of a
    method of the receiver itself.  (A plain array read does not: under a symbolic left operand it is evaluated anyway and
    contributes the hypothesis that the read succeeds, as the models do.)"""
    if isinstance(node, tuple):
        if node and node[0] == "mcall" and (node[2] not in PURE_METHODS or node[1] == ("path", ["self"])): return True
        return any(effectful(x) for x in node)
    if isinstance(node, list): return any(effectful(x) for x in node)
    return False


class LoopBreak(Exception):
    """`break` reached while a loop handler executes one iteration"""


class Panics(Exception):
    """the executed path ends in a panic (unwrap of None, ...): the lemma for this path says the model returns None"""


class NeedAssumption(Exception):
    """path-splitting mode ran out of assumed branch outcomes: the driver extends the vector and re-runs"""


def as_nat(v):
    """Gallina nat text of a machine integer value, or None"""
    if v[0] == "Nat": return v[1]
    if v[0] == "N" and v[1][0] == "nlit": return str(v[1][1])
    return None


OBJ_PRINT = {}      # object kind -> printer (registered by the entry definitions)
def T(t): return ("T", t)
def B(b): return ("B", b)
def mark_clone(v):
    """the value of `x.clone()`: the SAME term (Clone is lawful: a clone equals its original, trusted base) carrying a python-side
    tag that survives moves and stores but no computation; used only for the effect signature (which of the returned / stored
    values is the clone and which the original)"""
    k = v[0]
    if k in ("T", "optraw", "raw") and len(v) == 2: return (k, v[1], "cl")
    if k == "opt" and v[1] is not None: return ("opt", mark_clone(v[1]))
    if k == "tuple": return ("tuple", [mark_clone(x) for x in v[1]])
    return v
def untag(v):
    if isinstance(v, tuple):
        if len(v) == 3 and v[2] == "cl" and v[0] in ("T", "optraw", "raw"): return (v[0], untag(v[1]))
        return tuple(untag(x) for x in v)
    if isinstance(v, list): return [untag(x) for x in v]
    if isinstance(v, dict): return {k_: untag(x) for k_, x in v.items()}
    return v
def clone_paths(v, path, acc):
    """paths (Option / variant payloads transparent) at which a cloned value sits unmodified"""
    if not isinstance(v, tuple) or not v: return acc
    k = v[0]
    if k in ("T", "optraw", "raw") and len(v) == 3 and v[2] == "cl": acc.append(path or ".")
    elif k == "opt" and v[1] is not None: clone_paths(v[1], path, acc)
    elif k in ("tuple", "array"):
        for i_, x in enumerate(v[1]): clone_paths(x, "%s.%d" % (path, i_), acc)
    elif k == "struct":
        for f_ in sorted(v[1]):
            if f_ != "__sub": clone_paths(v[1][f_], "%s.%s" % (path, f_), acc)
    elif k == "variant":
        for i_, x in enumerate(v[2]): clone_paths(x, "%s.%s.%d" % (path, v[1], i_), acc)
    elif k == "tagged": clone_paths(v[1], path, acc)
    return acc
def dirty_paths(a, b, path, acc):
    """paths at which the value b differs from a (clone tags ignored)"""
    if untag(a) == untag(b): return acc
    if isinstance(a, tuple) and isinstance(b, tuple) and a and b and a[0] == b[0] == "struct" and set(a[1]) == set(b[1]):
        for f_ in sorted(a[1]):
            if f_ != "__sub": dirty_paths(a[1][f_], b[1][f_], "%s.%s" % (path, f_), acc)
    else: acc.append(path or ".")
    return acc
ABSTRACT_CALLS = {("mach", "filter"), ("src", "source"), ("pipe", "filter"), ("pipe", "source"), ("pipe", "sink"), ("pipe", "finalize"), ("snk", "sink"), ("snk", "finalize")}
ENUM_TYPES = ("Ordering", "Slope", "Peak", "ChainState", "PadState")
ENUM_COQ = {"Rising": "Rising", "None": "Flat", "Falling": "Falling", "Max": "PMax", "Min": "PMin", "Less": "Lt", "Equal": "Eq", "Greater": "Gt"}


def merge(c, a, b, strict=False):
    """value of `if c then a else b`; strict: keep the conditional even when both branches are the same sample term
    (the model's `if` is not convertible with its branch while the condition is symbolic)"""
    if a == b and not (strict and a[0] in ("T", "B")): return a
    if untag(a) == untag(b) and a != b and not (strict and a[0] in ("T", "B")): return a
    if a[0] in ("T", "optraw", "raw") and len(a) == 3: a = a[:2]
    if b[0] in ("T", "optraw", "raw") and len(b) == 3: b = b[:2]
    if a[0] != b[0]:
        raise Unsupported("branches of a conditional produce values of different shapes (%s / %s)" % (a[0], b[0]))
    k = a[0]
    if k == "T": return T(("ite", c, a[1], b[1]))
    if k == "B": return B(("bite", c, a[1], b[1]))
    if k == "N": return ("N", ("nite", c, a[1], b[1]))
    if k == "bidx": return ("bidx", ("bite", c, a[1], b[1]))
    if k == "opt":
        if (a[1] is None) != (b[1] is None):
            raise Unsupported("branches of a conditional produce None and Some")
        return a if a[1] is None else ("opt", merge(c, a[1], b[1]))
    if k in ("tuple", "array"):
        if len(a[1]) != len(b[1]): raise Unsupported("tuple arity differs across branches")
        return (k, [merge(c, x, y) for x, y in zip(a[1], b[1])])
    if k == "struct":
        if set(a[1]) != set(b[1]): raise Unsupported("struct fields differ across branches")
        return ("struct", {f: merge(c, a[1][f], b[1][f]) for f in a[1]})
    if k == "L": return ("L", "(if %s then %s else %s)" % (coq_B(c), a[1], b[1]))
    if k == "mark": raise Unsupported("different inner filters across branches")
    if k == "unit": return a
    raise Unsupported("cannot merge values of kind %s across a symbolic conditional" % k)


class Return(Exception):
    def __init__(self, value): self.value = value


def assigned_names(node, acc):
    """identifiers that are the target of an assignment anywhere inside an AST"""
    if isinstance(node, tuple):
        if node and node[0] == "assign" and node[1][0] == "path" and len(node[1][1]) == 1: acc.add(node[1][1][0])
        for x in node: assigned_names(x, acc)
    elif isinstance(node, list):
        for x in node: assigned_names(x, acc)
    return acc


class Env:
    def __init__(self, parent=None):
        self.vars = {}
        self.parent = parent

    def get(self, n):
        e = self
        while e is not None:
            if n in e.vars: return e.vars[n]
            e = e.parent
        raise Unsupported("unknown variable %s" % n)

    def set_existing(self, n, v):
        e = self
        while e is not None:
            if n in e.vars:
                e.vars[n] = v
                return
            e = e.parent
        raise Unsupported("assignment to unknown variable %s" % n)

    def snapshot(self):
        """deep copy of the whole chain (values are immutable tuples / fresh dicts are rebuilt on write)"""
        chain = []
        e = self
        while e is not None:
            chain.append(dict(e.vars))
            e = e.parent
        return chain

    def restore(self, chain):
        e = self
        for d in chain:
            e.vars = dict(d)
            e = e.parent


class Sym:
    """symbolic executor; `prims` maps (object kind, method) -> python function(sym, obj_value, args) -> (result, new_obj_value)"""

    def __init__(self, prims=None, divmode="total", subs=None):
        self.prims = prims or {}
        self.divmode = divmode
        self.divs = []          # divisors in evaluation order (checked mode)
        self.subs = subs or {}  # name -> (body AST, [parameter names]) of translated inner filters
        self.fns = {}           # "Type::fn" -> (body AST, [parameter names]): associated functions executed inline
        self.dyn_vars = []      # (name, Gallina type) of variables introduced by calls into abstract components
        self.dyn_hyps = []      # hypotheses `call = result pattern` about those calls, in evaluation order
        self.world = None       # name of the current "world" variable threaded through abstract stage calls
        self.counter = 0
        self.depth = 0          # nesting of calls of the receiver's own methods (the model's recursion consumes fuel)
        self.assume = None      # path-splitting mode: list of booleans consumed at every symbolic branch (see NeedAssumption)
        self.taken = []         # the assumptions actually consumed
        self.reads = {}         # (buffer name, index text) -> node variable: array reads already assumed
        self.curbuf = None      # name of the current node buffer (usize::MAX is printed as `poison` of it)
        self.global_env = Env()   # const generics and the like: visible inside inlined helper methods too
        self.find_helper = None   # callback(name) -> (AST, [parameter names]) of a helper method in the same file, or None
        self.while_handler = None # callback(sym, env, while-AST): unrolls once and/or summarises the loop by the model's loop function
        self.loop_summary = None  # callback(sym, env, for-AST) summarising a range loop by a hypothesis about the model's loop function
        self.self0 = []           # stack of the receiver values at entry of the (inlined) methods being executed
        self.effects = []         # effect signature: receiver fields already written when an abstract component (which may panic) is called

    def decide(self, what_true, what_false):
        """path-splitting: take the next assumed outcome of a symbolic test and record it as a hypothesis"""
        if self.assume is None: raise Unsupported("symbolic test outside path-splitting mode: %s" % what_true)
        if not self.assume: raise NeedAssumption()
        b = self.assume.pop(0)
        self.taken.append(b)
        self.dyn_hyps.append(what_true if b else what_false)
        return b

    # ---- node buffers (the median filter's array of list nodes): reads and writes are hypotheses getn/setn = Some _
    def buf_read(self, buf, ix):
        name = buf[2]
        key = (name, ix)
        if key not in self.reads:
            nd = "nd%d" % self.fresh()
            self.dyn_vars.append((nd, "node T"))
            self.dyn_hyps.append("getn T %s %s = Some %s" % (name, ix, nd))
            self.reads[key] = nd
        nd = self.reads[key]
        return ("struct", {"value": ("optraw", "(value %s)" % nd), "previous": ("Nat", "(previous %s)" % nd), "next": ("Nat", "(next %s)" % nd)})

    def node_text(self, v):
        if v[0] != "struct" or set(v[1]) - {"__sub"} != {"value", "previous", "next"}: raise Unsupported("array element is not a list node")
        val = v[1]["value"]
        vt = val[1] if val[0] == "optraw" else coq_V(val)
        return "{| value := %s; previous := %s; next := %s |}" % (vt, as_nat(v[1]["previous"]), as_nat(v[1]["next"]))

    def buf_write(self, buf, ix, node):
        new = "b%d" % self.fresh()
        self.dyn_vars.append((new, "list (node T)"))
        self.dyn_hyps.append("setn T %s %s %s = Some %s" % (buf[2], ix, self.node_text(node), new))
        self.curbuf = new
        return ("obj", "buf", new)

    def fresh(self):
        self.counter += 1
        return self.counter

    # ---- lvalues: paths of field accesses rooted at a variable
    def lpath(self, e):
        if e[0] == "addrmut": return self.lpath(e[1])
        if e[0] == "path" and len(e[1]) == 1: return e[1][0], []
        if e[0] == "field":
            r, p = self.lpath(e[1])
            return r, p + [e[2]]
        if e[0] == "mcall" and e[2] == "state_mut" and not e[3]:
            r, p = self.lpath(e[1])
            return r, p + ["state"]
        if e[0] == "mcall" and not e[3] and e[1] == ("path", ["self"]) and self.find_helper is not None:
            h = self.find_helper(e[2])          # an accessor `fn x_mut(&mut self) -> &mut F { &mut self.path }`: the place it returns
            if h is not None and not h[0][1] and h[0][2] is not None and not h[1]:
                return self.lpath(h[0][2])
        raise Unsupported("assignment target is not a field path")

    def store(self, env, e, v):
        if e[0] == "index" or (e[0] == "field" and e[1][0] == "index"):
            ixe = e if e[0] == "index" else e[1]
            buf = self.ev(ixe[1], env)
            if buf[0] != "obj" or buf[1] != "buf": raise Unsupported("assignment to an element of something that is not a node buffer")
            ix = as_nat(self.ev(ixe[2], env))
            if ix is None: raise Unsupported("array index is not a machine integer")
            if e[0] == "index":
                node = v
            else:
                old = self.buf_read(buf, ix)
                d = dict(old[1]); d[e[2]] = v
                node = ("struct", d)
            self.store(env, ixe[1], self.buf_write(buf, ix, node))
            return
        root, path = self.lpath(e)
        cur = env.get(root)
        if cur[0] == "ref":
            root, path = cur[1], cur[2] + path
            cur = env.get(root)
        env.set_existing(root, self.updated(cur, path, v))

    def updated(self, cur, path, v):
        if not path: return v
        if isinstance(path[0], int):
            if cur[0] == "variant":
                pl = list(cur[2]); pl[path[0]] = self.updated(pl[path[0]], path[1:], v); return ("variant", cur[1], pl)
            if cur[0] == "tuple":
                pl = list(cur[1]); pl[path[0]] = self.updated(pl[path[0]], path[1:], v); return ("tuple", pl)
            raise Unsupported("positional update on %s" % cur[0])
        if cur[0] != "struct": raise Unsupported("field update on a non-struct value")
        d = dict(cur[1])
        if path[0] not in d: raise Unsupported("no field %s" % path[0])
        d[path[0]] = self.updated(d[path[0]], path[1:], v)
        return ("struct", d)

    # ---- pattern matching against values of known shape: returns bindings or None (no match)
    def pmatch(self, pat, v, where=None):
        """bindings of a pattern against a value of known shape, or None; `where` = (root variable, path) of the matched place:
        a `ref mut` binding then aliases the place instead of copying the value"""
        k = pat[0]
        if k == "pwild": return {}
        if k == "pid":
            if ((len(pat) > 2 and pat[2] == "refmut") or getattr(self, "allref", False)) and where is not None: return {pat[1]: ("ref", where[0], where[1])}
            return {pat[1]: v}
        if k == "ptuple":
            if v[0] != "tuple" or len(v[1]) != len(pat[1]): raise Unsupported("tuple pattern against %s" % v[0])
            out = {}
            for k_, (p, x) in enumerate(zip(pat[1], v[1])):
                b = self.pmatch(p, x, None if where is None else (where[0], where[1] + [k_]))
                if b is None: return None
                out.update(b)
            return out
        if k == "parray":
            if v[0] != "array" or len(v[1]) != len(pat[1]): raise Unsupported("array pattern against %s" % v[0])
            out = {}
            for p, x in zip(pat[1], v[1]):
                b = self.pmatch(p, x)
                if b is None: return None
                out.update(b)
            return out
        if k == "ptstruct" and len(pat[1]) >= 2 and pat[1][-2] in ENUM_TYPES:
            if v[0] == "enum": return None
            if v[0] != "variant": raise Unsupported("variant pattern against %s" % v[0])
            if v[1] != pat[1][-1]: return None
            if len(v[2]) != len(pat[2]): raise Unsupported("variant arity")
            out = {}
            for k_, (p, x) in enumerate(zip(pat[2], v[2])):
                b = self.pmatch(p, x, None if where is None else (where[0], where[1] + [k_]))
                if b is None: return None
                out.update(b)
            return out
        if k == "ptstruct":
            name = pat[1][-1]
            if name == "Some":
                if v[0] != "opt": raise Unsupported("Some(_) pattern against a value of unknown shape (%s)" % v[0])
                if v[1] is None: return None
                return self.pmatch(pat[2][0], v[1])
            raise Unsupported("tuple-struct pattern %s" % name)
        if k == "ppath":
            name = pat[1][-1]
            if len(pat[1]) >= 2 and pat[1][-2] in ENUM_TYPES:
                if v[0] == "variant": return None
                if v[0] != "enum": raise Unsupported("enum pattern %s against a value of kind %s" % ("::".join(pat[1]), v[0]))
                return {} if v[1] == name else None
            if name == "None":
                if v[0] != "opt": raise Unsupported("None pattern against a value of unknown shape (%s)" % v[0])
                return {} if v[1] is None else None
            if v[0] == "enum":
                return {} if v[1] == name else None
            if v[0] == "variant": return None
            raise Unsupported("path pattern %s against %s" % (name, v[0]))
        if k == "pstruct":
            if v[0] != "struct": raise Unsupported("struct pattern against %s" % v[0])
            out = {}
            for f, p in pat[2]:
                if f not in v[1]: raise Unsupported("no field %s" % f)
                b = self.pmatch(p, v[1][f], None if where is None else (where[0], where[1] + [f]))
                if b is None: return None
                out.update(b)
            return out
        if k == "por":
            for p in pat[1]:
                b = self.pmatch(p, v)
                if b is not None: return b
            return None
        raise Unsupported("pattern kind %s" % k)

    # ---- blocks
    def block(self, blk, env):
        env = Env(env)
        for st in blk[1]:
            if st[0] == "letelse":               # let PAT = e else { diverges };
                v = self.ev(st[2], env)
                if v[0] == "optraw": v = self.split_opt(v)
                b_ = self.pmatch(st[1], v)
                if b_ is None:
                    self.block(st[3], env)
                    raise Unsupported("the else block of a let-else does not diverge")
                env.vars.update(b_)
                continue
            if st[0] == "let":
                if st[1][0] == "pid" and st[1][1] in getattr(self, "opaque_lets", {}):      # a binding whose initialiser is not executed
                    env.vars[st[1][1]] = self.opaque_lets[st[1][1]]                      # (the MaybeUninit plumbing of Median::default)
                    continue
                if st[1][0] == "pid" and st[2][0] == "mcall" and st[2][2] == "state_mut" and not st[2][3]:
                    root, path = self.lpath(st[2])
                    env.vars[st[1][1]] = ("ref", root, path)
                    continue
                if st[1][0] in ("pstruct", "ptuple") and st[2][0] == "addrmut":   # let Pat { a, b } = &mut place;  every binding aliases its field
                    try:
                        root, path = self.lpath(st[2][1])
                    except Unsupported:
                        root = None
                    if root is not None:
                        cur = env.get(root)
                        if cur[0] == "ref": root, path = cur[1], cur[2] + path
                        self.allref = True
                        try:
                            b_ = self.pmatch(st[1], self.ev(st[2][1], env), (root, list(path)))
                        finally:
                            self.allref = False
                        if b_ is None: raise Unsupported("refutable let pattern does not match")
                        env.vars.update(b_)
                        continue
                if st[1][0] == "pid" and st[2][0] == "addrmut":            # let x = &mut place;  x aliases the place
                    try:
                        root, path = self.lpath(st[2][1])
                    except Unsupported:
                        root = None
                    if root is not None:
                        cur = env.get(root)
                        if cur[0] == "ref": root, path = cur[1], cur[2] + path
                        env.vars[st[1][1]] = ("ref", root, path)
                        continue
                v = self.ev(st[2], env)
                b = self.pmatch(st[1], v)
                if b is None: raise Unsupported("refutable let pattern does not match")
                env.vars.update(b)
            else:
                self.ev(st[1], env)
        return self.ev(blk[2], env) if blk[2] is not None else ("unit",)

    def cond(self, c, th, el, env):
        """symbolic conditional over two thunks that may mutate the environment"""
        if c == ("btrue",): return th()
        if c == ("bfalse",): return el()
        if c[0] == "not":                        # `if !c {a} else {b}` is written `if c then b else a` in the models
            return self.cond(c[1], el, th, env)
        if self.assume is not None:
            return th() if self.decide("%s = true" % coq_B(c), "%s = false" % coq_B(c)) else el()
        snap = env.snapshot()
        ndiv = len(self.divs)
        va = th()
        sa = env.snapshot()
        if len(self.divs) != ndiv: raise Unsupported("division under a symbolic condition")
        env.restore(snap)
        vb = el()
        sb = env.snapshot()
        if len(self.divs) != ndiv: raise Unsupported("division under a symbolic condition")
        merged = []
        for da, db in zip(sa, sb):
            if set(da) != set(db): raise Unsupported("branches declare different variables in an outer scope")
            merged.append({n: merge(c, da[n], db[n]) for n in da})
        env.restore(merged)
        return merge(c, va, vb, strict=True)

    # ---- expressions
    def ev(self, e, env):
        k = e[0]
        if k == "num":
            txt = re.sub(r"_?(usize|u\d+|i\d+|isize)$", "", e[1]).replace("_", "")
            if re.fullmatch(r"0b[01]+|0x[0-9a-fA-F]+", txt): return ("N", ("nlit", int(txt, 0)))
            if re.fullmatch(r"\d+", txt): return ("N", ("nlit", int(txt)))
            raise Unsupported("float literal %s in generic code" % e[1])
        if k == "path":
            segs = e[1]
            if len(segs) == 1:
                if segs[0] == "None": return ("opt", None)
                if segs[0] in ("true", "false"): return B(("btrue",) if segs[0] == "true" else ("bfalse",))
                val = env.get(segs[0])
                if val[0] == "ref": return lookup(env.get(val[1]), val[2])
                return val
            if segs == ["usize", "MAX"] and self.curbuf is not None: return ("Nat", "(poison T %s)" % self.curbuf)
            if segs == ["usize", "MAX"]: return ("N", ("nvar", "maxu"))
            if segs[-1] in ("zero", "one") and len(segs) == 2: return ("fn", segs[-1])
            if segs[0] in ENUM_TYPES or (len(segs) >= 2 and segs[-2] in ENUM_TYPES): return ("enum", segs[-1])
            if segs[0] == "Self" and len(segs) == 2 and str(getattr(self, "cur_cls", "")).startswith("enum:"): return ("enum", segs[1])
            if segs[-1] == "None": return ("opt", None)
            raise Unsupported("path %s" % "::".join(segs))
        if k == "field":
            v = self.ev(e[1], env)
            if v[0] == "struct":
                if e[2] not in v[1]: raise Unsupported("no field %s" % e[2])
                return v[1][e[2]]
            if v[0] == "tuple" and e[2].isdigit(): return v[1][int(e[2])]
            raise Unsupported("field access .%s on %s" % (e[2], v[0]))
        if k == "tuple": return ("tuple", [self.ev(x, env) for x in e[1]])
        if k == "array": return ("array", [self.ev(x, env) for x in e[1]])
        if k == "struct":
            d = {f: self.ev(x, env) for f, x in e[2]}
            if e[1] == ["Self"] and getattr(self, "cur_cls", None): d["__sub"] = ("mark", self.cur_cls)
            return ("struct", d)
        if k == "block": return self.block(e, env)
        if k == "assign":
            self.store(env, e[1], self.ev(e[2], env))
            return ("unit",)
        if k == "closure": return ("closure", e, env)
        if k == "index":
            a = self.ev(e[1], env)
            ix = self.ev(e[2], env)
            if a[0] == "obj" and a[1] == "buf":
                if as_nat(ix) is None: raise Unsupported("array index is not a machine integer")
                return self.buf_read(a, as_nat(ix))
            if a[0] != "array": raise Unsupported("indexing a non-array")
            if ix[0] == "N" and ix[1][0] == "nlit": return a[1][ix[1][1]]
            if ix[0] == "bidx" and len(a[1]) == 2: return merge(ix[1], a[1][1], a[1][0])
            if ix[0] == "cmpsplit":
                pick = lambda b: a[1][b[1][1]] if (b[0] == "N" and b[1][0] == "nlit") else (_ for _ in ()).throw(Unsupported("comparison branch is not a literal index"))
                return ("cmpsplit", ix[1], ix[2], pick(ix[3]), pick(ix[4]), pick(ix[5]), pick(ix[6]))
            raise Unsupported("index is neither a literal nor a converted bool")
        if k == "un":
            v = self.ev(e[2], env)
            if e[1] == "!" and v[0] == "B": return B(self.bnot(v[1]))
            if e[1] == "-" and v[0] == "T": return T(("neg", v[1]))
            raise Unsupported("unary %s on %s" % (e[1], v[0]))
        if k == "bin" and e[1] in ("&&", "||"):
            a = self.ev(e[2], env)
            if a[0] != "B": raise Unsupported("operand of %s is not a boolean" % e[1])
            if a[1] not in (("btrue",), ("bfalse",)):
                if not effectful(e[3]): return self.binop(e[1], a, self.ev(e[3], env))     # pure right operand: a plain andb / orb
                a = B(("btrue",) if self.decide("%s = true" % coq_B(a[1]), "%s = false" % coq_B(a[1])) else ("bfalse",))
            if (e[1] == "&&") == (a[1] == ("bfalse",)): return a          # short circuit: the right operand is NOT evaluated
            return self.ev(e[3], env)
        if k == "bin":
            a_, b_ = self.ev(e[2], env), self.ev(e[3], env)
            if e[1] in ("+", "-", "*", "/") and a_[0] == "T":
                # every sample-arithmetic operation that is EVALUATED counts, also one whose result is discarded on this path: on machine
                # integers it can overflow (a weight incremented up front and thrown away once the window is full panics for N = T::MAX)
                self.opcount = getattr(self, "opcount", {}); self.opcount[e[1]] = self.opcount.get(e[1], 0) + 1
            if e[1] in ("+", "-", "*", "/") and a_[0] == "T" and self.self0:
                # sample arithmetic may panic for checked sample types: which receiver fields are already written at that moment
                # is part of the effect signature (a state taken out `while` the arithmetic runs is lost when it panics)
                try: cur_ = env.get("self")
                except Exception: cur_ = None
                if cur_ is not None:
                    d_ = dirty_paths(self.self0[-1], cur_, "self", [])
                    if d_:
                        ev_ = "written before sample arithmetic: %s" % ", ".join(d_)
                        if ev_ not in self.effects: self.effects.append(ev_)
            return self.binop(e[1], a_, b_)
        if k == "if":
            c = self.ev(e[1], env)
            if c[0] != "B": raise Unsupported("condition is not a boolean")
            return self.cond(c[1], lambda: self.block(e[2], env), lambda: (self.ev(e[3], env) if e[3] is not None else ("unit",)), env)
        if k == "iflet":
            v = self.ev(e[2], env)
            if v[0] == "optraw": v = self.split_opt(v)
            b = self.pmatch(e[1], v)
            if b is not None:
                inner = Env(env)
                inner.vars.update(b)
                return self.block(e[3], inner)
            return self.ev(e[4], env) if e[4] is not None else ("unit",)
        if k == "match":
            v = self.ev(e[1], env)
            try:
                self.match_place = self.lpath(e[1])
            except Unsupported:
                self.match_place = None
            if v[0] == "cmp":          # Option<Ordering> of a partial comparison: a four-way symbolic split
                return self.match_cmp(v, e[2], env)
            if v[0] == "tuple" and any(x[0] == "cmpsplit" for x in v[1]):
                cs = next(x for x in v[1] if x[0] == "cmpsplit")
                if any(x[0] == "cmpsplit" and (x[1], x[2]) != (cs[1], cs[2]) for x in v[1]): raise Unsupported("two different comparisons in one scrutinee")
                v = ("cmpsplit", cs[1], cs[2]) + tuple(("tuple", [x[3 + k_] if x[0] == "cmpsplit" else x for x in v[1]]) for k_ in range(4))
            if v[0] == "cmpsplit":     # a value that already depends on an earlier comparison: match in each of its branches
                snap = env.snapshot()
                outs = []
                for comp in v[3:7]:
                    outs.append(self.match_value(comp, e[2], env))
                    if env.snapshot() != snap: raise Unsupported("match over a comparison-dependent value changes the environment")
                return ("cmpsplit", v[1], v[2]) + tuple(outs)
            return self.match_value(v, e[2], env)
        if k == "return":
            raise Return(self.ev(e[1], env) if e[1] is not None else ("unit",))
        if k == "while":
            c = e[1]
            if (c[0] == "mcall" and c[2] == "is_none" and c[1][0] == "mcall" and c[1][2] == "push_back" and len(c[1][3]) == 1 and not e[2][1] and e[2][2] is None):
                self.fill(c[1], env)          # push the same value until something is evicted
                return ("unit",)
            if self.while_handler is None: raise Unsupported("while loop without a loop summary")
            return self.while_handler(self, env, e)
        if k == "whilelet":
            if self.while_handler is None: raise Unsupported("while-let loop without a loop summary")
            return self.while_handler(self, env, e)
        if k == "break": raise LoopBreak()
        if k == "loop": return self.loop(e, env)
        if k == "for": return self.forloop(e, env)
        if k == "call":
            f = e[1]
            if f[0] == "path" and "::".join(f[1]) in self.fns and callable(self.fns["::".join(f[1])]):
                return self.fns["::".join(f[1])]([self.ev(a, env) for a in e[2]])          # a constructor that is translated elsewhere
            if f[0] == "path" and "::".join(f[1]) in self.fns:
                fdef = self.fns["::".join(f[1])]
                ast, pnames = fdef[0], fdef[1]
                args = [self.ev(a, env) for a in e[2]]
                if len(args) != len(pnames): raise Unsupported("arity of the call of %s" % "::".join(f[1]))
                inner = Env()
                for pn, a in zip(pnames, args): inner.vars[pn] = a
                saved = getattr(self, "cur_cls", None)
                self.cur_cls = fdef[2] if len(fdef) > 2 else None
                try:
                    return self.block(ast, inner)
                except Return as r:
                    return r.value
                finally:
                    self.cur_cls = saved
            helper_call = f[0] == "path" and len(f[1]) == 2 and f[1][0][:1].isupper() and f[1][1][:1].islower() and f[1][1] not in ("new", "default", "from", "with_config", "zero", "one", "classes")
            if f[0] == "path" and len(f[1]) == 2 and (f[1][0] == "Self" or helper_call) and "::".join(f[1]) not in self.fns and self.find_helper is not None:
                h = self.find_helper(f[1][1])
                if h is not None: self.fns["::".join(f[1])] = h
            if f[0] == "path" and "::".join(f[1]) in self.fns and (f[1][0] == "Self" or helper_call) and not callable(self.fns["::".join(f[1])]):
                fdef = self.fns["::".join(f[1])]
                args = [self.ev(a, env) for a in e[2]]
                if len(args) != len(fdef[1]): raise Unsupported("arity of the call of %s" % "::".join(f[1]))
                inner = Env(self.global_env)
                for pn, a in zip(fdef[1], args): inner.vars[pn] = a
                saved = getattr(self, "cur_cls", None)
                self.cur_cls = fdef[2] if len(fdef) > 2 else saved
                try:
                    return self.block(fdef[0], inner)
                except Return as r:
                    return r.value
                finally:
                    self.cur_cls = saved
            if f[0] == "path" and len(f[1]) >= 2 and f[1][-2] in ENUM_TYPES: return ("variant", f[1][-1], [self.ev(a, env) for a in e[2]])
            if f[0] == "path" and f[1] == ["Self", "with_config"] and len(e[2]) == 1: return ("struct", {"config": self.ev(e[2][0], env)})
            if f[0] == "path" and f[1][-1] == "Some" and len(e[2]) == 1: return ("opt", self.ev(e[2][0], env))
            if f[0] == "path" and f[1][0] == "CircularBuffer" and f[1][-1] in ("default", "new") and not e[2]: return ("L", "[]")
            if f[0] == "path" and len(f[1]) == 2 and f[1][0].startswith("$") and f[1][1] == "new" and len(e[2]) == 1: return ("tagged", self.ev(e[2][0], env))
            if f[0] == "path" and f[1] == ["MaybeUninit", "new"] and len(e[2]) == 1: return self.ev(e[2][0], env)
            if f[0] == "path" and f[1][-1] in ("zero", "one") and not e[2]: return T(("zero",) if f[1][-1] == "zero" else ("one",))
            if f[0] == "path" and f[1][-1] in ("from", "into") and len(e[2]) == 1: return self.convert(self.ev(e[2][0], env))
            raise Unsupported("call of %s" % (f[1] if f[0] == "path" else f[0]))
        if k == "mcall": return self.mcall(e, env)
        if k == "try":                       # `e?` on an Option: None returns None from the function, Some(v) is v
            v = self.ev(e[1], env)
            if v[0] == "optraw": v = self.split_opt(v)
            if v[0] != "opt": raise Unsupported("? on a value of kind %s" % v[0])
            if v[1] is None: raise Return(("opt", None))
            return v[1]
        if k == "addrmut": return self.ev(e[1], env)
        if k == "matches":
            v = self.ev(e[1], env)
            if v[0] == "optraw": v = self.split_opt(v)
            b = self.pmatch(e[2], v)
            if b is None: return B(("bfalse",))
            if e[3] is None: return B(("btrue",))
            inner = Env(env); inner.vars.update(b)
            return self.ev(e[3], inner)
        if k == "diverge": raise Unsupported("execution reaches %s!()" % e[1])
        if k == "continue": raise Unsupported("`continue` outside the recognised loop shapes")
        raise Unsupported("expression kind %s" % k)

    def split_opt(self, v):
        w = "w%d" % (self.counter + 1)
        if self.decide("%s = Some %s" % (v[1], w), "%s = None" % v[1]):
            self.fresh(); self.dyn_vars.append((w, "T"))
            return ("opt", T(("var", w)))
        return ("opt", None)

    def match_value(self, v, arms, env):
        if v[0] == "optraw": v = self.split_opt(v)
        place = getattr(self, "match_place", None); self.match_place = None
        for arm in arms:
            pat, body = arm[0], arm[1]
            b = self.pmatch(pat, v, (place[0], list(place[1])) if place else None)
            if b is not None:
                inner = Env(env)
                inner.vars.update(b)
                if len(arm) > 2:                 # guard: a symbolic one is decided by path splitting
                    g = self.ev(arm[2], inner)
                    if g[0] != "B": raise Unsupported("match guard is not a boolean")
                    if g[1] == ("bfalse",): continue
                    if g[1] != ("btrue",) and not self.decide("%s = true" % coq_B(g[1]), "%s = false" % coq_B(g[1])): continue
                return self.ev(body, inner)
        raise Unsupported("no match arm applies")

    def loop(self, e, env):
        """the one loop shape of the code base: push the same value into a ring buffer until something is evicted"""
        blk = e[1]
        body = blk[1][0][1] if (len(blk[1]) == 1 and blk[2] is None) else (blk[2] if not blk[1] else None)
        if body is not None and body[0] == "if" and body[3] is None:
            c = body[1]
            thn = body[2]
            if (c[0] == "mcall" and c[2] == "is_some" and c[1][0] == "mcall" and c[1][2] == "push_back" and len(c[1][3]) == 1
                    and len(thn[1]) == 1 and thn[1][0][1] == ("break",) and thn[2] is None):
                self.fill(c[1], env)
                return ("unit",)
        if body is not None and body[0] == "iflet" and body[4] is None and body[1][0] == "ptstruct" and body[1][1][-1] == "Some":
            sc = body[2]
            if sc[0] == "mcall" and sc[2] == "push_back" and len(sc[3]) == 1:
                ev = self.fill(sc, env)
                inner = Env(env)
                inner.vars.update(self.pmatch(body[1], ev))
                return self.block(body[3], inner)
        if body is not None and body[0] == "match" and body[1][0] == "mcall" and body[1][2] == "push_back" and len(body[1][3]) == 1 and len(body[2]) == 2:
            some_arm = next((a_ for a_ in body[2] if a_[0][0] == "ptstruct" and a_[0][1][-1] == "Some"), None)
            none_arm = next((a_ for a_ in body[2] if a_[0] == ("ppath", ["None"])), None)
            if some_arm and none_arm and none_arm[1] == ("continue",):
                ev = self.fill(body[1], env)
                inner = Env(env); inner.vars.update(self.pmatch(some_arm[0], ev))
                return self.ev(some_arm[1], inner)
        if self.while_handler is not None: return self.while_handler(self, env, e)
        raise Unsupported("loop of an unsupported shape")

    def fill(self, push_call, env):
        recv = self.ev(push_call[1], env)
        if recv[0] != "obj" or (recv[1], "fill") not in self.prims: raise Unsupported("push-until-evict loop on a value of kind %s" % recv[0])
        arg = self.ev(push_call[3][0], env)
        res, newobj = self.prims[(recv[1], "fill")](self, recv, [arg])
        self.store(env, push_call[1], newobj)
        return res

    def forloop(self, e, env):
        pat, it_e, blk = e[1], e[2], e[3]
        if it_e[0] == "range":
            if self.loop_summary is None: raise Unsupported("range loop without a loop summary")
            return self.loop_summary(self, env, e)
        it = self.ev(it_e, env)
        if it[0] == "obj" and self.loop_summary is not None: return self.loop_summary(self, env, e)
        if it[0] == "L2" and pat[0] == "ptuple" and len(pat[1]) == 2 and all(q[0] == "pid" for q in pat[1]):
            targets = assigned_names(blk, set())
            if len(targets) != 1: raise Unsupported("for loop over pairs assigning %s" % sorted(targets))
            acc = next(iter(targets)); init = env.get(acc)
            if init[0] != "T": raise Unsupported("accumulator is not a sample")
            env.set_existing(acc, T(("var", acc)))
            inner = Env(env); inner.vars[pat[1][0][1]] = T(("raw", "(fst sc)")); inner.vars[pat[1][1][1]] = T(("raw", "(snd sc)"))
            self.block(blk, inner)
            new = env.get(acc)
            env.set_existing(acc, T(("raw", "(fold_left (fun %s sc => %s) %s %s)" % (acc, coq_T(new[1]), it[1], coq_T(init[1])))))
            return ("unit",)
        if it[0] != "L" or pat[0] != "pid": raise Unsupported("for loop over a value of kind %s" % it[0])
        el = pat[1]
        targets = assigned_names(blk, set())
        if targets == {el}:                      # in-place map:  for c in &mut list { *c = f(c) }
            inner = Env(env); inner.vars[el] = T(("var", el))
            self.block(blk, inner)
            new = inner.vars[el]
            if new[0] != "T": raise Unsupported("map body does not produce a sample")
            self.store(env, it_e if it_e[0] != "mcall" else it_e[1], ("L", "(map (fun %s => %s) %s)" % (el, coq_T(new[1]), it[1])))
            return ("unit",)
        if len(targets) == 1:                    # accumulation:  for c in list { acc = g(acc, c) }
            acc = next(iter(targets))
            init = env.get(acc)
            if init[0] != "T": raise Unsupported("accumulator is not a sample")
            env.set_existing(acc, T(("var", acc)))
            inner = Env(env); inner.vars[el] = T(("var", el))
            self.block(blk, inner)
            new = env.get(acc)
            env.set_existing(acc, T(("raw", "(fold_left (fun %s %s => %s) %s %s)" % (acc, el, coq_T(new[1]), it[1], coq_T(init[1])))))
            return ("unit",)
        raise Unsupported("for loop assigning %s" % sorted(targets))

    def match_cmp(self, v, arms, env):
        a, b = v[1], v[2]
        def arm_for(tag):
            val = ("opt", ("enum", tag)) if tag else ("opt", None)
            for arm_ in arms:
                pat, body = arm_[0], arm_[1]
                if len(arm_) > 2: raise Unsupported("guard in a match on a comparison")
                bd = self.pmatch(pat, val)
                if bd is not None:
                    inner = Env(env); inner.vars.update(bd)
                    return lambda: self.ev(body, inner)
            raise Unsupported("no match arm for comparison result %s" % tag)
        return ("cmpsplit", a, b, arm_for("Less")(), arm_for("Equal")(), arm_for("Greater")(), arm_for(None)())

    def convert(self, v):
        if v[0] == "B": return ("bidx", v[1])
        return v

    def bnot(self, b):
        if b == ("btrue",): return ("bfalse",)
        if b == ("bfalse",): return ("btrue",)
        return ("not", b)

    def binop(self, op, a, b):
        if a[0] == "T" and b[0] == "T":
            x, y = a[1], b[1]
            if op == "+": return T(("add", x, y))
            if op == "-": return T(("sub", x, y))
            if op == "*": return T(("mul", x, y))
            if op == "/":
                if self.divmode == "checked": self.divs.append(y)
                return T(("div", x, y))
            if op == "<": return B(("lt", x, y))
            if op == ">": return B(("lt", y, x))
            if op == "<=": return B(("le", x, y))
            if op == ">=": return B(("le", y, x))
            if op == "==": return B(("eq", x, y))
            if op == "!=": return B(("not", ("eq", x, y)))
        if (a[0] == "Nat" or b[0] == "Nat") and as_nat(a) is not None and as_nat(b) is not None:
            x, y = as_nat(a), as_nat(b)
            if y == "0" and (x == "0" or x.startswith("(S ")):        # counters of known shape: 0 / S c
                pos = x != "0"
                if op == "==": return B(("bfalse",) if pos else ("btrue",))
                if op == "!=" or op == ">": return B(("btrue",) if pos else ("bfalse",))
                if op == ">=": return B(("btrue",))
                if op == "<": return B(("bfalse",))
                if op == "<=": return B(("bfalse",) if pos else ("btrue",))
            if op == "-" and y == "1" and x.startswith("(S ") and x.endswith(")"): return ("Nat", x[3:-1])
            if op == "+": return ("Nat", "(%s + %s)" % (x, y))
            if op == "-": return ("Nat", "(%s - %s)" % (x, y))
            if op == "&": return ("Nat", "(Nat.land %s %s)" % (x, y))
            if op == "%":
                if not (b[0] == "N" and b[1][0] == "nlit" and b[1][1] > 0): self.dyn_hyps.append("(%s =? 0) = false" % y)
                return ("Nat", "(%s mod %s)" % (x, y))
            if op == "==": return B(("raw", "(%s =? %s)" % (x, y)))
            if op == "!=": return B(("raw", "(negb (%s =? %s))" % (x, y)))
            if op == "<": return B(("raw", "(%s <? %s)" % (x, y)))
            if op == ">": return B(("raw", "(%s <? %s)" % (y, x)))
            if op == "<=": return B(("raw", "(%s <=? %s)" % (x, y)))
            if op == ">=": return B(("raw", "(%s <=? %s)" % (y, x)))
        if a[0] == "N" and b[0] == "N" and op in ("+", "-"):
            z = "z%d" % self.fresh(); self.dyn_vars.append((z, "N"))
            self.dyn_hyps.append(("cadd maxu %s %s = Some %s" if op == "+" else "csub %s %s = Some %s") % (coq_N(a[1]), coq_N(b[1]), z))
            return ("N", ("nvar", z))
        if a[0] == "N" and b[0] == "N":
            if op == "<": return B(("raw", "(N.ltb %s %s)" % (coq_N(a[1]), coq_N(b[1]))))
            if op == ">": return B(("raw", "(N.ltb %s %s)" % (coq_N(b[1]), coq_N(a[1]))))
            if op == ">=": return B(("nle", b[1], a[1]))
            if op == "<=": return B(("nle", a[1], b[1]))
        if a[0] == "B" and b[0] == "B":
            if op == "&&": return B(("and", a[1], b[1]))
            if op == "||": return B(("or", a[1], b[1]))
        raise Unsupported("operator %s on %s and %s" % (op, a[0], b[0]))

    def mcall(self, e, env):
        recv_e, name, args_e = e[1], e[2], e[3]
        if name in ("clone", "into_iter", "iter", "as_ref", "borrow", "to_owned"):
            r0 = self.ev(recv_e, env)
            if name in ("iter", "into_iter") and r0[0] == "obj" and r0[1] == "ring": return ("L", str(r0[2][0]))
            if name in ("clone", "to_owned"): return mark_clone(r0)
            return r0
        if name == "state_mut" and not args_e:
            v = self.ev(recv_e, env)
            if v[0] == "struct" and "state" in v[1]: return v[1]["state"]
            raise Unsupported("state_mut on a value without a state field")
        if name == "iter_mut": return self.ev(recv_e, env)
        recv = self.ev(recv_e, env)
        if recv[0] == "L" and name == "push" and len(args_e) == 1:
            a = self.ev(args_e[0], env)
            self.store(env, recv_e, ("L", "(%s ++ [%s])" % (recv[1], coq_V(a))))
            return ("unit",)
        if recv[0] == "L":
            if name == "rev" and not args_e: return ("L", "(rev %s)" % recv[1])
            if name == "zip" and len(args_e) == 1:
                o = self.ev(args_e[0], env)
                if o[0] != "L": raise Unsupported("zip with a non-list")
                return ("L2", "(combine %s %s)" % (recv[1], o[1]))
        if recv[0] in ("L", "L2") and name == "fold" and len(args_e) == 2:
            init = self.ev(args_e[0], env)
            if init[0] == "fn": init = T(("zero",) if init[1] == "zero" else ("one",))
            clo = self.ev(args_e[1], env)
            if clo[0] != "closure" or len(clo[1][1]) != 2 or clo[1][1][0][0] != "pid": raise Unsupported("fold with an unsupported closure")
            acc = clo[1][1][0][1]
            inner = Env(clo[2]); inner.vars[acc] = T(("var", acc))
            elp = clo[1][1][1]
            if recv[0] == "L2":
                if elp[0] != "ptuple" or len(elp[1]) != 2 or any(q[0] != "pid" for q in elp[1]): raise Unsupported("fold over pairs needs a pair pattern")
                eln = "sc"
                inner.vars[elp[1][0][1]] = T(("raw", "(fst sc)")); inner.vars[elp[1][1][1]] = T(("raw", "(snd sc)"))
            else:
                if elp[0] != "pid": raise Unsupported("fold element pattern")
                eln = elp[1]; inner.vars[eln] = T(("var", eln))
            r = self.ev(clo[1][2], inner)
            if r[0] != "T" or init[0] != "T": raise Unsupported("fold does not produce a sample")
            return T(("raw", "(fold_left (fun %s %s => %s) %s %s)" % (acc, eln, coq_T(r[1]), recv[1], coq_T(init[1]))))
        if name == "into" and not args_e: return self.convert(recv)
        if name == "abs" and recv[0] == "T": return T(("abs", recv[1]))
        if name == "is_zero" and recv[0] == "T": return B(("iszero", recv[1]))
        if name == "partial_cmp" and recv[0] == "T":
            o = self.ev(args_e[0], env)
            if o[0] != "T": raise Unsupported("partial_cmp against a non-sample")
            return ("cmp", recv[1], o[1])
        if name == "checked_sub" and recv[0] == "Nat" and len(args_e) == 1 and as_nat(self.ev(args_e[0], env)) == "1":
            if recv[1] == "0": return ("opt", None)
            if recv[1].startswith("(S ") and recv[1].endswith(")"): return ("opt", ("Nat", recv[1][3:-1]))
            raise Unsupported("checked_sub on a counter of unknown shape")
        if name == "saturating_add" and recv[0] == "N":
            o = self.ev(args_e[0], env)
            if o == ("N", ("nlit", 1)): return ("N", ("satsucc", recv[1]))
            raise Unsupported("saturating_add of something other than 1")
        if recv[0] in ("opt", "optraw") and name in ("map_or", "map_or_else") and len(args_e) == 2:
            if recv[0] == "optraw": recv = self.split_opt(recv)
            if recv[1] is None:
                d = self.ev(args_e[0], env)
                if name == "map_or_else":
                    if d[0] != "closure" or d[1][1]: raise Unsupported("map_or_else default is not a parameterless closure")
                    return self.ev(d[1][2], Env(d[2]))
                return d
            f = self.ev(args_e[1], env)
            if f[0] != "closure": raise Unsupported("%s with a non-closure" % name)
            inner = Env(f[2])
            b_ = self.pmatch(f[1][1][0], recv[1])
            if b_ is None: raise Unsupported("closure pattern does not match")
            inner.vars.update(b_)
            return self.ev(f[1][2], inner)
        if recv[0] == "optraw":
            if name == "is_some": return B(("raw", "(is_some %s)" % recv[1]))
            if name == "is_none": return B(("raw", "(negb (is_some %s))" % recv[1]))
            if name == "unwrap":
                w = "out%d" % self.fresh(); self.dyn_vars.append((w, "T"))
                self.dyn_hyps.append("%s = Some %s" % (recv[1], w))
                return T(("var", w))
        if recv[0] == "obj" and recv[1] == "buf" and name == "len" and not args_e: return ("Nat", "(length %s)" % recv[2])
        if recv[0] == "opt":
            if name in ("unwrap_or_else", "unwrap_or"):
                if recv[1] is not None: return recv[1]
                d = self.ev(args_e[0], env)
                if d[0] == "fn": return T(("zero",) if d[1] == "zero" else ("one",))
                if d[0] == "closure": return self.ev(d[1][2], d[2])
                return d
            if name == "is_some": return B(("btrue",) if recv[1] is not None else ("bfalse",))
            if name == "is_none": return B(("bfalse",) if recv[1] is not None else ("btrue",))
            if name == "unwrap":
                if recv[1] is None:
                    if self.assume is not None: raise Panics("unwrap of None")
                    raise Unsupported("unwrap of None")
                return recv[1]
            if name == "map_or" and len(args_e) == 2:
                if recv[1] is None: return self.ev(args_e[0], env)
                f = self.ev(args_e[1], env)
                if f[0] != "closure": raise Unsupported("map_or with a non-closure")
                inner = Env(f[2])
                b = self.pmatch(f[1][1][0], recv[1])
                if b is None: raise Unsupported("closure pattern does not match")
                inner.vars.update(b)
                return self.ev(f[1][2], inner)
            if name == "map" and len(args_e) == 1:
                if recv[1] is None: return recv
                if args_e[0][0] == "path" and args_e[0][1][-1] == "new" and args_e[0][1][0].startswith("$"): return ("opt", ("tagged", recv[1]))
                f = self.ev(args_e[0], env)
                if f[0] != "closure": raise Unsupported("Option::map with a non-closure")
                inner = Env(f[2])
                b = self.pmatch(f[1][1][0], recv[1])
                inner.vars.update(b)
                return ("opt", self.ev(f[1][2], inner))
        if recv[0] == "tagged":           # a value carrying a unit of measure (dimensioned): map_unsafe applies f to the bare value, the unit stays
            if name == "map_unsafe" and len(args_e) == 1:
                f = self.ev(args_e[0], env)
                if f[0] != "closure" or len(f[1][1]) != 1: raise Unsupported("map_unsafe with something other than a one-parameter closure")
                inner = Env(f[2]); b_ = self.pmatch(f[1][1][0], recv[1]); inner.vars.update(b_)
                return ("tagged", self.ev(f[1][2], inner))
            if name == "value_unsafe" and not args_e: return recv[1]
        if recv[0] == "opt" and name == "take" and not args_e:
            self.store(env, recv_e, ("opt", None))
            return recv
        if recv[0] == "struct" and "__sub" in recv[1] and (recv[1]["__sub"][1], name) not in self.subs and self.find_helper is not None and recv_e == ("path", ["self"]):
            h = self.find_helper(name)                   # a helper method the body was split into
            if h is not None: self.subs[(recv[1]["__sub"][1], name)] = h
        if recv[0] == "struct" and "__sub" in recv[1] and ((recv[1]["__sub"][1], name) in self.subs or name in ("filter", "sink")):
            # a call into an inner filter whose own body is translated from its source: execute that body
            sub = recv[1]["__sub"][1]
            if (sub, name) in self.subs: ast, pnames = self.subs[(sub, name)]
            elif sub in self.subs: ast, pnames = self.subs[sub]
            else: raise Unsupported("inner filter %s is not translated" % sub)
            inner = Env(self.global_env)
            inner.vars["self"] = recv
            args = [self.ev(a, env) for a in args_e]
            if len(args) == 1 and args[0][0] == "tuple" and len(pnames) == len(args[0][1]) and len(pnames) > 1: args = list(args[0][1])   # one tuple-pattern parameter
            if len(args) != len(pnames): raise Unsupported("arity of the inner filter call")
            selfcall = recv_e == ("path", ["self"]) and name == getattr(self, "entry_fn", None)
            if selfcall:
                self.depth += 1
                if self.depth > 6: raise Unsupported("self recursion deeper than 6")
            for pn, a in zip(pnames, args): inner.vars[pn] = a
            self.self0.append(self.self0[-1] if (recv_e == ("path", ["self"]) and self.self0) else recv)     # a helper method of the receiver itself: same base state
            try:
                ret = self.block(ast, inner)
            except Return as r:
                ret = r.value
            finally:
                self.self0.pop()
                if selfcall: self.depth -= 1
            self.store(env, recv_e, inner.get("self"))
            return ret
        if recv[0] == "obj":
            key = (recv[1], name)
            if key in self.prims:
                args = [self.ev(a, env) for a in args_e]
                if key in ABSTRACT_CALLS and self.self0:
                    try: cur_ = env.get("self")
                    except Exception: cur_ = None
                    if cur_ is not None:
                        d_ = dirty_paths(self.self0[-1], cur_, "self", [])
                        if d_: self.effects.append("written before the call of %s.%s: %s" % (key[0], key[1], ", ".join(d_)))
                res, newobj = self.prims[key](self, recv, args)
                if newobj is not None:
                    self.store(env, recv_e, newobj)
                return res
        raise Unsupported("method .%s on a value of kind %s" % (name, recv[0] if recv[0] != "obj" else "obj:" + recv[1]))


# ------------------------------------------------------------------------------------------------ printing
def coq_T(t):
    k = t[0]
    if k == "var": return t[1]
    if k == "zero": return "(azero A)"
    if k == "one": return "(aone A)"
    if k in ("add", "sub", "mul", "div"): return "(a%s A %s %s)" % (k, coq_T(t[1]), coq_T(t[2]))
    if k == "abs": return "(aabs A %s)" % coq_T(t[1])
    if k == "neg": return "(aneg A %s)" % coq_T(t[1])
    if k == "ite": return "(if %s then %s else %s)" % (coq_B(t[1]), coq_T(t[2]), coq_T(t[3]))
    if k == "raw": return t[1]
    raise Unsupported("cannot print sample term %s" % k)


def coq_B(b):
    k = b[0]
    if k == "lt": return "(altb A %s %s)" % (coq_T(b[1]), coq_T(b[2]))
    if k == "le": return "(aleb A %s %s)" % (coq_T(b[1]), coq_T(b[2]))
    if k == "eq": return "(aeqb A %s %s)" % (coq_T(b[1]), coq_T(b[2]))
    if k == "iszero": return "(aiszero A %s)" % coq_T(b[1])
    if k == "not": return "(negb %s)" % coq_B(b[1])
    if k == "and": return "(andb %s %s)" % (coq_B(b[1]), coq_B(b[2]))
    if k == "or": return "(orb %s %s)" % (coq_B(b[1]), coq_B(b[2]))
    if k == "btrue": return "true"
    if k == "bfalse": return "false"
    if k == "bvar": return b[1]
    if k == "bite": return "(if %s then %s else %s)" % (coq_B(b[1]), coq_B(b[2]), coq_B(b[3]))
    if k == "nle": return "(N.leb %s %s)" % (coq_N(b[1]), coq_N(b[2]))
    if k == "raw": return b[1]
    raise Unsupported("cannot print boolean %s" % k)


def coq_N(n):
    k = n[0]
    if k == "nvar": return n[1]
    if k == "nlit": return "%d%%N" % n[1]
    if k == "satsucc": return "(sat_succ usize_max %s)" % coq_N(n[1])
    if k == "nite": return "(if %s then %s else %s)" % (coq_B(n[1]), coq_N(n[2]), coq_N(n[3]))
    raise Unsupported("cannot print counter %s" % k)


def coq_V(v):
    k = v[0]
    if k == "T": return coq_T(v[1])
    if k == "B": return coq_B(v[1])
    if k == "N": return coq_N(v[1])
    if k == "opt": return "None" if v[1] is None else "(Some %s)" % coq_V(v[1])
    if k == "Nat": return v[1]
    if k == "optraw": return v[1]
    if k == "tuple": return "(" + ", ".join(coq_V(x) for x in v[1]) + ")"
    if k == "raw": return v[1]
    if k == "unit": return "tt"
    if k in ("L", "L2"): return v[1]
    if k == "obj" and v[1] in OBJ_PRINT: return OBJ_PRINT[v[1]](v)
    if k == "obj": return str(v[2][0] if isinstance(v[2], tuple) else v[2])
    if k == "enum":
        if v[1] not in ENUM_COQ: raise Unsupported("enum value %s" % v[1])
        return ENUM_COQ[v[1]]
    if k == "cmpsplit":
        return "(match acmp A %s %s with Some Lt => %s | Some Eq => %s | Some Gt => %s | None => %s end)" % (
            coq_T(v[1]), coq_T(v[2]), coq_V(v[3]), coq_V(v[4]), coq_V(v[5]), coq_V(v[6]))
    raise Unsupported("cannot print a value of kind %s" % k)


def lookup(v, path):
    for f in path:
        if isinstance(f, int):
            if v[0] == "variant": v = v[2][f]; continue
            if v[0] == "tuple": v = v[1][f]; continue
            raise Unsupported("positional access into %s" % v[0])
        if v[0] != "struct" or f not in v[1]: raise Unsupported("result has no field %s" % f)
        v = v[1][f]
    return v


def fill(template, selfv, ret):
    """replace {ret}, {ret.f.g}, {self.a.b} in a Gallina template by the printed symbolic values"""
    def rep(m):
        parts = m.group(1).split(".")
        base = ret if parts[0] == "ret" else selfv
        return coq_V(lookup(base, parts[1:]))
    return re.sub(r"\{((?:ret|self)(?:\.[A-Za-z0-9_]+)*)\}", rep, template)
