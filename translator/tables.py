"""Translator for code that is data: re-extracts the Savitzky-Golay and Daubechies coefficient
tables from the Rust source text on every run, writes them as Coq definitions together with one
proof obligation per table, and compiles the obligations (full coqc, vm_compute on a finite domain
that the property itself enumerates).  regenerate(pid, ROOT, BUILD) -> (ok, info)."""
import os, re, subprocess, shutil
from concurrent.futures import ThreadPoolExecutor

SG_SRC = "/repo/crates/filters/src/convolve/savitzky_golay.rs"
DAUB_SRC = "/repo/crates/filters/src/wavelet/daubechies.rs"


def strip_comments(txt):
    txt = re.sub(r"/\*.*?\*/", "", txt, flags=re.S)
    return re.sub(r"//[^\n]*", "", txt)


def lit_to_q(tok):
    """decimal float literal -> exact Coq Q literal"""
    t = tok.strip().replace("_", "")
    t = re.sub(r"(f32|f64)$", "", t)
    m = re.fullmatch(r"([+-]?)(\d+)(?:\.(\d*))?(?:[eE]([+-]?\d+))?", t)
    if not m: raise ValueError("not a decimal literal: %r" % tok)
    sign, ip, fp, ex = m.group(1), m.group(2), m.group(3) or "", int(m.group(4) or 0)
    num = int(ip + fp); den = 10 ** len(fp)
    if ex >= 0: num *= 10 ** ex
    else: den *= 10 ** (-ex)
    if sign == "-": num = -num
    return "(%d#%d)" % (num, den)


def parse_tables(path, macro, header_re):
    txt = strip_comments(open(path).read())
    tables = []
    for m in re.finditer(macro + r"!\s*\(\s*" + header_re + r"\s*=>\s*\[(.*?)\]\s*\)\s*;", txt, flags=re.S):
        n = int(m.group(1))
        toks = [t for t in (x.strip() for x in m.group(2).split(",")) if t]
        if any(t.startswith("$") for t in toks): continue      # the macro definition itself
        tables.append((n, [lit_to_q(t) for t in toks]))
    return tables


def coqc(path, COQ, gen, timeout=600):
    p = subprocess.run(["coqc", "-noglob", "-Q", COQ, "Signalo", "-Q", gen, "SignaloGen", os.path.basename(path)], cwd=gen,
                       stdout=subprocess.PIPE, stderr=subprocess.STDOUT, text=True, timeout=timeout)
    return p.returncode == 0, p.stdout[-600:]


def regenerate(pid, ROOT, BUILD):
    COQ = os.path.join(ROOT, "coq")
    gen = os.path.join(BUILD, "gen", pid)
    shutil.rmtree(gen, ignore_errors=True); os.makedirs(gen)
    info = {"obligations": 0, "discharged": 0, "failed": [], "tables": {}}
    files = []
    try:
        if pid == "C05":
            tables = parse_tables(SG_SRC, "savitzky_golay_impl_float", r"(\d+)")
            info["source"] = SG_SRC
            widths = [n for n, _ in tables]
            for n, qs in tables:
                info["tables"][str(n)] = len(qs)
                f = os.path.join(gen, "SG_%d.v" % n)
                open(f, "w").write("From Signalo Require Import Base.QR Spec.C05.\nDefinition sg_%d : list Q := [%s].\n"
                                   "Lemma sg_table_%d_ok : sg_table_ok %d sg_%d = true.\nProof. vm_compute. reflexivity. Qed.\n" % (n, "; ".join(qs), n, n, n))
                files.append(("sg_table_%d" % n, f))
            f = os.path.join(gen, "SG_widths.v")
            open(f, "w").write("From Coq Require Import List. Import ListNotations.\nLemma sg_widths : [%s] = seq 1 13.\nProof. reflexivity. Qed.\n" % "; ".join(map(str, widths)))
            files.append(("sg_widths_1_to_13", f))
        elif pid == "C07":
            tables = parse_tables(DAUB_SRC, "daubechies_impl_float", r"f32\s*,\s*f64\s*:\s*(\d+)")
            info["source"] = DAUB_SRC
            orders = [n for n, _ in tables]
            for n, qs in tables:
                info["tables"][str(n)] = len(qs)
                f = os.path.join(gen, "Daub_%d.v" % n)
                open(f, "w").write(
                    "From Signalo Require Import Base.QR Model.Wavelet Spec.C07.\nDefinition daub_%d : list Q := [%s].\n"
                    "Lemma daub_%d_len : length daub_%d = %d%%nat.\nProof. reflexivity. Qed.\n"
                    "Lemma daub_%d_ok : daub_ok (2#10000000000) (1#1000000000) (fst (daub_analysis daub_%d)) (snd (daub_analysis daub_%d))\n"
                    "  (fst (daub_synthesis daub_%d)) (snd (daub_synthesis daub_%d)) = true.\nProof. vm_compute. reflexivity. Qed.\n" % (n, "; ".join(qs), n, n, n, n, n, n, n, n))
                files.append(("daub_%d" % n, f))
            f = os.path.join(gen, "Daub_orders.v")
            open(f, "w").write("From Coq Require Import List. Import ListNotations.\nLemma daub_orders : [%s] = map (fun k => 2 * k) (seq 1 10).\nProof. reflexivity. Qed.\n" % "; ".join(map(str, orders)))
            files.append(("daub_orders_2_to_20", f))
        else:
            return True, info
    except Exception as e:
        info["error"] = "translator could not read the tables from the source: %r" % (e,)
        info["obligations"] = 1
        return False, info
    if len(files) < 2:
        info["error"] = "translator found no table in the source (macro invocations no longer match)"
        info["obligations"] = 1
        return False, info
    info["obligations"] = len(files)
    with ThreadPoolExecutor(max_workers=16) as ex:
        for (name, f), (ok, log) in zip(files, ex.map(lambda nf: coqc(nf[1], COQ, gen), files)):
            if ok: info["discharged"] += 1
            else: info["failed"].append(name); info.setdefault("logs", {})[name] = log[-300:]
    return True, info
