"""Which Rust method bodies are translated (translator/rs2coq.py), on which symbolic receivers, and which Gallina
model term each must be equal to.  regenerate(pid, ROOT, BUILD) writes one Coq file per body with one lemma per state
shape and compiles it; a body that no longer parses / executes in the supported subset, or whose translation is no longer
convertible with the model, is a broken obligation.

Entry fields
  file, impl (regex on the impl header), fn      where the body is
  params   : {rust parameter name: symbolic value}                  (values built with the helpers below)
  cases    : [{"self": symbolic receiver, "lhs": Gallina model application, "vars": binder text}]
  rhs      : Gallina template with {ret...} / {self...} holes, filled from the executed body
  divmode  : "total" (a / b is `adiv A a b`) or "checked" (every division is a proof case: non-zero divisors -> Some,
             first zero divisor -> None)
"""
import os, re, shutil, subprocess
from concurrent.futures import ThreadPoolExecutor
from rs2coq import Sym, Env, Unsupported, find_method, parse_body, fill, coq_T, T, B, as_nat

REPO = os.environ.get("VERIF_REPO", "/repo")
F = REPO + "/crates/filters/src/"
S = REPO + "/crates/sinks/src/"


def v(n): return T(("var", n))
def some(x): return ("opt", x)
NONE = ("opt", None)
def st(**kw): return ("struct", dict(kw))
def n(name): return ("N", ("nvar", name))


def sub(entry_name, **fields):
    """an inner filter value: calling .filter on it executes the TRANSLATED body of entry `entry_name` on these fields"""
    d = dict(fields); d["__sub"] = ("mark", entry_name)
    return ("struct", d)

def ema_obj(w, state):
    return sub("exp_mean", config=st(inverse_width=T(w)), state=st(mean=NONE if state is None else some(T(state))))


ENTRIES = {}

def entry(pid, name, **kw):
    ENTRIES.setdefault(pid, []).append(dict(name=name, pid=pid, **kw))


# ---- C15 -----------------------------------------------------------------------------------------------
entry("C15", "differentiate", file=F + "differentiate.rs", impl=r"impl<T>\s+Filter<T>\s+for\s+Differentiate<T>", fn="filter",
      params={"input": v("x")},
      cases=[dict(self=st(state=st(value=NONE)), lhs="g_diff_step A None x", vars="x"),
             dict(self=st(state=st(value=some(v("p")))), lhs="g_diff_step A (Some p) x", vars="p x")],
      rhs="({self.state.value}, {ret})")
entry("C15", "integrate", file=F + "integrate.rs", impl=r"impl<T>\s+Filter<T>\s+for\s+Integrate<T>", fn="filter",
      params={"input": v("x")},
      cases=[dict(self=st(state=st(value=v("s"))), lhs="g_int_step A s x", vars="s x")],
      rhs="({self.state.value}, {ret})")

# ---- C13 -----------------------------------------------------------------------------------------------
entry("C13", "exp_mean", file=F + "mean/exp/mean.rs", impl=r"impl<T>\s+Filter<T>\s+for\s+Mean<T>", fn="filter",
      params={"input": v("x")},
      cases=[dict(self=st(config=st(inverse_width=v("w")), state=st(mean=NONE)), lhs="g_ema_step A w None x", vars="w x"),
             dict(self=st(config=st(inverse_width=v("w")), state=st(mean=some(v("m")))), lhs="g_ema_step A w (Some m) x", vars="w m x")],
      rhs="({self.state.mean}, {ret})")


def xm_self(pre, post, med):
    return st(config=st(mid=v("mid")), state=st(mean_pre=ema_obj(("var", "wpre"), pre), mean_post=ema_obj(("var", "wpost"), post), median=med))

def xm_cases():
    out = []
    for pre in (None, "a"):
        for post in (None, "b"):
            for med in (None, "c"):
                vs = "wpre mid wpost " + " ".join(x for x in (pre, post, med) if x) + " x"
                cq = lambda z: "None" if z is None else "(Some %s)" % z
                out.append(dict(self=xm_self(("var", pre) if pre else None, ("var", post) if post else None, some(v(med)) if med else NONE),
                                lhs="g_xm_step A wpre mid wpost (%s, %s, %s) x" % (cq(pre), cq(post), cq(med)), vars=vs))
    return out

entry("C13", "exp_median", file=F + "median/exp.rs", impl=r"impl<T>\s+Filter<T>\s+for\s+Median<T>", fn="filter",
      params={"input": v("x")}, cases=xm_cases(), subs=["exp_mean"],
      rhs="(({self.state.mean_pre.state.mean}, {self.state.mean_post.state.mean}, {self.state.median}), {ret})")

# ---- C14 -----------------------------------------------------------------------------------------------
entry("C14", "alpha_beta", file=F + "observe/alpha_beta.rs", impl=r"impl<T>\s+Filter<T>\s+for\s+AlphaBeta<T>", fn="filter",
      params={"input": v("x")},
      cases=[dict(self=st(config=st(alpha=v("al"), beta=v("be")), state=st(velocity=v("vel"), value=NONE)), lhs="g_ab_step A al be (vel, None) x", vars="al be vel x"),
             dict(self=st(config=st(alpha=v("al"), beta=v("be")), state=st(velocity=v("vel"), value=some(v("s")))), lhs="g_ab_step A al be (vel, Some s) x", vars="al be vel s x")],
      rhs="(({self.state.velocity}, {self.state.value}), {ret})")

# ---- C06 -----------------------------------------------------------------------------------------------
def k_self(value): return st(config=st(r=v("r"), q=v("q"), a=v("a"), b=v("b"), c=v("c")), state=st(cov=v("p"), value=value))
entry("C06", "kalman_process", file=F + "observe/kalman.rs", impl=r"impl<T>\s+Kalman<T>", fn="process", divmode="checked",
      params={"input": v("z"), "control": v("u")}, tuple_param=True,
      cases=[dict(self=k_self(NONE), lhs="g_k_process A r q a b c (p, None) (z, u)", vars="r q a b c p z u"),
             dict(self=k_self(some(v("x"))), lhs="g_k_process A r q a b c (p, Some x) (z, u)", vars="r q a b c p x z u")],
      rhs="(({self.state.cov}, {self.state.value}), {ret})")

KPROC = {"process": (F + "observe/kalman.rs", r"impl<T>\s+Kalman<T>", ["input", "control"])}
entry("C06", "kalman_filter_plain", cls="Kalman", methods=KPROC, file=F + "observe/kalman.rs", impl=r"impl<T>\s+Filter<T>\s+for\s+Kalman<T>", fn="filter", divmode="checked", params={"input": v("z")},
      cases=[dict(self=k_self(NONE), lhs="g_k_process A r q a b c (p, None) (z, azero A)", vars="r q a b c p z"),
             dict(self=k_self(some(v("x"))), lhs="g_k_process A r q a b c (p, Some x) (z, azero A)", vars="r q a b c p x z")],
      rhs="(({self.state.cov}, {self.state.value}), {ret})")
entry("C06", "kalman_filter_control", cls="Kalman", methods=KPROC, file=F + "observe/kalman.rs", impl=r"impl<T>\s+Filter<\(T,\s*T\)>\s+for\s+Kalman<T>", fn="filter", divmode="checked", params={"input": v("z"), "control": v("u")},
      cases=[dict(self=k_self(NONE), lhs="g_k_process A r q a b c (p, None) (z, u)", vars="r q a b c p z u"),
             dict(self=k_self(some(v("x"))), lhs="g_k_process A r q a b c (p, Some x) (z, u)", vars="r q a b c p x z u")],
      rhs="(({self.state.cov}, {self.state.value}), {ret})")

# ---- C03 / C16 -----------------------------------------------------------------------------------------
def ring(name, evicted=None, newname=None):
    """a circular buffer whose next push_back is assumed (lemma hypothesis) to evict `evicted` and leave `newname`"""
    return ("obj", "ring", (name, evicted, newname))
def prim_push_back(sym, obj, args):
    name, ev, newname = obj[2]
    sym.pushed = getattr(sym, "pushed", []) + [args[0]]
    if newname is None: raise Unsupported("second push_back on the same buffer")
    return ev, ring(newname)
def prim_fill(sym, obj, args):
    name, ev, newname = obj[2]
    if newname is None or ev is None or ev[1] is None: raise Unsupported("fill needs an assumed evicted element")
    sym.pushed = getattr(sym, "pushed", []) + [args[0]]
    return ev, ring(newname)
RING = {("ring", "push_back"): prim_push_back, ("ring", "fill"): prim_fill}

def mean_self(sm, ev, taps="taps", wt="wt"): return st(state=st(mean=sm, taps=ring(taps, ev, taps + "'"), weight=v(wt)))
def mean_cases():
    out = []
    for sm, smc, smv in ((NONE, "None", ""), (some(v("sm")), "(Some sm)", "sm ")):
        for ev, evc, evv in ((NONE, "None", ""), (some(v("o")), "(Some o)", "o ")):
            out.append(dict(self=mean_self(sm, ev), prims=RING, lhs="g_mean_step A N (%s, taps, wt) x" % smc,
                            vars="(N : nat) (taps taps' : list T) (%s%swt x : T)" % (smv, evv), hyps=["push_back N taps x = (taps', %s)" % evc]))
    return out
entry("C03", "moving_mean", file=F + "mean/mean.rs", impl=r"impl<T,\s*const N: usize>\s+Filter<T>\s+for\s+Mean<T,\s*N>", fn="filter",
      params={"input": v("x")}, cases=mean_cases(), rhs="(({self.state.mean}, {self.state.taps}, {self.state.weight}), {ret})", imports="Base.ListX")

entry("C16", "exp_mean_variance", file=F + "mean/exp/mean_variance.rs", impl=r"impl<T>\s+Filter<T>\s+for\s+MeanVariance<T>", fn="filter",
      params={"input": v("x")}, subs=["exp_mean"],
      cases=[dict(self=st(state=st(mean=ema_obj(("var", "w"), ("var", a) if a else None), variance=ema_obj(("var", "w"), ("var", b) if b else None))),
                  lhs="g_mve_step A w (%s, %s) x" % ("Some a" if a else "None", "Some b" if b else "None"), vars="w " + " ".join(z for z in (a, b) if z) + " x")
             for a in (None, "a") for b in (None, "b")],
      rhs="(({self.state.mean.state.mean}, {self.state.variance.state.mean}), ({ret.mean}, {ret.variance}))")

def mvw_cases():
    out = []
    for sm, smc, smv in ((NONE, "None", ""), (some(v("sm")), "(Some sm)", "sm ")):
      for ev, evc, evv in ((NONE, "None", ""), (some(v("o")), "(Some o)", "o ")):
        for s2, s2c, s2v in ((NONE, "None", ""), (some(v("sv")), "(Some sv)", "sv ")):
          for e2, e2c, e2v in ((NONE, "None", ""), (some(v("o2")), "(Some o2)", "o2 ")):
            mean = sub("moving_mean", state=st(mean=sm, taps=ring("taps", ev, "taps'"), weight=v("wt")))
            var = sub("moving_mean", state=st(mean=s2, taps=ring("vtaps", e2, "vtaps'"), weight=v("vwt")))
            # the squared deviation pushed into the second window depends on the case: take it from a first symbolic run
            out.append(dict(self=st(state=st(mean=mean, variance=var)), prims=RING, two_pass=True,
                            lhs="g_mvw_step A N ((%s, taps, wt), (%s, vtaps, vwt)) x" % (smc, s2c),
                            vars="(N : nat) (taps taps' vtaps vtaps' : list T) (%s%s%s%swt vwt x : T)" % (smv, evv, s2v, e2v),
                            hyps=["push_back N taps x = (taps', %s)" % evc, "push_back N vtaps {pushed1} = (vtaps', %s)" % e2c]))
    return out
entry("C16", "moving_mean_variance", file=F + "mean/mean_variance.rs", impl=r"impl<T,\s*const N: usize>\s+Filter<T>\s+for\s+MeanVariance<T,\s*N>", fn="filter",
      params={"input": v("x")}, subs=["moving_mean"], cases=mvw_cases(), imports="Base.ListX", unfold=["g_mean_step"],
      rhs="((({self.state.mean.state.mean}, {self.state.mean.state.taps}, {self.state.mean.state.weight}), ({self.state.variance.state.mean}, {self.state.variance.state.taps}, {self.state.variance.state.weight})), ({ret.mean}, {ret.variance}))")

# ---- C18 -----------------------------------------------------------------------------------------------
def med_obj(amin, amed, amax): return ("obj", "median", ("s", amin, amed, amax))
MEDIAN = {("median", "min"): lambda sym, o, a: (o[2][1], None), ("median", "median"): lambda sym, o, a: (o[2][2], None), ("median", "max"): lambda sym, o, a: (o[2][3], None),
          ("median", "filter"): lambda sym, o, a: (v("y"), ("obj", "median", ("s'", None, None, None)))}
def hampel_cases():
    out = []
    for a, ac, av in ((NONE, "None", ""), (some(v("mn")), "(Some mn)", "mn ")):
      for b, bc, bv in ((NONE, "None", ""), (some(v("md")), "(Some md)", "md ")):
        for c, cc, cv in ((NONE, "None", ""), (some(v("mx")), "(Some mx)", "mx ")):
            out.append(dict(self=st(config=st(threshold=v("thr")), state=st(median=med_obj(a, b, c))), prims=MEDIAN,
                            lhs="g_hampel_step A factor thr s x", vars="(s s' : mstate T) (factor thr %s%s%sx y : T)" % (av, bv, cv),
                            hyps=["acc_min s = Some %s" % ac, "acc_median s = Some %s" % bc, "acc_max s = Some %s" % cc, "Median.filter (aleb A) s x = Some (s', y)"]))
    return out
entry("C18", "hampel", file=F + "hampel.rs", impl=r"impl<T,\s*const N: usize>\s+Hampel<T,\s*N>", fn="filter_internal",
      params={"input": v("x"), "factor": v("factor")}, cases=hampel_cases(), imports="Model.Median", rhs="Some ({self.state.median}, {ret})")

# ---- C09 -----------------------------------------------------------------------------------------------
OUTS3 = ("array", [v("o0"), v("o1"), v("o2")])
SL = "(let '(s', sl) := slopes_step (acmp A) %s x in (s', match sl with Rising => o0 | Flat => o1 | Falling => o2 end))"
entry("C09", "slopes", file=F + "classify/slopes.rs", impl=r"impl<T,\s*U>\s+Filter<T>\s+for\s+Slopes<T,\s*U>", fn="filter",
      params={"input": v("x")}, imports="Model.Classify",
      cases=[dict(self=st(config=st(outputs=OUTS3), state=st(input=NONE)), lhs=SL % "None", vars="o0 o1 o2 x"),
             dict(self=st(config=st(outputs=OUTS3), state=st(input=some(v("p")))), lhs=SL % "(Some p)", vars="o0 o1 o2 p x", script="intros. cbn. destruct (acmp A p x) as [[]|]; reflexivity.")],
      rhs="({self.state.input}, {ret})")

# Peaks: both Filter impls and the decision table; prev slope and (slope path) the incoming slope are concrete enum values,
# so every row of the 4 x 3 decision table is one lemma; on the value path the inner Slopes filter is the translated body
# of Slopes::filter with outputs = Slope::classes()
def EN(x): return ("enum", x)
PREVS = [(NONE, "None"), (some(EN("Rising")), "(Some Rising)"), (some(EN("None")), "(Some Flat)"), (some(EN("Falling")), "(Some Falling)")]
CURS = [(EN("Rising"), "Rising"), (EN("None"), "Flat"), (EN("Falling"), "Falling")]
PK3 = "match pk with PMax => o0 | PNone => o1 | PMin => o2 end"
SLOPES_CLASSES = ("array", [EN("Rising"), EN("None"), EN("Falling")])
def peaks_self(inner, prev): return st(config=st(outputs=OUTS3), state=st(slopes=sub("slopes", config=st(outputs=SLOPES_CLASSES), state=st(input=inner)), slope=prev))
entry("C09", "peaks_internal", cls="Peaks", file=F + "classify/peaks.rs", impl=r"impl<T,\s*U>\s+Peaks<T,\s*U>", fn="filter_internal", params={"slope": None}, imports="Model.Classify",
      cases=[dict(self=peaks_self(NONE, p), params={"slope": c}, lhs="(%s, peak_of %s %s)" % (cc, pc, cc), vars="(o0 o1 o2 : T)",
                  rhs="({ret.0}, match {ret.1} with 0%N => PMax | 1%N => PNone | _ => PMin end)") for p, pc in PREVS for c, cc in CURS], rhs="")
entry("C09", "peaks_slopes", cls="Peaks", file=F + "classify/peaks.rs", impl=r"impl<U>\s+Filter<Slope>\s+for\s+Peaks<Slope,\s*U>", fn="filter", params={"slope": None}, imports="Model.Classify",
      cases=[dict(self=peaks_self(i, p), params={"slope": c}, lhs="(let '(s', pk) := peaks_slope_step %s %s in ((Some %s, s'), %s))" % (pc, cc, cc, PK3), vars="(o0 o1 o2 : T)")
             for p, pc in PREVS for c, cc in CURS for i in (NONE, some(EN("Falling")))],
      rhs="(({self.state.slopes.state.input}, {self.state.slope}), {ret})")
entry("C09", "peaks_values", cls="Peaks", file=F + "classify/peaks.rs", impl=r"impl<T,\s*U>\s+Filter<T>\s+for\s+Peaks<T,\s*U>", fn="filter", params={"input": v("x")}, imports="Model.Classify", subs=["slopes"],
      cases=[dict(self=peaks_self(NONE, p), lhs="(let '(s', pk) := peaks_step (acmp A) (None, %s) x in (s', %s))" % (pc, PK3), vars="o0 o1 o2 x") for p, pc in PREVS] +
            [dict(self=peaks_self(some(v("p")), p), lhs="(let '(s', pk) := peaks_step (acmp A) (Some p, %s) x in (s', %s))" % (pc, PK3), vars="o0 o1 o2 p x",
                  script="intros. cbn. destruct (acmp A p x) as [[]|]; reflexivity.") for p, pc in PREVS],
      rhs="(({self.state.slopes.state.input}, {self.state.slope}), {ret})")

# ---- C05 / C07 -----------------------------------------------------------------------------------------
def L(name): return ("L", name)
def conv_self(coeffs="coeffs", taps="taps", e="e"): return st(config=st(coefficients=L(coeffs)), state=st(taps=ring(taps, some(v(e)), taps + "'")))
CONV_RHS = "Some ({self.state.taps}, {ret})"
entry("C05", "convolve", file=F + "convolve.rs", impl=r"impl<T,\s*const N: usize>\s+Filter<T>\s+for\s+Convolve<T,\s*N>", fn="filter",
      params={"input": v("x")}, imports="Base.ListX Model.Convolve", unfold=["g_conv_sum"],
      cases=[dict(self=conv_self(), prims=RING, lhs="g_conv_step A n coeffs taps x", vars="(n : nat) (coeffs taps taps' : list T) (e x : T)",
                  hyps=["fill (S n) n taps x = Some (taps', e)"])],
      rhs=CONV_RHS)
entry("C05", "convolve_normalized", file=F + "convolve.rs", impl=r"impl<T,\s*const N: usize>\s+Convolve<T,\s*N>\s+where\s+T:\s*Clone\s*\+\s*PartialOrd\s*\+\s*Num", fn="normalized",
      params={"config": st(coefficients=L("coeffs"))}, imports="Base.ListX Model.Convolve",
      cases=[dict(self=("unit",), lhs="g_normalized A coeffs", vars="(coeffs : list T)")], rhs="{ret.config.coefficients}")
entry("C05", "delay", file=F + "delay.rs", impl=r"impl<T,\s*const N: usize>\s+Filter<T>\s+for\s+Delay<T,\s*N>", fn="filter",
      params={"input": v("x")}, imports="Base.ListX Model.Convolve",
      cases=[dict(self=st(state=st(taps=ring("taps", some(v("e")), "taps'"))), prims=RING, lhs="@delay_step T n taps x", vars="(n : nat) (taps taps' : list T) (e x : T)",
                  hyps=["fill (S n) n taps x = Some (taps', e)"])],
      rhs="Some ({self.state.taps}, {ret})")

def wav_self():
    return st(state=st(low_pass=sub("convolve", config=st(coefficients=L("low")), state=st(taps=ring("tl", some(v("e1")), "tl'"))),
                       high_pass=sub("convolve", config=st(coefficients=L("high")), state=st(taps=ring("th", some(v("e2")), "th'")))))
WAVV = "(n : nat) (low high tl tl' th th' : list T) (e1 e2 %s : T)"
entry("C07", "analyze", file=F + "wavelet/analyze.rs", impl=r"impl<T,\s*const N: usize>\s+Filter<T>\s+for\s+Analyze<T,\s*N>", fn="filter",
      params={"input": v("x")}, subs=["convolve"], imports="Base.ListX Model.Convolve", unfold=["g_conv_step", "g_conv_sum"],
      cases=[dict(self=wav_self(), prims=RING, lhs="g_ana_step A n low high (tl, th) x", vars=WAVV % "x",
                  hyps=["fill (S n) n tl x = Some (tl', e1)", "fill (S n) n th x = Some (th', e2)"])],
      rhs="Some (({self.state.low_pass.state.taps}, {self.state.high_pass.state.taps}), ({ret.low}, {ret.high}))")
entry("C07", "synthesize", file=F + "wavelet/synthesize.rs", impl=r"impl<T,\s*const N: usize>\s+Filter<Decomposition<T>>\s+for\s+Synthesize<T,\s*N>", fn="filter",
      params={"input": st(low=v("l"), high=v("h"))}, subs=["convolve"], imports="Base.ListX Model.Convolve", unfold=["g_conv_step", "g_conv_sum"],
      cases=[dict(self=wav_self(), prims=RING, lhs="g_syn_step A n low high (tl, th) (l, h)", vars=WAVV % "l h",
                  hyps=["fill (S n) n tl l = Some (tl', e1)", "fill (S n) n th h = Some (th', e2)"])],
      rhs="Some (({self.state.low_pass.state.taps}, {self.state.high_pass.state.taps}), {ret})")

# ---- C11 -----------------------------------------------------------------------------------------------
entry("C11", "sink_sum", file=S + "integrate.rs", impl=r"impl<T>\s+Filter<T>\s+for\s+Integrate<T>", fn="filter",
      params={"input": v("x")},
      cases=[dict(self=st(sum=NONE), lhs="g_sum_step A None x", vars="x"), dict(self=st(sum=some(v("s"))), lhs="g_sum_step A (Some s) x", vars="s x")],
      rhs="({self.sum}, {ret})")
entry("C11", "sink_min", file=S + "min.rs", impl=r"impl<T>\s+Filter<T>\s+for\s+Min<T>", fn="filter",
      params={"input": v("x")},
      cases=[dict(self=st(min=NONE), lhs="g_smin_step A None x", vars="x"), dict(self=st(min=some(v("m"))), lhs="g_smin_step A (Some m) x", vars="m x")],
      rhs="({self.min}, {ret})")
entry("C11", "sink_max", file=S + "max.rs", impl=r"impl<T>\s+Filter<T>\s+for\s+Max<T>", fn="filter",
      params={"input": v("x")},
      cases=[dict(self=st(max=NONE), lhs="g_smax_step A None x", vars="x"), dict(self=st(max=some(v("m"))), lhs="g_smax_step A (Some m) x", vars="m x")],
      rhs="({self.max}, {ret})")
entry("C11", "sink_mean", file=S + "mean.rs", impl=r"impl<T>\s+Filter<T>\s+for\s+Mean<T>", fn="filter",
      params={"input": v("x")},
      cases=[dict(self=st(state=NONE), lhs="g_smean_step A None x", vars="x"),
             dict(self=st(state=some(st(count=v("c"), mean=v("m")))), lhs="g_smean_step A (Some (c, m)) x", vars="c m x")],
      rhs="(Some ({self.state.?.count}, {self.state.?.mean}), {ret})")
entry("C11", "sink_mean_variance", file=S + "mean_variance.rs", impl=r"impl<T>\s+Filter<T>\s+for\s+MeanVariance<T>", fn="filter",
      params={"input": v("x")},
      cases=[dict(self=st(state=NONE), lhs="g_smv_step A None x", vars="x"),
             dict(self=st(state=some(st(count=v("c"), mean=v("m"), variance=v("vr")))), lhs="g_smv_step A (Some (c, m, vr)) x", vars="c m vr x")],
      rhs="(Some ({self.state.?.count}, {self.state.?.mean}, {self.state.?.variance}), ({ret.mean}, {ret.variance}))")
entry("C11", "sink_mean_variance_finalize", file=S + "mean_variance.rs", impl=r"impl<T>\s+Finalize\s+for\s+MeanVariance<T>", fn="finalize",
      params={},
      cases=[dict(self=st(state=NONE), lhs="g_smv_fin A None", vars="", rhs="None"),
             dict(self=st(state=some(st(count=v("c"), mean=v("m"), variance=v("vr")))), lhs="g_smv_fin A (Some (c, m, vr))", vars="c m vr")],
      rhs="(Some ({ret.?.mean}, {ret.?.variance}))")

# the remaining sinks: bounds, statistics, last, collect, the `sink` wrappers and every finalize
def smin_obj(m): return sub("SinkMin", min=m)
def smax_obj(m): return sub("SinkMax", max=m)
def smv_obj(s): return sub("SinkMV", state=s)
for e_ in ENTRIES["C11"]:
    e_["cls"] = {"sink_sum": "SinkSum", "sink_min": "SinkMin", "sink_max": "SinkMax", "sink_mean": "SinkMean", "sink_mean_variance": "SinkMV",
                 "sink_mean_variance_finalize": "SinkMV"}[e_["name"]]
OPT2 = [(NONE, "None", ""), (some(v("lo")), "(Some lo)", "lo ")]
OPT2b = [(NONE, "None", ""), (some(v("hi")), "(Some hi)", "hi ")]
MVS = [(NONE, "None", ""), (some(st(count=v("c"), mean=v("m"), variance=v("vr"))), "(Some (c, m, vr))", "c m vr ")]
def sb_self(a, b): return st(min=smin_obj(a), max=smax_obj(b))
entry("C11", "sink_bounds", cls="SinkBounds", file=S + "bounds.rs", impl=r"impl<T>\s+Filter<T>\s+for\s+Bounds<T>", fn="filter", params={"input": v("x")}, subs=["SinkMin", "SinkMax"],
      cases=[dict(self=sb_self(a, b), lhs="g_sbounds_step A (%s, %s) x" % (ac, bc), vars=av + bv + "x") for a, ac, av in OPT2 for b, bc, bv in OPT2b],
      rhs="(({self.min.min}, {self.max.max}), ({ret.min}, {ret.max}))")
entry("C11", "sink_bounds_sink", cls="SinkBounds", file=S + "bounds.rs", impl=r"impl<T>\s+Sink<T>\s+for\s+Bounds<T>", fn="sink", params={"input": v("x")}, subs=["SinkMin", "SinkMax"],
      cases=[dict(self=sb_self(a, b), lhs="fst (g_sbounds_step A (%s, %s) x)" % (ac, bc), vars=av + bv + "x") for a, ac, av in OPT2 for b, bc, bv in OPT2b],
      rhs="({self.min.min}, {self.max.max})")
entry("C11", "sink_bounds_finalize", cls="SinkBounds", file=S + "bounds.rs", impl=r"impl<T>\s+Finalize\s+for\s+Bounds<T>", fn="finalize", params={}, subs=["SinkMin", "SinkMax"],
      cases=[dict(self=sb_self(NONE, NONE), lhs="@g_sbounds_fin T (None, None)", vars="", rhs="None"),
             dict(self=sb_self(some(v("lo")), some(v("hi"))), lhs="g_sbounds_fin (Some lo, Some hi)", vars="lo hi")],
      rhs="(Some ({ret.?.min}, {ret.?.max}))")
def stat_self(a, b, m): return st(state=st(bounds=sub("SinkBounds", min=smin_obj(a), max=smax_obj(b)), mean_variance=smv_obj(m)))
entry("C11", "sink_statistics", cls="SinkStat", file=S + "statistics.rs", impl=r"impl<T>\s+Filter<T>\s+for\s+Statistics<T>", fn="filter", params={"input": v("x")},
      subs=["SinkMin", "SinkMax", "SinkBounds", "SinkMV"],
      cases=[dict(self=stat_self(a, b, m), lhs="g_stat_step A ((%s, %s), %s) x" % (ac, bc, mc), vars=av + bv + mv_ + "x") for a, ac, av in OPT2 for b, bc, bv in OPT2b for m, mc, mv_ in MVS],
      rhs="((({self.state.bounds.min.min}, {self.state.bounds.max.max}), Some ({self.state.mean_variance.state.?.count}, {self.state.mean_variance.state.?.mean}, {self.state.mean_variance.state.?.variance})), ({ret.min}, {ret.max}, {ret.mean}, {ret.variance}))")
entry("C11", "sink_statistics_sink", cls="SinkStat", file=S + "statistics.rs", impl=r"impl<T>\s+Sink<T>\s+for\s+Statistics<T>", fn="sink", params={"input": v("x")},
      subs=["SinkMin", "SinkMax", "SinkBounds", "SinkMV"],
      cases=[dict(self=stat_self(a, b, m), lhs="fst (g_stat_step A ((%s, %s), %s) x)" % (ac, bc, mc), vars=av + bv + mv_ + "x") for a, ac, av in OPT2 for b, bc, bv in OPT2b for m, mc, mv_ in MVS],
      rhs="(({self.state.bounds.min.min}, {self.state.bounds.max.max}), Some ({self.state.mean_variance.state.?.count}, {self.state.mean_variance.state.?.mean}, {self.state.mean_variance.state.?.variance}))")
entry("C11", "sink_statistics_finalize", cls="SinkStat", file=S + "statistics.rs", impl=r"impl<T>\s+Finalize\s+for\s+Statistics<T>", fn="finalize", params={},
      subs=["SinkMin", "SinkMax", "SinkBounds", "SinkMV"],
      cases=[dict(self=stat_self(NONE, NONE, NONE), lhs="g_stat_fin A ((None, None), None)", vars="", rhs="None"),
             dict(self=stat_self(some(v("lo")), some(v("hi")), MVS[1][0]), lhs="g_stat_fin A ((Some lo, Some hi), Some (c, m, vr))", vars="lo hi c m vr")],
      rhs="(Some ({ret.?.min}, {ret.?.max}, {ret.?.mean}, {ret.?.variance}))")
for nm, cls_, f_, fld in (("sum", "SinkSum", "integrate.rs", "sum"), ("min", "SinkMin", "min.rs", "min"), ("max", "SinkMax", "max.rs", "max")):
    ty = {"sum": "Integrate", "min": "Min", "max": "Max"}[nm]
    entry("C11", "sink_%s_sink" % nm, cls=cls_, file=S + f_, impl=r"impl<T>\s+Sink<T>\s+for\s+%s<T>" % ty, fn="sink", params={"input": v("x")},
          cases=[dict(self=st(**{fld: NONE}), lhs="fst (g_s%s_step A None x)" % nm if nm != "sum" else "fst (g_sum_step A None x)", vars="x"),
                 dict(self=st(**{fld: some(v("s"))}), lhs="fst (g_s%s_step A (Some s) x)" % nm if nm != "sum" else "fst (g_sum_step A (Some s) x)", vars="s x")],
          rhs="{self.%s}" % fld)
    entry("C11", "sink_%s_finalize" % nm, cls=cls_, file=S + f_, impl=r"impl<T>\s+Finalize\s+for\s+%s<T>" % ty, fn="finalize", params={},
          cases=[dict(self=st(**{fld: NONE}), lhs="@None T", vars=""), dict(self=st(**{fld: some(v("s"))}), lhs="Some s", vars="s")], rhs="{ret}")
entry("C11", "sink_mean_sink", cls="SinkMean", file=S + "mean.rs", impl=r"impl<T>\s+Sink<T>\s+for\s+Mean<T>", fn="sink", params={"input": v("x")},
      cases=[dict(self=st(state=NONE), lhs="fst (g_smean_step A None x)", vars="x"),
             dict(self=st(state=some(st(count=v("c"), mean=v("m")))), lhs="fst (g_smean_step A (Some (c, m)) x)", vars="c m x")],
      rhs="Some ({self.state.?.count}, {self.state.?.mean})")
entry("C11", "sink_mean_finalize", cls="SinkMean", file=S + "mean.rs", impl=r"impl<T>\s+Finalize\s+for\s+Mean<T>", fn="finalize", params={},
      cases=[dict(self=st(state=NONE), lhs="@g_smean_fin T None", vars=""),
             dict(self=st(state=some(st(count=v("c"), mean=v("m")))), lhs="g_smean_fin (Some (c, m))", vars="c m")],
      rhs="{ret}")
entry("C11", "sink_mean_variance_sink", cls="SinkMV", file=S + "mean_variance.rs", impl=r"impl<T>\s+Sink<T>\s+for\s+MeanVariance<T>", fn="sink", params={"input": v("x")},
      cases=[dict(self=st(state=NONE), lhs="fst (g_smv_step A None x)", vars="x"),
             dict(self=st(state=some(st(count=v("c"), mean=v("m"), variance=v("vr")))), lhs="fst (g_smv_step A (Some (c, m, vr)) x)", vars="c m vr x")],
      rhs="Some ({self.state.?.count}, {self.state.?.mean}, {self.state.?.variance})")
entry("C11", "sink_last", cls="SinkLast", file=S + "last.rs", impl=r"impl<T>\s+Sink<T>\s+for\s+Last<T>", fn="sink", params={"input": v("x")},
      cases=[dict(self=st(state=NONE), lhs="g_last_sink None x", vars="x"), dict(self=st(state=some(v("s"))), lhs="g_last_sink (Some s) x", vars="s x")], rhs="{self.state}")
entry("C11", "sink_last_finalize", cls="SinkLast", file=S + "last.rs", impl=r"impl<T>\s+Finalize\s+for\s+Last<T>", fn="finalize", params={},
      cases=[dict(self=st(state=NONE), lhs="@None T", vars=""), dict(self=st(state=some(v("s"))), lhs="Some s", vars="s")], rhs="{ret}")
entry("C11", "sink_collect", cls="SinkCollect", file=S + "collect.rs", impl=r"impl<T>\s+Filter<T>\s+for\s+Collect<Vec<T>>", fn="filter", params={"input": v("x")},
      cases=[dict(self=st(collected=L("l")), lhs="g_collect_step l x", vars="(l : list T) (x : T)")], rhs="({self.collected}, {ret})")
entry("C11", "sink_collect_sink", cls="SinkCollect", file=S + "collect.rs", impl=r"impl<T>\s+Sink<T>\s+for\s+Collect<Vec<T>>", fn="sink", params={"input": v("x")},
      cases=[dict(self=st(collected=L("l")), lhs="fst (g_collect_step l x)", vars="(l : list T) (x : T)")], rhs="{self.collected}")
entry("C11", "sink_collect_finalize", cls="SinkCollect", file=S + "collect.rs", impl=r"impl<U>\s+Finalize\s+for\s+Collect<U>", fn="finalize", params={},
      cases=[dict(self=st(collected=L("l")), lhs="l", vars="(l : list T)")], rhs="{ret}")

# ---- C08 -----------------------------------------------------------------------------------------------
OUTS2 = ("array", [v("o0"), v("o1")])
entry("C08", "threshold", file=F + "classify/threshold.rs", impl=r"impl<T,\s*U>\s+Filter<T>\s+for\s+Threshold<T,\s*U>", fn="filter",
      params={"input": v("x")},
      cases=[dict(self=st(config=st(threshold=v("thr"), outputs=OUTS2)), lhs="thr_step (aleb A) thr (o0, o1) tt x", vars="thr o0 o1 x")],
      rhs="(tt, {ret})", imports="Model.Classify")
entry("C08", "schmitt", file=F + "classify/schmitt.rs", impl=r"impl<T,\s*U>\s+Filter<T>\s+for\s+Schmitt<T,\s*U>", fn="filter",
      params={"input": v("x")},
      cases=[dict(self=st(config=st(thresholds=("array", [v("lo"), v("hi")]), outputs=OUTS2), state=st(on=B(("btrue",)))), lhs="g_schmitt_step A lo hi (o0, o1) true x", vars="lo hi o0 o1 x"),
             dict(self=st(config=st(thresholds=("array", [v("lo"), v("hi")]), outputs=OUTS2), state=st(on=B(("bfalse",)))), lhs="g_schmitt_step A lo hi (o0, o1) false x", vars="lo hi o0 o1 x")],
      rhs="({self.state.on}, {ret})")
entry("C08", "debounce", file=F + "classify/debounce.rs", impl=r"impl<T,\s*U>\s+Filter<T>\s+for\s+Debounce<T,\s*U>", fn="filter",
      params={"input": v("x")},
      cases=[dict(self=st(config=st(threshold=n("thr"), predicate=v("pr"), outputs=OUTS2), state=st(count=n("cnt"))), lhs="deb_step (aeqb A) usize_max thr pr (o0, o1) cnt x", vars="(thr cnt : N) (pr o0 o1 x : T)")],
      rhs="({self.state.count}, {ret})", imports="Model.Classify Model.Bounds")


# ---- C01 -----------------------------------------------------------------------------------------------
# Pipe / UnitPipe: the inner stages are ABSTRACT pipes of the model (any tree); every call into one is a hypothesis
# `pfilter .. w l x = (w1, l', y1)` of the generated lemma, with the world threaded in evaluation order, so the lemma
# says: whatever the stages do, the body of Pipe::filter composes them exactly as Model/Pipes.v does.
PP = REPO + "/crates/pipes/src/"
PIPE_HDR = ("forall (Id S X R W : Type) (fstep : Id -> W -> S -> X -> W * S * X) (sstep : Id -> W -> S -> W * S * option X) "
            "(kstep : Id -> W -> S -> X -> W * S) (fin : Id -> S -> R)")
PIPE_SCRIPT = "intros. cbn. repeat (match goal with H : _ = _ |- _ => rewrite H; clear H; cbn end). reflexivity."
def pipe(name): return ("obj", "pipe", name)
def _stage_call(sym, obj, fn, args, outs):
    """record `fn w obj args = (w', obj', outs...)` as a hypothesis; returns the new object"""
    k = sym.fresh(); w1 = "w%d" % k; n1 = "%s'" % obj[2]
    sym.dyn_vars += [(w1, "W"), (n1, "pipe Id S")]
    sym.dyn_hyps.append("%s %s %s%s = (%s, %s%s)" % (fn, sym.world, obj[2], "".join(" " + a for a in args), w1, n1, "".join(", " + o for o in outs)))
    sym.world = w1
    return pipe(n1)
def prim_pfilter(sym, obj, args):
    from rs2coq import coq_V
    y = "y%d" % (sym.counter + 1); sym.dyn_vars.append((y, "X"))
    return T(("var", y)), _stage_call(sym, obj, "pfilter Id S X W fstep", [coq_V(args[0])], [y])
def prim_psource(sym, obj, args):
    some = sym.case["source_some"]
    y = "y%d" % (sym.counter + 1)
    if some: sym.dyn_vars.append((y, "X"))
    return (("opt", T(("var", y))) if some else ("opt", None)), _stage_call(sym, obj, "psource Id S X W fstep sstep", [], ["Some " + y if some else "None"])
def prim_psink(sym, obj, args):
    from rs2coq import coq_V
    return ("unit",), _stage_call(sym, obj, "psink Id S X W fstep kstep", [coq_V(args[0])], [])
def prim_pfinalize(sym, obj, args):
    return ("raw", "(pfinalize Id S R fin %s)" % obj[2]), None
PIPE = {("pipe", "filter"): prim_pfilter, ("pipe", "source"): prim_psource, ("pipe", "sink"): prim_psink, ("pipe", "finalize"): prim_pfinalize}
PIPE_NEW = {"Pipe::new": (PP + "pipe.rs", r"impl<T,\s*U>\s+Pipe<T,\s*U>", "new", ["lhs", "rhs"])}
def pipe_entry(name, file, impl, fn, selfv, lhs, rhs, vars, params=None, cases=None, **kw):
    entry("C01", name, file=file, impl=impl, fn=fn, params=params or {}, header=PIPE_HDR, script=PIPE_SCRIPT, imports="Model.Pipes", world="w", prims=PIPE,
          cases=cases or [dict(self=selfv, lhs=lhs, vars=vars)], rhs=rhs, **kw)
LR = st(lhs=pipe("l"), rhs=pipe("r"))
pipe_entry("pipe_filter", PP + "pipe.rs", r"impl<T,\s*U,\s*I>\s+Filter<I>\s+for\s+Pipe<T,\s*U>", "filter", LR, "pfilter Id S X W fstep w (Pipe l r) x",
           "({world}, Pipe {self.lhs} {self.rhs}, {ret})", "(w : W) (l r : pipe Id S) (x : X)", params={"input": v("x")})
pipe_entry("pipe_source", PP + "pipe.rs", r"impl<T,\s*U>\s+Source\s+for\s+Pipe<T,\s*U>", "source", LR, None,
           "({world}, Pipe {self.lhs} {self.rhs}, {ret})", None,
           cases=[dict(self=LR, lhs="psource Id S X W fstep sstep w (Pipe l r)", vars="(w : W) (l r : pipe Id S)", source_some=True),
                  dict(self=LR, lhs="psource Id S X W fstep sstep w (Pipe l r)", vars="(w : W) (l r : pipe Id S)", source_some=False)])
pipe_entry("pipe_sink", PP + "pipe.rs", r"impl<T,\s*U,\s*I>\s+Sink<I>\s+for\s+Pipe<T,\s*U>", "sink", LR, "psink Id S X W fstep kstep w (Pipe l r) x",
           "({world}, Pipe {self.lhs} {self.rhs})", "(w : W) (l r : pipe Id S) (x : X)", params={"input": v("x")})
pipe_entry("pipe_finalize", PP + "pipe.rs", r"impl<T,\s*U>\s+Finalize\s+for\s+Pipe<T,\s*U>", "finalize", LR, "pfinalize Id S R fin (Pipe l r)",
           "{ret}", "(l r : pipe Id S)")
pipe_entry("pipe_new", PP + "pipe.rs", r"impl<T,\s*U>\s+Pipe<T,\s*U>", "new", ("unit",), "Pipe a b", "Pipe {ret.lhs} {ret.rhs}", "(a b : pipe Id S)",
           params={"lhs": pipe("a"), "rhs": pipe("b")})
pipe_entry("pipe_bitor", PP + "pipe.rs", r"impl<T,\s*U,\s*Rhs>\s+BitOr<Rhs>\s+for\s+Pipe<T,\s*U>", "bitor", pipe("a"), "bitor Id S a b", "Pipe {ret.lhs} {ret.rhs}",
           "(a b : pipe Id S)", params={"rhs": pipe("b")}, fns=PIPE_NEW)
IN = st(inner=pipe("q"))
pipe_entry("unit_filter", PP + "unit_pipe.rs", r"impl<T,\s*I>\s+Filter<I>\s+for\s+UnitPipe<T>", "filter", IN, "pfilter Id S X W fstep w (Unit q) x",
           "({world}, Unit {self.inner}, {ret})", "(w : W) (q : pipe Id S) (x : X)", params={"input": v("x")})
pipe_entry("unit_source", PP + "unit_pipe.rs", r"impl<T>\s+Source\s+for\s+UnitPipe<T>", "source", IN, None, "({world}, Unit {self.inner}, {ret})", None,
           cases=[dict(self=IN, lhs="psource Id S X W fstep sstep w (Unit q)", vars="(w : W) (q : pipe Id S)", source_some=True),
                  dict(self=IN, lhs="psource Id S X W fstep sstep w (Unit q)", vars="(w : W) (q : pipe Id S)", source_some=False)])
pipe_entry("unit_sink", PP + "unit_pipe.rs", r"impl<T,\s*I>\s+Sink<I>\s+for\s+UnitPipe<T>", "sink", IN, "psink Id S X W fstep kstep w (Unit q) x",
           "({world}, Unit {self.inner})", "(w : W) (q : pipe Id S) (x : X)", params={"input": v("x")})
pipe_entry("unit_finalize", PP + "unit_pipe.rs", r"impl<T>\s+Finalize\s+for\s+UnitPipe<T>", "finalize", IN, "pfinalize Id S R fin (Unit q)", "{ret}", "(q : pipe Id S)")
pipe_entry("unit_new", PP + "unit_pipe.rs", r"impl<T>\s+UnitPipe<T>", "new", ("unit",), "Unit q", "Unit {ret.inner}", "(q : pipe Id S)", params={"inner": pipe("q")})
pipe_entry("unit_bitor", PP + "unit_pipe.rs", r"impl<T,\s*Rhs>\s+BitOr<Rhs>\s+for\s+UnitPipe<T>", "bitor", pipe("a"), "bitor Id S a b", "Pipe {ret.lhs} {ret.rhs}",
           "(a b : pipe Id S)", params={"rhs": pipe("b")}, fns=PIPE_NEW)


# ---- C02 / C17 : the moving median ----------------------------------------------------------------------
# The node array is an abstract `list (node T)`; every `buffer[i]` read is a hypothesis `getn b i = Some nd`, every write
# `setn b i {| .. |} = Some b'` (the model's own accessors: an index out of range is a panic in both); every symbolic
# test (cursor == head, the node's value being Some/None, the comparison with the sample, index parity, even length) is a
# hypothesis with its outcome, one lemma per execution path; the `for index in 0..len` loop of insert_value is
# summarised by the model's insert_loop on the remaining indices and its BODY is translated separately against one
# unfolding of insert_loop.  usize::MAX (the link poison of remove_node) is printed as the model's `poison`.
MED_RS = F + "median.rs"
MED_IMPL = r"impl<T,\s*const N: usize>\s+Median<T,\s*N>\s+where\s+T:\s*Clone\s*\+\s*PartialOrd"
MED_IMPL_ACC = r"impl<T,\s*const N: usize>\s+Median<T,\s*N>\s+where\s+T:\s*Clone,?(?=\s*\{)"
MED_FILTER = r"impl<T,\s*const N: usize>\s+Filter<T>\s+for\s+Median<T,\s*N>"
def nat(name): return ("Nat", name)
def buf(name): return ("obj", "buf", name)
def med_self(b="b", c="c", h="h", m="m"): return st(state=st(buffer=buf(b), cursor=nat(c), head=nat(h), median=nat(m)))
MED_METHODS = {k: (MED_RS, MED_IMPL, ps) for k, ps in {
    "should_insert": ["value", "current", "index"], "move_head_forward": [], "remove_node": [], "initialize_median": [], "insert_value": ["value"],
    "insert": ["value", "current"], "shift_median": ["index", "current"], "update_head": ["value"], "adjust_median_for_even_length": [],
    "increment_cursor": [], "median_unchecked": []}.items()}
MED_METHODS.update({k: (MED_RS, MED_IMPL_ACC, []) for k in ("len", "median", "min", "max")})
MED_REC = "{| buffer := {self.state.buffer}; cursor := {self.state.cursor}; head := {self.state.head}; median := {self.state.median} |}"
MED_S = "{| buffer := b; cursor := c; head := h; median := m |}"
MED_VARS = "(b : list (node T)) (c h m : nat)"
MED_SCRIPT = ("intros. rewrite ?even_mod2, ?odd_land1 in *. cbn [insert_loop]. unfold Median.filter, move_head_forward, remove_node, should_insert, Median.insert, shift_median, acc_median, acc_min, acc_max. "
              "cbn [fst snd obind buffer cursor head median insert_loop]. "
              "repeat (match goal with H : _ = _ |- _ => rewrite H; cbn [fst snd obind buffer cursor head median insert_loop is_some andb orb negb] end). reflexivity.")
def median_loop_summary(sym, env, e):
    """for index in 0..buffer_len { .. } of insert_value, summarised by insert_loop over seq 0 len"""
    from rs2coq import coq_V
    lo, hi = sym.ev(e[2][1], env), sym.ev(e[2][2], env)
    if as_nat(lo) != "0" or as_nat(hi) is None: raise Unsupported("loop range is not 0..len")
    selfv = env.get("self"); state = selfv[1]["state"][1]
    k = sym.fresh(); nb, nm = "b%d" % k, "med%d" % k
    sym.dyn_vars += [(nb, "list (node T)"), (nm, "nat")]
    sym.dyn_hyps.append("insert_loop T (aleb A) (seq 0 %s) %s %s %s %s %s %s = Some (%s, %s)" % (
        as_nat(hi), as_nat(state["cursor"]), coq_V(env.get("value")), state["buffer"][2], as_nat(state["median"]), as_nat(env.get("current")), coq_V(env.get("has_inserted")), nb, nm))
    selfv = sym.updated(selfv, ["state", "buffer"], buf(nb)); selfv = sym.updated(selfv, ["state", "median"], nat(nm))
    env.set_existing("self", selfv); sym.curbuf = nb
    env.set_existing("current", ("dead",)); env.set_existing("has_inserted", ("dead",))
    return ("unit",)
def med_entry(pid, name, fn, lhs, rhs, impl=MED_IMPL, params=None, vars=MED_VARS, **kw):
    entry(pid, name, cls="Median", file=MED_RS, impl=impl, fn=fn, params=params or {}, methods=MED_METHODS, split=True, curbuf="b",
          imports="Base.Bits Model.Median", script=MED_SCRIPT, loop_summary=median_loop_summary,
          cases=[dict(self=med_self(), lhs=lhs, vars=vars)], rhs=rhs, **kw)
med_entry("C02", "median_move_head_forward", "move_head_forward", "move_head_forward T " + MED_S, "Some " + MED_REC)
med_entry("C02", "median_remove_node", "remove_node", "remove_node T " + MED_S, "Some " + MED_REC)
med_entry("C02", "median_should_insert", "should_insert", "should_insert T (aleb A) b x current index", "Some {ret}", params={"value": v("x"), "current": nat("current"), "index": nat("index")},
          vars="(b : list (node T)) (c h m current index : nat) (x : T)")
med_entry("C02", "median_insert", "insert", "Median.insert T b c x current", "Some {self.state.buffer}", params={"value": v("x"), "current": nat("current")},
          vars="(b : list (node T)) (c h m current : nat) (x : T)")
med_entry("C02", "median_shift_median", "shift_median", "shift_median T b m index current", "Some {self.state.median}", params={"index": nat("index"), "current": nat("current")},
          vars="(b : list (node T)) (c h m current index : nat)")
# one iteration of the insertion loop, for both values of has_inserted, against one unfolding of insert_loop
entry("C02", "median_insert_loop_step", cls="Median", file=MED_RS, impl=MED_IMPL, fn="insert_value", params={"value": v("x")}, methods=MED_METHODS, split=True, curbuf="b",
      imports="Base.Bits Model.Median", script=MED_SCRIPT, select="for_body", loop_var="index",
      locals={"current": nat("current"), "index": nat("index"), "buffer_len": nat("(length b)")},
      cases=[dict(self=med_self(), locals={"has_inserted": B(("btrue",) if ins else ("bfalse",))},
                  lhs="insert_loop T (aleb A) (index :: rest) c x b m current %s" % ("true" if ins else "false"),
                  vars="(b : list (node T)) (c h m current index : nat) (rest : list nat) (x : T)") for ins in (True, False)],
      rhs="insert_loop T (aleb A) rest {self.state.cursor} x {self.state.buffer} {self.state.median} {local.current} {local.has_inserted}")
# the whole filter: helpers inlined from their own source text, the loop summarised by insert_loop
med_entry("C02", "median_filter", "filter", "Median.filter (aleb A) " + MED_S + " x", "Some (" + MED_REC + ", {ret})", impl=MED_FILTER, params={"input": v("x")},
          vars="(b : list (node T)) (c h m : nat) (x : T)")
# Median::default: the node written into slot `index` of the uninitialised array is the node of the model's `init`
def deep_for_body(ent):
    pass
entry("C02", "median_default_node", file=MED_RS, impl=r"impl<T,\s*const N: usize>\s+Default\s+for\s+Median<T,\s*N>", fn="default", params={}, select=("for", 0), unwrap_for=True,
      imports="Base.Bits Model.Median", locals={"index": nat("index"), "item": ("unit",), "N": nat("n")},
      script="intros. reflexivity.",
      cases=[dict(self=("unit",), lhs="(fun i => {| value := @None T; previous := (i + n - 1) mod n; next := (i + 1) mod n |}) index", vars="(n index : nat)")], rhs="",
      render=lambda sym, s_, r_, c_: sym.node_text(sym.final_env.vars["item"]))
# the rest of `Median::default`: with the node array (whose initialisation loop is the entry above and C19_uninit_loop_initialises)
# taken as given, the three cursors start at 0 and the state is the model's `init`
entry("C02", "median_default_rest", file=MED_RS, impl=r"impl<T,\s*const N: usize>\s+Default\s+for\s+Median<T,\s*N>", fn="default", params={},
      opaque_lets={"buffer": ("raw", "(buffer (@Median.init T n))")}, imports="Model.Median", script="intros. reflexivity.",
      cases=[dict(self=("unit",), lhs="(@Median.init T n)", vars="(n : nat)")], rhs="",
      render=lambda sym, s_, r_, c_: "{| buffer := %s; cursor := %s; head := %s; median := %s |}" % tuple(
          [_R.coq_V(r_[1]["state"][1]["buffer"])] + [_R.as_nat(r_[1]["state"][1][k_]) or "?" for k_ in ("cursor", "head", "median")]))
entry("C18", "hampel_filter_macro", cls="Hampel", methods={"filter_internal": (F + "hampel.rs", r"impl<T,\s*const N: usize>\s+Hampel<T,\s*N>", ["input", "factor"])},
      file=F + "hampel.rs", impl=r"impl<const N: usize>\s+Filter<\$t>\s+for\s+Hampel<\$t,\s*N>", fn="filter", params={"input": v("x")}, locals={"$f": v("factor")},
      cases=hampel_cases(), imports="Model.Median", rhs="Some ({self.state.median}, {ret})")
# accessors (C17)
ACC_IMPL = MED_IMPL_ACC
for acc in ("median", "min", "max"):
    med_entry("C17", "median_acc_" + acc, acc, "acc_%s %s" % (acc, MED_S), "Some {ret}", impl=ACC_IMPL)

# ---- C04 : moving max / min / bounds -----------------------------------------------------------------------
# The deque of (value, timestamp) candidates is an abstract list; the two `while` loops and the rebasing `for` loop are
# (i) summarised in the lemma about the whole body by the model's loop functions expire / drop_dominated / rebase and
# (ii) translated on their own, unrolled once, against one unfolding of those functions.  Every usize `+` / `-` is the
# checked operation of a debug build (hypothesis cadd / csub = Some _).  `input > value` is `altb A value input`; the
# model is instantiated with the order  a <= b := negb (b < a)  so that both read the same comparison.
import rs2coq as _R
LEBMAX = "(fun a b => negb (altb A b a))"
LEBMIN = "(fun a b => negb (altb A a b))"
def dq(view, known, rest): return ("obj", "dq", (view, tuple(known), rest))
def dq_list(o):
    from rs2coq import coq_V
    view, known, rest = o[2]
    return "(" + " :: ".join([coq_V(k_) for k_ in known] + [rest]) + ")" if known else rest
def dq_fwd(o): return dq_list(o) if o[2][0] == "fwd" else "(rev %s)" % dq_list(o)
_R.OBJ_PRINT["dq"] = dq_list
def dq_expose(sym, o):
    """make the first element (in the object's view) known, by case split on the shape of the rest"""
    view, known, rest = o[2]
    if known: return o, True
    if rest == "[]": return o, False
    k = sym.counter + 1; names = ("v%d" % k, "t%d" % k, "r%d" % k)
    if sym.decide("%s = (%s, %s) :: %s" % ((rest,) + names), "%s = []" % rest):
        sym.fresh(); sym.dyn_vars += [(names[0], "T"), (names[1], "N"), (names[2], "list (T * N)")]
        return dq(view, [("tuple", [T(("var", names[0])), ("N", ("nvar", names[1]))])], names[2]), True
    return dq(view, [], "[]"), False
def prim_dq_end(which):
    def f(sym, o, args):
        if (which == "front") != (o[2][0] == "fwd"): raise Unsupported("%s() on the other end of the deque" % which)
        o2, some_ = dq_expose(sym, o)
        return (("opt", o2[2][1][0]) if some_ else ("opt", None)), o2
    return f
def prim_dq_pop(which):
    def f(sym, o, args):
        if (which == "pop_front") != (o[2][0] == "fwd"): raise Unsupported("%s() on the other end of the deque" % which)
        o2, some_ = dq_expose(sym, o)
        if not some_: return ("opt", None), o2
        sym.pops = getattr(sym, "pops", 0) + 1          # an element was really removed (termination measure of the deque loops)
        return ("opt", o2[2][1][0]), dq(o2[2][0], o2[2][1][1:], o2[2][2])
    return f
def prim_dq_push_back(sym, o, args):
    from rs2coq import coq_V
    return ("unit",), dq("fwd", [], "(fst (push_back (N.to_nat n) %s %s))" % (dq_fwd(o), coq_V(args[0])))
DQ = {("dq", "front"): prim_dq_end("front"), ("dq", "back"): prim_dq_end("back"), ("dq", "pop_front"): prim_dq_pop("pop_front"),
      ("dq", "pop_back"): prim_dq_pop("pop_back"), ("dq", "push_back"): prim_dq_push_back}
def _has_mcall(node, name):
    if isinstance(node, tuple):
        if node and node[0] == "mcall" and node[2] == name: return True
        return any(_has_mcall(x_, name) for x_ in node)
    if isinstance(node, list): return any(_has_mcall(x_, name) for x_ in node)
    return False
def _taps(env): return env.get("self")[1]["state"][1]["taps"]
def _set_taps(sym, env, o): env.set_existing("self", sym.updated(env.get("self"), ["state", "taps"], o))
def bounds_summary(sym, env, which, leb):
    from rs2coq import coq_V
    o = _taps(env)
    if which == "front":
        l1 = "l%d" % sym.fresh(); sym.dyn_vars.append((l1, "list (T * N)"))
        sym.dyn_hyps.append("expire T n maxu false %s %s = Some %s" % (coq_V(env.get("current_time")), dq_fwd(o), l1))
        _set_taps(sym, env, dq("fwd", [], l1))
    elif o[2][0] == "fwd":
        _set_taps(sym, env, dq("fwd", [], "(rev (drop_dominated T %s %s (rev %s)))" % (leb, coq_V(env.get("input")), dq_fwd(o))))
    else:
        _set_taps(sym, env, dq("rev", [], "(drop_dominated T %s %s %s)" % (leb, coq_V(env.get("input")), dq_list(o))))
def _progress(before, after):
    """termination: an iteration that is followed by another one must have removed an element from the deque (the loop
    summaries replace `the remaining iterations` by the model's structurally recursive function, which is only sound for a
    loop that makes progress; `map_or(true, ..)` on an empty deque would spin forever and still satisfy every equation)"""
    if not after > before:
        raise Unsupported("a loop iteration that is followed by another one removes no element from the deque: the loop need not terminate")
def bounds_while(leb):
    def h(sym, env, e):
        from rs2coq import coq_B
        which = "front" if _has_mcall(e[1] if e[0] in ("while", "loop") else e[2], "front") else "back"
        if sym.case.get("mode", "summary") == "summary":
            bounds_summary(sym, env, which, leb); return ("unit",)
        if e[0] == "loop":              # loop { match taps.front() { Some(..) if expired => pop, _ => break } }
            from rs2coq import LoopBreak
            before_ = getattr(sym, "pops", 0)
            try:
                sym.block(e[1], env)
            except LoopBreak:
                return ("unit",)
            _progress(before_, getattr(sym, "pops", 0))
            bounds_summary(sym, env, which, leb); return ("unit",)
        if e[0] == "whilelet":          # while let Some(..) = taps.front() { if expired { pop } else { break } }
            from rs2coq import LoopBreak, Env as _Env
            v_ = sym.ev(e[2], env)
            b_ = sym.pmatch(e[1], v_)
            if b_ is None: return ("unit",)
            inner = _Env(env); inner.vars.update(b_)
            before_ = getattr(sym, "pops", 0)
            try:
                sym.block(e[3], inner)
            except LoopBreak:
                return ("unit",)
            _progress(before_, getattr(sym, "pops", 0))
            bounds_summary(sym, env, which, leb); return ("unit",)
        c = sym.ev(e[1], env)
        if c[0] != "B": raise Unsupported("loop condition is not a boolean")
        go = True if c[1] == ("btrue",) else False if c[1] == ("bfalse",) else sym.decide("%s = true" % coq_B(c[1]), "%s = false" % coq_B(c[1]))
        if go:
            before_ = getattr(sym, "pops", 0)
            sym.block(e[2], env)
            _progress(before_, getattr(sym, "pops", 0))
            bounds_summary(sym, env, which, leb)
        return ("unit",)
    return h
def bounds_for(sym, env, e):
    """for (_, time) in taps.iter_mut() { *time -= offset }  against rebase"""
    from rs2coq import coq_V, Env as _Env
    o = _taps(env); off = coq_V(env.get("offset"))
    def summary(txt):
        l1 = "l%d" % sym.fresh(); sym.dyn_vars.append((l1, "list (T * N)"))
        sym.dyn_hyps.append("rebase T %s %s = Some %s" % (off, txt, l1)); return l1
    if sym.case.get("mode", "summary") == "summary":
        _set_taps(sym, env, dq("fwd", [], summary(dq_fwd(o)))); return ("unit",)
    o2, some_ = dq_expose(sym, o)
    if not some_: return ("unit",)
    el = o2[2][1][0]; pat = e[1]
    if pat[0] != "ptuple" or len(pat[1]) != 2: raise Unsupported("loop pattern is not a pair")
    inner = _Env(env); b_ = sym.pmatch(pat, el); inner.vars.update(b_)
    sym.block(e[3], inner)
    newel = ("tuple", [inner.vars[p_[1]] if p_[0] == "pid" else x_ for p_, x_ in zip(pat[1], el[1])])
    _set_taps(sym, env, dq("fwd", [newel], summary(o2[2][2]))); return ("unit",)
BSCRIPT = ("intros. repeat (match goal with Hlt : N.ltb ?a ?m = true, Hc : cadd ?m ?a 1%N = Some _ |- _ => rewrite (cadd_lt m a Hlt) in Hc; injection Hc as <- end). "
           "unfold bounds_step, max_step, min_step, step. cbn [fst snd obind time taps expire drop_dominated rebase]. "
           "repeat (match goal with H : _ = _ |- _ => rewrite H; cbn [fst snd obind time taps expire drop_dominated rebase] end). rewrite ?Bool.negb_involutive. "
           "repeat (match goal with H : _ = _ |- _ => rewrite H; cbn [fst snd obind time taps expire drop_dominated rebase] end). reflexivity.")
NV = lambda name: ("N", ("nvar", name))
PAIR = ("tuple", [v("v"), NV("t")])
def bounds_entries(kind, leb):
    file_ = F + "bounds/%s.rs" % kind; Ty = kind.capitalize()
    impl = r"impl<T,\s*const N: usize>\s+Filter<T>\s+for\s+%s<T,\s*N>" % Ty
    common = dict(file=file_, impl=impl, fn="filter", params={"input": v("x")}, prims=DQ, split=True, while_handler=bounds_while(leb), loop_summary=bounds_for,
                  imports="Model.Bounds Proofs.Translate", script=BSCRIPT, locals={"N": NV("n")})
    bself = lambda o, tm="ct": st(state=st(time=NV(tm), taps=o))
    BV = "(n maxu ct : N) (x : T) "
    entry("C04", kind + "_expire_step", select=("while", 0), rhs="Some {self.state.taps}",
          cases=[dict(self=bself(dq("fwd", [], "[]")), mode="unroll1", locals={"current_time": NV("ct")}, lhs="expire T n maxu false ct []", vars=BV),
                 dict(self=bself(dq("fwd", [PAIR], "r")), mode="unroll1", locals={"current_time": NV("ct")}, lhs="expire T n maxu false ct ((v, t) :: r)", vars=BV + "(v : T) (t : N) (r : list (T * N))")], **common)
    entry("C04", kind + "_drop_step", select=("while", 1), rhs="{self.state.taps}",
          cases=[dict(self=bself(dq("rev", [], "[]")), mode="unroll1", locals={"current_time": NV("ct")}, lhs="drop_dominated T %s x []" % leb, vars=BV),
                 dict(self=bself(dq("rev", [PAIR], "r")), mode="unroll1", locals={"current_time": NV("ct")}, lhs="drop_dominated T %s x ((v, t) :: r)" % leb, vars=BV + "(v : T) (t : N) (r : list (T * N))")], **common)
    entry("C04", kind + "_rebase_step", select=("for", 0), rhs="Some {self.state.taps}",
          cases=[dict(self=bself(dq("fwd", [], "[]")), mode="unroll1", locals={"offset": NV("off")}, lhs="rebase T off []", vars=BV + "(off : N)"),
                 dict(self=bself(dq("fwd", [PAIR], "r")), mode="unroll1", locals={"offset": NV("off")}, lhs="rebase T off ((v, t) :: r)", vars=BV + "(off : N) (v : T) (t : N) (r : list (T * N))")], **common)
    entry("C04", kind + "_filter", rhs="Some ({| time := {self.state.time}; taps := {self.state.taps} |}, {ret})",
          cases=[dict(self=bself(dq("fwd", [], "l")), lhs="%s_step %s n maxu false {| time := ct; taps := l |} x" % (kind, "(fun a b => negb (altb A b a))"), vars=BV + "(l : list (T * N))")], **common)
bounds_entries("max", LEBMAX)
bounds_entries("min", LEBMIN)
def prim_bfilter(kind):
    def f(sym, o, args):
        from rs2coq import coq_V
        k = sym.fresh(); s1, y = "%s'" % o[2], "y%d" % k
        sym.dyn_vars += [(s1, "st T"), (y, "T")]
        sym.dyn_hyps.append("%s_step (fun a b => negb (altb A b a)) n maxu false %s %s = Some (%s, %s)" % (kind, o[2], coq_V(args[0]), s1, y))
        return T(("var", y)), ("obj", "b" + kind, s1)
    return f
entry("C04", "bounds_filter", file=F + "bounds.rs", impl=r"impl<T,\s*const N: usize>\s+Filter<T>\s+for\s+Bounds<T,\s*N>", fn="filter", params={"input": v("x")},
      prims={("bmin", "filter"): prim_bfilter("min"), ("bmax", "filter"): prim_bfilter("max")}, imports="Model.Bounds Proofs.Translate",
      script="intros. unfold bounds_step. cbn [fst snd obind]. repeat (match goal with H : _ = _ |- _ => rewrite H; cbn [fst snd obind] end). reflexivity.",
      cases=[dict(self=st(state=st(min=("obj", "bmin", "smin"), max=("obj", "bmax", "smax"))), lhs="bounds_step (fun a b => negb (altb A b a)) n maxu false (smin, smax) x",
                  vars="(n maxu : N) (smin smax : st T) (x : T)")],
      rhs="Some (({self.state.min}, {self.state.max}), ({ret.0}, {ret.1}))")

# ---- C10 : source adapters ---------------------------------------------------------------------------------
# Inner sources are ABSTRACT states of the model (`i : src`): every pull of one is a hypothesis `pull false fuel i = Some (o, i')`
# with both outcomes (Some v / None) as separate paths; the adapter's own counters and phases have the concrete shapes the
# model matches on (0 / S c, the phase constructors), one lemma per shape and path.  `Repeat` is translated from its own
# source (Take<Constant<T>>), also where it is built inside another adapter through Repeat::new.  Self-recursion of the
# constant pad consumes model fuel.  Skip's while loop is unrolled once and summarised by skip_loop (Proofs/Translate.v).
SRCD = REPO + "/crates/sources/src/"
SRC_HDR = "forall (T := Z) (A := Zar) (f : nat)"
SRC_PRE = "Arguments pull old !fuel !s.\n"     # cbn must not unfold a pull of an ABSTRACT inner source
SRC_SCRIPT = ("intros. rewrite ?pull_skip. cbn [pull peek cached obind fst snd skip_loop]. "
              "repeat (match goal with H : _ = _ |- _ => rewrite H; cbn [pull peek cached obind fst snd skip_loop] end). reflexivity.")
def src(name): return ("obj", "src", name)
def fuel_text(k): return "f" if k == 0 else "(S %s)" % fuel_text(k - 1)
def prim_src_source(sym, o, args):
    lvl = sym.case_fuel - 1 - sym.depth
    if lvl < 0: raise Unsupported("recursion deeper than the fuel of the lemma")
    k = sym.counter + 1; v_, i_ = "v%d" % k, "i%d" % k
    call = "pull false %s %s" % (fuel_text(lvl), o[2])
    if sym.decide("%s = Some (Some %s, %s)" % (call, v_, i_), "%s = Some (None, %s)" % (call, i_)):
        sym.fresh(); sym.dyn_vars += [(v_, "Z"), (i_, "src")]
        return ("opt", T(("var", v_))), src(i_)
    sym.fresh(); sym.dyn_vars += [(i_, "src")]
    return ("opt", None), src(i_)
def liter(known, rest): return ("obj", "liter", (tuple(known), rest))
def prim_liter_next(sym, o, args):
    known, rest = o[2]
    if known: return ("opt", known[0]), liter(known[1:], rest)
    if rest == "[]": return ("opt", None), o
    raise Unsupported("iterator of unknown shape")
SRCP = {("src", "source"): prim_src_source, ("liter", "next"): prim_liter_next}
def constant_obj(val): return sub("SrcConstant", value=val)
def take_obj(inner, cnt): return sub("SrcTake", inner=inner, count=nat(cnt))
def repeat_obj(val, cnt): return sub("SrcRepeat", inner=take_obj(constant_obj(val), cnt))
SRC_NEW = {"Repeat::new": (SRCD + "repeat.rs", r"impl<T>\s+Repeat<T>", "new", ["value", "count"], "SrcRepeat"),
           "Take::new": (SRCD + "take.rs", r"impl<S>\s+Take<S>", "new", ["inner", "count"], "SrcTake"),
           "Constant::new": (SRCD + "constant.rs", r"impl<T>\s+Constant<T>", "new", ["value"], "SrcConstant")}
def rep_parts(r):
    """(value text, count text) of a symbolic Repeat"""
    from rs2coq import coq_V
    tk = r[1]["inner"][1]
    return coq_V(tk["inner"][1]["value"]), as_nat(tk["count"])
def out_state(ret, state_text):
    from rs2coq import coq_V
    return "Some (%s, %s)" % (coq_V(ret), state_text)
def src_entry(name, file_, impl, fn, cases, render, cls=None, fuel=1, subs=None, lhs_fn="pull false", **kw):
    for c_ in cases: c_.setdefault("vars", ""); c_["fuel"] = fuel
    entry("C10", name, cls=cls, file=SRCD + file_, impl=impl, fn=fn, params=kw.pop("params", {}), header=SRC_HDR, script=SRC_SCRIPT, prims=SRCP, split=True,
          imports="Model.Sources Proofs.Translate", subs=subs or [], fns=SRC_NEW, cases=cases, render=render, rhs="", preamble=SRC_PRE, **kw)
FU = lambda k: fuel_text(k)
def P(k, state): return "pull false %s %s" % (FU(k), state)
# leaves
src_entry("src_constant", "constant.rs", r"impl<T>\s+Source\s+for\s+Constant<T>", "source", cls="SrcConstant",
          cases=[dict(self=st(value=v("c")), lhs=P(1, "(Constant c)"), vars="(c : Z)")], render=lambda sym, s_, r, c: out_state(r, "(Constant c)"))
src_entry("src_take", "take.rs", r"impl<S,\s*T>\s+Source\s+for\s+Take<S>", "source", cls="SrcTake",
          cases=[dict(self=st(inner=src("i"), count=nat("0")), lhs=P(1, "(Take i 0)"), vars="(i : src)"),
                 dict(self=st(inner=src("i"), count=nat("(S c)")), lhs=P(1, "(Take i (S c))"), vars="(i : src) (c : nat)")],
          render=lambda sym, s_, r, c: out_state(r, "(Take %s %s)" % (s_[1]["inner"][2], as_nat(s_[1]["count"]))))
src_entry("src_repeat", "repeat.rs", r"impl<T>\s+Source\s+for\s+Repeat<T>", "source", cls="SrcRepeat", subs=["SrcTake", "SrcConstant"],
          cases=[dict(self=st(inner=take_obj(constant_obj(v("c")), "0")), lhs=P(1, "(Repeat c 0)"), vars="(c : Z)"),
                 dict(self=st(inner=take_obj(constant_obj(v("c")), "(S n)")), lhs=P(1, "(Repeat c (S n))"), vars="(c : Z) (n : nat)")],
          render=lambda sym, s_, r, c: out_state(r, "(Repeat %s %s)" % rep_parts(s_)))
src_entry("src_increment", "increment.rs", r"impl<T>\s+Source\s+for\s+Increment<T>", "source",
          cases=[dict(self=st(state=v("s0"), interval=v("d")), lhs=P(1, "(Increment s0 d)"), vars="(s0 d : Z)")],
          render=lambda sym, s_, r, c: out_state(r, "(Increment %s d)" % coq_T(s_[1]["state"][1])))
src_entry("src_from_iter", "from_iter.rs", r"impl<I>\s+Source\s+for\s+FromIter<I>", "source",
          cases=[dict(self=st(iter=liter([], "[]")), lhs=P(1, "(FromList [])")),
                 dict(self=st(iter=liter([v("x")], "r")), lhs=P(1, "(FromList (x :: r))"), vars="(x : Z) (r : list Z)")],
          render=lambda sym, s_, r, c: out_state(r, "(FromList %s)" % s_[1]["iter"][2][1]))
entry("C10", "src_into_iter_next", cls="SrcIntoIter", file=SRCD + "into_iter.rs", impl=r"impl<S,\s*T>\s+Iterator\s+for\s+IntoIter<S>", fn="next", params={}, header=SRC_HDR, script=SRC_SCRIPT,
      prims=SRCP, split=True, imports="Model.Sources Proofs.Translate", cases=[dict(self=st(source=src("i")), lhs=P(1, "(RoundTrip i)"), vars="(i : src)", fuel=1)], rhs="",
      render=lambda sym, s_, r, c: out_state(r, "(RoundTrip %s)" % s_[1]["source"][2]))
src_entry("src_round_trip", "from_iter.rs", r"impl<I>\s+Source\s+for\s+FromIter<I>", "source", subs=["SrcIntoIter"],
          cases=[dict(self=st(iter=sub("SrcIntoIter", source=src("i"))), lhs=P(1, "(RoundTrip i)"), vars="(i : src)")],
          render=lambda sym, s_, r, c: out_state(r, "(RoundTrip %s)" % s_[1]["iter"][1]["source"][2]))
# adapters over one or two inner sources
src_entry("src_chain", "chain.rs", r"impl<F,\s*B,\s*T>\s+Source\s+for\s+Chain<F,\s*B>", "source",
          cases=[dict(self=st(front=src("a"), back=src("b"), state=("enum", "Front")), lhs=P(1, "(Chain a b false)"), vars="(a b : src)"),
                 dict(self=st(front=src("a"), back=src("b"), state=("enum", "Back")), lhs=P(1, "(Chain a b true)"), vars="(a b : src)")],
          render=lambda sym, s_, r, c: out_state(r, "(Chain %s %s %s)" % (s_[1]["front"][2], s_[1]["back"][2], "true" if s_[1]["state"] == ("enum", "Back") else "false")))
src_entry("src_cycle", "cycle.rs", r"impl<S,\s*T>\s+Source\s+for\s+Cycle<S>", "source",
          cases=[dict(self=st(orig=src("o"), inner=src("i")), lhs=P(1, "(Cycle o i)"), vars="(o i : src)")],
          render=lambda sym, s_, r, c: out_state(r, "(Cycle %s %s)" % (s_[1]["orig"][2], s_[1]["inner"][2])))
def skip_while(sym, env, e):
    c = sym.ev(e[1], env)
    if c[0] != "B" or c[1] not in (("btrue",), ("bfalse",)): raise Unsupported("loop condition did not evaluate to a known boolean")
    if c[1] == ("btrue",):
        try:
            sym.block(e[2], env)
        except _R.LoopBreak:
            return ("unit",)
        selfv = env.get("self")
        cnt, inner = as_nat(selfv[1]["count"]), selfv[1]["inner"][2]
        i1 = "i%d" % sym.fresh(); sym.dyn_vars.append((i1, "src"))
        sym.dyn_hyps.append("skip_loop (pull false %s) %s %s = Some %s" % (fuel_text(sym.case_fuel - 1), cnt, inner, i1))
        selfv = sym.updated(selfv, ["inner"], src(i1)); selfv = sym.updated(selfv, ["count"], ("dead",))
        env.set_existing("self", selfv)
    return ("unit",)
src_entry("src_skip", "skip.rs", r"impl<S,\s*T>\s+Source\s+for\s+Skip<S>", "source", while_handler=skip_while,
          cases=[dict(self=st(inner=src("i"), count=nat("0")), lhs=P(1, "(Skip i 0)"), vars="(i : src)"),
                 dict(self=st(inner=src("i"), count=nat("(S c)")), lhs=P(1, "(Skip i (S c))"), vars="(i : src) (c : nat)")],
          render=lambda sym, s_, r, c: out_state(r, "(Skip %s %s)" % (s_[1]["inner"][2], as_nat(s_[1]["count"]))))
src_entry("src_cache", "cache.rs", r"impl<T,\s*U>\s+Source\s+for\s+Cache<T,\s*U>", "source",
          cases=[dict(self=st(state=st(inner=src("i"), cached=co)), lhs=P(1, "(Cache i %s)" % ct), vars="(i : src)" + cv) for co, ct, cv in ((NONE, "None", ""), (some(v("k")), "(Some k)", " (k : Z)"))],
          render=lambda sym, s_, r, c: out_state(r, "(Cache %s %s)" % (s_[1]["state"][1]["inner"][2], _R.coq_V(s_[1]["state"][1]["cached"]))))
entry("C10", "src_cache_cached", file=SRCD + "cache.rs", impl=r"impl<T,\s*U>\s+Cache<T,\s*U>", fn="cached", params={}, header=SRC_HDR, script=SRC_SCRIPT, imports="Model.Sources Proofs.Translate",
      cases=[dict(self=st(state=st(inner=src("i"), cached=co)), lhs="cached (Cache i %s)" % ct, vars="(i : src)" + cv) for co, ct, cv in ((NONE, "None", ""), (some(v("k")), "(Some k)", " (k : Z)"))],
      rhs="Some {ret}")
PEEKS = ((NONE, "None", ""), (some(NONE), "(Some None)", ""), (some(some(v("k"))), "(Some (Some k))", " (k : Z)"))
peek_render = lambda sym, s_, r, c: out_state(r, "(Peek %s %s)" % (s_[1]["state"][1]["inner"][2], _R.coq_V(s_[1]["state"][1]["peeked"])))
src_entry("src_peek", "peek.rs", r"impl<T,\s*U>\s+Source\s+for\s+Peek<T,\s*U>", "source",
          cases=[dict(self=st(state=st(inner=src("i"), peeked=po)), lhs=P(1, "(Peek i %s)" % pt), vars="(i : src)" + pv) for po, pt, pv in PEEKS], render=peek_render)
src_entry("src_peek_peek", "peek.rs", r"impl<T,\s*U>\s+Peek<T,\s*U>\s+where", "peek",
          cases=[dict(self=st(state=st(inner=src("i"), peeked=po)), lhs="peek false %s (Peek i %s)" % (FU(0), pt), vars="(i : src)" + pv) for po, pt, pv in PEEKS], render=peek_render, fuel=1)
# constant padding: Repeat front / back built from the same value; phases; self recursion (fuel 3)
def padc_self(ph, fc, bc): return st(inner=src("i"), front=repeat_obj(v("c"), fc), back=repeat_obj(v("c"), bc), state=("enum", ph))
PH = {"Front": "CFront", "Inner": "CInner", "Back": "CBack"}
def padc_render(sym, s_, r, c):
    d = s_[1]
    return out_state(r, "(PadConst %s c %s %s %s)" % (d["inner"][2], rep_parts(d["front"])[1], rep_parts(d["back"])[1], PH[d["state"][1]]))
src_entry("src_pad_constant", "pad/constant.rs", r"impl<S,\s*T>\s+Source\s+for\s+Pad<S,\s*T>", "source", cls="SrcPadC", recursive=True, subs=["SrcRepeat", "SrcTake", "SrcConstant"], fuel=3,
          cases=[dict(self=padc_self(ph, fc, bc), lhs=P(3, "(PadConst i c %s %s %s)" % (fc, bc, PH[ph])), vars="(i : src) (c : Z) (nf nb : nat)")
                 for ph in ("Front", "Inner", "Back") for fc in ("0", "(S nf)") for bc in ("0", "(S nb)")], render=padc_render)
# edge padding
def EV(name, *payload): return ("variant", name, list(payload))
def pade_self(state, cnt): return st(inner=src("i"), count=nat(cnt), state=state)
def pade_phase(v_):
    from rs2coq import coq_V
    if v_[0] == "enum": return v_[1]
    if v_[1] == "Front": return "(Front %s %s)" % (coq_V(v_[2][0]), rep_parts(v_[2][1])[1])
    if v_[1] == "Inner": return "(Inner %s)" % coq_V(v_[2][0])
    if v_[1] == "Back": return "(Back %s %s)" % rep_parts(v_[2][0])
    raise Unsupported("edge pad phase %s" % v_[1])
def pade_render(sym, s_, r, c):
    d = s_[1]
    return out_state(r, "(PadEdge %s %s %s)" % (d["inner"][2], as_nat(d["count"]), pade_phase(d["state"])))
PADE_STATES = [(("enum", "Before"), "Before"), (EV("Front", v("a"), repeat_obj(v("a"), "0")), "(Front a 0)"), (EV("Front", v("a"), repeat_obj(v("a"), "(S r)")), "(Front a (S r))"),
               (EV("Inner", v("a")), "(Inner a)"), (EV("Back", repeat_obj(v("a"), "0")), "(Back a 0)"), (EV("Back", repeat_obj(v("a"), "(S r)")), "(Back a (S r))"), (("enum", "After"), "After")]
src_entry("src_pad_edge", "pad/edge.rs", r"impl<S,\s*T>\s+Source\s+for\s+Pad<S,\s*T>", "source", subs=["SrcRepeat", "SrcTake", "SrcConstant"],
          cases=[dict(self=pade_self(stv, cnt), lhs=P(1, "(PadEdge i %s %s)" % (cnt, stt)), vars="(i : src) (a : Z) (r cn : nat)") for stv, stt in PADE_STATES for cnt in ("0", "(S cn)")],
          render=pade_render)

# constructors: the state a user-level expression starts in is the model's `init`
def state_only(txt): return txt[txt.index(", ") + 2:-1] if txt.startswith("Some (") else txt
def ctor_entry(name, file_, impl, fn, params, lhs, vars_, render, **kw):
    entry("C10", name, file=SRCD + file_, impl=impl, fn=fn, params=params, header="forall (T := Z) (A := Zar)", imports="Model.Sources Proofs.Translate", fns=SRC_NEW,
          script="intros. cbn [init]. reflexivity.", cases=[dict(self=("unit",), lhs=lhs, vars=vars_)], rhs="",
          render=lambda sym, s_, r, c: state_only(render(sym, r, ("opt", None), c)), **kw)
ctor_entry("new_chain", "chain.rs", r"impl<F,\s*B>\s+Chain<F,\s*B>", "new", {"front": src("(init a)"), "back": src("(init b)")}, "init (EChain a b)", "(a b : expr)",
           lambda sym, s_, r, c: out_state(r, "(Chain %s %s %s)" % (s_[1]["front"][2], s_[1]["back"][2], "true" if s_[1]["state"] == ("enum", "Back") else "false")))
ctor_entry("new_take", "take.rs", r"impl<S>\s+Take<S>", "new", {"inner": src("(init e)"), "count": nat("n")}, "init (ETake e n)", "(e : expr) (n : nat)",
           lambda sym, s_, r, c: out_state(r, "(Take %s %s)" % (s_[1]["inner"][2], as_nat(s_[1]["count"]))))
ctor_entry("new_skip", "skip.rs", r"impl<S>\s+Skip<S>", "new", {"inner": src("(init e)"), "count": nat("n")}, "init (ESkip e n)", "(e : expr) (n : nat)",
           lambda sym, s_, r, c: out_state(r, "(Skip %s %s)" % (s_[1]["inner"][2], as_nat(s_[1]["count"]))))
ctor_entry("new_cycle", "cycle.rs", r"impl<S>\s+Cycle<S>", "new", {"orig": src("(init e)")}, "init (ECycle e)", "(e : expr)",
           lambda sym, s_, r, c: out_state(r, "(Cycle %s %s)" % (s_[1]["orig"][2], s_[1]["inner"][2])))
ctor_entry("new_constant", "constant.rs", r"impl<T>\s+Constant<T>", "new", {"value": v("c")}, "init (EConstant c)", "(c : Z)", lambda sym, s_, r, c: out_state(r, "(Constant %s)" % _R.coq_V(s_[1]["value"])))
ctor_entry("new_repeat", "repeat.rs", r"impl<T>\s+Repeat<T>", "new", {"value": v("c"), "count": nat("n")}, "init (ERepeat c n)", "(c : Z) (n : nat)", lambda sym, s_, r, c: out_state(r, "(Repeat %s %s)" % rep_parts(s_)))
ctor_entry("new_increment", "increment.rs", r"impl<T>\s+Increment<T>", "new", {"initial": v("a"), "interval": v("d")}, "init (EIncrement a d)", "(a d : Z)",
           lambda sym, s_, r, c: out_state(r, "(Increment %s %s)" % (_R.coq_V(s_[1]["state"]), _R.coq_V(s_[1]["interval"]))))
def padc_render2(sym, s_, r, c):
    d = s_[1]
    if rep_parts(d["front"])[0] != rep_parts(d["back"])[0]: raise Unsupported("front and back padding values differ")
    return out_state(r, "(PadConst %s %s %s %s %s)" % (d["inner"][2], rep_parts(d["front"])[0], rep_parts(d["front"])[1], rep_parts(d["back"])[1], PH[d["state"][1]]))
ctor_entry("new_pad_constant", "pad/constant.rs", r"impl<S,\s*T>\s+Pad<S,\s*T>\s+where\s+T:\s*Clone,?\s*(?=\{)", "new", {"inner": src("(init e)"), "value": v("c"), "count": nat("n")},
           "init (EPadConst e c n)", "(e : expr) (c : Z) (n : nat)", padc_render2)
ctor_entry("new_pad_edge", "pad/edge.rs", r"impl<S,\s*T>\s+Pad<S,\s*T>\s+where\s+S:\s*Source<Output = T>,\s*T:\s*Clone,?\s*(?=\{)", "new", {"inner": src("(init e)"), "count": nat("n")},
           "init (EPadEdge e n)", "(e : expr) (n : nat)", pade_render)
ctor_entry("new_peek", "peek.rs", r"impl<T,\s*U>\s+From<T>\s+for\s+Peek<T,\s*U>", "from", {"inner": src("(init e)")}, "init (EPeek e)", "(e : expr)", peek_render)
ctor_entry("new_cache", "cache.rs", r"impl<T,\s*U>\s+From<T>\s+for\s+Cache<T,\s*U>", "from", {"inner": src("(init e)")}, "init (ECache e)", "(e : expr)",
           lambda sym, s_, r, c: out_state(r, "(Cache %s %s)" % (s_[1]["state"][1]["inner"][2], _R.coq_V(s_[1]["state"][1]["cached"]))))

# ---- C12 / C20 : construction, reset, guts round trip, derived Clone -------------------------------------
# For every resettable filter: (i) the state its constructor (Default::default or WithConfig::with_config) builds is the
# generic model's initial state; (ii) `reset` applied to an ARBITRARY state (every Option field Some, every number a
# variable) gives that same state again - the body of reset is executed with Self::with_config / Self::default inlined from
# their own source text; (iii) from_guts(into_guts(x)) rebuilds every field of x; (iv) Clone is derived (a source-level
# assertion: no manual `impl Clone` / `fn clone_from` in the file), so `clone` and `clone_from` copy every field.
# Proofs/Generic.v (gq_init_*) ties the generic initial states to the registry machines of C12 / C20.
def rfile(rel): return F + rel
RESET_TABLE = [
  # name, file, type pattern, constructor, config value, arbitrary state, state template (S = the struct), model init
  ("differentiate", "differentiate.rs", r"Differentiate<T>", "default", None, st(value=some(v("p"))), "{S.state.value}", "@g_diff_init T", r"impl<T>"),
  ("integrate", "integrate.rs", r"Integrate<T>", "default", None, st(value=v("s")), "{S.state.value}", "g_int_init A", r"impl<T>"),
  ("exp_mean", "mean/exp/mean.rs", r"Mean<T>", "with_config", st(inverse_width=v("w")), st(mean=some(v("m"))), "{S.state.mean}", "@g_ema_init T", r"impl<T>"),
  ("alpha_beta", "observe/alpha_beta.rs", r"AlphaBeta<T>", "with_config", st(alpha=v("al"), beta=v("be")), st(velocity=v("vel"), value=some(v("s"))), "({S.state.velocity}, {S.state.value})", "g_ab_init A", r"impl<T>"),
  ("kalman", "observe/kalman.rs", r"Kalman<T>", "with_config", st(r=v("r"), q=v("q"), a=v("a"), b=v("b"), c=v("c")), st(cov=v("p"), value=some(v("s"))), "({S.state.cov}, {S.state.value})", "g_k_init A", r"impl<T>"),
  ("mean", "mean/mean.rs", r"Mean<T,\s*N>", "default", None, st(mean=some(v("sm")), taps=L("taps"), weight=v("wt")), "({S.state.mean}, {S.state.taps}, {S.state.weight})", "g_mean_init A", r"impl<T,\s*const N: usize>"),
  ("convolve", "convolve.rs", r"Convolve<T,\s*N>", "with_config", st(coefficients=L("coeffs")), st(taps=L("taps")), "{S.state.taps}", "@g_conv_init T", r"impl<T,\s*const N: usize>"),
  ("delay", "delay.rs", r"Delay<T,\s*N>", "default", None, st(taps=L("taps")), "{S.state.taps}", "@g_conv_init T", r"impl<T,\s*const N: usize>"),
  ("schmitt", "classify/schmitt.rs", r"Schmitt<T,\s*U>", "with_config", st(thresholds=("array", [v("lo"), v("hi")]), outputs=OUTS2), st(on=B(("btrue",))), "{S.state.on}", "false", r"impl<T,\s*U>"),
  ("debounce", "classify/debounce.rs", r"Debounce<T,\s*U>", "with_config", st(threshold=n("thr"), predicate=v("pr"), outputs=OUTS2), st(count=n("cnt")), "{S.state.count}", "0%N", r"impl<T,\s*U>"),
  ("slopes", "classify/slopes.rs", r"Slopes<T,\s*U>", "with_config", st(outputs=OUTS3), st(input=some(v("p"))), "{S.state.input}", "@None T", r"impl<T,\s*U>"),
]
def leaves(vv, acc=None):
    """printed leaf values of a symbolic value, in a fixed order (used to compare a value with its guts round trip)"""
    from rs2coq import coq_V
    acc = [] if acc is None else acc
    if vv[0] == "struct":
        for k_ in sorted(vv[1]):
            if k_ != "__sub": leaves(vv[1][k_], acc)
    elif vv[0] in ("tuple", "array"):
        for x_ in vv[1]: leaves(x_, acc)
    elif vv[0] == "variant":
        acc.append(vv[1]);
        for x_ in vv[2]: leaves(x_, acc)
    elif vv[0] == "opt" and vv[1] is not None and vv[1][0] in ("struct", "tuple"):
        leaves(vv[1], acc)
    else: acc.append(coq_V(vv))
    return acc
EMA_WC = {"Mean::with_config": (F + "mean/exp/mean.rs", r"impl<T>\s+WithConfig\s+for\s+Mean<T>", "with_config", ["config"])}
MEAN_DF = {"Mean::default": (F + "mean/mean.rs", r"impl<T,\s*const N: usize>\s+Default\s+for\s+Mean<T,\s*N>", "default", [])}
MM_DF = {"self::min::Min::default": (F + "bounds/min.rs", r"impl<T,\s*const N: usize>\s+Default\s+for\s+Min<T,\s*N>", "default", []),
         "self::max::Max::default": (F + "bounds/max.rs", r"impl<T,\s*const N: usize>\s+Default\s+for\s+Max<T,\s*N>", "default", []),
         "State::default": (F + "bounds.rs", r"impl<T,\s*const N: usize>\s+Default\s+for\s+State<T,\s*N>", "default", [])}
SLOPES_WC = {"Slopes::with_config": (F + "classify/slopes.rs", r"impl<T,\s*U>\s+WithConfig\s+for\s+Slopes<T,\s*U>", "with_config", ["config"]),
             "Slope::classes": (F + "classify/slopes.rs", r"impl\s+Classification<Slope,\s*3>\s+for\s+Slope", "classes", [], "enum:Slope")}
CONV_WC = {"Convolve::with_config": (F + "convolve.rs", r"impl<T,\s*const N: usize>\s+WithConfig\s+for\s+Convolve<T,\s*N>", "with_config", ["config"], "Conv")}
CONV_CFG = {("Conv", "config"): (F + "convolve.rs", r"impl<T,\s*const N: usize>\s+ConfigClone\s+for\s+Convolve<T,\s*N>", [])}
def meanobj(sm, taps, wt): return st(state=st(mean=sm, taps=L(taps), weight=v(wt)))
def bst(tm, taps): return st(state=st(time=n(tm), taps=L(taps)))
def convobj(c, t): return sub("Conv", config=st(coefficients=L(c)), state=st(taps=L(t)))
BREC = "{| time := {S.%sstate.time}; taps := {S.%sstate.taps} |}"
G1, GN, GU = r"impl<T>", r"impl<T,\s*const N: usize>", r"impl<T,\s*U>"
RESET_ROWS = [r_ for r_ in [
  dict(name=r[0], file=r[1], ty=r[2], ctor=r[3], cfg=r[4], state=r[5], tmpl=r[6], init=r[7], gen=r[8]) for r in RESET_TABLE] + [
  dict(name="exp_mean_variance", file="mean/exp/mean_variance.rs", ty=r"MeanVariance<T>", ctor="with_config", cfg=st(inverse_width=v("w")), gen=G1, fns=EMA_WC,
       state=st(mean=ema_obj(("var", "w"), ("var", "a")), variance=ema_obj(("var", "w"), ("var", "b"))), tmpl="({S.state.mean.state.mean}, {S.state.variance.state.mean})", init="@g_mve_init T", binder="(w a b : T)"),
  dict(name="exp_median", file="median/exp.rs", ty=r"Median<T>", ctor="with_config", cfg=st(pre=st(inverse_width=v("wpre")), mid=v("mid"), post=st(inverse_width=v("wpost"))), gen=G1, fns=EMA_WC,
       state=st(mean_pre=ema_obj(("var", "wpre"), ("var", "a")), mean_post=ema_obj(("var", "wpost"), ("var", "b")), median=some(v("c"))),
       tmpl="({S.state.mean_pre.state.mean}, {S.state.mean_post.state.mean}, {S.state.median})", init="@g_xm_init T", binder="(wpre mid wpost a b c : T)"),
  dict(name="mean_variance", file="mean/mean_variance.rs", ty=r"MeanVariance<T,\s*N>", ctor="default", cfg=None, gen=GN, fns=MEAN_DF,
       state=st(mean=meanobj(some(v("sm")), "taps", "wt"), variance=meanobj(some(v("sv")), "vtaps", "vwt")),
       tmpl="(({S.state.mean.state.mean}, {S.state.mean.state.taps}, {S.state.mean.state.weight}), ({S.state.variance.state.mean}, {S.state.variance.state.taps}, {S.state.variance.state.weight}))",
       init="g_mvw_init A", binder="(sm wt sv vwt : T) (taps vtaps : list T)"),
  dict(name="max", file="bounds/max.rs", ty=r"Max<T,\s*N>", ctor="default", cfg=None, gen=GN, state=st(time=n("tm"), taps=L("taps")), tmpl=BREC % ("", ""), init="@Bounds.init T", binder="(tm : N) (taps : list (T * N))"),
  dict(name="min", file="bounds/min.rs", ty=r"Min<T,\s*N>", ctor="default", cfg=None, gen=GN, state=st(time=n("tm"), taps=L("taps")), tmpl=BREC % ("", ""), init="@Bounds.init T", binder="(tm : N) (taps : list (T * N))"),
  dict(name="bounds", file="bounds.rs", ty=r"Bounds<T,\s*N>", ctor="default", cfg=None, gen=GN, fns=MM_DF, state=st(min=bst("tm", "taps"), max=bst("tm2", "taps2")),
       tmpl="(" + BREC % ("state.min.", "state.min.") + ", " + BREC % ("state.max.", "state.max.") + ")", init="(@Bounds.init T, @Bounds.init T)", binder="(tm tm2 : N) (taps taps2 : list (T * N))"),
  dict(name="peaks", file="classify/peaks.rs", ty=r"Peaks<T,\s*U>", ctor="with_config", cfg=st(outputs=OUTS3), gen=GU, fns=SLOPES_WC,
       state=st(slopes=sub("slopes", config=st(outputs=("array", [("enum", "Rising"), ("enum", "None"), ("enum", "Falling")])), state=st(input=some(v("p")))), slope=some(("enum", "Rising"))),
       tmpl="({S.state.slopes.state.input}, {S.state.slope}, {S.state.slopes.config.outputs.0}, {S.state.slopes.config.outputs.1}, {S.state.slopes.config.outputs.2})",
       init="(@None T, @None slope, Rising, Flat, Falling)", binder="(p o0 o1 o2 : T)", imports="Model.Classify"),
  dict(name="analyze", file="wavelet/analyze.rs", ty=r"Analyze<T,\s*N>", ctor="with_config", cfg=st(low_pass=st(coefficients=L("low")), high_pass=st(coefficients=L("high"))), gen=GN, fns=CONV_WC,
       class_methods=CONV_CFG, cls="Analyze", own_methods={"config": (F + "wavelet/analyze.rs", r"impl<T,\s*const N: usize>\s+ConfigClone\s+for\s+Analyze<T,\s*N>", [])}, noconfig=True,
       state=st(low_pass=convobj("low", "tl"), high_pass=convobj("high", "th")),
       tmpl="(({S.state.low_pass.state.taps}, {S.state.high_pass.state.taps}), ({S.state.low_pass.config.coefficients}, {S.state.high_pass.config.coefficients}))",
       init="(@g_wav_init T, (low, high))", binder="(low high tl th : list T)"),
  dict(name="synthesize", file="wavelet/synthesize.rs", ty=r"Synthesize<T,\s*N>", ctor="with_config", cfg=st(low_pass=st(coefficients=L("low")), high_pass=st(coefficients=L("high"))), gen=GN, fns=CONV_WC,
       class_methods=CONV_CFG, cls="Synthesize", own_methods={"config": (F + "wavelet/synthesize.rs", r"impl<T,\s*const N: usize>\s+ConfigClone\s+for\s+Synthesize<T,\s*N>", [])}, noconfig=True,
       state=st(low_pass=convobj("low", "tl"), high_pass=convobj("high", "th")),
       tmpl="(({S.state.low_pass.state.taps}, {S.state.high_pass.state.taps}), ({S.state.low_pass.config.coefficients}, {S.state.high_pass.config.coefficients}))",
       init="(@g_wav_init T, (low, high))", binder="(low high tl th : list T)"),
]]
# Hampel and Median: `Median::default()` is the model's `Median.init n` (its node formula is translated under C02, the
# MaybeUninit loop is C19_uninit_loop_initialises); here it is an opaque constructor
MEDIAN_DF = {"Median::default": lambda args: ("obj", "minit", "(@Median.init T n)")}
RESET_ROWS += [
  dict(name="hampel", file="hampel.rs", ty=r"Hampel<T,\s*N>", ctor="with_config", cfg=st(threshold=v("thr")), gen=GN, fns=MEDIAN_DF,
       state=st(median=("obj", "minit", "s")), tmpl="{S.state.median}", init="(@Median.init T n)", binder="(n : nat) (s : mstate T) (thr : T)", imports="Model.Median"),
]
def opt_shapes(vv):
    """every variant of a symbolic value in which each `Some(..)` is kept or replaced by None (the given shape first)"""
    if vv[0] == "opt" and vv[1] is not None:
        return [("opt", x_) for x_ in opt_shapes(vv[1])] + [("opt", None)]
    if vv[0] == "struct":
        out = [{}]
        for k_ in vv[1]:
            vs = opt_shapes(vv[1][k_]) if k_ != "__sub" else [vv[1][k_]]
            out = [dict(o_, **{k_: x_}) for o_ in out for x_ in vs]
        return [("struct", o_) for o_ in out]
    if vv[0] in ("tuple", "array"):
        out = [[]]
        for x_ in vv[1]: out = [o_ + [y_] for o_ in out for y_ in opt_shapes(x_)]
        return [(vv[0], o_) for o_ in out]
    return [vv]
def reset_entries():
    for r in RESET_ROWS:
        name, ty, ctor, cfg, state, tmpl, init, gen = r["name"], r["ty"], r["ctor"], r["cfg"], r["state"], r["tmpl"], r["init"], r["gen"]
        file_ = rfile(r["file"])
        ctor_impl = gen + r"\s+" + ("Default" if ctor == "default" else "WithConfig") + r"\s+for\s+" + ty
        fns = dict(r.get("fns") or {}); fns["Self::" + ctor] = (file_, ctor_impl, ctor, [] if ctor == "default" else ["config"]) + ((r["cls"],) if r.get("cls") else ())
        if "binder" in r: binder = r["binder"]
        else:
            vars_ = " ".join(sorted(set(re.findall(r"'var', '([a-z0-9]+)'", repr((cfg, state)))) - {"o0", "o1", "o2"})) or ""
            extra = ""
            if "taps" in repr(state): extra += " (taps : list T)"
            if "coeffs" in repr(cfg): extra += " (coeffs : list T)"
            if "nvar" in repr((cfg, state)): extra += " (thr cnt : N)"
            outs = " (o0 o1 : T)" if "o0" in repr(cfg) and "o2" not in repr(cfg) else " (o0 o1 o2 : T)" if "o2" in repr(cfg) else ""
            binder = ("(%s : T)" % vars_ if vars_ else "") + extra + outs
        common = dict(file=file_, imports="Model.Bounds " + r.get("imports", ""), class_methods=r.get("class_methods"), cls=r.get("cls"),
                      methods={k_: (f_, i_, p_) for k_, (f_, i_, p_) in (r.get("own_methods") or {}).items()})
        entry("C12", "new_" + name, impl=ctor_impl, fn=ctor, params={} if cfg is None else {"config": cfg}, fns=fns,
              cases=[dict(self=("unit",), lhs=init, vars=binder)], rhs=tmpl.replace("{S.", "{ret."), **common)
        selfv = st(state=state) if (cfg is None or r.get("noconfig")) else st(config=cfg, state=state)
        # reset from EVERY shape of the state: each Option field of the state present or absent (a reset that is only
        # right for states with a remembered sample is wrong)
        shapes = [st(state=s_) if (cfg is None or r.get("noconfig")) else st(config=cfg, state=s_) for s_ in opt_shapes(state)]
        entry("C12", "reset_" + name, impl=gen + r"\s+Reset\s+for\s+" + ty, fn="reset", params={}, fns=fns,
              cases=[dict(self=sv_, lhs=init, vars=binder) for sv_ in shapes], rhs=tmpl.replace("{S.", "{ret."), **common)
        # guts round trip: into_guts, then from_guts of its result, gives back every field (configuration included)
        fg = dict(fns); fg["Self::from_guts"] = (file_, gen + r"\s+FromGuts\s+for\s+" + ty, "from_guts", ["guts"])
        entry("C20", "guts_" + name, impl=gen + r"\s+IntoGuts\s+for\s+" + ty, fn="into_guts", params={}, fns=fg, roundtrip=True,
              cases=[dict(self=selfv, lhs="(%s)" % ", ".join(leaves(selfv)), vars=binder)], rhs="",
              render=lambda sym, s_, ret_, c_: "(%s)" % ", ".join(leaves(ret_)), **common)
reset_entries()
entry("C12", "reset_median", file=MED_RS, impl=r"impl<T,\s*const N: usize>\s+Reset\s+for\s+Median<T,\s*N>", fn="reset", params={}, imports="Model.Median",
      fns={"Self::default": lambda args: ("struct", {"state": ("obj", "minit", "(@Median.init T n)")})},
      cases=[dict(self=st(state=("obj", "minit", "s")), lhs="(@Median.init T n)", vars="(n : nat) (s : mstate T)")], rhs="{ret.state}")

# Cache<T, U> over an ARBITRARY inner registry machine m: filter, reset, cached, from
MACH_HDR = "forall (m : machine) (c : list Q)"
def mach(name): return ("obj", "mach", name)
def prim_mach_filter(sym, o, args):
    from rs2coq import coq_V
    k = sym.fresh(); s1, y = "s%d" % k, "y%d" % k
    sym.dyn_vars += [(s1, "St m"), (y, "list Q")]
    sym.dyn_hyps.append("mstep m c %s %s = Some (%s, %s)" % (o[2], coq_V(args[0]), s1, y))
    return T(("var", y)), mach(s1)
MACH = {("mach", "filter"): prim_mach_filter, ("mach", "reset"): lambda sym, o, a: (mach("(mreset m c %s)" % o[2]), None)}
MACH_SCRIPT = "intros. cbn. repeat (match goal with H : _ = _ |- _ => rewrite H; cbn end). reflexivity."
for ko, kt, kv in ((NONE, "None", ""), (some(v("k")), "(Some k)", " (k : list Q)")):
    tag = "none" if kt == "None" else "some"
    cself = st(state=st(inner=mach("si"), cached=ko))
    entry("C20", "cache_filter_" + tag, file=F + "cache.rs", impl=r"impl<T,\s*U,\s*V>\s+Filter<V>\s+for\s+Cache<T,\s*U>", fn="filter", params={"input": v("i")}, header=MACH_HDR, prims=MACH,
          script=MACH_SCRIPT, imports="Base.QR Model.Registry", cases=[dict(self=cself, lhs="mstep (m_cache m) c (si, %s) i" % kt, vars="(si : St m) (i : list Q)" + kv)],
          rhs="Some (({self.state.inner}, {self.state.cached}), {ret})")
    entry("C20", "cache_reset_" + tag, file=F + "cache.rs", impl=r"impl<T,\s*U>\s+Reset\s+for\s+Cache<T,\s*U>", fn="reset", params={}, header=MACH_HDR, prims=MACH,
          script=MACH_SCRIPT, imports="Base.QR Model.Registry", cases=[dict(self=cself, lhs="mreset (m_cache m) c (si, %s)" % kt, vars="(si : St m)" + kv)],
          rhs="({ret.state.inner}, {ret.state.cached})")
    entry("C20", "cache_cached_" + tag, file=F + "cache.rs", impl=r"impl<T,\s*U>\s+Cache<T,\s*U>(?=\s*\{)", fn="cached", params={}, header=MACH_HDR, prims=MACH,
          script=MACH_SCRIPT, imports="Base.QR Model.Registry", cases=[dict(self=cself, lhs="@cached m (si, %s)" % kt, vars="(si : St m)" + kv)], rhs="{ret}")
entry("C20", "cache_from", file=F + "cache.rs", impl=r"impl<T,\s*U>\s+From<T>\s+for\s+Cache<T,\s*U>", fn="from", params={"inner": mach("(minit m c)")}, header=MACH_HDR, prims=MACH,
      script=MACH_SCRIPT, imports="Base.QR Model.Registry", cases=[dict(self=("unit",), lhs="minit (m_cache m) c", vars="")], rhs="({ret.state.inner}, {ret.state.cached})")
entry("C20", "cache_with_config", file=F + "cache.rs", impl=r"impl<T,\s*U>\s+WithConfig\s+for\s+Cache<T,\s*U>", fn="with_config", params={"config": ("raw", "c")}, header=MACH_HDR, prims=MACH,
      fns={"T::with_config": lambda args: mach("(minit m c)"), "Self::from": (F + "cache.rs", r"impl<T,\s*U>\s+From<T>\s+for\s+Cache<T,\s*U>", "from", ["inner"])},
      script=MACH_SCRIPT, imports="Base.QR Model.Registry", cases=[dict(self=("unit",), lhs="minit (m_cache m) c", vars="")], rhs="({ret.state.inner}, {ret.state.cached})")
entry("C20", "guts_median", file=MED_RS, impl=r"impl<T,\s*const N: usize>\s+IntoGuts\s+for\s+Median<T,\s*N>", fn="into_guts", params={}, roundtrip=True, imports="Model.Median",
      fns={"Self::from_guts": (MED_RS, r"impl<T,\s*const N: usize>\s+FromGuts\s+for\s+Median<T,\s*N>", "from_guts", ["guts"])},
      cases=[dict(self=st(state=("obj", "minit", "s")), lhs="s", vars="(n : nat) (s : mstate T)")], rhs="{ret.state}")
# UnitSystem<T> (the macro-generated Filter impl, one body for all five unit systems) over an arbitrary inner machine
USELF = st(state=st(inner=mach("si")))
entry("C20", "unit_filter_macro", file=F + "unit_system.rs", impl=r"impl<T,\s*U,\s*V>\s+Filter<\$t<V,\s*U>>\s+for\s+UnitSystem<T>", fn="filter", params={"input": ("tagged", v("i"))}, header=MACH_HDR, prims=MACH,
      script=MACH_SCRIPT, imports="Base.QR Model.Registry", cases=[dict(self=USELF, lhs="mstep (m_unit m) c si i", vars="(si : St m) (i : list Q)")],
      rhs="", render=lambda sym, s_, r_, c_: "Some (%s, %s)" % (s_[1]["state"][1]["inner"][2], _R.coq_V(r_[1]) if r_[0] == "tagged" else "?"))
entry("C20", "unit_reset", file=F + "unit_system.rs", impl=r"impl<T>\s+Reset\s+for\s+UnitSystem<T>", fn="reset", params={}, header=MACH_HDR, prims=MACH,
      script=MACH_SCRIPT, imports="Base.QR Model.Registry", cases=[dict(self=USELF, lhs="mreset (m_unit m) c si", vars="(si : St m)")], rhs="{ret.state.inner}")
# the unit wrappers of sources and sinks (macro bodies): one pull / one sink call / the inner finalize, value re-tagged
SRCU = REPO + "/crates/sources/src/unit_system.rs"; SNKU = REPO + "/crates/sinks/src/unit_system.rs"
def untag(vv): return vv[1] if vv[0] == "tagged" else vv
entry("C20", "unit_source_macro", file=SRCU, impl=r"impl<S,\s*U,\s*V>\s+Source\s+for\s+UnitSystem<S,\s*\$t<V,\s*U>>", fn="source", params={}, header=SRC_HDR, script="intros. unfold unit_source. " + SRC_SCRIPT[8:], prims=SRCP, split=True,
      imports="Model.Sources Proofs.Translate", preamble=SRC_PRE, cases=[dict(self=st(state=st(inner=src("i"))), lhs="unit_source (pull false f) i", vars="(i : src)", fuel=1)], rhs="",
      render=lambda sym, s_, r_, c_: "Some (%s, %s)" % ("None" if r_[1] is None else "Some " + _R.coq_V(untag(r_[1])), s_[1]["state"][1]["inner"][2]))
def prim_snk(sym, o, args):
    from rs2coq import coq_V
    return ("unit",), ("obj", "snk", "(k %s %s)" % (o[2], coq_V(args[0])))
SNK = {("snk", "sink"): prim_snk, ("snk", "finalize"): lambda sym, o, a: (("raw", "(fin %s)" % o[2]), None)}
entry("C20", "unit_sink_macro", file=SNKU, impl=r"impl<S,\s*U,\s*V>\s+Sink<\$t<V,\s*U>>\s+for\s+UnitSystem<S,\s*\$t<V,\s*U>>", fn="sink", params={"input": ("tagged", v("x"))},
      header="forall (S X R : Type) (k : S -> X -> S) (fin : S -> R)", prims=SNK, imports="Proofs.Translate", script="intros. reflexivity.",
      cases=[dict(self=st(inner=("obj", "snk", "s")), lhs="unit_sink k s x", vars="(s : S) (x : X)")], rhs="{self.inner}")
entry("C20", "unit_finalize_macro", file=SNKU, impl=r"impl<S,\s*U,\s*V>\s+Finalize\s+for\s+UnitSystem<S,\s*\$t<V,\s*U>>", fn="finalize", params={},
      header="forall (S X R : Type) (k : S -> X -> S) (fin : S -> R)", prims=SNK, imports="Proofs.Translate", script="intros. reflexivity.",
      cases=[dict(self=st(inner=("obj", "snk", "s")), lhs="unit_finalize fin s", vars="(s : S)")], rhs="", render=lambda sym, s_, r_, c_: _R.coq_V(untag(r_)))
# the stateless stage filters (ops::{Add, Sub, Mul, Div, Neg, Square}, Identity): what a pipe of them computes is their composition
# (C01); each body is the operator itself, operands in source order
for nm_, ty_, lhs_, prm_, vars_ in (("add", "Add", "aadd A a b", {"input": ("tuple", [v("a"), v("b")])}, "a b"), ("sub", "Sub", "asub A a b", {"input": ("tuple", [v("a"), v("b")])}, "a b"),
                                    ("mul", "Mul", "amul A a b", {"input": ("tuple", [v("a"), v("b")])}, "a b"), ("div", "Div", "adiv A a b", {"input": ("tuple", [v("a"), v("b")])}, "a b"),
                                    ("neg", "Neg", "aneg A a", {"input": v("a")}, "a"), ("square", "Square", "amul A a a", {"input": v("a")}, "a")):
    entry("C01", "ops_" + nm_, file=F + "ops/%s.rs" % nm_, impl=r"impl<T(?:,\s*U)?>\s+Filter<(?:\(T,\s*U\)|T)>\s+for\s+%s\b" % ty_, fn="filter", params=prm_,
          cases=[dict(self=("unit",), lhs=lhs_, vars=vars_)], rhs="{ret}")
entry("C01", "ops_identity", file=F + "identity.rs", impl=r"impl<T>\s+Filter<T>\s+for\s+Identity", fn="filter", params={"input": v("a")},
      cases=[dict(self=("unit",), lhs="a", vars="a")], rhs="{ret}")
# `Kalman::default()` = with_config(Config::default()): fresh state, the unit configuration r = q = a = c = 1, b = 0
KAL = F + "observe/kalman.rs"
for pid_ in ("C06", "C12"):
    entry(pid_, "default_kalman", file=KAL, impl=r"impl<T>\s+Default\s+for\s+Kalman<T>", fn="default", params={},
          fns={"Self::with_config": (KAL, r"impl<T>\s+WithConfig\s+for\s+Kalman<T>", "with_config", ["config"]), "Config::default": (KAL, r"impl<T>\s+Default\s+for\s+Config<T>", "default", [])},
          cases=[dict(self=("unit",), lhs="(g_k_init A, (aone A, aone A, aone A, azero A, aone A))", vars="")],
          rhs="(({ret.state.cov}, {ret.state.value}), ({ret.config.r}, {ret.config.q}, {ret.config.a}, {ret.config.b}, {ret.config.c}))")
entry("C12", "reset_threshold", file=F + "classify/threshold.rs", impl=r"impl<T,\s*U>\s+Reset\s+for\s+Threshold<T,\s*U>", fn="reset", params={},
      cases=[dict(self=st(config=st(threshold=v("thr"), outputs=OUTS2)), lhs="(thr, o0, o1)", vars="thr o0 o1")], rhs="({ret.config.threshold}, {ret.config.outputs.0}, {ret.config.outputs.1})")

# ---- source-level assertions: Clone is DERIVED for these types (so clone / clone_from copy every field, which is what the
# models' `mclone` and the identity reading of Cycle's `orig.clone()` assume); a hand-written Clone impl breaks the obligation
def derived_clone(pid, rel_root, rel, types):
    for ty in types:
        ASSERTS.setdefault(pid, []).append(dict(name="derived_clone_%s_%s" % (rel.replace("/", "_").replace(".rs", ""), ty), file=rel_root + rel,
            must=[r"#\[derive\([^)]*\bClone\b[^)]*\)\]\s*(?:#\[[^\]]*\]\s*|///[^\n]*\n\s*)*(?:pub\s+)?(?:struct|enum)\s+%s\b" % ty],
            mustnot=[r"impl\s*<[^{;]*>\s*Clone\s+for\s+%s\b" % ty, r"impl\s+Clone\s+for\s+%s\b" % ty]))
ASSERTS = {}
for rel, tys in (("mean/mean.rs", ["Mean", "State"]), ("mean/mean_variance.rs", ["MeanVariance", "State"]), ("mean/exp/mean.rs", ["Mean", "State", "Config"]),
                 ("mean/exp/mean_variance.rs", ["MeanVariance", "State"]), ("median.rs", ["Median", "State", "ListNode"]), ("median/exp.rs", ["Median", "State"]),
                 ("bounds/max.rs", ["Max", "State"]), ("bounds/min.rs", ["Min", "State"]), ("bounds.rs", ["Bounds", "State"]), ("classify/threshold.rs", ["Threshold"]),
                 ("classify/schmitt.rs", ["Schmitt", "State"]), ("classify/debounce.rs", ["Debounce", "State"]), ("classify/slopes.rs", ["Slopes", "State"]),
                 ("classify/peaks.rs", ["Peaks", "State"]), ("convolve.rs", ["Convolve", "State"]), ("delay.rs", ["Delay", "State"]), ("differentiate.rs", ["Differentiate", "State"]),
                 ("integrate.rs", ["Integrate", "State"]), ("hampel.rs", ["Hampel", "State"]), ("observe/alpha_beta.rs", ["AlphaBeta", "State"]), ("observe/kalman.rs", ["Kalman", "State"]),
                 ("wavelet/analyze.rs", ["Analyze", "State"]), ("wavelet/synthesize.rs", ["Synthesize", "State"]), ("cache.rs", ["Cache", "State"])):
    derived_clone("C20", F, rel, tys)
for rel, tys in (("chain.rs", ["Chain", "ChainState"]), ("take.rs", ["Take"]), ("skip.rs", ["Skip"]), ("cycle.rs", ["Cycle"]), ("constant.rs", ["Constant"]), ("repeat.rs", ["Repeat"]),
                 ("increment.rs", ["Increment"]), ("from_iter.rs", ["FromIter"]), ("into_iter.rs", ["IntoIter"]), ("pad/constant.rs", ["Pad", "PadState"]), ("pad/edge.rs", ["Pad", "PadState"]),
                 ("peek.rs", ["Peek", "State"]), ("cache.rs", ["Cache", "State"])):
    derived_clone("C10", REPO + "/crates/sources/src/", rel, tys)
for rel, tys in (("pipe.rs", ["Pipe"]), ("unit_pipe.rs", ["UnitPipe"])):
    derived_clone("C01", REPO + "/crates/pipes/src/", rel, tys)
# the two table files: their macro BODIES (normalisation, reversal and sign alternation of the Daubechies high-pass, the constructor
# calls) are not translated - the run-time coefficient dump ties them - so their entry points are inventoried and their text pinned
ASSERTS.setdefault("C07", []).append(dict(name="macro_daubechies", file=F + "wavelet/daubechies.rs", must=[r"macro_rules!\s+daubechies_impl_float"], message="the daubechies_impl_float macro is gone"))
ASSERTS.setdefault("C05", []).append(dict(name="macro_savitzky_golay", file=F + "convolve/savitzky_golay.rs", must=[r"macro_rules!\s+savitzky_golay_impl_float"], message="the savitzky_golay_impl_float macro is gone"))
derived_clone("C01", F, "ops/rem.rs", ["Rem"])      # `%` has no counterpart in the arithmetic record: the file is inventoried, the text of its body pinned

# ---- C19: the audited unsafe surface --------------------------------------------------------------------
# Everything in the windowed filters except Median::default is safe Rust, where "every owned value is dropped exactly
# once, never read after a drop or before initialisation" is rustc's ownership discipline - unless the code leaks
# deliberately (mem::forget, ManuallyDrop, Box::leak) or uses unsafe operations.  The obligation pins the unsafe surface of
# each file (comments and the test module stripped) to what was audited.  `unsafe fn` declarations and `unsafe { self.f(..) }`
# blocks that merely call one of the receiver's own methods carry no unsafe OPERATION themselves (the bodies they lead to are
# translated, section 4.2b, and fall under the token counts below), so any number of them is allowed; every other unsafe block
# is counted: two, both in the one MaybeUninit initialisation of Median::default (modelled: Ledger.uninit_write,
# theorem C19_uninit_loop_initialises, node formula translated).  Any new unsafe / raw-pointer / forget-like token breaks it.
UNSAFE_TOK = {"unsafe block that is not a plain call of one of the receiver's own methods": "@NONTRIVIAL_UNSAFE", "MaybeUninit": r"MaybeUninit", "assume_init": r"assume_init",
              "raw pointer operation": r"\.read\(\)|\.write\(|ptr::|as_ptr|as_mut_ptr|NonNull|\*const|\*mut",
              "forget / leak / unchecked": r"\bforget\b|ManuallyDrop|\bleak\b|transmute|from_raw|into_raw|drop_in_place|set_len|get_unchecked|zeroed|\bunion\b"}
UNSAFE_EXPECT = {"median.rs": (2, 4, 1, 4, 0), "mean/mean.rs": (0, 0, 0, 0, 0), "bounds/max.rs": (0, 0, 0, 0, 0), "bounds/min.rs": (0, 0, 0, 0, 0), "bounds.rs": (0, 0, 0, 0, 0),
                 "convolve.rs": (0, 0, 0, 0, 0), "delay.rs": (0, 0, 0, 0, 0)}
for rel_, exp_ in UNSAFE_EXPECT.items():
    ASSERTS.setdefault("C19", []).append(dict(name="unsafe_surface_" + rel_.replace("/", "_").replace(".rs", ""), file=F + rel_, strip=True,
                                               counts={rx_: n_ for (k_, rx_), n_ in zip(UNSAFE_TOK.items(), exp_)},
                                               message="the unsafe surface of %s changed (expected occurrences of unsafe / MaybeUninit / assume_init / raw pointer operations / forget-like calls: %s)" % (rel_, exp_)))

# C19 re-checks the bodies of the windowed filters as well (its argument needs them to be the audited, safe code)
ENTRIES["C19"] = list(ENTRIES["C02"]) + [e_ for e_ in ENTRIES["C03"] if e_["name"] == "moving_mean"] + list(ENTRIES["C04"]) + [e_ for e_ in ENTRIES["C05"] if e_["name"] in ("convolve", "delay")]

# every property re-checks the constructor / reset / guts bodies of the types in its own files (a filter is also entered through
# reset and guts), and C12 (reset restores the initial state) the reset bodies of the wrappers
for pid_ in sorted(ENTRIES):
    if pid_ in ("C12", "C20"): continue
    own_files = {e_["file"] for e_ in ENTRIES[pid_]}; own_names = {e_["name"] for e_ in ENTRIES[pid_]}
    for e_ in ENTRIES.get("C12", []) + ENTRIES.get("C20", []):
        if e_["file"] in own_files and e_["name"].split("_")[0] in ("new", "reset", "guts") and e_["name"] not in own_names:
            ENTRIES[pid_].append(e_); own_names.add(e_["name"])
ENTRIES["C12"] += [e_ for e_ in ENTRIES["C20"] if e_["name"].startswith("cache_reset") or e_["name"] == "unit_reset"]

# ---- the modelled third-party crates are the audited versions --------------------------------------------------
# The models of circular_buffer::CircularBuffer (bounded list), num_traits and dimensioned (map_unsafe, value_unsafe) were read
# off these versions; Cargo.lock is what the harness builds against (it is copied next to the harness manifest).
for pid_, crate_, ver_ in [(p_, "circular-buffer", "1.2.1") for p_ in ("C03", "C04", "C05", "C07", "C12", "C16", "C19", "C20")] + \
                          [(p_, "num-traits", "0.2.19") for p_ in ("C03", "C05", "C06", "C11", "C13", "C14", "C15", "C16", "C18")] + [("C20", "dimensioned", "0.7.0")]:
    ASSERTS.setdefault(pid_, []).append(dict(name="locked_%s" % crate_.replace("-", "_"), file=REPO + "/Cargo.lock",
        must=[r'name = "%s"\nversion = "%s"\nsource = "registry' % (re.escape(crate_), re.escape(ver_))],
        message="Cargo.lock no longer pins %s %s (the version whose behaviour the model assumes)" % (crate_, ver_)))

# the workspace manifest must not redirect a dependency ([patch] / [replace] sections apply to the library's own builds but NOT to
# the harness, which has its own workspace root: a patched circular-buffer would be invisible to every differential run)
for pid_ in ("C03", "C04", "C05", "C07", "C12", "C16", "C19", "C20"):
    ASSERTS.setdefault(pid_, []).append(dict(name="workspace_manifest", file=REPO + "/Cargo.toml",
        must=[r'(?m)^circular-buffer\s*=\s*\{\s*version\s*=\s*"1\.0\.0",\s*default-features\s*=\s*false\s*\}', r'(?m)^members\s*=\s*\["crates/\*"\]'],
        mustnot=[r"(?m)^\s*\[patch", r"(?m)^\s*\[replace"],
        message="the workspace manifest redirects or re-declares a dependency the models assume ([patch]/[replace] section, or the circular-buffer requirement changed)"))

# ---- API-surface inventory of every translated file -------------------------------------------------------
# The obligations above re-read the bodies they know about.  What they cannot see is a NEW entry point or a replaced
# dependency: an additional trait impl (`impl Filter<&T> for Schmitt`), an override inside a feature-gated impl that used to be
# empty (`impl ResetMut for X {}`), a `use` line that swaps `circular_buffer::CircularBuffer` for another ring buffer, a new
# `mod`.  For every file a property translates, the set of trait-impl headers, `use` / `mod` lines and feature-gated
# `fn reset_mut` overrides (comments and test module stripped, whitespace normalised) must equal the inventory recorded in
# translator/inventory.json (written from the audited tree by `bodies.py --write-inventory`, never at check time).
INVENTORY_FILE = os.path.join(os.path.dirname(os.path.abspath(__file__)), "inventory.json")
TRAIT_METHOD_NAMES = {"filter", "source", "sink", "finalize", "reset", "reset_mut", "with_config", "config", "config_ref", "from_guts", "into_guts", "state_mut",
                      "clone", "clone_from", "default", "from", "next", "bitor", "peek", "cached", "classes", "eq", "partial_cmp", "fmt", "drop"}
_TRANSLATED = None
def is_translated(path, head, name):
    """is `fn name` of the impl with this header re-read by some lemma (as an entry, an inlined associated function or a helper method)?"""
    global _TRANSLATED
    if _TRANSLATED is None:
        _TRANSLATED = set()
        for es in ENTRIES.values():
            for e_ in es:
                if e_.get("select") is None: _TRANSLATED.add((e_["file"], e_["impl"], e_["fn"]))      # a loop-only entry does not cover the function
                for fd in (e_.get("fns") or {}).values():
                    if not callable(fd): _TRANSLATED.add((fd[0], fd[1], fd[2]))
                for mname, md in list((e_.get("methods") or {}).items()) + [(k_[1], v_) for k_, v_ in (e_.get("class_methods") or {}).items()]:
                    _TRANSLATED.add((md[0], md[1], mname))
    for f_, rx_, fn_ in _TRANSLATED:
        if f_ == path and fn_ == name:
            try:
                if re.search(rx_, head + " {"): return True
            except re.error: pass
    return False
def file_inventory(path, whole_text=False):
    """trait-impl headers, imports, and every function that is an ENTRY POINT: all fns of trait impls (also overrides of provided
    methods such as Iterator::nth), `pub fn`s of inherent impls, and inherent fns of any visibility whose name is that of a trait
    method of the library (they shadow the trait method in method-call syntax); private helper fns are NOT part of it.  Also the
    text of every debug_assert! (ignored by the translator, but a panic in debug builds).  For the tiny traits crate the whole
    normalised text is pinned."""
    from rs2coq import strip_comments as _sc, balanced as _bal
    txt = _sc(open(path).read()).split("#[cfg(test)]")[0]
    norm = lambda t: " ".join(t.split())
    impls = sorted(norm(m.group(0)) for m in re.finditer(r"\bimpl\b[^{;]*?\bfor\b[^{;]*?(?=\{)", txt))
    uses = sorted(norm(m.group(0)) for m in re.finditer(r"^\s*(?:pub\s+)?(?:use|mod|extern crate)\b[^;{]*(?:\{[^}]*\})?[^;]*;", txt, re.M))
    uses += sorted(norm(m.group(0)) for m in re.finditer(r"#!?\[(?:path\b|cfg_attr\([^\]]*\bpath\b)[^\]]*\]", txt))       # module path overrides
    entry = []
    import hashlib as _hl
    for m in re.finditer(r"\bimpl\b[^{;]*?(?=\{)", txt):
        head = norm(m.group(0)); is_trait = bool(re.search(r"\bfor\b", head))
        try:
            blk = _bal(txt, m.end())
        except Exception:
            continue
        depth = 0; i = 0
        for fm in re.finditer(r"[{}]|(?:\bpub(?:\([a-z]+\))?\s+)?(?:unsafe\s+)?(?:const\s+)?fn\s+(\$?[A-Za-z_][A-Za-z0-9_]*)", blk):
            tok = fm.group(0)
            if tok == "{": depth += 1
            elif tok == "}": depth -= 1
            elif depth == 1:
                name = fm.group(1); public = tok.lstrip().startswith("pub")
                if is_trait or public or name in TRAIT_METHOD_NAMES or name.startswith("$"):
                    # an entry point whose body no lemma re-reads (Default / From / Debug impls, accessors, ..): its text is pinned
                    tag = ""
                    if not is_translated(path, head, name):
                        try:
                            j_ = blk.index("(", fm.start()); pt_ = _bal(blk, j_, "(", ")")
                            rest_ = blk[j_ + len(pt_):]; semi_ = rest_.find(";"); br_ = rest_.find("{")
                            body_ = "" if (br_ < 0 or 0 <= semi_ < br_) else _bal(rest_, br_)
                            tag = " #" + _hl.sha256(norm(pt_ + body_).encode()).hexdigest()[:12]
                        except Exception: tag = " #?"
                    entry.append("%s :: %s%s%s" % (head, "pub " if public else "", name, tag))
    dbg = sorted(norm(m.group(0)) for m in re.finditer(r"\bdebug_assert(?:_eq|_ne)?!\s*\((?:[^()]|\((?:[^()]|\([^()]*\))*\))*\)", txt))
    # macros: every macro_rules! definition (its name; impls and fns inside its body are seen by the scans above, `$name`
    # placeholders included) and every item-level invocation; conditional compilation: every cfg / cfg_attr attribute and cfg!()
    import hashlib as _hl
    macros = []
    for m in re.finditer(r"\bmacro_rules!\s*([A-Za-z_][A-Za-z0-9_]*)\s*(?=[\{\(\[])", txt):
        macros.append("macro_rules! %s" % m.group(1))
    for m in re.finditer(r"(?m)^[ \t]*((?:[A-Za-z_][A-Za-z0-9_]*::)*[A-Za-z_][A-Za-z0-9_]*)!\s*(?=[\{\(\[])", txt):
        if m.group(1) in ("macro_rules", "debug_assert", "debug_assert_eq", "debug_assert_ne", "assert", "assert_eq", "assert_ne", "unreachable", "panic", "matches", "vec", "println", "write", "format"): continue
        if m.start() > 0 and txt[:m.start()].rstrip()[-1:] not in ("", ";", "}", "]"): continue        # expression position
        o_ = txt[m.end()]
        try: args_ = norm(_bal(txt, m.end(), o_, {"{": "}", "(": ")", "[": "]"}[o_]))
        except Exception: args_ = "?"
        macros.append("%s! %s" % (m.group(1), args_ if len(args_) <= 160 else "#" + _hl.sha256(args_.encode()).hexdigest()[:16]))
    cfgs = []
    for m in re.finditer(r"#!?\[\s*cfg(?:_attr)?\b|\bcfg!\s*\(", txt):
        j_ = txt.index("[", m.start()) if txt[m.start()] == "#" else m.end() - 1
        try: cfgs.append(norm(txt[m.start():j_] + _bal(txt, j_, txt[j_], "]" if txt[j_] == "[" else ")")))
        except Exception: cfgs.append("?")
    inv = {"trait_impls": impls, "use_and_mod": uses, "reset_mut_overrides": len(re.findall(r"\bfn\s+reset_mut\b", txt)), "entry_fns": sorted(entry), "debug_asserts": dbg,
           "macros": sorted(macros), "cfg": sorted(cfgs)}
    if whole_text:
        import hashlib
        inv["text_sha256"] = hashlib.sha256(norm(txt).encode()).hexdigest()
    return inv
TRAITS_FILES = [REPO + "/crates/traits/src/" + f_ for f_ in ("lib.rs", "filter.rs", "source.rs", "sink.rs", "finalize.rs")]
def build_inventory():
    """what decides HOW the sources are compiled: section headers of the workspace manifest, the [dependencies] / [features]
    tables of every crate manifest, and the presence of files that change a build behind the sources' back"""
    norm = lambda t: " ".join(t.split())
    inv = {"workspace_sections": re.findall(r"(?m)^\s*(\[[^\]]+\])", open(REPO + "/Cargo.toml").read()),
           # every line of the workspace manifest (comments stripped): a `path = ..` added to a [workspace.dependencies] entry swaps the
           # code behind an unchanged `use` line for every crate AND for the harness, which inherits the workspace's requirements
           "workspace_manifest_lines": [norm(re.sub(r"#.*$", "", l_)) for l_ in open(REPO + "/Cargo.toml").read().split("\n") if norm(re.sub(r"#.*$", "", l_))]}
    inv["vendored_dirs"] = sorted(d_ for d_ in os.listdir(REPO) if os.path.isdir(os.path.join(REPO, d_)) and d_ not in ("crates", "target", ".git", ".github") and not d_.startswith("."))
    for c_ in sorted(os.listdir(REPO + "/crates")):
        mf = os.path.join(REPO, "crates", c_, "Cargo.toml")
        if not os.path.isfile(mf): continue
        txt = open(mf).read()
        secs = re.split(r"(?m)^(?=\[)", txt)
        inv["crate:" + c_] = sorted(norm(re.sub(r"(?m)#.*$", "", x_)) for x_ in secs if re.match(r"\[(?:dependencies|features|build-dependencies|target\.|lib|patch|replace|profile)", x_))
    from rs2coq import strip_comments as _sc
    for c_ in sorted(os.listdir(REPO + "/crates")):        # module structure, feature gates and re-exports of every crate root
        lib = os.path.join(REPO, "crates", c_, "src", "lib.rs")
        if os.path.isfile(lib):
            txt = _sc(open(lib).read())
            inv["lib:" + c_] = [norm(m.group(0)) for m in re.finditer(r"(?:#!?\[[^\]]*\]\s*)*(?:pub\s+)?(?:use|mod|extern crate)\b[^;{]*(?:\{[^}]*\})?[^;]*;|#!\[[^\]]*\]", txt)]
    inv["extra_build_files"] = sorted(f_ for f_ in [".cargo/config.toml", ".cargo/config", "rust-toolchain", "rust-toolchain.toml", "build.rs"] + ["crates/%s/build.rs" % c_ for c_ in os.listdir(REPO + "/crates")]
                                      if os.path.exists(os.path.join(REPO, f_)))
    return inv
def files_of(pid):
    fs = {e_["file"] for e_ in ENTRIES.get(pid, [])} | {a_["file"] for a_ in ASSERTS.get(pid, []) if a_.get("file")}
    for e_ in ENTRIES.get(pid, []):      # files whose functions are executed inline (associated functions, helper methods, inner filters)
        for fd in (e_.get("fns") or {}).values():
            if not callable(fd): fs.add(fd[0])
        for md in list((e_.get("methods") or {}).values()) + list((e_.get("class_methods") or {}).values()): fs.add(md[0])
        for sn in e_.get("subs", []) or []:
            for es in ENTRIES.values():
                for se in es:
                    if se["name"] == sn or se.get("cls") == sn: fs.add(se["file"])
    fs = {f_ for f_ in fs if f_.startswith(REPO) and f_.endswith(".rs")}
    for f_ in sorted(fs):       # the module roots above a translated file (classify.rs above classify/slopes.rs): items and macros there
        d_ = os.path.dirname(f_)   # can add impls and inherent methods to the types of the file
        while os.path.basename(d_) != "src" and len(d_) > len(REPO):
            for cand in (d_ + ".rs", os.path.join(d_, "mod.rs")):
                if os.path.isfile(cand): fs.add(cand)
            d_ = os.path.dirname(d_)
    return sorted(fs)
def crate_of(f_): return f_[len(REPO):].split("/")[2] if f_.startswith(REPO + "/crates/") else None
def crate_surface(crate):
    """names only (no body hashes): trait impls, entry-point functions and macros of EVERY source file of the crate - an inherent
    `filter` for Threshold can be added in identity.rs, a shadowing method for Convolve in any file of its crate"""
    out = {}
    base = os.path.join(REPO, "crates", crate, "src")
    for r_, _, fs_ in os.walk(base):
        for x_ in sorted(fs_):
            if not x_.endswith(".rs"): continue
            p_ = os.path.join(r_, x_)
            try: fi = file_inventory(p_)
            except Exception as e_: out[p_[len(REPO):]] = {"error": str(e_)[:80]}; continue
            out[p_[len(REPO):]] = {"trait_impls": fi["trait_impls"], "entry_fns": sorted({re.sub(r" #[0-9a-f?]+$", "", x) for x in fi["entry_fns"]}), "macros": [m_.split(" #")[0] for m_ in fi["macros"]]}
    return out
def write_inventory():
    import json
    inv = {}
    for pid in sorted(set(ENTRIES) | set(ASSERTS)):
        for f_ in files_of(pid): inv[f_[len(REPO):]] = file_inventory(f_)
    for f_ in TRAITS_FILES: inv[f_[len(REPO):]] = file_inventory(f_, whole_text=True)
    inv["/build"] = build_inventory()
    for c_ in sorted(os.listdir(REPO + "/crates")):
        if os.path.isdir(os.path.join(REPO, "crates", c_, "src")): inv["/surface:" + c_] = crate_surface(c_)
    eff = {}
    for pid in sorted(ENTRIES):
        for ent in ENTRIES[pid]:
            translate_entry(ent); eff[pid + "/" + ent["name"]] = sorted(ent.get("_effects") or [])
    inv["/effects"] = eff
    json.dump(inv, open(INVENTORY_FILE, "w"), indent=0, sort_keys=True)
    print("inventory of %d files written to %s" % (len(inv), INVENTORY_FILE))
EFFECTS = {}
def inventory_asserts():
    import json
    if not os.path.exists(INVENTORY_FILE): return
    inv = json.load(open(INVENTORY_FILE))
    EFFECTS.update(inv.get("/effects") or {})
    for pid in sorted(set(ENTRIES) | set(ASSERTS)):
        ASSERTS.setdefault(pid, []).append(dict(name="build_configuration", file=REPO + "/Cargo.toml", build=inv.get("/build"),
            message="the build configuration differs from the audited one (workspace manifest sections, a crate's [dependencies]/[features], the module structure / feature gates / re-exports of a crate root, or a new .cargo/config, rust-toolchain or build.rs)"))
        for c_ in sorted({crate_of(f_) for f_ in files_of(pid)} - {None}):
            ASSERTS.setdefault(pid, []).append(dict(name="crate_surface_" + c_, file=REPO + "/crates/%s/Cargo.toml" % c_, surface=(c_, inv.get("/surface:" + c_)),
                message="the trait impls / entry-point functions / macros of some file of crate %s differ from the audited ones" % c_))
        for f_ in files_of(pid) + TRAITS_FILES:
            rel = f_[len(REPO):]
            ASSERTS.setdefault(pid, []).append(dict(name="api_surface_" + rel.replace("/crates/", "").replace("/src/", "_").replace("/", "_").replace(".rs", ""),
                                                     file=f_, inventory=inv.get(rel), message="the trait impls / entry-point functions / imports / debug assertions / macros / cfg attributes of %s differ from the audited inventory" % rel))
inventory_asserts()

# ---- constants compiled into macro invocations ---------------------------------------------------------
CONSTS = {"C18": [dict(name="hampel_factor", file=F + "hampel.rs", regex=r"impl_hampel_filter!\(\s*(f32|f64)\s*=>\s*([0-9][0-9_]*\.[0-9_]*)\s*\)", expect=2,
                       lemma="From Coq Require Import QArith Qcanon.\nFrom Signalo Require Import Model.Hampel.\nLemma hampel_factor_%(k)s : Q2Qc (%(q)s) = mad_factor.\nProof. apply Qc_is_canon. reflexivity. Qed.\n")]}


# ------------------------------------------------------------------------------------------------ generation
def sig_names(params_txt):
    """names bound by the parameters of a method signature, in order, `self` excluded, tuple patterns flattened
    (parameters are bound by POSITION, so renaming one in the source is harmless)"""
    from rs2coq import lex
    toks = lex(params_txt); names = []; depth = 0; i = 0; in_type = False
    while i < len(toks):
        k, v_ = toks[i]
        if v_ in ("(", "[", "<"): depth += 1
        elif v_ in (")", "]", ">"): depth -= 1
        elif v_ == "," and depth == 0: in_type = False
        elif v_ == ":" and depth == 0: in_type = True
        elif not in_type and k == "ident" and v_ not in ("mut", "ref", "self", "_"):
            if not (i + 1 < len(toks) and toks[i + 1][1] == "::"): names.append(v_)
        i += 1
    return names


def method_def(file_, impl, fn):
    body, ptxt = find_method(open(file_).read(), impl, fn)
    return parse_body(body), sig_names(ptxt)


def run_case(ent, case, body_ast, params_txt, assume=None):
    subs = {}
    for sname in ent.get("subs", []):
        for se in (e for es in ENTRIES.values() for e in es if e["name"] == sname or e.get("cls") == sname):
            if se.get("select"): continue
            mdef = method_def(se["file"], se["impl"], se["fn"])
            if se["name"] == sname: subs[sname] = mdef
            if se.get("cls") == sname: subs[(sname, se["fn"])] = mdef
    if ent.get("cls"):      # calls of the receiver's own (translated) methods
        for se in (e for es in ENTRIES.values() for e in es if e.get("cls") == ent["cls"] and (e["name"] != ent["name"] or ent.get("recursive"))):
            if se.get("select"): continue
            subs[(ent["cls"], se["fn"])] = method_def(se["file"], se["impl"], se["fn"])
    prims = dict(ent.get("prims") or {}); prims.update(case.get("prims") or {})
    sym = Sym(prims=prims, divmode=ent.get("divmode", "total"), subs=subs)
    for fname, fd in (ent.get("fns") or {}).items():
        if callable(fd):
            sym.fns[fname] = fd; continue
        ffile, fimpl, ffn, fparams = fd[:4]
        sym.fns[fname] = method_def(ffile, fimpl, ffn) + tuple(fd[4:5])
        if len(sym.fns[fname][1]) != len(fparams): raise Unsupported("%s takes %d parameters, %d expected" % (fname, len(sym.fns[fname][1]), len(fparams)))
    sym.world = ent.get("world")
    sym.opaque_lets = ent.get("opaque_lets") or {}
    sym.case = case
    helper_files = [ent["file"]] + sorted({se["file"] for sn in ent.get("subs", []) for es in ENTRIES.values() for se in es if se["name"] == sn or se.get("cls") == sn})
    def find_helper(name):
        """`self.name(..)` / `Self::name(..)` where `name` is not a listed method: a private helper `fn name` of the same file
        (or of the file of an inner filter whose body is being executed)"""
        for _file in helper_files:
            txt = _R.strip_comments(open(_file).read()).split("#[cfg(test)]")[0]
            m = re.search(r"\bfn\s+%s\s*(<[^>]*>)?\s*\(" % re.escape(name), txt)
            if not m: continue
            j = txt.index("(", m.start()); ptxt = _R.balanced(txt, j, "(", ")"); k = txt.index("{", j + len(ptxt))
            return parse_body(_R.balanced(txt, k)), sig_names(ptxt[1:-1])
        return None
    sym.find_helper = find_helper
    sym.entry_fn = ent["fn"]
    for gname, gval in list((ent.get("locals") or {}).items()):
        if gname[:1].isupper(): sym.global_env.vars[gname] = gval
    sym.case_fuel = case.get("fuel", 1)
    for mname, (mfile, mimpl, mparams) in (ent.get("methods") or {}).items():      # helper methods of the receiver's own class
        sym.subs[(ent["cls"], mname)] = method_def(mfile, mimpl, mname)
        if len(sym.subs[(ent["cls"], mname)][1]) != len(mparams): raise Unsupported("%s takes %d parameters, %d expected" % (mname, len(sym.subs[(ent["cls"], mname)][1]), len(mparams)))
    for (ccls, cname), (cfile, cimpl, cparams) in (ent.get("class_methods") or {}).items():
        sym.subs[(ccls, cname)] = method_def(cfile, cimpl, cname)
    sym.loop_summary = ent.get("loop_summary")
    sym.while_handler = ent.get("while_handler")
    if isinstance(ent.get("select"), tuple):          # ("while", k) / ("for", k): only the k-th loop statement of that kind
        kind, kth = ent["select"]
        found = [st_[1] for st_ in body_ast[1] if st_[0] == "expr" and st_[1][0] == kind] + ([body_ast[2]] if body_ast[2] is not None and body_ast[2][0] == kind else [])
        def deep(node, acc):
            if isinstance(node, tuple):
                if node and (node[0] == kind or (kind == "while" and node[0] in ("whilelet", "loop"))): acc.append(node)
                for x_ in node: deep(x_, acc)
            elif isinstance(node, list):
                for x_ in node: deep(x_, acc)
            return acc
        found = deep(body_ast, [])
        def self_calls(node, acc):
            if isinstance(node, tuple):
                if node and node[0] == "mcall" and node[1] == ("path", ["self"]): acc.append(node[2])
                for x_ in node: self_calls(x_, acc)
            elif isinstance(node, list):
                for x_ in node: self_calls(x_, acc)
            return acc
        for hname in self_calls(body_ast, []):                       # loops that were moved into a private helper, in call order
            h = find_helper(hname)
            if h is not None: found = found + deep(h[0], [])
        if kth >= len(found): raise Unsupported("the body has only %d `%s` loops" % (len(found), kind))
        def contains(node, target):
            if node is target: return True
            if isinstance(node, (tuple, list)): return any(contains(x_, target) for x_ in node)
            return False
        def find_block(node, target, acc):
            """the pure `let` statements of every block that encloses the selected loop, up to the statement that contains it"""
            if node is target: return acc
            if isinstance(node, tuple) and node and node[0] == "block":
                items = list(node[1]) + ([("expr", node[2])] if node[2] is not None else [])
                for i_, st_ in enumerate(items):
                    if contains(st_, target):
                        return find_block(st_, target, acc + [x_ for x_ in items[:i_] if x_[0] == "let" and not _R.effectful(x_[2])])
                return None
            if isinstance(node, (tuple, list)):
                for x_ in node:
                    if contains(x_, target): return find_block(x_, target, acc)
            return None
        pre = find_block(body_ast, found[kth], []) or []
        pre = [x_ for x_ in pre if not (x_[1][0] == "pid" and x_[1][1] in (ent.get("locals") or {}) or x_[1][0] == "pid" and x_[1][1] in (case.get("locals") or {}))]
        body_ast = found[kth][3] if (ent.get("unwrap_for") and kind == "for") else ("block", pre + [("expr", found[kth])], None)
    if assume is not None: sym.assume = list(assume)
    sym.curbuf = ent.get("curbuf")
    if ent.get("select") == "for_body":
        fors = [st_[1] for st_ in body_ast[1] if st_[0] == "expr" and st_[1][0] == "for"] + ([body_ast[2]] if body_ast[2] is not None and body_ast[2][0] == "for" else [])
        if len(fors) != 1: raise Unsupported("expected exactly one for loop in the body, found %d" % len(fors))
        if ent.get("loop_var") and fors[0][1] != ("pid", ent["loop_var"]): raise Unsupported("the loop variable is not `%s`" % ent["loop_var"])
        body_ast = fors[0][3]
    env = Env()
    selfv = case["self"]
    if selfv[0] == "struct" and "__sub" not in selfv[1]:
        d = dict(selfv[1]); d["__sub"] = ("mark", ent.get("cls") or ("own:" + ent["name"])); selfv = ("struct", d)
    env.vars["self"] = selfv
    sym.self0 = [selfv]
    src_names = sig_names(params_txt) if not ent.get("select") else list(ent["params"].keys())
    if len(src_names) != len(ent["params"]): raise Unsupported("the method takes %d parameters (%s), %d expected" % (len(src_names), " ".join(src_names), len(ent["params"])))
    for (name, val), sname in zip(ent["params"].items(), src_names):
        env.vars[sname] = (case.get("params") or {}).get(name, val)
    for name, val in list((ent.get("locals") or {}).items()) + list((case.get("locals") or {}).items()):
        env.vars[name] = val
    from rs2coq import Return
    from rs2coq import Panics
    try:
        ret = sym.block(body_ast, env)
    except Return as r:
        ret = r.value
    except Panics as pe:
        pe.sym = sym
        raise
    sym.final_env = env
    if ent.get("roundtrip"):
        fast, fparams = sym.fns["Self::from_guts"][:2]
        inner = Env(); inner.vars[fparams[0]] = ret
        try:
            ret = sym.block(fast, inner)
        except Return as r:
            ret = r.value
    return sym, env.get("self") if "self" in env.vars else ("unit",), ret


def opt_path(vv, path):
    """lookup with `?` meaning 'inside the Some'"""
    from rs2coq import lookup
    for f in path:
        if f == "?":
            if vv[0] != "opt" or vv[1] is None: raise Unsupported("expected Some(_) in the result")
            vv = vv[1]
        elif f.isdigit() and vv[0] in ("tuple", "array"):
            vv = vv[1][int(f)]
        else:
            vv = lookup(vv, [f])
    return vv


def fill2(template, selfv, ret, sym=None):
    from rs2coq import coq_V
    if sym is not None and sym.world is not None: template = template.replace("{world}", sym.world)
    if sym is not None and getattr(sym, "final_env", None) is not None:
        template = re.sub(r"\{local\.([A-Za-z0-9_]+)\}", lambda m: coq_V(sym.final_env.vars[m.group(1)]), template)
    def rep(m):
        parts = m.group(1).split(".")
        base = ret if parts[0] == "ret" else selfv
        val = opt_path(base, parts[1:])
        return coq_V(val)
    return re.sub(r"\{((?:ret|self)(?:\.[A-Za-z0-9_?]+)*)\}", rep, template)


def binders(vs):
    """`a b c` -> all of type T;  text starting with `(` is taken as it is"""
    vs = vs.strip()
    if not vs: return ""
    return " " + vs if vs.startswith("(") else " (%s : T)" % vs


def lemma_text(ent, idx, case, sym, selfv, ret):
    rhs = ent["render"](sym, selfv, ret, case) if (ent.get("render") and "rhs" not in case) else fill2(case.get("rhs", ent["rhs"]), selfv, ret, sym)
    dyn = "".join(" (%s : %s)" % nv for nv in sym.dyn_vars)
    binder = "%s%s%s, " % (ent.get("header", "forall (T : Type) (A : arith T)"), binders(case["vars"]), dyn)
    name = "%s_case%s" % (ent["name"], idx)
    head = case["lhs"].split()[0].lstrip("@")
    from rs2coq import coq_V
    pushed = getattr(sym, "pushed", [])
    hyps = [h.replace("{pushed1}", coq_V(pushed[1]) if len(pushed) > 1 else "?") for h in case.get("hyps", [])] + list(sym.dyn_hyps)
    prem = "".join("%s -> " % h for h in hyps)
    script = ("intros. unfold %s%s. cbn [fst snd obind]. repeat (match goal with H : _ = _ |- _ => rewrite H; clear H; cbn [fst snd obind] end). reflexivity."
              % (", ".join([head] + ent.get("unfold", [])), ", acdiv" if ent.get("divmode") == "checked" else ""))
    if ent.get("divmode") == "checked" and sym.divs:
        out = []
        dh = "".join("adivz A %s = false -> " % coq_T(d) for d in sym.divs)
        out.append("Lemma %s : %s%s%s%s = Some %s.\nProof. %s Qed.\n" % (name, binder, prem, dh, case["lhs"], rhs, script))
        for k, d in enumerate(sym.divs):
            pre = "".join("adivz A %s = false -> " % coq_T(e) for e in sym.divs[:k])
            out.append("Lemma %s_div%d_panics : %s%s%sadivz A %s = true -> %s = None.\nProof. %s Qed.\n" % (name, k, binder, prem, pre, coq_T(d), case["lhs"], script))
        return "".join(out), 1 + len(sym.divs)
    if ent.get("script") and not case.get("script"):
        return "Lemma %s : %s%s%s = %s.\nProof. %s Qed.\n" % (name, binder, prem, case["lhs"], rhs, ent["script"]), 1
    if case.get("script"):
        return "Lemma %s : %s%s%s = %s.\nProof. %s Qed.\n" % (name, binder, prem, case["lhs"], rhs, case["script"]), 1
    if hyps:
        return "Lemma %s : %s%s%s = %s.\nProof. %s Qed.\n" % (name, binder, prem, case["lhs"], rhs, script), 1
    return "Lemma %s : %s%s = %s.\nProof. intros. reflexivity. Qed.\n" % (name, binder, case["lhs"], rhs), 1


def vars_plain(vs):
    return " ".join(re.findall(r"[A-Za-z_][A-Za-z0-9_]*", re.sub(r":\s*N", "", vs)))


def translate_entry(ent):
    src = open(ent["file"]).read()
    body_txt, params_txt = find_method(src, ent["impl"], ent["fn"])
    # parameters are bound by position (run_case): a renamed parameter is harmless, a changed arity is a translation failure
    ast = parse_body(body_txt)
    text = ["(* generated by translator/bodies.py from %s (%s::%s) -- do not edit *)\n" % (ent["file"], ent["impl"], ent["fn"]),
            "From Coq Require Import NArith List.\nImport ListNotations.\nFrom Signalo Require Import Base.Arith Base.Opt Base.Machine Model.Generic %s.\n%s" % (ent.get("imports", ""), ent.get("preamble", ""))]
    count = 0
    eff = ent["_effects"] = set()
    def note(sym_, selfv_, ret_):
        eff.update(sym_.effects)
        oc_ = getattr(sym_, "opcount", {})
        if oc_: eff.add("sample arithmetic evaluated on one path: " + " ".join("%s x%d" % (k_, oc_[k_]) for k_ in sorted(oc_)))
        # which value is the clone only matters for the pass-through components (sources, pipes, the caching wrappers): they hand on
        # the caller's items themselves; the numeric filters compute new values from theirs
        if ent.get("pid") in ("C01", "C10") or ent["name"].startswith("cache_") or ent["name"].startswith("unit_"):
          eff.update("the clone (not the original) ends up at " + p_ for p_ in _R.clone_paths(ret_, "ret", []) + _R.clone_paths(selfv_, "self", []))
    for i, case in enumerate(ent["cases"]):
        if "lhs_self_template" in case: case = dict(case, lhs="(%s)" % fill2(case["lhs_self_template"], case["self"], ("unit",)))
        if not ent.get("split"):
            sym, selfv, ret = run_case(ent, case, ast, params_txt)
            t, k = lemma_text(ent, i, case, sym, selfv, ret)
            text.append(t); count += k; note(sym, selfv, ret)
            continue
        # path-splitting: one lemma per execution path; the branch outcomes are hypotheses of the lemma
        from rs2coq import NeedAssumption, Panics
        stack = [[]]; npaths = 0
        while stack:
            vec = stack.pop()
            try:
                sym, selfv, ret = run_case(ent, case, ast, params_txt, assume=vec)
            except NeedAssumption:
                stack.append(vec + [False]); stack.append(vec + [True])
                if len(vec) > 12: raise Unsupported("more than 12 nested symbolic tests on one path")
                continue
            except Panics as pe:
                sym = pe.sym
                t, k = lemma_text(ent, "%d_p%s_panics" % (i, "".join("t" if b else "f" for b in vec) or "0"), dict(case, rhs="None"), sym, ("unit",), ("unit",))
                text.append(t); count += k; npaths += 1
                continue
            t, k = lemma_text(ent, "%d_p%s" % (i, "".join("t" if b else "f" for b in vec) or "0"), case, sym, selfv, ret)
            text.append(t); count += k; npaths += 1; note(sym, selfv, ret)
            if npaths > 200: raise Unsupported("more than 200 paths")
    return "".join(text), count


def regenerate(pid, ROOT, BUILD):
    """-> (ok, info) in the shape of tables.regenerate"""
    COQ = os.path.join(ROOT, "coq")
    gen = os.path.join(BUILD, "gen", pid + "_bodies")
    shutil.rmtree(gen, ignore_errors=True); os.makedirs(gen)
    info = {"obligations": 0, "discharged": 0, "failed": [], "bodies": {}}
    files = []
    for ent in ENTRIES.get(pid, []):
        name = ent["name"]
        try:
            text, count = translate_entry(ent)
        except Exception as e:      # anything the translator cannot digest (also a crash on an unexpected shape) is a failed obligation
            info["obligations"] += 1
            info["failed"].append(name)
            info.setdefault("logs", {})[name] = "translation failed: %s%s" % ("" if isinstance(e, Unsupported) else type(e).__name__ + ": ", e)
            info["bodies"][name] = "untranslatable"
            continue
        f = os.path.join(gen, "Body_%s.v" % name)
        open(f, "w").write(text)
        files.append((name, f, count))
        info["bodies"][name] = count
        # effect signature (source assertion): which of the returned / stored values is a clone, and which receiver fields are
        # already written when an abstract component (that may panic) is called -- must be the audited one
        aud = EFFECTS.get(pid + "/" + name)
        cur = sorted(ent.get("_effects") or [])
        info["obligations"] += 1
        if aud is not None and cur == aud: info["discharged"] += 1
        else:
            info["failed"].append(name + "_effects")
            info.setdefault("logs", {})[name + "_effects"] = "source assertion failed: the effect signature of %s::%s differs from the audited one: now [%s], audited [%s]" % (
                ent["impl"], ent["fn"], "; ".join(cur), "no record" if aud is None else "; ".join(aud))
        info["bodies"][name + "_effects"] = "assertion" if aud is not None and cur == aud else "assertion FAILED"
    for c in CONSTS.get(pid, []):
        try:
            import tables
            found = re.findall(c["regex"], tables.strip_comments(open(c["file"]).read()))
            if len(found) != c["expect"]: raise Unsupported("expected %d macro invocations, found %d" % (c["expect"], len(found)))
            text = "".join(c["lemma"] % dict(k=k, q=tables.lit_to_q(lit)) for k, lit in found)
        except (Unsupported, OSError, ValueError) as e:
            info["obligations"] += 1; info["failed"].append(c["name"]); info.setdefault("logs", {})[c["name"]] = "translation failed: %s" % (e,); continue
        f = os.path.join(gen, "Const_%s.v" % c["name"])
        open(f, "w").write(text)
        files.append((c["name"], f, c["expect"])); info["bodies"][c["name"]] = c["expect"]
    for a in ASSERTS.get(pid, []):
        info["obligations"] += 1
        try:
            import tables
            txt = tables.strip_comments(open(a["file"]).read()) if False else open(a["file"]).read()
            if a.get("strip"):
                from rs2coq import strip_comments as _sc
                txt = _sc(txt).split("#[cfg(test)]")[0]
            if "build" in a:
                cur_ = build_inventory()
                ok_inv = a["build"] is not None and cur_ == a["build"]
                if not ok_inv and a["build"] is not None:
                    a = dict(a, message=a["message"] + ": " + " | ".join("%s: %s (audited: %s)" % (k_, str(cur_.get(k_))[:150], str(a["build"].get(k_))[:150]) for k_ in sorted(set(cur_) | set(a["build"])) if cur_.get(k_) != a["build"].get(k_))[:700])
            elif "surface" in a:
                cur_ = crate_surface(a["surface"][0]); aud_ = a["surface"][1]
                ok_inv = aud_ is not None and cur_ == aud_
                if not ok_inv and aud_ is not None:
                    diff_ = []
                    for f_ in sorted(set(cur_) | set(aud_)):
                        if cur_.get(f_) == aud_.get(f_): continue
                        if f_ not in aud_: diff_.append("new file " + f_); continue
                        if f_ not in cur_: diff_.append("file gone " + f_); continue
                        for k_ in ("trait_impls", "entry_fns", "macros"):
                            diff_ += ["%s: + %s" % (f_, x_) for x_ in cur_[f_].get(k_, []) if x_ not in aud_[f_].get(k_, [])] + ["%s: - %s" % (f_, x_) for x_ in aud_[f_].get(k_, []) if x_ not in cur_[f_].get(k_, [])]
                    a = dict(a, message=a["message"] + ": " + " | ".join(diff_)[:600])
            elif "inventory" in a:
                cur_ = file_inventory(a["file"], whole_text="text_sha256" in (a["inventory"] or {}))
                ok_inv = a["inventory"] is not None and cur_ == a["inventory"]
                if not ok_inv and a["inventory"] is not None:
                    diff_ = []
                    if cur_.get("text_sha256") != a["inventory"].get("text_sha256"): diff_.append("the text of this file of the traits crate changed")
                    for k_ in ("trait_impls", "use_and_mod", "entry_fns", "debug_asserts", "macros", "cfg"):
                        diff_ += ["+ " + x_ for x_ in cur_.get(k_, []) if x_ not in a["inventory"].get(k_, [])] + ["- " + x_ for x_ in a["inventory"].get(k_, []) if x_ not in cur_.get(k_, [])]
                    if cur_["reset_mut_overrides"] != a["inventory"]["reset_mut_overrides"]: diff_.append("fn reset_mut overrides: %d (audited: %d)" % (cur_["reset_mut_overrides"], a["inventory"]["reset_mut_overrides"]))
                    a = dict(a, message=a["message"] + ": " + " | ".join(diff_)[:600])
            else: ok_inv = True
            ok_ = ok_inv and all(re.search(rx, txt) for rx in a.get("must", [])) and not any(re.search(rx, txt) for rx in a.get("mustnot", [])) \
                  and all((len(re.findall(rx, txt)) if rx != "@NONTRIVIAL_UNSAFE" else
                           len(re.findall(r"\bunsafe\s*\{", txt)) - len(re.findall(r"\bunsafe\s*\{\s*self\s*\.\s*[A-Za-z_][A-Za-z0-9_]*\s*\([^(){}]*\)\s*;?\s*\}", txt))) == n_
                          for rx, n_ in (a.get("counts") or {}).items())
        except OSError:
            ok_ = False
        if ok_: info["discharged"] += 1
        else:
            info["failed"].append(a["name"]); info.setdefault("logs", {})[a["name"]] = "source assertion failed: " + a.get("message", "Clone is no longer (only) derived for this type in %s" % a["file"])
        info["bodies"][a["name"]] = "assertion" if ok_ else "assertion FAILED"
    def coqc(nf):
        p = subprocess.run(["coqc", "-noglob", "-Q", COQ, "Signalo", os.path.basename(nf[1])], cwd=gen, stdout=subprocess.PIPE, stderr=subprocess.STDOUT, text=True, timeout=600)
        return p.returncode == 0, p.stdout[-500:]
    with ThreadPoolExecutor(max_workers=16) as ex:
        for (name, f, count), (ok, log) in zip(files, ex.map(coqc, files)):
            info["obligations"] += count
            if ok: info["discharged"] += count
            else:
                info["failed"].append(name)
                info.setdefault("logs", {})[name] = log[-400:]
    return True, info


if __name__ == "__main__":
    import sys, json
    ROOT = os.path.dirname(os.path.dirname(os.path.abspath(__file__)))
    if sys.argv[1:] == ["--write-inventory"]:
        write_inventory(); sys.exit(0)
    for pid in (sys.argv[1:] or sorted(set(ENTRIES) | set(CONSTS) | set(ASSERTS))):
        ok, info = regenerate(pid, ROOT, os.path.join(ROOT, "build"))
        print(pid, json.dumps({k: info[k] for k in ("obligations", "discharged", "failed", "bodies")}), info.get("logs", ""))
