//! Shared plumbing: spec lines, PRNG, panic capture, Coq literal printing, shard writer.
use crate::rat::Rat;
use std::collections::BTreeMap;
use std::fmt::Write as _;
use std::panic::{catch_unwind, AssertUnwindSafe};

/// One case = one line `kind|k=v|k=v`. Generated, executed, replayed and shrunk in this form.
#[derive(Clone, Debug, PartialEq, Eq, Hash)]
pub struct Spec { pub kind: String, pub fields: Vec<(String, String)> }
impl Spec {
    pub fn new(kind: &str) -> Spec { Spec { kind: kind.to_string(), fields: vec![] } }
    pub fn with(mut self, k: &str, v: impl ToString) -> Spec { self.fields.push((k.to_string(), v.to_string())); self }
    pub fn line(&self) -> String {
        let mut s = self.kind.clone();
        for (k, v) in &self.fields { let _ = write!(s, "|{}={}", k, v); }
        s
    }
    pub fn parse(line: &str) -> Spec {
        let mut it = line.trim().split('|');
        let kind = it.next().unwrap().to_string();
        let fields = it.filter(|f| !f.is_empty()).map(|f| { let (k, v) = f.split_once('=').expect("field"); (k.to_string(), v.to_string()) }).collect();
        Spec { kind, fields }
    }
    pub fn get(&self, k: &str) -> &str { self.fields.iter().find(|(a, _)| a == k).map(|(_, v)| v.as_str()).unwrap_or_else(|| panic!("spec field {} missing in {}", k, self.line())) }
    pub fn has(&self, k: &str) -> bool { self.fields.iter().any(|(a, _)| a == k) }
    pub fn usize(&self, k: &str) -> usize { self.get(k).parse().unwrap() }
    pub fn i64(&self, k: &str) -> i64 { self.get(k).parse().unwrap() }
    pub fn u64(&self, k: &str) -> u64 { self.get(k).parse().unwrap() }
    pub fn rat(&self, k: &str) -> Rat { Rat::parse(self.get(k)) }
    pub fn i64s(&self, k: &str) -> Vec<i64> { let v = self.get(k); if v.is_empty() { vec![] } else { v.split(',').map(|x| x.parse().unwrap()).collect() } }
    pub fn rats(&self, k: &str) -> Vec<Rat> { let v = self.get(k); if v.is_empty() { vec![] } else { v.split(',').map(Rat::parse).collect() } }
    pub fn strs(&self, k: &str) -> Vec<String> { let v = self.get(k); if v.is_empty() { vec![] } else { v.split(',').map(|x| x.to_string()).collect() } }
}
pub fn join<T: ToString>(v: &[T]) -> String { v.iter().map(|x| x.to_string()).collect::<Vec<_>>().join(",") }
pub fn join_rats(v: &[Rat]) -> String { v.iter().map(|x| x.show()).collect::<Vec<_>>().join(",") }

/// splitmix64: the one PRNG, seeded from VERIF_SEED.
pub struct Rng(pub u64);
impl Rng {
    pub fn next(&mut self) -> u64 { self.0 = self.0.wrapping_add(0x9E3779B97F4A7C15); let mut z = self.0; z = (z ^ (z >> 30)).wrapping_mul(0xBF58476D1CE4E5B9); z = (z ^ (z >> 27)).wrapping_mul(0x94D049BB133111EB); z ^ (z >> 31) }
    pub fn below(&mut self, n: u64) -> u64 { if n == 0 { 0 } else { self.next() % n } }
    pub fn range(&mut self, lo: i64, hi: i64) -> i64 { lo + self.below((hi - lo + 1) as u64) as i64 }
    pub fn pick<'a, T>(&mut self, v: &'a [T]) -> &'a T { &v[self.below(v.len() as u64) as usize] }
    pub fn coin(&mut self, num: u64, den: u64) -> bool { self.below(den) < num }
}

pub fn quiet_panics() { std::panic::set_hook(Box::new(|_| {})); }
pub fn catch<R>(f: impl FnOnce() -> R) -> Result<R, String> {
    catch_unwind(AssertUnwindSafe(f)).map_err(|e| {
        if let Some(s) = e.downcast_ref::<&str>() { s.to_string() } else if let Some(s) = e.downcast_ref::<String>() { s.clone() } else { "panic".to_string() }
    })
}

// ---- Coq literals -------------------------------------------------------------------------
pub fn cq(r: &Rat) -> String { r.coq() }
pub fn cz(z: i64) -> String { if z < 0 { format!("({})", z) } else { format!("{}", z) } }
pub fn cz128(z: i128) -> String { if z < 0 { format!("({})", z) } else { format!("{}", z) } }
pub fn cbool(b: bool) -> &'static str { if b { "true" } else { "false" } }
pub fn clist<T>(v: &[T], f: impl Fn(&T) -> String) -> String { format!("[{}]", v.iter().map(f).collect::<Vec<_>>().join(";")) }
pub fn copt<T>(v: &Option<T>, f: impl Fn(&T) -> String) -> String { match v { Some(x) => format!("(Some {})", f(x)), None => "None".to_string() } }
pub fn cqlist(v: &[Rat]) -> String { clist(v, cq) }
pub fn czlist(v: &[i64]) -> String { clist(v, |z| cz(*z)) }
pub fn qi(z: i64) -> String { format!("({}#1)", z) }

/// Result of executing one spec on the implementation.
pub enum Outcome { Case(String), XCase(String), Skip(&'static str) }

#[derive(Default)]
pub struct Stats { pub hist: BTreeMap<String, u64>, pub skipped: BTreeMap<String, u64>, pub samples: Vec<String>, pub panics: u64 }
impl Stats { pub fn bump(&mut self, k: impl Into<String>) { *self.hist.entry(k.into()).or_insert(0) += 1; } }

pub fn json_str(s: &str) -> String {
    let mut o = String::from("\"");
    for c in s.chars() { match c { '"' => o.push_str("\\\""), '\\' => o.push_str("\\\\"), '\n' => o.push_str("\\n"), c if (c as u32) < 32 => { let _ = write!(o, "\\u{:04x}", c as u32); } c => o.push(c) } }
    o.push('"'); o
}
pub fn json_map(m: &BTreeMap<String, u64>) -> String { format!("{{{}}}", m.iter().map(|(k, v)| format!("{}:{}", json_str(k), v)).collect::<Vec<_>>().join(",")) }

/// all sequences of length `len` over `alphabet`
pub fn all_seqs<T: Clone>(alphabet: &[T], len: usize) -> Vec<Vec<T>> {
    let mut out = vec![vec![]];
    for _ in 0..len { let mut nxt = Vec::with_capacity(out.len() * alphabet.len()); for s in &out { for a in alphabet { let mut t = s.clone(); t.push(a.clone()); nxt.push(t); } } out = nxt; }
    out
}
/// `dispatch_n!(n, f, (args); 1 2 3)` calls `f::<N>(args)` for the run-time width n.
#[macro_export]
macro_rules! dispatch_n {
    ($n:expr, $f:ident, $args:tt; $($k:literal)*) => { match $n { $($k => $f::<$k> $args,)* _ => return Outcome::Skip("width-not-instantiated") } };
}
pub struct Prop { pub header: &'static str, pub generate: fn(&str, &mut Rng) -> Vec<Spec>, pub exec: fn(&Spec, &mut Stats) -> Outcome }
/// exact value of a finite f64
pub fn f64_exact(v: f64) -> Option<crate::rat::Rat> {
    if !v.is_finite() { return None; }
    if v == 0.0 { return Some(crate::rat::Rat::int(0)); }
    let bits = v.to_bits(); let sign = if bits >> 63 == 1 { -1i128 } else { 1 };
    let e = ((bits >> 52) & 0x7ff) as i64; let frac = (bits & ((1u64 << 52) - 1)) as i128;
    let (m, ex) = if e == 0 { (frac, -1074) } else { (frac | (1i128 << 52), e - 1075) };
    if ex >= 0 { if ex > 60 { return None; } Some(crate::rat::Rat::new(sign * m * (1i128 << ex), 1)) }
    else { if -ex > 120 { return None; } let mut m = m; let mut k = -ex; while k > 0 && m % 2 == 0 { m /= 2; k -= 1; } if k > 100 { return None; } Some(crate::rat::Rat::new(sign * m, 1i128 << k)) }
}

// ---- entry points other than construction ----------------------------------------------------------------
// A spec line with `via=reset|clonefrom` and `prex=<samples>`: the filter first consumes `prex`, is then brought back to its
// freshly constructed behaviour through `Reset::reset` / `Clone::clone_from(&fresh)`, and only then sees the case's inputs.
// The case is judged exactly like a fresh run: that a reset / overwritten filter IS a fresh one is C12 / C20, and the
// property's own clauses (first output, window contents, ...) must hold on that path too.  The driver publishes the two
// fields of the spec being executed in a thread-local so that the per-family runners need no extra parameters.
thread_local! { pub static ENTRY: std::cell::RefCell<Option<(String, Vec<String>)>> = std::cell::RefCell::new(None); }
thread_local! { pub static TAIL: std::cell::Cell<usize> = std::cell::Cell::new(0); }
/// with `tail=K` in the spec only the last K outputs are reported (the checkers that accept a suffix of the outputs compare and
/// judge exactly those; used by the 65 536-sample soak runs, whose specification check is otherwise quadratic)
pub fn tail_of<T>(mut v: Vec<T>) -> Vec<T> { let k = TAIL.with(|t| t.get()); if k > 0 && v.len() > k { v.drain(..v.len() - k); } v }
pub fn set_entry(s: &Spec) {
    TAIL.with(|t| t.set(if s.has("tail") { s.usize("tail") } else { 0 }));
    ENTRY.with(|e| *e.borrow_mut() = if s.has("via") && s.has("prex") { Some((s.get("via").to_string(), s.strs("prex"))) } else { None });
}
pub fn enter<F: signalo_traits::Reset + Clone>(f: F, stats: &mut Stats, feed: impl Fn(&mut F, &str)) -> F {
    let entry = ENTRY.with(|e| e.borrow().clone());
    let (via, pre) = match entry { Some(x) => x, None => return f };
    stats.bump(format!("via:{}", via));
    let fresh = f.clone();
    let mut g = f;
    for tok in &pre { let _ = catch(|| feed(&mut g, tok)); }
    match via.as_str() { "reset" => g.reset(), "clonefrom" => { g.clone_from(&fresh); g } _ => g }
}
/// adds, for a share of the generated specs of the given kinds, copies that enter through reset / clone_from after a history
pub fn add_entry_points(v: Vec<Spec>, rng: &mut Rng, kinds: &[&str], every: u64, pre: impl Fn(&mut Rng) -> String) -> Vec<Spec> {
    let mut out = Vec::with_capacity(v.len() + v.len() / every as usize * 2 + 8);
    let mut firsts: std::collections::BTreeSet<String> = Default::default();
    for s in v {
        let injected = ["c0", "cov0", "v0", "shift", "split"].iter().any(|k| s.has(k) && s.get(k) != "0") || (s.has("pre") && !s.get("pre").is_empty());
        let eligible = kinds.contains(&s.kind.as_str()) && !injected && !s.has("via") && s.has("xs") && !s.get("xs").is_empty() && s.get("xs").len() < 600
            && !(s.has("ty") && ["clonefrom", "f64c", "f32c"].contains(&s.get("ty")));
        let first = eligible && firsts.insert(s.kind.clone() + if s.has("N") { s.get("N") } else { "" });
        if eligible && (first || rng.below(every) == 0) { for via in ["reset", "clonefrom"] { out.push(s.clone().with("via", via).with("prex", pre(rng))); } }
        out.push(s);
    }
    out
}
