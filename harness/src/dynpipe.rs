//! Boxing glue so that pipe *shapes* can be chosen at run time: every layer is the real
//! signalo_pipes::Pipe / UnitPipe (built with `Pipe::new` or the `|` operator), instantiated over
//! boxed stages; the leaves are real signalo filters/sources/sinks wrapped in a logging probe.
use signalo_filters::{delay::Delay, differentiate::Differentiate, integrate::Integrate};
use signalo_pipes::{pipe::Pipe, unit_pipe::UnitPipe};
use signalo_sinks::{collect::Collect, integrate::Integrate as SumSink, max::Max as MaxSink};
use signalo_sources::from_iter::FromIter;
use signalo_traits::{Filter, Finalize, Sink, Source};
use std::cell::RefCell;
use std::rc::Rc;

pub type Log = Rc<RefCell<Vec<(usize, i64)>>>;

pub trait FObj { fn f(&mut self, x: i64) -> i64; }
impl<T: Filter<i64, Output = i64>> FObj for T { fn f(&mut self, x: i64) -> i64 { self.filter(x) } }
pub struct DynF(Box<dyn FObj>);
impl Filter<i64> for DynF { type Output = i64; fn filter(&mut self, x: i64) -> i64 { self.0.f(x) } }
pub trait SObj { fn s(&mut self) -> Option<i64>; }
impl<T: Source<Output = i64>> SObj for T { fn s(&mut self) -> Option<i64> { self.source() } }
pub struct DynS(Box<dyn SObj>);
impl Source for DynS { type Output = i64; fn source(&mut self) -> Option<i64> { self.0.s() } }
pub trait KObj { fn k(&mut self, x: i64); fn fin(self: Box<Self>) -> Vec<i64>; }
impl<T: Sink<i64> + Finalize<Output = Vec<i64>>> KObj for T { fn k(&mut self, x: i64) { self.sink(x) } fn fin(self: Box<Self>) -> Vec<i64> { (*self).finalize() } }
pub struct DynK(Box<dyn KObj>);
impl Sink<i64> for DynK { fn sink(&mut self, x: i64) { self.0.k(x) } }
impl Finalize for DynK { type Output = Vec<i64>; fn finalize(self) -> Vec<i64> { self.0.fin() } }

enum FK { Int(Integrate<i64>), Diff(Differentiate<i64>), Del(Delay<i64, 2>), Aff }
pub struct ProbeF { id: usize, log: Log, kind: FK }
impl Filter<i64> for ProbeF { type Output = i64; fn filter(&mut self, x: i64) -> i64 {
    self.log.borrow_mut().push((self.id, x));
    match &mut self.kind { FK::Int(f) => f.filter(x), FK::Diff(f) => f.filter(x), FK::Del(f) => f.filter(x), FK::Aff => 2 * x + 1 } } }
/// scripted source: -999 in the script is a `None` answer after which the source may deliver again
#[derive(Clone)] pub struct Script { items: std::collections::VecDeque<i64> }
impl Source for Script { type Output = i64; fn source(&mut self) -> Option<i64> { match self.items.pop_front() { Some(-999) | None => None, Some(v) => Some(v) } } }
pub struct ProbeS { id: usize, log: Log, inner: FromIter<signalo_sources::into_iter::IntoIter<Script>> }
impl Source for ProbeS { type Output = i64; fn source(&mut self) -> Option<i64> { self.log.borrow_mut().push((self.id, -1)); self.inner.source() } }
enum KK { Sum(SumSink<i64>), Max(MaxSink<i64>), Col(Collect<Vec<i64>>) }
pub struct ProbeK { id: usize, log: Log, kind: KK }
impl Sink<i64> for ProbeK { fn sink(&mut self, x: i64) { self.log.borrow_mut().push((self.id, x)); match &mut self.kind { KK::Sum(s) => s.sink(x), KK::Max(s) => s.sink(x), KK::Col(s) => s.sink(x) } } }
impl Finalize for ProbeK { type Output = Vec<i64>; fn finalize(self) -> Vec<i64> { match self.kind { KK::Sum(s) => s.finalize().into_iter().collect(), KK::Max(s) => s.finalize().into_iter().collect(), KK::Col(s) => s.finalize() } } }

#[derive(Clone, Debug)]
pub enum Tree { L(usize), U(Box<Tree>), P(Box<Tree>, Box<Tree>), B(Box<Tree>, Box<Tree>) }
use Tree::*;
impl Tree {
    pub fn show(&self) -> String { match self { L(j) => format!("L{}", j), U(a) => format!("U({})", a.show()), P(a, b) => format!("P({},{})", a.show(), b.show()), B(a, b) => format!("B({},{})", a.show(), b.show()) } }
    pub fn parse(s: &str) -> Tree { let b = s.as_bytes(); let mut p = 0; let t = Self::parse_at(b, &mut p); assert!(p == b.len()); t }
    fn parse_at(b: &[u8], p: &mut usize) -> Tree {
        let c = b[*p]; *p += 1;
        match c {
            b'L' => { let s = *p; while *p < b.len() && b[*p].is_ascii_digit() { *p += 1; } L(std::str::from_utf8(&b[s..*p]).unwrap().parse().unwrap()) }
            b'U' => { *p += 1; let a = Self::parse_at(b, p); *p += 1; U(Box::new(a)) }
            _ => { *p += 1; let a = Self::parse_at(b, p); *p += 1; let r = Self::parse_at(b, p); *p += 1; if c == b'P' { P(Box::new(a), Box::new(r)) } else { B(Box::new(a), Box::new(r)) } }
        }
    }
    pub fn leaves(&self) -> Vec<usize> { match self { L(j) => vec![*j], U(a) => a.leaves(), P(a, b) | B(a, b) => { let mut v = a.leaves(); v.extend(b.leaves()); v } } }
    /// Coq term of type `pipe`; kinds/states per leaf given by `leaf`
    pub fn coq(&self, leaf: &dyn Fn(usize) -> String) -> String { match self { L(j) => leaf(*j), U(a) => format!("(Unit {})", a.coq(leaf)), P(a, b) | B(a, b) => format!("(Pipe {} {})", a.coq(leaf), b.coq(leaf)) } }
}

pub struct Ctx<'a> { pub kinds: &'a [usize], pub src: &'a [i64], pub log: Log }
impl<'a> Ctx<'a> {
    fn pf(&self, j: usize) -> ProbeF { ProbeF { id: j, log: self.log.clone(), kind: match self.kinds[j] { 0 => FK::Int(Default::default()), 1 => FK::Diff(Default::default()), 2 => FK::Del(Default::default()), _ => FK::Aff } } }
    pub fn build_f(&self, t: &Tree) -> DynF {
        match t {
            L(j) => DynF(Box::new(self.pf(*j))),
            U(a) => DynF(Box::new(UnitPipe::new(self.build_f(a)))),
            P(a, b) => DynF(Box::new(Pipe::new(self.build_f(a), self.build_f(b)))),
            B(a, b) => match &**a {
                P(x, y) | B(x, y) => DynF(Box::new(Pipe::new(self.build_f(x), self.build_f(y)) | self.build_f(b))),
                U(x) => DynF(Box::new(UnitPipe::new(self.build_f(x)) | self.build_f(b))),
                L(_) => DynF(Box::new(UnitPipe::new(self.build_f(a)) | self.build_f(b))),
            },
        }
    }
    pub fn build_s(&self, t: &Tree) -> DynS {
        match t {
            L(j) => DynS(Box::new(ProbeS { id: *j, log: self.log.clone(), inner: FromIter::from(signalo_sources::into_iter::IntoIter::from(Script { items: self.src.iter().cloned().collect() })) })),
            U(a) => DynS(Box::new(UnitPipe::new(self.build_s(a)))),
            P(a, b) => DynS(Box::new(Pipe::new(self.build_s(a), self.build_f(b)))),
            B(a, b) => match &**a {
                P(x, y) | B(x, y) => DynS(Box::new(Pipe::new(self.build_s(x), self.build_f(y)) | self.build_f(b))),
                U(x) => DynS(Box::new(UnitPipe::new(self.build_s(x)) | self.build_f(b))),
                L(_) => DynS(Box::new(UnitPipe::new(self.build_s(a)) | self.build_f(b))),
            },
        }
    }
    pub fn build_k(&self, t: &Tree) -> DynK {
        match t {
            L(j) => DynK(Box::new(ProbeK { id: *j, log: self.log.clone(), kind: match self.kinds[*j] { 5 => KK::Sum(Default::default()), 6 => KK::Max(Default::default()), _ => KK::Col(Default::default()) } })),
            U(a) => DynK(Box::new(UnitPipe::new(self.build_k(a)))),
            P(a, b) => DynK(Box::new(Pipe::new(self.build_f(a), self.build_k(b)))),
            B(a, b) => match &**a {
                P(x, y) | B(x, y) => DynK(Box::new(Pipe::new(self.build_f(x), self.build_f(y)) | self.build_k(b))),
                U(x) => DynK(Box::new(UnitPipe::new(self.build_f(x)) | self.build_k(b))),
                L(_) => DynK(Box::new(UnitPipe::new(self.build_f(a)) | self.build_k(b))),
            },
        }
    }
}
