#![allow(unused_imports)]
use crate::rat::Rat;
use crate::util::*;
use crate::smoothutil::*;
use signalo_filters::{differentiate::Differentiate, integrate::Integrate, mean::exp::mean as ema, median::exp as xmed, observe::{alpha_beta as ab, kalman as kal}};
use signalo_pipes::pipe::Pipe;
use signalo_traits::{Filter, IntoGuts, WithConfig};
pub fn gen15(tier: &str, rng: &mut Rng) -> Vec<Spec> {
    let t = tier == "thorough"; let mut v = vec![];
    for kind in ["diff", "int", "pipe_di", "pipe_id"] {
        for l in 0..=(if t { 7 } else { 6 }) { for xs in small_hists(l) { v.push(Spec::new(kind).with("xs", join_rats(&xs))); } }
        for _ in 0..(if t { 1500 } else { 200 }) { let l = rng.range(1, if t { 120 } else { 40 }) as usize; v.push(Spec::new(kind).with("xs", join_rats(&rand_hist(rng, l, 7)))); }
    }
    v
}
pub fn exec15(s: &Spec, stats: &mut Stats) -> Outcome {
    let xs = s.rats("xs"); stats.bump(format!("len:{}", xs.len() / 10 * 10));
    let (k, (ys, p)) = match s.kind.as_str() {
        "diff" => (0, run_all(&mut Differentiate::<Rat>::default(), &xs)),
        "int" => (1, run_all(&mut Integrate::<Rat>::default(), &xs)),
        "pipe_di" => (2, run_all(&mut Pipe::new(Differentiate::<Rat>::default(), Integrate::<Rat>::default()), &xs)),
        _ => (3, run_all(&mut Pipe::new(Integrate::<Rat>::default(), Differentiate::<Rat>::default()), &xs)),
    };
    if p { stats.panics += 1; }
    Outcome::Case(format!("mk {} {} {} {}", k, cqlist(&xs), cqlist(&ys), cbool(p)))
}

