#![allow(unused_imports)]
use crate::rat::Rat;
use crate::util::*;
use crate::smoothutil::*;
use signalo_filters::{differentiate::Differentiate, integrate::Integrate, mean::exp::mean as ema, median::exp as xmed, observe::{alpha_beta as ab, kalman as kal}};
use signalo_pipes::pipe::Pipe;
use signalo_traits::{Filter, IntoGuts, WithConfig};
pub fn gen15(tier: &str, rng: &mut Rng) -> Vec<Spec> {
    let t = tier == "thorough"; let mut v = vec![];
    for kind in ["diff", "int", "pipe_di", "pipe_id"] {
        for l in 0..=(if t { 7 } else { 6 }) { for xs in small_hists(l) { v.push(Spec::new(kind).with("xs", join_rats(&xs))); } }
        // f64 / f32 instantiations on integers (every operation exact), plus large magnitudes on exact rationals
        for (i, ty) in ["f64", "f32", "big"].iter().enumerate() { for _ in 0..(if t { 300 } else { 40 }) {
            let l = rng.range(1, 60) as usize; let xs = if i == 2 { int_hist(rng, l, 4_000_000_000_000) } else { int_hist(rng, l, 1000) };
            v.push(Spec::new(kind).with("ty", ty).with("xs", join_rats(&xs))); } }
        for _ in 0..(if t { 1500 } else { 200 }) { let l = rng.range(1, if t { 120 } else { 40 }) as usize; v.push(Spec::new(kind).with("xs", join_rats(&rand_hist(rng, l, 7)))); }
    }
    let mut v = with_entry_points(v, rng, &["diff", "int"], 10);
    v.extend(crate::fx::gen(&[0, 1, 2, 3], if t { 400 } else { 60 }, rng));
    v
}
pub fn exec15(s: &Spec, stats: &mut Stats) -> Outcome {
    if s.kind == "fx" { return crate::fx::exec::<crate::fx_smooth::R>(s, stats); }
    let xs = s.rats("xs"); stats.bump(format!("len:{}", xs.len() / 10 * 10));
    let ty = if s.has("ty") { s.get("ty") } else { "rat" }; stats.bump(format!("ty:{}", ty));
    let (k, (ys, p)) = match (s.kind.as_str(), ty) {
        ("diff", "f64") => (0, run_all(&mut ViaF64(Differentiate::<f64>::default()), &xs)),
        ("int", "f64") => (1, run_all(&mut ViaF64(Integrate::<f64>::default()), &xs)),
        ("pipe_di", "f64") => (2, run_all(&mut ViaF64(Pipe::new(Differentiate::<f64>::default(), Integrate::<f64>::default())), &xs)),
        (_, "f64") => (3, run_all(&mut ViaF64(Pipe::new(Integrate::<f64>::default(), Differentiate::<f64>::default())), &xs)),
        ("diff", "f32") => (0, run_all(&mut ViaF32(Differentiate::<f32>::default()), &xs)),
        ("int", "f32") => (1, run_all(&mut ViaF32(Integrate::<f32>::default()), &xs)),
        ("pipe_di", "f32") => (2, run_all(&mut ViaF32(Pipe::new(Differentiate::<f32>::default(), Integrate::<f32>::default())), &xs)),
        (_, "f32") => (3, run_all(&mut ViaF32(Pipe::new(Integrate::<f32>::default(), Differentiate::<f32>::default())), &xs)),
        (k, _) => match k {
        "diff" => (0, run_all(&mut prep(Differentiate::<Rat>::default(), s, stats), &xs)),
        "int" => (1, run_all(&mut prep(Integrate::<Rat>::default(), s, stats), &xs)),
        "pipe_di" => (2, run_all(&mut Pipe::new(Differentiate::<Rat>::default(), Integrate::<Rat>::default()), &xs)),
        _ => (3, run_all(&mut Pipe::new(Integrate::<Rat>::default(), Differentiate::<Rat>::default()), &xs)),
        },
    };
    if p { stats.panics += 1; }
    Outcome::Case(format!("mk {} {} {} {}", k, cqlist(&xs), cqlist(&ys), cbool(p)))
}

