//! kinds 40 (sum sink), 41 (mean sink), 42 (mean-variance sink incl. finalize), 43 / 44 (min / max sinks)
#![allow(dead_code, unused_imports)]
use crate::fx::*;
use crate::fx_run;
use crate::util::*;
use num_traits::{Num, One, Signed, Zero};
use signalo_traits::{Filter, Finalize, Sink, WithConfig};
macro_rules! by_n { ($n:expr, $f:ident, $t:ty, $args:tt; $($k:literal)*) => { match $n { $($k => Some($f::<$t, $k> $args),)* _ => None } } }

pub struct R;
impl Runner for R { fn run<T: Samp>(kind: usize, _ps: &[T], _n: usize, xs: &[T], xs2: Option<&[T]>) -> Option<(Vec<T>, bool)> {
    if xs2.is_some() { return None; }
    Some(match kind {
        40 => { let mut f = signalo_sinks::integrate::Integrate::<T>::default(); drive(xs, |x| vec![f.filter(x)]) }
        41 => { let mut f = signalo_sinks::mean::Mean::<T>::default(); drive(xs, |x| vec![f.filter(x)]) }
        43 => { let mut f = signalo_sinks::min::Min::<T>::default(); drive(xs, |x| vec![f.filter(x)]) }
        44 => { let mut f = signalo_sinks::max::Max::<T>::default(); drive(xs, |x| vec![f.filter(x)]) }
        42 => { let mut f = signalo_sinks::mean_variance::MeanVariance::<T>::default();
                let (mut ys, p) = drive(xs, |x| { let o = f.filter(x); vec![o.mean, o.variance] });
                if let Some(o) = f.finalize() { ys.push(o.mean); ys.push(o.variance); } (ys, p) }
        _ => return None,
    })
} }
