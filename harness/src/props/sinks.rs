//! C11: the sinks of signalo_sinks over exact rationals, as running filters and finalized after every prefix.
use crate::rat::Rat;
use crate::util::*;
use signalo_sinks::{bounds::Bounds, collect::Collect, integrate::Integrate, last::Last, max::Max, mean::Mean, mean_variance::MeanVariance, min::Min, statistics::Statistics};
use signalo_traits::{Filter, Finalize, Sink};

pub const HEADER: &str = "From Signalo Require Import Check.Common Check.C11.";
const KINDS: [&str; 9] = ["min", "max", "bounds", "last", "sum", "mean", "mean_variance", "statistics", "collect"];

pub fn generate(tier: &str, rng: &mut Rng) -> Vec<Spec> {
    let t = tier == "thorough"; let mut v = vec![];
    let alpha = [Rat::int(-2), Rat::int(0), Rat::int(1), Rat::int(3)];
    for k in KINDS {
        for l in 0..=(if t { 6 } else { 5 }) { for xs in crate::util::all_seqs(&alpha, l) { if !t && l == 5 && xs[0] == Rat::int(0) { continue; } v.push(Spec::new(k).with("xs", join_rats(&xs))); } }
        for _ in 0..(if t { 600 } else { 60 }) {
            let len = rng.range(1, if t { 40 } else { 25 }) as usize;
            let xs: Vec<Rat> = (0..len).map(|_| Rat::new(rng.range(-12, 12) as i128, rng.range(1, 4) as i128)).collect();
            v.push(Spec::new(k).with("xs", join_rats(&xs)));
        }
    }
    // more than 8192 samples through the sum sink (running outputs and the final result only)
    v.push(Spec::new("sumlong").with("xs", join_rats(&(1..=10_000).map(|k| Rat::int((k * 7) % 23 - 11 + (k % 2))).collect::<Vec<Rat>>())));
    v
}

fn tup(v: &[Rat]) -> String { cqlist(v) }
fn drive<S: Clone, R>(mut s: S, xs: &[Rat], mut step: impl FnMut(&mut S, Rat) -> Vec<Rat>, fin: impl Fn(S) -> Option<R>, enc: impl Fn(R) -> Vec<Rat>) -> (Vec<String>, Vec<String>, bool) {
    let mut run = vec![]; let mut fins = vec![]; let mut panic = false;
    let f0 = catch(|| fin(s.clone()).map(|r| enc(r)));
    match f0 { Ok(o) => fins.push(copt(&o, |t| tup(t))), Err(_) => return (run, fins, true) }
    for x in xs {
        match catch(|| step(&mut s, *x)) { Ok(o) => run.push(tup(&o)), Err(_) => { panic = true; break } }
        match catch(|| fin(s.clone()).map(|r| enc(r))) { Ok(o) => fins.push(copt(&o, |t| tup(t))), Err(_) => { panic = true; break } }
    }
    (run, fins, panic)
}

pub fn exec(s: &Spec, stats: &mut Stats) -> Outcome {
    let xs = s.rats("xs"); stats.bump(format!("kind:{}", s.kind)); stats.bump(format!("len:{}", xs.len()));
    if s.kind == "sumlong" {
        let mut f = Integrate::<Rat>::default(); let mut run = vec![]; let mut panic = false;
        for x in &xs { match catch(|| f.filter(*x)) { Ok(y) => run.push(tup(&[y])), Err(_) => { panic = true; break } } }
        let fin = catch(|| f.finalize()).ok().flatten();
        return Outcome::Case(format!("mk 9%nat {} [{}] [{}] {}", cqlist(&xs), run.join(";"), copt(&fin.map(|v| vec![v]), |t| tup(t)), cbool(panic)));
    }
    let k = KINDS.iter().position(|k| *k == s.kind).unwrap();
    let (run, fins, panic) = match k {
        0 => drive(Min::<Rat>::default(), &xs, |s, x| vec![s.filter(x)], |s| s.finalize(), |r| vec![r]),
        1 => drive(Max::<Rat>::default(), &xs, |s, x| vec![s.filter(x)], |s| s.finalize(), |r| vec![r]),
        2 => drive(Bounds::<Rat>::default(), &xs, |s, x| { let o = s.filter(x); vec![o.min, o.max] }, |s| s.finalize(), |r| vec![r.min, r.max]),
        3 => drive(Last::<Rat>::default(), &xs, |s, x| { s.sink(x); vec![] }, |s| s.finalize(), |r| vec![r]),
        4 => drive(Integrate::<Rat>::default(), &xs, |s, x| vec![s.filter(x)], |s| s.finalize(), |r| vec![r]),
        5 => drive(Mean::<Rat>::default(), &xs, |s, x| vec![s.filter(x)], |s| s.finalize(), |r| vec![r]),
        6 => drive(MeanVariance::<Rat>::default(), &xs, |s, x| { let o = s.filter(x); vec![o.mean, o.variance] }, |s| s.finalize(), |r| vec![r.mean, r.variance]),
        7 => drive(Statistics::<Rat>::default(), &xs, |s, x| { let o = s.filter(x); vec![o.min, o.max, o.mean, o.variance] }, |s| s.finalize(), |r| vec![r.min, r.max, r.mean, r.variance]),
        _ => drive(Collect::<Vec<Rat>>::default(), &xs, |s, x| s.filter(x), |s| Some(s.finalize()), |r| r),
    };
    if panic { stats.panics += 1; }
    Outcome::Case(format!("mk {}%nat {} [{}] [{}] {}", k, cqlist(&xs), run.join(";"), fins.join(";"), cbool(panic)))
}
