//! kinds 70 (moving median), 80 (Hampel: f32 / f64 only, the factor is the one compiled into the crate's macro invocations)
#![allow(dead_code, unused_imports)]
use crate::fx::*;
use crate::fx_run;
use crate::util::*;
use num_traits::{Num, One, Signed, Zero};
use signalo_traits::{Filter, Finalize, Sink, WithConfig};
macro_rules! by_n { ($n:expr, $f:ident, $t:ty, $args:tt; $($k:literal)*) => { match $n { $($k => Some($f::<$t, $k> $args),)* _ => None } } }

use signalo_filters::hampel::{Config as HC, Hampel};
use signalo_filters::median::Median;
use std::any::Any;
fn med_n<T: Samp, const N: usize>(xs: &[T], xs2: Option<&[T]>) -> (Vec<T>, bool) { fx_run!({ let f0: Median<T, N> = Median::default(); f0 }, xs, xs2, |f, x| vec![f.filter(x)]) }
fn ham64<T: Samp, const N: usize>(thr: f64, xs: &[f64], xs2: Option<&[f64]>) -> (Vec<f64>, bool) { fx_run!({ let f0: Hampel<f64, N> = Hampel::with_config(HC { threshold: thr }); f0 }, xs, xs2, |f, x| vec![f.filter(x)]) }
fn ham32<T: Samp, const N: usize>(thr: f32, xs: &[f32], xs2: Option<&[f32]>) -> (Vec<f32>, bool) { fx_run!({ let f0: Hampel<f32, N> = Hampel::with_config(HC { threshold: thr }); f0 }, xs, xs2, |f, x| vec![f.filter(x)]) }
fn cast<A: 'static + Clone, B: 'static + Clone>(v: &[A]) -> Option<Vec<B>> { (&v.to_vec() as &dyn Any).downcast_ref::<Vec<B>>().cloned() }
pub struct R;
impl Runner for R { fn run<T: Samp>(kind: usize, ps: &[T], n: usize, xs: &[T], xs2: Option<&[T]>) -> Option<(Vec<T>, bool)> {
    match kind {
        70 => by_n!(n, med_n, T, (xs, xs2); 1 2 3 4 5 7 9),
        80 => {
            if ps.len() != 2 { return None; }
            if let (Some(p), Some(x)) = (cast::<T, f64>(ps), cast::<T, f64>(xs)) {
                if p[0].to_bits() != 1.4826f64.to_bits() { return None; }
                let x2 = match xs2 { Some(v) => Some(cast::<T, f64>(v)?), None => None };
                let (ys, pn) = by_n!(n, ham64, T, (p[1], &x, x2.as_deref()); 1 2 3 4 5 7 9)?; return Some((cast::<f64, T>(&ys)?, pn)); }
            if let (Some(p), Some(x)) = (cast::<T, f32>(ps), cast::<T, f32>(xs)) {
                if p[0].to_bits() != 1.4826f32.to_bits() { return None; }
                let x2 = match xs2 { Some(v) => Some(cast::<T, f32>(v)?), None => None };
                let (ys, pn) = by_n!(n, ham32, T, (p[1], &x, x2.as_deref()); 1 2 3 4 5 7 9)?; return Some((cast::<f32, T>(&ys)?, pn)); }
            None
        }
        _ => None,
    }
} }
