use crate::util::*;
pub struct Prop { pub header: &'static str, pub generate: fn(&str, &mut Rng) -> Vec<Spec>, pub exec: fn(&Spec, &mut Stats) -> Outcome }

/// `dispatch_n!(n, f, (args); 1 2 3)` calls `f::<N>(args)` for the run-time width n.
#[macro_export]
macro_rules! dispatch_n {
    ($n:expr, $f:ident, $args:tt; $($k:literal)*) => { match $n { $($k => $f::<$k> $args,)* _ => return Outcome::Skip("width-not-instantiated") } };
}

#[allow(unused_imports)] use crate::dispatch_n;
pub mod c02;
pub mod c03;
pub mod c04;
pub mod c10;
pub mod smooth;
pub mod classify;
pub mod sinks;
pub mod conv;
pub mod wav;
pub mod hampel;
pub mod c01;
pub mod reg;
pub mod c19;

pub fn lookup(id: &str) -> Option<Prop> {
    Some(match id {
        "C02" => Prop { header: c02::HEADER, generate: c02::generate, exec: c02::exec },
        "C17" => Prop { header: c02::HEADER17, generate: c02::generate, exec: c02::exec },
        "C03" => Prop { header: c03::HEADER, generate: c03::generate, exec: c03::exec },
        "C04" => Prop { header: c04::HEADER, generate: c04::generate, exec: c04::exec },
        "C10" => Prop { header: c10::HEADER, generate: c10::generate, exec: c10::exec },
        "C15" => Prop { header: smooth::H15, generate: smooth::gen15, exec: smooth::exec15 },
        "C13" => Prop { header: smooth::H13, generate: smooth::gen13, exec: smooth::exec13 },
        "C14" => Prop { header: smooth::H14, generate: smooth::gen14, exec: smooth::exec14 },
        "C06" => Prop { header: smooth::H06, generate: smooth::gen06, exec: smooth::exec06 },
        "C08" => Prop { header: classify::H08, generate: classify::gen08, exec: classify::exec08 },
        "C09" => Prop { header: classify::H09, generate: classify::gen09, exec: classify::exec09 },
        "C11" => Prop { header: sinks::HEADER, generate: sinks::generate, exec: sinks::exec },
        "C05" => Prop { header: conv::HEADER, generate: conv::generate, exec: conv::exec },
        "C07" => Prop { header: wav::HEADER, generate: wav::generate, exec: wav::exec },
        "C16" => Prop { header: smooth::H16, generate: smooth::gen16, exec: smooth::exec16 },
        "C18" => Prop { header: hampel::HEADER, generate: hampel::generate, exec: hampel::exec },
        "C01" => Prop { header: c01::HEADER, generate: c01::generate, exec: c01::exec },
        "C12" => Prop { header: reg::H12, generate: reg::gen12, exec: reg::exec12 },
        "C20" => Prop { header: reg::H20, generate: reg::gen20, exec: reg::exec20 },
        "C19" => Prop { header: c19::HEADER, generate: c19::generate, exec: c19::exec },
        _ => return None,
    })
}

/// all sequences of length `len` over `alphabet`
pub fn all_seqs<T: Clone>(alphabet: &[T], len: usize) -> Vec<Vec<T>> {
    let mut out = vec![vec![]];
    for _ in 0..len { let mut nxt = Vec::with_capacity(out.len() * alphabet.len()); for s in &out { for a in alphabet { let mut t = s.clone(); t.push(a.clone()); nxt.push(t); } } out = nxt; }
    out
}
