//! kinds 0-3 (differentiate / integrate and their pipes), 10-12 (exponential mean, exponential median, alpha-beta), 13-14 (Kalman)
#![allow(dead_code, unused_imports)]
use crate::fx::*;
use crate::fx_run;
use crate::util::*;
use num_traits::{Num, One, Signed, Zero};
use signalo_traits::{Filter, Finalize, Sink, WithConfig};
macro_rules! by_n { ($n:expr, $f:ident, $t:ty, $args:tt; $($k:literal)*) => { match $n { $($k => Some($f::<$t, $k> $args),)* _ => None } } }

use signalo_filters::{differentiate::Differentiate, integrate::Integrate, mean::exp::mean as ema, median::exp as xmed, observe::{alpha_beta as ab, kalman as kal}};
use signalo_pipes::pipe::Pipe;
pub struct R;
impl Runner for R { fn run<T: Samp>(kind: usize, ps: &[T], _n: usize, xs: &[T], xs2: Option<&[T]>) -> Option<(Vec<T>, bool)> {
    let p = |k: usize| ps.get(k).copied().unwrap_or_else(T::zero);
    Some(match kind {
        0 => { fx_run!(Differentiate::<T>::default(), xs, xs2, |f, x| vec![f.filter(x)]) }
        1 => { fx_run!(Integrate::<T>::default(), xs, xs2, |f, x| vec![f.filter(x)]) }
        2 => { if xs2.is_some() { return None; } let mut f = Pipe::new(Differentiate::<T>::default(), Integrate::<T>::default()); drive(xs, |x| vec![f.filter(x)]) }
        3 => { if xs2.is_some() { return None; } let mut f = Pipe::new(Integrate::<T>::default(), Differentiate::<T>::default()); drive(xs, |x| vec![f.filter(x)]) }
        10 => { fx_run!(ema::Mean::with_config(ema::Config { inverse_width: p(0) }), xs, xs2, |f, x| vec![f.filter(x)]) }
        11 => { fx_run!(xmed::Median::with_config(xmed::Config { pre: ema::Config { inverse_width: p(0) }, mid: p(1), post: ema::Config { inverse_width: p(2) } }), xs, xs2, |f, x| vec![f.filter(x)]) }
        12 => { fx_run!(ab::AlphaBeta::with_config(ab::Config { alpha: p(0), beta: p(1) }), xs, xs2, |f, x| vec![f.filter(x)]) }
        13 => { fx_run!(kal::Kalman::with_config(kal::Config { r: p(0), q: p(1), a: p(2), b: p(3), c: p(4) }), xs, xs2, |f, x| vec![f.filter(x)]) }
        14 => { let x2p = xs2.map(|v| pairs(v)); fx_run!(kal::Kalman::with_config(kal::Config { r: p(0), q: p(1), a: p(2), b: p(3), c: p(4) }), &pairs(xs), x2p.as_deref(), |f, zu| vec![f.filter(zu)]) }
        _ => return None,
    })
} }
