//! kinds 50 (threshold), 51 (Schmitt trigger), 52 (debounce), 53 (slopes), 54 (peaks, value-driven); outputs are sample values
#![allow(dead_code, unused_imports)]
use crate::fx::*;
use crate::fx_run;
use crate::util::*;
use num_traits::{Num, One, Signed, Zero};
use signalo_traits::{Filter, Finalize, Sink, WithConfig};
macro_rules! by_n { ($n:expr, $f:ident, $t:ty, $args:tt; $($k:literal)*) => { match $n { $($k => Some($f::<$t, $k> $args),)* _ => None } } }

use signalo_filters::classify::{debounce, peaks, schmitt, slopes, threshold};
pub struct R;
impl Runner for R { fn run<T: Samp>(kind: usize, ps: &[T], n: usize, xs: &[T], xs2: Option<&[T]>) -> Option<(Vec<T>, bool)> {
    let p = |k: usize| ps.get(k).copied().unwrap_or_else(T::zero);
    Some(match kind {
        50 => { fx_run!(threshold::Threshold::with_config(threshold::Config { threshold: p(0), outputs: [p(1), p(2)] }), xs, xs2, |f, x| vec![f.filter(x)]) }
        51 => { fx_run!(schmitt::Schmitt::with_config(schmitt::Config { thresholds: [p(0), p(1)], outputs: [p(2), p(3)] }), xs, xs2, |f, x| vec![f.filter(x)]) }
        52 => { fx_run!(debounce::Debounce::with_config(debounce::Config { threshold: n, predicate: p(0), outputs: [p(1), p(2)] }), xs, xs2, |f, x| vec![f.filter(x)]) }
        53 => { fx_run!({ let f0: slopes::Slopes<T, T> = slopes::Slopes::with_config(slopes::Config { outputs: [p(0), p(1), p(2)] }); f0 }, xs, xs2, |f, x| vec![f.filter(x)]) }
        54 => { fx_run!({ let f0: peaks::Peaks<T, T> = peaks::Peaks::with_config(peaks::Config { outputs: [p(0), p(1), p(2)] }); f0 }, xs, xs2, |f, x| vec![f.filter(x)]) }
        _ => return None,
    })
} }
