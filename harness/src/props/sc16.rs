#![allow(unused_imports)]
use crate::rat::Rat;
use crate::util::*;
use crate::smoothutil::*;
use signalo_filters::{differentiate::Differentiate, integrate::Integrate, mean::exp::mean as ema, median::exp as xmed, observe::{alpha_beta as ab, kalman as kal}};
use signalo_pipes::pipe::Pipe;
use signalo_traits::{Filter, IntoGuts, WithConfig};
use signalo_filters::mean::mean_variance as mvw;
use signalo_filters::mean::exp::mean_variance as mve;
fn gains() -> Vec<Rat> { vec![Rat::int(0), Rat::new(1, 4), Rat::new(1, 2), Rat::new(3, 4), Rat::int(1)] }
pub const H16: &str = "From Signalo Require Import Check.Common Check.C16.";
pub fn gen16(tier: &str, rng: &mut Rng) -> Vec<Spec> {
    let t = tier == "thorough"; let mut v = vec![];
    let offs = [Rat::int(10), Rat::new(-7, 2), Rat::int(0)];
    for n in 1..=4usize { for (i, xs) in small_hists(if t { 6 } else { 5 }).into_iter().enumerate() {
        v.push(Spec::new("mvw").with("N", n).with("off", offs[i % 3].show()).with("xs", join_rats(&xs))); } }
    for w in gains() { for (i, xs) in small_hists(if t { 6 } else { 5 }).into_iter().enumerate() {
        v.push(Spec::new("mve").with("w", w.show()).with("off", offs[i % 3].show()).with("xs", join_rats(&xs))); } }
    // f64 exponential filter on constant signals with non-dyadic gain/value: mean == c and variance == 0 bit-exactly
    for (k, c) in [0.1f64, 13.0, 1.1, -0.7].iter().enumerate() { for w in [0.1f64, 0.3, 1.0 / 3.0] {
        let ex = |x: f64| crate::util::f64_exact(x).unwrap();
        v.push(Spec::new("mve").with("ty", "f64").with("w", ex(w).show()).with("off", "0").with("xs", join_rats(&vec![ex(*c); 5 + k]))); } }
    // more than a thousand samples through one sliding-window instance (integers: no overflow of the harness rationals)
    for n in [2usize, 4] { let xs: Vec<Rat> = (0..1100).map(|k| Rat::int([3, -4, 7, 0, -9, 5, 2, -1][k % 8])).chain((0..32).map(|_| Rat::int(2))).collect();
        v.push(Spec::new("mvw").with("N", n).with("off", "10").with("xs", join_rats(&xs))); }
    for i in 0..(if t { 3000 } else { 400 }) {
        let len = rng.range(1, if t { 16 } else { 11 }) as usize; let xs = rand_hist(rng, len, 4);
        let off = Rat::new(rng.range(-30, 30) as i128, rng.range(1, 3) as i128);
        if i % 2 == 0 { v.push(Spec::new("mvw").with("N", *rng.pick(&[1usize, 2, 3, 4, 5, 8])).with("off", off.show()).with("xs", join_rats(&xs))); }
        else { v.push(Spec::new("mve").with("w", Rat::new(rng.range(0, 8) as i128, 8).show()).with("off", off.show()).with("xs", join_rats(&xs))); }
    }
    with_entry_points(v, rng, &["mvw", "mve"], 12)
}
fn run_mv<F: Filter<Rat, Output = O>, O>(f: &mut F, xs: &[Rat], get: impl Fn(O) -> (Rat, Rat)) -> (Vec<(Rat, Rat)>, bool) {
    let mut ys = vec![];
    for x in xs { match catch(|| f.filter(*x)) { Ok(y) => ys.push(get(y)), Err(_) => return (ys, true) } }
    (ys, false)
}
fn mvw_run<const N: usize>(xs: &[Rat], s: &Spec, stats: &mut Stats) -> (Vec<(Rat, Rat)>, bool) { run_mv(&mut prep(mvw::MeanVariance::<Rat, N>::default(), s, stats), xs, |o| (o.mean, o.variance)) }
pub fn exec16(s: &Spec, stats: &mut Stats) -> Outcome {
    let xs = s.rats("xs"); let off = s.rat("off"); let xs2: Vec<Rat> = xs.iter().map(|x| *x + off).collect();
    stats.bump(format!("kind:{}", s.kind)); stats.bump(format!("len:{}", xs.len()));
    let pr = |v: &[(Rat, Rat)]| clist(v, |(a, b)| format!("({}, {})", cq(a), cq(b)));
    if s.kind == "mvw" {
        let n = s.usize("N");
        let (a, b) = match n { 1 => (mvw_run::<1>(&xs, s, stats), mvw_run::<1>(&xs2, s, stats)), 2 => (mvw_run::<2>(&xs, s, stats), mvw_run::<2>(&xs2, s, stats)), 3 => (mvw_run::<3>(&xs, s, stats), mvw_run::<3>(&xs2, s, stats)),
            4 => (mvw_run::<4>(&xs, s, stats), mvw_run::<4>(&xs2, s, stats)), 5 => (mvw_run::<5>(&xs, s, stats), mvw_run::<5>(&xs2, s, stats)), 8 => (mvw_run::<8>(&xs, s, stats), mvw_run::<8>(&xs2, s, stats)), _ => return Outcome::Skip("width-not-instantiated") };
        Outcome::Case(format!("mk 0%nat {}%nat 0 {} {} {} {} {}", n, cqlist(&xs), cq(&off), pr(&a.0), pr(&b.0), cbool(a.1 || b.1)))
    } else {
        let w = s.rat("w");
        if s.has("ty") && s.get("ty") == "f64" {
            stats.bump("ty:f64-constant");
            let ex = |x: f64| crate::util::f64_exact(x).unwrap_or(Rat::int(i64::MAX / 16));
            let mut f = mve::MeanVariance::with_config(mve::Config { inverse_width: w.to_f64() });
            let mut out = vec![]; let mut bad = false;
            for x in &xs { match catch(|| f.filter(x.to_f64())) { Ok(o) => out.push((ex(o.mean), ex(o.variance))), Err(_) => { bad = true; break } } }
            return Outcome::Case(format!("mk 1%nat 0%nat {} {} {} {} {} {}", cq(&w), cqlist(&xs), cq(&off), pr(&out), pr(&out), cbool(bad)));
        }
        let mut mk = || prep(mve::MeanVariance::with_config(mve::Config { inverse_width: w }), s, stats);
        let a = run_mv(&mut mk(), &xs, |o| (o.mean, o.variance)); let b = run_mv(&mut mk(), &xs2, |o| (o.mean, o.variance));
        Outcome::Case(format!("mk 1%nat 0%nat {} {} {} {} {} {}", cq(&w), cqlist(&xs), cq(&off), pr(&a.0), pr(&b.0), cbool(a.1 || b.1)))
    }
}
