//! kinds 60 (moving max), 61 (moving min), 62 (moving bounds: min, max interleaved)
#![allow(dead_code, unused_imports)]
use crate::fx::*;
use crate::fx_run;
use crate::util::*;
use num_traits::{Num, One, Signed, Zero};
use signalo_traits::{Filter, Finalize, Sink, WithConfig};
macro_rules! by_n { ($n:expr, $f:ident, $t:ty, $args:tt; $($k:literal)*) => { match $n { $($k => Some($f::<$t, $k> $args),)* _ => None } } }

use signalo_filters::bounds::{max::Max, min::Min, Bounds};
fn max_n<T: Samp, const N: usize>(xs: &[T], xs2: Option<&[T]>) -> (Vec<T>, bool) { fx_run!({ let f0: Max<T, N> = Default::default(); f0 }, xs, xs2, |f, x| vec![f.filter(x)]) }
fn min_n<T: Samp, const N: usize>(xs: &[T], xs2: Option<&[T]>) -> (Vec<T>, bool) { fx_run!({ let f0: Min<T, N> = Default::default(); f0 }, xs, xs2, |f, x| vec![f.filter(x)]) }
fn bounds_n<T: Samp, const N: usize>(xs: &[T], xs2: Option<&[T]>) -> (Vec<T>, bool) { fx_run!({ let f0: Bounds<T, N> = Default::default(); f0 }, xs, xs2, |f, x| { let (lo, hi) = f.filter(x); vec![lo, hi] }) }
pub struct R;
impl Runner for R { fn run<T: Samp>(kind: usize, _ps: &[T], n: usize, xs: &[T], xs2: Option<&[T]>) -> Option<(Vec<T>, bool)> {
    match kind {
        60 => by_n!(n, max_n, T, (xs, xs2); 1 2 3 4 5 7 8 16),
        61 => by_n!(n, min_n, T, (xs, xs2); 1 2 3 4 5 7 8 16),
        62 => by_n!(n, bounds_n, T, (xs, xs2); 1 2 3 4 5 7 8 16),
        _ => None,
    }
} }
