//! C12 (reset) and C20 (clone / guts round trip / wrappers): one uniform driver over every resettable,
//! copyable filter. Inputs and outputs are encoded as lists of rationals; entry numbers follow
//! Model/Registry.v's `registry`.
use crate::rat::Rat;
use crate::util::*;
use signalo_filters as sf;
use signalo_traits::{ConfigClone, ConfigRef, Filter, FromGuts, IntoGuts, Reset, WithConfig};

pub const H12: &str = "From Signalo Require Import Check.Common Check.C12.";
pub const H20: &str = "From Signalo Require Import Check.Common Check.C20.";

pub trait DynFilt {
    fn step(&mut self, i: &[Rat]) -> Vec<Rat>;
    fn reset(self: Box<Self>) -> Box<dyn DynFilt>;
    fn clone_box(&self) -> Box<dyn DynFilt>;
    fn guts(self: Box<Self>) -> Box<dyn DynFilt>;
    fn cfg(&self) -> Vec<Rat>;
    fn cached(&self) -> Option<Option<Vec<Rat>>> { None }
    fn as_any(&self) -> &dyn std::any::Any;
    /// Clone::clone_from(&mut self, other) -- other must be the same entry
    fn assign_from(&mut self, other: &dyn DynFilt);
}
/// entry!(Name, FilterType, |f, i| -> Vec<Rat> step, |f| -> Vec<Rat> config, [cached expr])
macro_rules! entry {
    ($name:ident, $ty:ty, |$f:ident, $i:ident| $step:expr, |$g:ident| $cfg:expr $(, cached |$h:ident| $cached:expr)?) => {
        struct $name($ty);
        impl DynFilt for $name {
            fn step(&mut self, $i: &[Rat]) -> Vec<Rat> { let $f = &mut self.0; $step }
            fn reset(self: Box<Self>) -> Box<dyn DynFilt> { Box::new($name(self.0.reset())) }
            fn clone_box(&self) -> Box<dyn DynFilt> { Box::new($name(self.0.clone())) }
            fn guts(self: Box<Self>) -> Box<dyn DynFilt> { Box::new($name(<$ty>::from_guts(self.0.into_guts()))) }
            fn cfg(&self) -> Vec<Rat> { let $g = &self.0; $cfg }
            fn as_any(&self) -> &dyn std::any::Any { self }
            fn assign_from(&mut self, o: &dyn DynFilt) { let o = o.as_any().downcast_ref::<$name>().expect("same entry"); self.0.clone_from(&o.0); }
            $( fn cached(&self) -> Option<Option<Vec<Rat>>> { let $h = &self.0; Some($cached) } )?
        }
    };
}
fn u(x: usize) -> Rat { Rat::int(x as i64) }
entry!(EMean3, sf::mean::mean::Mean<Rat, 3>, |f, i| vec![f.filter(i[0])], |_g| vec![]);
entry!(EMean1, sf::mean::mean::Mean<Rat, 1>, |f, i| vec![f.filter(i[0])], |_g| vec![]);
entry!(EMv3, sf::mean::mean_variance::MeanVariance<Rat, 3>, |f, i| { let o = f.filter(i[0]); vec![o.mean, o.variance] }, |_g| vec![]);
entry!(EXMean, sf::mean::exp::mean::Mean<Rat>, |f, i| vec![f.filter(i[0])], |g| vec![g.config_ref().inverse_width]);
entry!(EXMv, sf::mean::exp::mean_variance::MeanVariance<Rat>, |f, i| { let o = f.filter(i[0]); vec![o.mean, o.variance] }, |g| vec![g.config_ref().inverse_width]);
entry!(EMed3, sf::median::Median<Rat, 3>, |f, i| vec![f.filter(i[0])], |_g| vec![]);
entry!(EMed4, sf::median::Median<Rat, 4>, |f, i| vec![f.filter(i[0])], |_g| vec![]);
entry!(EXMed, sf::median::exp::Median<Rat>, |f, i| vec![f.filter(i[0])], |g| { let c = g.config(); let r = g.config_ref(); if r.pre.inverse_width != c.pre.inverse_width || r.mid != c.mid || r.post.inverse_width != c.post.inverse_width { vec![] } else { vec![c.pre.inverse_width, c.mid, c.post.inverse_width] } });
entry!(EMax3, sf::bounds::max::Max<Rat, 3>, |f, i| vec![f.filter(i[0])], |_g| vec![]);
entry!(EMin3, sf::bounds::min::Min<Rat, 3>, |f, i| vec![f.filter(i[0])], |_g| vec![]);
entry!(EBounds3, sf::bounds::Bounds<Rat, 3>, |f, i| { let (a, b) = f.filter(i[0]); vec![a, b] }, |_g| vec![]);
entry!(EThr, sf::classify::threshold::Threshold<Rat, Rat>, |f, i| vec![f.filter(i[0])], |g| { let c = g.config_ref(); vec![c.threshold, c.outputs[0], c.outputs[1]] });
entry!(ESchmitt, sf::classify::schmitt::Schmitt<Rat, Rat>, |f, i| vec![f.filter(i[0])], |g| { let c = g.config_ref(); vec![c.thresholds[0], c.thresholds[1], c.outputs[0], c.outputs[1]] });
entry!(EDeb, sf::classify::debounce::Debounce<Rat, Rat>, |f, i| vec![f.filter(i[0])], |g| { let c = g.config_ref(); vec![u(c.threshold), c.predicate, c.outputs[0], c.outputs[1]] });
entry!(ESlopes, sf::classify::slopes::Slopes<Rat, usize>, |f, i| vec![u(f.filter(i[0]))], |g| g.config_ref().outputs.iter().map(|x| u(*x)).collect());
entry!(EPeaks, sf::classify::peaks::Peaks<Rat, usize>, |f, i| vec![u(f.filter(i[0]))], |g| g.config_ref().outputs.iter().map(|x| u(*x)).collect());
entry!(EPeaksSl, sf::classify::peaks::Peaks<sf::classify::slopes::Slope, usize>, |f, i| { use sf::classify::slopes::Slope; let sl = match i[0].n { 0 => Slope::Rising, 2 => Slope::Falling, _ => Slope::None }; vec![u(f.filter(sl))] }, |g| g.config_ref().outputs.iter().map(|x| u(*x)).collect());
entry!(EConv3, sf::convolve::Convolve<Rat, 3>, |f, i| vec![f.filter(i[0])], |g| g.config_ref().coefficients.to_vec());
entry!(EDelay2, sf::delay::Delay<Rat, 2>, |f, i| vec![f.filter(i[0])], |_g| vec![]);
entry!(EDiff, sf::differentiate::Differentiate<Rat>, |f, i| vec![f.filter(i[0])], |_g| vec![]);
entry!(EInt, sf::integrate::Integrate<Rat>, |f, i| vec![f.filter(i[0])], |_g| vec![]);
entry!(EHampel3, sf::hampel::Hampel<f64, 3>, |f, i| vec![Rat::int(f.filter(i[0].to_f64()) as i64)], |g| vec![Rat::new((g.config_ref().threshold * 4.0) as i128, 4)]);
entry!(EAb, sf::observe::alpha_beta::AlphaBeta<Rat>, |f, i| vec![f.filter(i[0])], |g| { let c = g.config_ref(); vec![c.alpha, c.beta] });
entry!(EKalman, sf::observe::kalman::Kalman<Rat>, |f, i| vec![f.filter(i[0])], |g| { let c = g.config_ref(); vec![c.r, c.q, c.a, c.b, c.c] });
entry!(EAna2, sf::wavelet::analyze::Analyze<Rat, 2>, |f, i| { let d = f.filter(i[0]); vec![d.low, d.high] }, |g| { let c = g.config(); let mut v = c.low_pass.coefficients.to_vec(); v.extend(c.high_pass.coefficients.iter()); v });
entry!(ESyn2, sf::wavelet::synthesize::Synthesize<Rat, 2>, |f, i| vec![f.filter(sf::wavelet::Decomposition { low: i[0], high: i[1] })], |g| { let c = g.config(); let mut v = c.low_pass.coefficients.to_vec(); v.extend(c.high_pass.coefficients.iter()); v });
entry!(ECacheInt, sf::cache::Cache<sf::integrate::Integrate<Rat>, Rat>, |f, i| vec![f.filter(i[0])], |_g| vec![], cached |h| h.cached().map(|v| vec![*v]));
entry!(ECacheMed, sf::cache::Cache<sf::median::Median<Rat, 3>, Rat>, |f, i| vec![f.filter(i[0])], |_g| vec![], cached |h| h.cached().map(|v| vec![*v]));

// UnitSystem<Integrate<f64>> over SI metres: the value passes through the inner filter, the unit is kept by the type
struct EUnitInt(sf::unit_system::UnitSystem<sf::integrate::Integrate<f64>>);
impl DynFilt for EUnitInt {
    fn step(&mut self, i: &[Rat]) -> Vec<Rat> { let m: dimensioned::si::Meter<f64> = self.0.filter(dimensioned::si::Meter::new(i[0].to_f64())); vec![Rat::int(m.value_unsafe as i64)] }
    fn reset(self: Box<Self>) -> Box<dyn DynFilt> { Box::new(EUnitInt(self.0.reset())) }
    fn clone_box(&self) -> Box<dyn DynFilt> { Box::new(EUnitInt(self.0.clone())) }
    fn guts(self: Box<Self>) -> Box<dyn DynFilt> { Box::new(EUnitInt(sf::unit_system::UnitSystem::from_guts(self.0.into_guts()))) }
    fn cfg(&self) -> Vec<Rat> { vec![] }
    fn as_any(&self) -> &dyn std::any::Any { self }
    fn assign_from(&mut self, o: &dyn DynFilt) { let o = o.as_any().downcast_ref::<EUnitInt>().expect("same entry"); self.0.clone_from(&o.0); }
}
/// (registry index in Model/Registry.v, config as the model reads it, filter)
pub fn build(name: &str, c: &[Rat]) -> Option<(usize, Vec<Rat>, Box<dyn DynFilt>)> {
    use sf::convolve::Config as CC;
    let r = |k: usize| c.get(k).cloned().unwrap_or(Rat::int(0));
    Some(match name {
        "mean3" => (0, vec![u(3)], Box::new(EMean3(Default::default()))),
        "mean1" => (0, vec![u(1)], Box::new(EMean1(Default::default()))),
        "mean_variance3" => (1, vec![u(3)], Box::new(EMv3(Default::default()))),
        "exp_mean" => (2, vec![r(0)], Box::new(EXMean(sf::mean::exp::mean::Mean::with_config(sf::mean::exp::mean::Config { inverse_width: r(0) })))),
        "exp_mean_variance" => (3, vec![r(0)], Box::new(EXMv(sf::mean::exp::mean_variance::MeanVariance::with_config(sf::mean::exp::mean_variance::Config { inverse_width: r(0) })))),
        "median3" => (4, vec![u(3)], Box::new(EMed3(Default::default()))),
        "median4" => (4, vec![u(4)], Box::new(EMed4(Default::default()))),
        "exp_median" => (5, vec![r(0), r(1), r(2)], Box::new(EXMed(sf::median::exp::Median::with_config(sf::median::exp::Config {
            pre: sf::mean::exp::mean::Config { inverse_width: r(0) }, mid: r(1), post: sf::mean::exp::mean::Config { inverse_width: r(2) } })))),
        "max3" => (6, vec![u(3)], Box::new(EMax3(Default::default()))),
        "min3" => (7, vec![u(3)], Box::new(EMin3(Default::default()))),
        "bounds3" => (8, vec![u(3)], Box::new(EBounds3(Default::default()))),
        "threshold" => (9, vec![r(0), r(1), r(2)], Box::new(EThr(sf::classify::threshold::Threshold::with_config(sf::classify::threshold::Config { threshold: r(0), outputs: [r(1), r(2)] })))),
        "schmitt" => (10, vec![r(0), r(1), r(2), r(3)], Box::new(ESchmitt(sf::classify::schmitt::Schmitt::with_config(sf::classify::schmitt::Config { thresholds: [r(0), r(1)], outputs: [r(2), r(3)] })))),
        "debounce" => (11, vec![r(0), r(1), r(2), r(3)], Box::new(EDeb(sf::classify::debounce::Debounce::with_config(sf::classify::debounce::Config { threshold: r(0).n as usize, predicate: r(1), outputs: [r(2), r(3)] })))),
        "slopes" => (12, vec![], Box::new(ESlopes(sf::classify::slopes::Slopes::with_config(sf::classify::slopes::Config { outputs: [0, 1, 2] })))),
        "peaks" => (13, vec![], Box::new(EPeaks(sf::classify::peaks::Peaks::with_config(sf::classify::peaks::Config { outputs: [0, 1, 2] })))),
        "convolve3" => (14, vec![r(0), r(1), r(2)], Box::new(EConv3(sf::convolve::Convolve::with_config(CC { coefficients: [r(0), r(1), r(2)] })))),
        "delay2" => (15, vec![u(2)], Box::new(EDelay2(Default::default()))),
        "differentiate" => (16, vec![], Box::new(EDiff(Default::default()))),
        "integrate" => (17, vec![], Box::new(EInt(Default::default()))),
        "hampel3" => (18, vec![u(3), r(0)], Box::new(EHampel3(sf::hampel::Hampel::with_config(sf::hampel::Config { threshold: r(0).to_f64() })))),
        "alpha_beta" => (19, vec![r(0), r(1)], Box::new(EAb(sf::observe::alpha_beta::AlphaBeta::with_config(sf::observe::alpha_beta::Config { alpha: r(0), beta: r(1) })))),
        "kalman" => (20, vec![r(0), r(1), r(2), r(3), r(4)], Box::new(EKalman(sf::observe::kalman::Kalman::with_config(sf::observe::kalman::Config { r: r(0), q: r(1), a: r(2), b: r(3), c: r(4) })))),
        "analyze2" => (21, vec![r(0), r(1), r(2), r(3)], Box::new(EAna2(sf::wavelet::analyze::Analyze::with_config(sf::wavelet::analyze::Config { low_pass: CC { coefficients: [r(0), r(1)] }, high_pass: CC { coefficients: [r(2), r(3)] } })))),
        "synthesize2" => (22, vec![r(0), r(1), r(2), r(3)], Box::new(ESyn2(sf::wavelet::synthesize::Synthesize::with_config(sf::wavelet::synthesize::Config { low_pass: CC { coefficients: [r(0), r(1)] }, high_pass: CC { coefficients: [r(2), r(3)] } })))),
        "cache_integrate" => (23, vec![], Box::new(ECacheInt(Default::default()))),
        "cache_median3" => (24, vec![u(3)], Box::new(ECacheMed(Default::default()))),
        "unit_integrate" => (25, vec![], Box::new(EUnitInt(Default::default()))),
        "peaks_slopes" => (27, vec![], Box::new(EPeaksSl(sf::classify::peaks::Peaks::with_config(sf::classify::peaks::Config { outputs: [0, 1, 2] })))),
        _ => return None,
    })
}
/// entries with example configurations, and the arity of their input
pub fn catalogue() -> Vec<(&'static str, Vec<Vec<Rat>>, usize)> {
    let q = |n: i128, d: i128| Rat::new(n, d);
    vec![("mean3", vec![vec![]], 1), ("mean1", vec![vec![]], 1), ("mean_variance3", vec![vec![]], 1),
         ("exp_mean", vec![vec![q(1, 4)], vec![q(1, 1)]], 1), ("exp_mean_variance", vec![vec![q(1, 2)]], 1),
         ("median3", vec![vec![]], 1), ("median4", vec![vec![]], 1), ("exp_median", vec![vec![q(1, 2), q(1, 4), q(3, 4)]], 1),
         ("max3", vec![vec![]], 1), ("min3", vec![vec![]], 1), ("bounds3", vec![vec![]], 1),
         ("threshold", vec![vec![q(1, 1), q(10, 1), q(20, 1)]], 1), ("schmitt", vec![vec![q(0, 1), q(1, 1), q(10, 1), q(20, 1)], vec![q(2, 1), q(0, 1), q(-1, 1), q(1, 1)]], 1),
         ("debounce", vec![vec![q(2, 1), q(2, 1), q(10, 1), q(20, 1)]], 1), ("slopes", vec![vec![]], 1), ("peaks", vec![vec![]], 1),
         ("convolve3", vec![vec![q(1, 2), q(-1, 1), q(2, 1)]], 1), ("delay2", vec![vec![]], 1), ("differentiate", vec![vec![]], 1), ("integrate", vec![vec![]], 1),
         ("hampel3", vec![vec![q(2, 1)], vec![q(1, 2)], vec![q(-2, 1)]], 1), ("alpha_beta", vec![vec![q(1, 2), q(1, 4)]], 1), ("kalman", vec![vec![q(1, 1), q(1, 1), q(1, 1), q(0, 1), q(1, 1)], vec![q(1, 2), q(2, 1), q(1, 2), q(1, 1), q(2, 1)]], 1),
         ("analyze2", vec![vec![q(1, 2), q(1, 2), q(1, 2), q(-1, 2)]], 1), ("synthesize2", vec![vec![q(1, 2), q(1, 2), q(-1, 2), q(1, 2)]], 2),
         ("cache_integrate", vec![vec![]], 1), ("cache_median3", vec![vec![]], 1), ("unit_integrate", vec![vec![]], 1), ("peaks_slopes", vec![vec![]], 1)]
}

fn enc_in(xs: &[Rat], arity: usize) -> Vec<Vec<Rat>> { xs.chunks(arity).filter(|c| c.len() == arity).map(|c| c.to_vec()).collect() }
fn cll(v: &[Vec<Rat>]) -> String { clist(v, |t| cqlist(t)) }
fn run_on(f: &mut Box<dyn DynFilt>, ins: &[Vec<Rat>]) -> Result<Vec<Vec<Rat>>, String> { catch(|| ins.iter().map(|i| f.step(i)).collect()) }

fn hists(rng: &mut Rng, t: bool, arity: usize) -> Vec<(Vec<Rat>, Vec<Rat>)> {
    let al = [Rat::int(0), Rat::int(2), Rat::int(5)];
    let mut v = vec![];
    for hl in 0..=(if t { 4 } else { 3 }) { for h in crate::util::all_seqs(&al, hl * arity) {
        for _ in 0..2 { let p: Vec<Rat> = (0..(if t { 6 } else { 5 }) * arity).map(|_| al[rng.below(3) as usize]).collect(); v.push((h.clone(), p)); } } }
    for _ in 0..(if t { 60 } else { 12 }) {
        let hl = rng.range(4, if t { 40 } else { 14 }) as usize;
        let g = |rng: &mut Rng, n: usize| (0..n * arity).map(|_| Rat::int(rng.range(-6, 9))).collect::<Vec<Rat>>();
        let h = g(rng, hl); let p = g(rng, 6); v.push((h, p));
    }
    v
}

/// special C12 scenarios on concrete types, same case format as exec12
fn special12(kind: &str, hist: &[Vec<Rat>], probe: &[Vec<Rat>], shift: usize) -> Option<(usize, Vec<Rat>, Vec<Vec<Rat>>, Vec<Vec<Rat>>, Vec<Vec<Rat>>, bool)> {
    use sf::bounds::{max, min}; use circular_buffer::CircularBuffer;
    macro_rules! outs { ($f:expr, $ins:expr) => { $ins.iter().map(|i| vec![$f.filter(i[0])]).collect::<Vec<Vec<Rat>>>() } }
    Some(match kind {
        // a Cache built AROUND an inner filter that has already seen samples, reset before its first own call
        "cache_from_used_integrate" => { let mut inner = sf::integrate::Integrate::<Rat>::default(); let oh = outs!(inner, hist);
            let mut c = sf::cache::Cache::<_, Rat>::from(inner).reset(); let or = outs!(c, probe);
            let mut fr = sf::cache::Cache::<sf::integrate::Integrate<Rat>, Rat>::default(); (23, vec![], oh, or, outs!(fr, probe), true) }
        "cache_from_used_median3" => { let mut inner = sf::median::Median::<Rat, 3>::default(); let oh = outs!(inner, hist);
            let mut c = sf::cache::Cache::<_, Rat>::from(inner).reset(); let or = outs!(c, probe);
            let mut fr = sf::cache::Cache::<sf::median::Median<Rat, 3>, Rat>::default(); (24, vec![u(3)], oh, or, outs!(fr, probe), true) }
        // min / max whose sample counter sits `shift` ticks before usize::MAX when reset is called
        "max3_clock" => { let mut f = max::Max::<Rat, 3>::default(); let oh = outs!(f, hist); let g = f.into_guts();
            let d = (usize::MAX - shift) - g.time; let mut cb: CircularBuffer<3, (Rat, usize)> = CircularBuffer::new(); for (v, t) in g.taps.iter() { cb.push_back((*v, t + d)); }
            let mut r = max::Max::from_guts(max::State { time: g.time + d, taps: cb }).reset(); let or = outs!(r, probe);
            let mut fr = max::Max::<Rat, 3>::default(); (6, vec![u(3)], oh, or, outs!(fr, probe), true) }
        "min3_clock" => { let mut f = min::Min::<Rat, 3>::default(); let oh = outs!(f, hist); let g = f.into_guts();
            let d = (usize::MAX - shift) - g.time; let mut cb: CircularBuffer<3, (Rat, usize)> = CircularBuffer::new(); for (v, t) in g.taps.iter() { cb.push_back((*v, t + d)); }
            let mut r = min::Min::from_guts(min::State { time: g.time + d, taps: cb }).reset(); let or = outs!(r, probe);
            let mut fr = min::Min::<Rat, 3>::default(); (7, vec![u(3)], oh, or, outs!(fr, probe), true) }
        _ => return None,
    })
}

// ------------------------------------------------------------------ C12
pub fn gen12(tier: &str, rng: &mut Rng) -> Vec<Spec> {
    let t = tier == "thorough"; let mut v = vec![];
    for (h, p) in hists(rng, t, 1) { for (i, kind) in ["cache_from_used_integrate", "cache_from_used_median3", "max3_clock", "min3_clock"].iter().enumerate() {
        if h.is_empty() { continue; }
        v.push(Spec::new("special").with("entry", kind).with("shift", (h.len() + i) % 4).with("xs", join_rats(&h)).with("probe", join_rats(&p))); } }
    for (name, cfgs, arity) in catalogue() { for cfg in &cfgs { for (h, p) in hists(rng, t, arity) {
        v.push(Spec::new("reset").with("entry", name).with("cfg", join_rats(cfg)).with("xs", join_rats(&h)).with("probe", join_rats(&p))); } } }
    v
}
pub fn exec12(s: &Spec, stats: &mut Stats) -> Outcome {
    if s.kind == "special" {
        let (hist, probe) = (enc_in(&s.rats("xs"), 1), enc_in(&s.rats("probe"), 1)); stats.bump(format!("entry:{}", s.get("entry")));
        return match catch(|| special12(s.get("entry"), &hist, &probe, s.usize("shift"))) {
            Ok(Some((idx, mcfg, oh, or, of, same))) => Outcome::Case(format!("mk {}%nat {} {} {} {} {} {} {} false", idx, cqlist(&mcfg), cll(&hist), cll(&probe), cll(&oh), cll(&or), cll(&of), cbool(same))),
            Ok(None) => Outcome::Skip("unknown-entry"),
            Err(_) => { stats.panics += 1; Outcome::Case(format!("mk 23%nat [] {} {} [] [] [] false true", cll(&hist), cll(&probe))) } };
    }
    let name = s.get("entry"); let cfg = s.rats("cfg");
    let arity = catalogue().iter().find(|e| e.0 == name).map(|e| e.2).unwrap_or(1);
    let (hist, probe) = (enc_in(&s.rats("xs"), arity), enc_in(&s.rats("probe"), arity));
    stats.bump(format!("entry:{}", name));
    let (idx, mcfg, mut f) = match build(name, &cfg) { Some(x) => x, None => return Outcome::Skip("unknown-entry") };
    let (_, _, mut fresh) = build(name, &cfg).unwrap();
    let r = catch(|| {
        let oh = run_on(&mut f, &hist)?; let c0 = f.cfg();
        let mut g = f.reset(); let c1 = g.cfg();
        let cached_after = g.cached();
        let or = run_on(&mut g, &probe)?; let of = run_on(&mut fresh, &probe)?;
        // config()/config_ref() must report the configuration the filter was built with, before and after reset
        let reported_ok = cfg.is_empty() || c0 == cfg;
        Ok::<_, String>((oh, or, of, c0 == c1 && reported_ok && cached_after.map_or(true, |c| c.is_none())))
    });
    match r {
        Ok(Ok((oh, or, of, same))) => Outcome::Case(format!("mk {}%nat {} {} {} {} {} {} {} false", idx, cqlist(&mcfg), cll(&hist), cll(&probe), cll(&oh), cll(&or), cll(&of), cbool(same))),
        _ => { stats.panics += 1; Outcome::Case(format!("mk {}%nat {} {} {} [] [] [] false true", idx, cqlist(&mcfg), cll(&hist), cll(&probe))) }
    }
}

// unit-preserving source / sink wrappers (signalo_sources::unit_system, signalo_sinks::unit_system)
#[derive(Default)] struct SumK { sum: f64 }
impl signalo_traits::Sink<f64> for SumK { fn sink(&mut self, x: f64) { self.sum += x; } }
impl signalo_traits::Finalize for SumK { type Output = f64; fn finalize(self) -> f64 { self.sum } }
fn unit_wrappers(kind: &str, xs: &[Rat]) -> Outcome {
    use dimensioned::si::Meter; use signalo_traits::{Finalize, Sink, Source};
    let vals: Vec<f64> = xs.iter().map(|r| r.to_f64()).collect();
    let ins: Vec<Vec<Rat>> = xs.iter().map(|x| vec![*x]).collect();
    let r = catch(|| {
        if kind == "unit_source" {
            let mut s: signalo_sources::unit_system::UnitSystem<_, Meter<f64>> = signalo_sources::unit_system::UnitSystem::from(signalo_sources::from_iter::FromIter::from(vals.clone()));
            let mut out = vec![]; while let Some(m) = s.source() { out.push(vec![Rat::int(m.value_unsafe as i64)]); if out.len() > vals.len() { break; } }
            (26usize, out, ins.clone())
        } else {
            let out: Vec<Vec<Rat>> = (1..=vals.len()).map(|k| { let mut s: signalo_sinks::unit_system::UnitSystem<SumK, Meter<f64>> = signalo_sinks::unit_system::UnitSystem::from(SumK::default());
                for v in &vals[..k] { s.sink(Meter::new(*v)); } let m: Meter<f64> = s.finalize(); vec![Rat::int(m.value_unsafe as i64)] }).collect();
            let mut acc = Rat::int(0); let reference = xs.iter().map(|x| { acc = acc + *x; vec![acc] }).collect();
            (17usize, out, reference)
        }
    });
    match r { Ok((idx, out, reference)) => Outcome::Case(format!("mk {}%nat [] {} [] [] {} [] [] [] [] None false", idx, cll(&ins), cll(&out))).and_ref(&out, &reference),
              Err(_) => Outcome::Case(format!("mk 26%nat [] {} [] [] [] [] [] [] [] None true", cll(&ins))) }
}
trait AndRef { fn and_ref(self, out: &[Vec<Rat>], reference: &[Vec<Rat>]) -> Outcome; }
impl AndRef for Outcome { fn and_ref(self, out: &[Vec<Rat>], reference: &[Vec<Rat>]) -> Outcome { if out == reference { self } else { match self { Outcome::Case(t) => Outcome::Case(t.replace(" None false", " None true")), o => o } } } }

// float exactness of copies: original and copy fed the SAME continuation must answer bit-identically
fn float_copy(name: &str, mode: &str, hist: &[f64], cont: &[f64]) -> Outcome {
    use crate::util::f64_exact;
    fn drive<F: Filter<f32, Output = f32> + Clone + FromGuts + IntoGuts>(mut f: F, mode: &str, hist: &[f64], cont: &[f64]) -> (Vec<f64>, Vec<f64>) {
        for x in hist { f.filter(*x as f32); }
        let mut c = if mode == "clone" { f.clone() } else { F::from_guts(f.clone().into_guts()) };
        (cont.iter().map(|x| f.filter(*x as f32) as f64).collect(), cont.iter().map(|x| c.filter(*x as f32) as f64).collect())
    }
    fn drive64<F: Filter<f64, Output = f64> + Clone + FromGuts + IntoGuts>(mut f: F, mode: &str, hist: &[f64], cont: &[f64]) -> (Vec<f64>, Vec<f64>) {
        for x in hist { f.filter(*x); }
        let mut c = if mode == "clone" { f.clone() } else { F::from_guts(f.clone().into_guts()) };
        (cont.iter().map(|x| f.filter(*x)).collect(), cont.iter().map(|x| c.filter(*x)).collect())
    }
    let r = catch(|| match name {
        "mean3_f32" => drive(sf::mean::mean::Mean::<f32, 3>::default(), mode, hist, cont),
        "mean5_f32" => drive(sf::mean::mean::Mean::<f32, 5>::default(), mode, hist, cont),
        "mean4_f64" => drive64(sf::mean::mean::Mean::<f64, 4>::default(), mode, hist, cont),
        "conv3_f32" => drive(sf::convolve::Convolve::<f32, 3>::with_config(sf::convolve::Config { coefficients: [0.3, 0.5, 0.2] }), mode, hist, cont),
        "expmean_f32" => drive(sf::mean::exp::mean::Mean::<f32>::with_config(sf::mean::exp::mean::Config { inverse_width: 0.3 }), mode, hist, cont),
        "integrate_f32" => drive(sf::integrate::Integrate::<f32>::default(), mode, hist, cont),
        "kalman_f64" => drive64(sf::observe::kalman::Kalman::<f64>::with_config(sf::observe::kalman::Config { r: 0.5, q: 2.0, a: 1.0, b: 0.0, c: 1.0 }), mode, hist, cont),
        _ => drive64(sf::mean::mean_variance::MeanVariance::<f64, 3>::default().map_mean(), mode, hist, cont),
    });
    // long continuations: only the last 400 outputs of each are reported (both lists come from the implementation)
    let enc = |v: &[f64]| v.iter().skip(v.len().saturating_sub(400)).map(|x| vec![f64_exact(*x).unwrap_or(Rat::int(i64::MAX / 8))]).collect::<Vec<_>>();
    let ins: Vec<Vec<Rat>> = cont.iter().take(400).map(|_| vec![Rat::int(0)]).collect();
    match r { Ok((a, b)) => Outcome::Case(format!("mk 100%nat [] [] {} {} [] {} {} [] [] None false", cll(&ins), cll(&ins), cll(&enc(&a)), cll(&enc(&b)))),
              Err(_) => Outcome::Case(format!("mk 100%nat [] [] {} {} [] [] [] [] [] None true", cll(&ins), cll(&ins))) }
}
trait MapMean { type Out; fn map_mean(self) -> Self::Out; }
#[derive(Clone)] struct MvMean(sf::mean::mean_variance::MeanVariance<f64, 3>);
impl MapMean for sf::mean::mean_variance::MeanVariance<f64, 3> { type Out = MvMean; fn map_mean(self) -> MvMean { MvMean(self) } }
impl Filter<f64> for MvMean { type Output = f64; fn filter(&mut self, x: f64) -> f64 { let o = self.0.filter(x); o.mean + o.variance } }
impl signalo_traits::Guts for MvMean { type Guts = <sf::mean::mean_variance::MeanVariance<f64, 3> as signalo_traits::Guts>::Guts; }
impl FromGuts for MvMean { fn from_guts(g: Self::Guts) -> Self { MvMean(FromGuts::from_guts(g)) } }
impl IntoGuts for MvMean { fn into_guts(self) -> Self::Guts { self.0.into_guts() } }
// source Cache: cached() after every pull, also past the end
fn cache_source(items: &[Rat], ops: &[Rat]) -> Outcome {
    use signalo_traits::Source;
    let vals: Vec<i64> = items.iter().map(|r| r.n as i64).collect();
    let r = catch(|| { let mut c = signalo_sources::cache::Cache::<_, i64>::from(signalo_sources::from_iter::FromIter::from(vals.clone()));
        ops.iter().map(|o| if o.n == 0 { c.source().map(|v| vec![Rat::int(v)]).unwrap_or_default() } else { c.cached().map(|v| vec![Rat::int(*v)]).unwrap_or_default() }).collect::<Vec<_>>() });
    let prog: Vec<Vec<Rat>> = ops.iter().map(|o| vec![*o]).collect();
    match r { Ok(obs) => Outcome::Case(format!("mk 101%nat {} {} [] [] {} [] [] [] [] None false", cqlist(items), cll(&prog), cll(&obs))),
              Err(_) => Outcome::Case(format!("mk 101%nat {} {} [] [] [] [] [] [] [] None true", cqlist(items), cll(&prog))) }
}

// ------------------------------------------------------------------ C20
pub fn gen20(tier: &str, rng: &mut Rng) -> Vec<Spec> {
    let t = tier == "thorough"; let mut v = vec![];
    for kind in ["unit_source", "unit_sink"] { for (h, _) in hists(rng, t, 1) { v.push(Spec::new(kind).with("xs", join_rats(&h))); } }
    // float copies: histories that make incremental state drift (a huge sample that has left the window, long fractional runs)
    for name in ["mean3_f32", "mean5_f32", "mean4_f64", "conv3_f32", "expmean_f32", "integrate_f32", "kalman_f64", "meanvar3_f64"] { for mode in ["clone", "guts"] {
        for k in 0..(if t { 40 } else { 8 }) {
            let len = if k % 2 == 0 { rng.range(4, 12) } else { rng.range(60, 300) } as usize;
            let mut h: Vec<String> = (0..len).map(|_| format!("{}", rng.range(-2000, 2000))).collect();
            if k % 2 == 0 { h[0] = "100000000".to_string(); }
            let cont: Vec<String> = (0..6).map(|_| format!("{}", rng.range(-2000, 2000))).collect();
            v.push(Spec::new("copyf").with("entry", name).with("mode", mode).with("scale", if k % 4 < 2 { 1 } else { 1000 }).with("xs", h.join(",")).with("ys", cont.join(",")));
        } } }
    // float copies followed by more samples than a 16-bit counter can hold
    for (name, mode) in [("mean5_f32", "guts"), ("mean3_f32", "clone"), ("mean4_f64", "guts")] {
        let mut h: Vec<String> = (0..12).map(|k| format!("{}", 1234 + 7 * k)).collect(); h[0] = "1000000000".to_string();
        let cont: Vec<String> = (0..70_000u32).map(|k| format!("{}", (k * 37 + k / 9) % 2999)).collect();
        v.push(Spec::new("copyf").with("entry", name).with("mode", mode).with("scale", 1000).with("xs", h.join(",")).with("ys", cont.join(","))); }
    // source Cache over a finite source: every program of pulls (0) and cached() reads (1) up to length 6 (7)
    for items in [vec![], vec![3i64], vec![3, 1, 4]] { for l in 1..=(if t { 7 } else { 6 }) { for ops in crate::util::all_seqs(&[0i64, 1], l) {
        v.push(Spec::new("cache_source").with("xs", join(&items)).with("ops", join(&ops))); } } }
    for (name, cfgs, arity) in catalogue() { for cfg in &cfgs { for (i, (h, a)) in hists(rng, t, arity).into_iter().enumerate() {
        let b: Vec<Rat> = a.iter().rev().map(|x| *x + Rat::int(1)).collect();
        v.push(Spec::new("copy").with("entry", name).with("cfg", join_rats(cfg)).with("mode", ["clone", "guts", "clonefrom"][i % 3]).with("pre", join_rats(&h.iter().rev().map(|x| *x + Rat::int(2)).chain(a.iter().cloned()).collect::<Vec<Rat>>())).with("xs", join_rats(&h)).with("ys", join_rats(&a)).with("zs", join_rats(&b))); } } }
    v
}
pub fn exec20(s: &Spec, stats: &mut Stats) -> Outcome {
    if s.kind == "copyf" { stats.bump(format!("entry:float-{}", s.get("entry"))); let sc = s.i64("scale") as f64;
        let h: Vec<f64> = s.i64s("xs").iter().map(|x| *x as f64 / sc).collect(); let c: Vec<f64> = s.i64s("ys").iter().map(|x| *x as f64 / sc).collect();
        return float_copy(s.get("entry"), s.get("mode"), &h, &c); }
    if s.kind == "cache_source" { stats.bump("entry:source-cache"); return cache_source(&s.rats("xs"), &s.rats("ops")); }
    if s.kind != "copy" { stats.bump(format!("entry:{}", s.kind)); return unit_wrappers(&s.kind, &s.rats("xs")); }
    let name = s.get("entry"); let cfg = s.rats("cfg"); let mode = s.get("mode");
    let arity = catalogue().iter().find(|e| e.0 == name).map(|e| e.2).unwrap_or(1);
    let (hist, ca, cb) = (enc_in(&s.rats("xs"), arity), enc_in(&s.rats("ys"), arity), enc_in(&s.rats("zs"), arity));
    stats.bump(format!("entry:{}", name)); stats.bump(format!("mode:{}", mode));
    let (idx, mcfg, mut f) = match build(name, &cfg) { Some(x) => x, None => return Outcome::Skip("unknown-entry") };
    // references: unwrapped fresh filters fed hist ++ continuation
    let inner = match name { "cache_integrate" | "unit_integrate" => "integrate", "cache_median3" => "median3", n => n };
    let r = catch(|| {
        let oh = run_on(&mut f, &hist)?;
        let cached = f.cached();
        let mut copy = if mode == "clone" { f.clone_box() } else if mode == "guts" { let c = f.clone_box(); c.guts() } else {
            // a destination that has already seen other samples is overwritten in place by Clone::clone_from
            let mut dst = build(name, &cfg).unwrap().2; let pre = if s.has("pre") { enc_in(&s.rats("pre"), arity) } else { vec![] };
            run_on(&mut dst, &pre)?; dst.assign_from(f.as_ref()); dst };
        let oa = run_on(&mut f, &ca)?;            // the original first ...
        let ob = run_on(&mut copy, &cb)?;         // ... then the copy, on a different continuation
        let mut ra = build(inner, &cfg).unwrap().2; run_on(&mut ra, &hist)?; let refa = run_on(&mut ra, &ca)?;
        let mut rb = build(inner, &cfg).unwrap().2; run_on(&mut rb, &hist)?; let refb = run_on(&mut rb, &cb)?;
        Ok::<_, String>((oh, oa, ob, refa, refb, cached))
    });
    match r {
        Ok(Ok((oh, oa, ob, refa, refb, cached))) => {
            let cz = match cached { None => "None".to_string(), Some(c) => format!("(Some {})", copt(&c, |t| cqlist(t))) };
            Outcome::Case(format!("mk {}%nat {} {} {} {} {} {} {} {} {} {} false", idx, cqlist(&mcfg), cll(&hist), cll(&ca), cll(&cb), cll(&oh), cll(&oa), cll(&ob), cll(&refa), cll(&refb), cz)) }
        _ => { stats.panics += 1; Outcome::Case(format!("mk {}%nat {} {} {} {} [] [] [] [] [] None true", idx, cqlist(&mcfg), cll(&hist), cll(&ca), cll(&cb))) }
    }
}
