//! Bit-exact stream: the f64 / f32 / integer instantiations of the arithmetic filters, run on arbitrary bit
//! patterns (infinities, NaN, signed zero, subnormals, huge and tiny magnitudes, inexact decimals) and compared in
//! Coq with the generic model evaluated at IEEE-754 (SpecFloat) or integer arithmetic (Check/Float.v).
#![allow(dead_code, unused_imports)]
use crate::util::*;
use core::ops::{Add, Div, Mul, Neg, Rem, Sub};
use num_traits::{Num, One, Signed, Zero};
use signalo_traits::Filter;

/// i64 with every operation checked: an overflow marks the case as skipped instead of wrapping silently
#[derive(Clone, Copy, Debug, Default, PartialEq, PartialOrd)]
pub struct Ck(pub i64);
fn ck(v: Option<i64>) -> Ck { match v { Some(x) => Ck(x), None => { crate::rat::mark_overflow(); Ck(0) } } }
impl Add for Ck { type Output = Ck; fn add(self, o: Ck) -> Ck { ck(self.0.checked_add(o.0)) } }
impl Sub for Ck { type Output = Ck; fn sub(self, o: Ck) -> Ck { ck(self.0.checked_sub(o.0)) } }
impl Mul for Ck { type Output = Ck; fn mul(self, o: Ck) -> Ck { ck(self.0.checked_mul(o.0)) } }
impl Div for Ck { type Output = Ck; fn div(self, o: Ck) -> Ck { if o.0 == 0 { panic!("attempt to divide by zero") } ck(self.0.checked_div(o.0)) } }
impl Rem for Ck { type Output = Ck; fn rem(self, o: Ck) -> Ck { if o.0 == 0 { panic!("attempt to calculate the remainder with a divisor of zero") } ck(self.0.checked_rem(o.0)) } }
impl Neg for Ck { type Output = Ck; fn neg(self) -> Ck { ck(self.0.checked_neg()) } }
impl Zero for Ck { fn zero() -> Ck { Ck(0) } fn is_zero(&self) -> bool { self.0 == 0 } }
impl One for Ck { fn one() -> Ck { Ck(1) } }
impl Num for Ck { type FromStrRadixErr = (); fn from_str_radix(_: &str, _: u32) -> Result<Ck, ()> { Err(()) } }
impl Signed for Ck {
    fn abs(&self) -> Ck { ck(self.0.checked_abs()) }
    fn abs_sub(&self, o: &Ck) -> Ck { if self.0 <= o.0 { Ck(0) } else { *self - *o } }
    fn signum(&self) -> Ck { Ck(self.0.signum()) }
    fn is_positive(&self) -> bool { self.0 > 0 }
    fn is_negative(&self) -> bool { self.0 < 0 }
}

pub trait Samp: Copy + Default + Num + Signed + PartialOrd + 'static { fn parse(s: &str) -> Self; fn show(&self) -> String; fn coq(&self) -> String; const SC: &'static str = ""; }
fn sf(neg: bool, m: u64, e: i64) -> String { format!("(S754_finite {} {} ({}))", neg, m, e) }
impl Samp for f64 {
    fn parse(s: &str) -> f64 { f64::from_bits(u64::from_str_radix(s, 16).unwrap()) }
    fn show(&self) -> String { format!("{:x}", self.to_bits()) }
    fn coq(&self) -> String {
        let b = self.to_bits(); let neg = b >> 63 == 1; let e = ((b >> 52) & 0x7ff) as i64; let f = b & ((1u64 << 52) - 1);
        if self.is_nan() { "S754_nan".into() } else if self.is_infinite() { format!("(S754_infinity {})", neg) } else if *self == 0.0 { format!("(S754_zero {})", neg) }
        else if e == 0 { sf(neg, f, -1074) } else { sf(neg, f | (1u64 << 52), e - 1075) }
    }
}
impl Samp for f32 {
    fn parse(s: &str) -> f32 { f32::from_bits(u32::from_str_radix(s, 16).unwrap()) }
    fn show(&self) -> String { format!("{:x}", self.to_bits()) }
    fn coq(&self) -> String {
        let b = self.to_bits(); let neg = b >> 31 == 1; let e = ((b >> 23) & 0xff) as i64; let f = (b & ((1u32 << 23) - 1)) as u64;
        if self.is_nan() { "S754_nan".into() } else if self.is_infinite() { format!("(S754_infinity {})", neg) } else if *self == 0.0 { format!("(S754_zero {})", neg) }
        else if e == 0 { sf(neg, f, -149) } else { sf(neg, f | (1u64 << 23), e - 150) }
    }
}
impl Samp for Ck {
    const SC: &'static str = "%Z";
    fn parse(s: &str) -> Ck { Ck(s.parse().unwrap()) }
    fn show(&self) -> String { format!("{}", self.0) }
    fn coq(&self) -> String { cz(self.0) }
}

pub fn drive<T: Samp, X: Copy>(xs: &[X], mut f: impl FnMut(X) -> Vec<T>) -> (Vec<T>, bool) {
    let mut ys = vec![];
    for x in xs { match catch(|| f(*x)) { Ok(y) => ys.extend(y), Err(_) => return (ys, true) } }
    (ys, false)
}
pub fn pairs<T: Copy>(xs: &[T]) -> Vec<(T, T)> { xs.chunks_exact(2).map(|c| (c[0], c[1])).collect() }
pub fn arr<T: Samp, const N: usize>(v: &[T]) -> [T; N] { let mut a = [T::zero(); N]; a.copy_from_slice(&v[..N]); a }

// ---- generation -----------------------------------------------------------------------------
const SPECIAL64: [f64; 14] = [0.0, -0.0, f64::INFINITY, f64::NEG_INFINITY, f64::NAN, f64::MAX, f64::MIN_POSITIVE, 5e-324, 1e300, -1e300, 1e-300, 0.1, 1.0, -1.0];
fn rand_f64(rng: &mut Rng, mode: u64) -> f64 {
    match mode {
        0 => rng.range(-1000, 1000) as f64 / 10.0,                                   // inexact decimals
        1 => (rng.range(-999, 999) as f64) * 10f64.powi(rng.range(-12, 12) as i32), // mixed magnitudes: cancellation
        2 => { let v = f64::from_bits(rng.next()); v }                                // arbitrary bit patterns
        3 => if rng.coin(1, 4) { *rng.pick(&SPECIAL64) } else { rng.range(-50, 50) as f64 / 8.0 },
        4 => (rng.range(1, 999) as f64) * 10f64.powi(rng.range(290, 307) as i32) * if rng.coin(1, 2) { -1.0 } else { 1.0 }, // near overflow
        5 => (rng.range(1, 999) as f64) * 10f64.powi(rng.range(-320, -300) as i32),  // subnormal range
        6 => 1.0e9 + rng.range(-5, 5) as f64 * 1e-7,                                  // large offset, tiny variation
        8 => *rng.pick(&[-1.0, 0.0, -0.0, 1.0, 2.0, 2.0, 3.0, 0.5, f64::NAN, f64::INFINITY, f64::NEG_INFINITY]), // small ordered set with specials
        _ => rng.range(-9, 9) as f64 * 1e-9,                                          // nano-scale
    }
}
fn unit_f64(rng: &mut Rng) -> f64 { match rng.below(6) { 0 => 1.0, 1 => 0.0, 2 => 0.5, 3 => 1.0 / 3.0, 4 => 0.1, _ => rng.range(1, 99) as f64 / 100.0 } }
fn params_f64(kind: usize, n: usize, rng: &mut Rng, mode: u64) -> Vec<f64> {
    let wild = |rng: &mut Rng| if mode >= 2 && rng.coin(1, 5) { rand_f64(rng, mode) } else { rng.range(-30, 30) as f64 / 10.0 };
    match kind {
        10 | 22 => vec![unit_f64(rng)], 11 => vec![unit_f64(rng), unit_f64(rng), unit_f64(rng)], 12 => vec![unit_f64(rng), unit_f64(rng) * 2.0],
        13 | 14 => { let pos = |rng: &mut Rng| match rng.below(5) { 0 => 0.0, 1 => 1e20, 2 => 1e-20, _ => rng.range(1, 50) as f64 / 10.0 };
            vec![pos(rng), pos(rng), if rng.coin(1, 2) { 1.0 } else { wild(rng) }, if rng.coin(1, 2) { 0.0 } else { wild(rng) }, if rng.coin(1, 2) { 1.0 } else { wild(rng) }] }
        30 | 31 => (0..n).map(|_| wild(rng)).collect(), 32 | 33 => (0..2 * n).map(|_| wild(rng)).collect(),
        50 | 52 => vec![wild(rng), 0.0, 1.0], 51 => { let a = wild(rng); let b = wild(rng); let (lo, hi) = if a <= b || rng.coin(1, 6) { (a, b) } else { (b, a) }; vec![lo, hi, 0.0, 1.0] }
        53 | 54 => vec![1.0, 0.0, -1.0],
        80 => vec![1.4826, *rng.pick(&[0.0, 0.5, 1.0, 2.0, 3.0, 1e-9])],
        _ => vec![],
    }
}
fn widths(kind: usize) -> &'static [usize] { match kind { 20 | 60 | 61 | 62 => &[1, 2, 3, 4, 5, 7, 8, 16], 70 | 80 => &[1, 2, 3, 4, 5, 7, 9], 52 => &[0, 1, 2, 3], 21 => &[1, 2, 3, 4, 5, 8], 30 | 31 => &[1, 2, 3, 4, 5, 7, 9], 32 | 33 => &[1, 2, 3, 4, 6, 8], _ => &[0] } }

/// `count` cases per (kind, type); types: f64, f32 (f64 values rounded to f32 first), int
pub fn gen(kinds: &[usize], count: usize, rng: &mut Rng) -> Vec<Spec> { gen_with(kinds, count, false, rng) }
/// with `reset`: a second history (`ys`) that is run after resetting the filter
pub fn gen_with(kinds: &[usize], count: usize, reset: bool, rng: &mut Rng) -> Vec<Spec> {
    let mut v = vec![];
    for &kind in kinds { for ty in ["f64", "f32", "int"] { for i in 0..count {
        let n = *rng.pick(widths(kind)); let mode = if kind >= 43 && kind < 80 { [8u64, 8, 3, 0, 8, 2, 3, 8][i % 8] } else { (i as u64) % 8 }; let len = rng.range(1, if i % 7 == 0 { 60 } else { 14 }) as usize;
        let len = if kind == 14 || kind == 33 { 2 * len } else { len };
        let (ps, xs): (Vec<String>, Vec<String>) = if ty == "int" {
            let small = kind == 13 || kind == 14 || kind >= 30 && kind < 40;
            let pv: Vec<i64> = match kind { 13 | 14 => (0..5).map(|j| if j >= 2 && rng.coin(1, 2) { 1 } else { rng.range(-2, 3) }).collect(), _ => params_f64(kind, n, rng, 0).iter().map(|_| rng.range(-3, 4)).collect() };
            let xv: Vec<i64> = (0..(if small { len.min(10) } else { len })).map(|_| if mode == 4 && !small { rng.range(-4_000_000_000, 4_000_000_000) } else if kind >= 50 { rng.range(-4, 4) } else { rng.range(-60, 60) }).collect();
            (pv.iter().map(|x| x.to_string()).collect(), xv.iter().map(|x| x.to_string()).collect())
        } else {
            let mut pv = params_f64(kind, n, rng, mode); let mut cur = rand_f64(rng, mode);
            let xv: Vec<f64> = (0..len).map(|_| { if rng.below(5) != 0 { cur = rand_f64(rng, mode); } cur }).collect();
            // classifiers: thresholds / predicates that coincide with samples (>= against >, ==)
            if (50..=52).contains(&kind) && rng.coin(2, 3) { let k = if kind == 51 { rng.below(2) as usize } else { 0 }; pv[k] = *rng.pick(&xv); }
            if ty == "f32" { (pv.iter().map(|x| (*x as f32).show()).collect(), xv.iter().map(|x| (*x as f32).show()).collect()) }
            else { (pv.iter().map(|x| x.show()).collect(), xv.iter().map(|x| x.show()).collect()) }
        };
        let mut sp = Spec::new("fx").with("ty", ty).with("k", kind).with("N", n).with("ps", ps.join(",")).with("xs", xs.join(","));
        if reset { // the probe after the reset: ordinary values, so that a state that survived the reset shows
            let m = rng.range(1, 6) as usize * if kind == 14 || kind == 33 { 2 } else { 1 };
            let probe: Vec<String> = (0..m).map(|_| { let z = rng.range(-9, 9); match ty { "int" => z.to_string(), "f32" => (z as f32 / 2.0).show(), _ => (z as f64 / 2.0).show() } }).collect();
            sp = sp.with("ys", probe.join(",")); }
        v.push(sp);
    } } }
    v
}

/// the family-specific part: which real filter a kind number denotes
pub trait Runner { fn run<T: Samp>(kind: usize, ps: &[T], n: usize, xs: &[T], xs2: Option<&[T]>) -> Option<(Vec<T>, bool)>; }
/// run a filter over `xs`; when `xs2` is given, reset it (signalo_traits::Reset) and continue over `xs2`
#[macro_export] macro_rules! fx_run { ($f:expr, $xs:expr, $xs2:expr, |$ff:ident, $x:pat_param| $body:expr) => {{
    let mut $ff = $f; let (mut ys, p) = $crate::fx::drive($xs, |$x| $body);
    match $xs2 { Some(x2) if !p => { let mut $ff = signalo_traits::Reset::reset($ff); let (y2, p2) = $crate::fx::drive(x2, |$x| $body); ys.extend(y2); (ys, p2) } _ => (ys, p) } }} }
fn go<T: Samp, R: Runner>(s: &Spec, stats: &mut Stats, head: &str) -> Outcome {
    let kind = s.usize("k"); let n = s.usize("N");
    let ps: Vec<T> = s.strs("ps").iter().map(|x| T::parse(x)).collect(); let xs: Vec<T> = s.strs("xs").iter().map(|x| T::parse(x)).collect();
    let xs2: Option<Vec<T>> = if s.has("ys") { Some(s.strs("ys").iter().map(|x| T::parse(x)).collect()) } else { None };
    stats.bump(format!("fx:{}:{}", s.get("ty"), kind));
    match R::run::<T>(kind, &ps, n, &xs, xs2.as_deref()) {
        None => Outcome::Skip("fx-shape-not-instantiated"),
        Some((ys, p)) => { if p { stats.panics += 1; }
            let l = |v: &[T]| format!("{}{}", clist(v, |x| x.coq()), T::SC);
            Outcome::XCase(format!("{} {}%nat {} {}%nat {} {} {} {}", head, kind, l(&ps), n, l(&xs), copt(&xs2, |v| l(v)), l(&ys), cbool(p))) }
    }
}
pub fn exec<R: Runner>(s: &Spec, stats: &mut Stats) -> Outcome {
    match s.get("ty") { "f64" => go::<f64, R>(s, stats, "xf 0%nat"), "f32" => go::<f32, R>(s, stats, "xf 1%nat"), _ => go::<Ck, R>(s, stats, "xi") }
}
