//! kinds 30/31 (convolution, plain / normalized), 32/33 (wavelet analysis / synthesis)
#![allow(dead_code, unused_imports)]
use crate::fx::*;
use crate::fx_run;
use crate::util::*;
use num_traits::{Num, One, Signed, Zero};
use signalo_traits::{Filter, Finalize, Sink, WithConfig};
macro_rules! by_n { ($n:expr, $f:ident, $t:ty, $args:tt; $($k:literal)*) => { match $n { $($k => Some($f::<$t, $k> $args),)* _ => None } } }

use signalo_filters::convolve::{Config as CC, Convolve};
use signalo_filters::wavelet::{analyze::{Analyze, Config as AC}, synthesize::{Config as SC, Synthesize}};
fn conv_n<T: Samp, const N: usize>(ps: &[T], norm: bool, xs: &[T], xs2: Option<&[T]>) -> (Vec<T>, bool) {
    let cfg = CC { coefficients: arr::<T, N>(ps) };
    let f0 = match catch(|| if norm { Convolve::<T, N>::normalized(cfg) } else { Convolve::<T, N>::with_config(cfg) }) { Ok(f) => f, Err(_) => return (vec![], true) };
    fx_run!(f0, xs, xs2, |f, x| vec![f.filter(x)])
}
fn ana_n<T: Samp, const N: usize>(ps: &[T], xs: &[T], xs2: Option<&[T]>) -> (Vec<T>, bool) {
    let f0 = Analyze::<T, N>::with_config(AC { low_pass: CC { coefficients: arr::<T, N>(&ps[..N]) }, high_pass: CC { coefficients: arr::<T, N>(&ps[N..]) } });
    fx_run!(f0, xs, xs2, |f, x| { let d = f.filter(x); vec![d.low, d.high] })
}
fn syn_n<T: Samp, const N: usize>(ps: &[T], xs: &[T], xs2: Option<&[T]>) -> (Vec<T>, bool) {
    let mut a = Analyze::<T, N>::with_config(AC { low_pass: CC { coefficients: arr::<T, N>(&ps[..N]) }, high_pass: CC { coefficients: arr::<T, N>(&ps[N..]) } });
    let f0 = Synthesize::<T, N>::with_config(SC { low_pass: CC { coefficients: arr::<T, N>(&ps[..N]) }, high_pass: CC { coefficients: arr::<T, N>(&ps[N..]) } });
    // a Decomposition value can only be obtained from Analyze: overwrite its fields with the wanted pair
    let x2p = xs2.map(|v| pairs(v));
    fx_run!(f0, &pairs(xs), x2p.as_deref(), |f, (l, h)| { let mut d = a.filter(T::zero()); d.low = l; d.high = h; vec![f.filter(d)] })
}
pub struct R;
impl Runner for R { fn run<T: Samp>(kind: usize, ps: &[T], n: usize, xs: &[T], xs2: Option<&[T]>) -> Option<(Vec<T>, bool)> {
    match kind {
        30 | 31 => { if ps.len() != n { return None; } by_n!(n, conv_n, T, (ps, kind == 31, xs, xs2); 1 2 3 4 5 7 9) }
        32 => { if ps.len() != 2 * n { return None; } by_n!(n, ana_n, T, (ps, xs, xs2); 1 2 3 4 6 8) }
        33 => { if ps.len() != 2 * n { return None; } by_n!(n, syn_n, T, (ps, xs, xs2); 1 2 3 4 6 8) }
        _ => None,
    }
} }
