//! C01: real Pipe / UnitPipe / `|` nestings of run-time shape over probe-wrapped signalo stages.
use crate::dynpipe::{Ctx, Log, Tree};
use crate::util::*;
use signalo_traits::{Filter, Finalize, Sink, Source};
use std::cell::RefCell;
use std::rc::Rc;

pub const HEADER: &str = "From Coq Require Import ZArith.\nFrom Signalo Require Import Check.Common Model.Pipes Check.C01.\nOpen Scope Z_scope.";

fn shapes(lo: usize, hi: usize) -> Vec<Tree> {          // all binary trees over leaves lo..hi (in order)
    if hi - lo == 1 { return vec![Tree::L(lo)]; }
    let mut v = vec![];
    for m in lo + 1..hi { for a in shapes(lo, m) { for b in shapes(m, hi) { v.push(Tree::P(Box::new(a.clone()), Box::new(b))); } } }
    v
}
fn decorate(t: &Tree, rng: &mut Rng, pu: u64, pb: u64) -> Tree {   // sprinkle unit wrappers and `|`
    let d = match t {
        Tree::P(a, b) => { let (a, b) = (Box::new(decorate(a, rng, pu, pb)), Box::new(decorate(b, rng, pu, pb))); if rng.below(100) < pb { Tree::B(a, b) } else { Tree::P(a, b) } }
        Tree::U(a) => Tree::U(Box::new(decorate(a, rng, pu, pb))), other => other.clone() };
    if rng.below(100) < pu { Tree::U(Box::new(d)) } else { d }
}
pub fn generate(tier: &str, rng: &mut Rng) -> Vec<Spec> {
    let t = tier == "thorough"; let mut v = vec![];
    let kmax = if t { 6 } else { 5 };
    for k in 1..=kmax { for sh in shapes(0, k) { for variant in 0..(if t { 8 } else { 3 }) {
        let tree = match variant { 0 => sh.clone(), 1 => decorate(&sh, rng, 0, 100), _ => decorate(&sh, rng, 30, 50) };
        for mode in ["filter", "source", "sink"] { for _ in 0..(if t { 12 } else { 6 }) {
            let mut kinds: Vec<usize> = (0..k).map(|_| rng.below(4) as usize).collect();
            let len = rng.range(2, if t { 40 } else { 12 }) as usize;
            let xs: Vec<i64> = (0..len).map(|_| rng.range(-9, 9)).collect();
            let mut s = Spec::new(mode).with("tree", tree.show());
            if mode == "source" { kinds[0] = 4; let n = rng.below(7) as usize; let mut sc: Vec<i64> = xs[..n.min(xs.len())].to_vec();
                if sc.len() >= 2 && rng.coin(1, 2) { let at = rng.below(sc.len() as u64) as usize; sc.insert(at, -999); }      // a pause: the source answers None and later delivers again
                s = s.with("src", join(&sc)).with("pulls", sc.len() + 3); }
            if mode == "sink" { kinds[k - 1] = 5 + rng.below(3) as usize; }
            s = s.with("kinds", join(&kinds));
            if mode != "source" { s = s.with("xs", join(&xs)); }
            v.push(s);
        } }
    } } }
    // soak: more samples through one pipe than a 16-bit counter can hold
    for (tree, kinds) in [("P(L0,L1)", "3,1"), ("B(P(L0,L1),U(L2))", "1,3,2")] {
        let xs: Vec<i64> = (0..70_000i64).map(|k| (k * 7 + k / 3) % 19 - 9).collect();
        v.push(Spec::new("filter").with("tree", tree).with("kinds", kinds).with("xs", join(&xs))); }
    v
}
pub fn exec(s: &Spec, stats: &mut Stats) -> Outcome {
    let tree = Tree::parse(s.get("tree")); let kinds: Vec<usize> = s.i64s("kinds").iter().map(|k| *k as usize).collect();
    let nleaves = tree.leaves().len(); if nleaves != kinds.len() { return Outcome::Skip("stage-count-mismatch"); }
    stats.bump(format!("mode:{}", s.kind)); stats.bump(format!("stages:{}", nleaves));
    if s.get("tree").contains('U') { stats.bump("with-unit-pipe"); } if s.get("tree").contains('B') { stats.bump("with-bitor"); }
    let src = if s.has("src") { s.i64s("src") } else { vec![] };
    let log: Log = Rc::new(RefCell::new(vec![]));
    let ctx = Ctx { kinds: &kinds, src: &src, log: log.clone() };
    let (mode, xs, ys, fin, panic): (usize, Vec<i64>, Vec<Option<i64>>, Vec<i64>, bool) = match s.kind.as_str() {
        "filter" => { let xs = s.i64s("xs"); let r = catch(|| { let mut p = ctx.build_f(&tree); xs.iter().map(|x| Some(p.filter(*x))).collect::<Vec<_>>() });
            match r { Ok(y) => (0, xs, y, vec![], false), Err(_) => (0, xs, vec![], vec![], true) } }
        "source" => { let n = s.usize("pulls"); let r = catch(|| { let mut p = ctx.build_s(&tree); (0..n).map(|_| p.source()).collect::<Vec<_>>() });
            match r { Ok(y) => (1, vec![0; n], y, vec![], false), Err(_) => (1, vec![0; n], vec![], vec![], true) } }
        _ => { let xs = s.i64s("xs"); let r = catch(|| { let mut p = ctx.build_k(&tree); for x in &xs { p.sink(*x); } p.finalize() });
            match r { Ok(f) => (2, xs, vec![], f, false), Err(_) => (2, xs, vec![], vec![], true) } }
    };
    if panic { stats.panics += 1; }
    let leaf = |j: usize| format!("(Leaf ({}%nat, {}%nat) {})", kinds[j], j, if kinds[j] == 4 { czlist(&src) } else { "[]".to_string() });
    let lg = log.borrow();
    // soak runs: the call log would be hundreds of thousands of entries; only its length is reported (as one pair)
    let logterm = if xs.len() > 5000 { format!("[({}%nat, 0)]", lg.len()) } else { clist(&lg, |(i, x)| format!("({}%nat, {})", i, cz(*x))) };
    Outcome::Case(format!("mk {}%nat {} {} {} {} {} {}", mode, tree.coq(&leaf), czlist(&xs), clist(&ys, |o| copt(o, |z| cz(*z))),
        logterm, czlist(&fin), cbool(panic)))
}
