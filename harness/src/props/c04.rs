//! C04: signalo_filters::bounds::{max::Max, min::Min, Bounds}<i64, N>, started from states
//! injected through FromGuts whose clock sits `shift` ticks before usize::MAX.
use crate::util::*;
use circular_buffer::CircularBuffer;
use signalo_filters::bounds::{max, min, Bounds, State as BState};
use signalo_traits::{Filter, FromGuts, IntoGuts};

pub const HEADER: &str = "From Coq Require Import ZArith NArith.\nFrom Signalo Require Import Base.Report Check.C04.\nOpen Scope Z_scope.";

pub fn generate(tier: &str, rng: &mut Rng) -> Vec<Spec> {
    let thorough = tier == "thorough";
    let mut v = vec![];
    let abc = [0i64, 1, 2];
    let maxn = if thorough { 6 } else { 5 };
    let mut stride_ctr = 0u64;
    for kind in ["max", "min", "bounds"] {
        // fresh filters: all histories over {0,1,2}
        let l = if thorough { 8 } else { 6 };
        for n in 1..=maxn { for xs in crate::util::all_seqs(&abc, l) {
            if kind == "bounds" && xs[0] != 0 { continue; }
            v.push(Spec::new(kind).with("N", n).with("pre", "").with("xs", join(&xs))); } }
        // injected states: every prefix over {0,1,2} of length 0..=N (=> every well-formed deque over such a
        // window), clock at MAX-shift for shift in 0..=N+1, continuations long enough to pass the rebase and
        // then expire every entry. Quick: complete for N <= 2, every 8th case for N = 3; thorough: complete N <= 4.
        for n in 1..=(if thorough { 4 } else { 3 }) {
            for plen in 0..=n.min(3) { for pre in crate::util::all_seqs(&abc, plen) {
                for shift in 0..=(n + 1) {
                    let cl = if thorough { (n + 3).min(5) } else { [0, 4, 4, 5][n] };
                    for xs in crate::util::all_seqs(&abc, cl) {
                        if kind == "bounds" && (xs[0] == 2) { continue; }
                        stride_ctr += 1;
                        if !thorough && n == 3 && stride_ctr % 8 != 0 { continue; }
                        v.push(Spec::new(kind).with("N", n).with("pre", join(&pre)).with("shift", shift).with("xs", join(&xs)));
                    }
                }
            } }
        }
    }
    // wide windows: long monotone runs, a step back into the run, then a plateau (the deque holds dozens of
    // candidates and must drop exactly the dominated ones), plus triangle waves
    for n in [64usize, 100, 128] { for kind in ["max", "min", "bounds"] { for j in 0..(if thorough { 4 } else { 2 }) {
        let up = n as i64 + 60 + 7 * j as i64; let back = [161i64, 301, 97, 33][j % 4].min(2 * up - 3);
        let mut xs: Vec<i64> = (1..=up).map(|k| 2 * k).collect(); xs.push(back); xs.extend(std::iter::repeat(back).take(n + 5));
        let sign = if kind == "max" { -1 } else { 1 };
        let xs: Vec<i64> = xs.iter().map(|x| sign * x).collect();
        v.push(Spec::new(kind).with("N", n).with("pre", "").with("xs", join(&xs)));
        let tri: Vec<i64> = (0..(3 * n as i64 + 20)).map(|k| { let p = 2 * n as i64 / 3 + j as i64; let r = k % (2 * p); if r < p { r } else { 2 * p - r } }).collect();
        v.push(Spec::new(kind).with("N", n).with("pre", "").with("xs", join(&tri)));
    } } }
    // random long runs, some across the rebase
    let nrand = if thorough { 3000 } else { 300 };
    for i in 0..nrand {
        let n = *rng.pick(&[1usize, 2, 3, 4, 5, 6, 7, 8]);
        let kind = ["max", "min", "bounds"][i % 3];
        let len = rng.range(5, if thorough { 300 } else { 60 }) as usize;
        let mut cur = rng.range(-5, 5);
        let mut gen = |rng: &mut Rng, l: usize| { let mut xs = vec![]; for _ in 0..l { match rng.below(6) { 0 => {} 1 => cur += 1, 2 => cur -= 1, 3 => cur = rng.range(-50, 50), _ => cur = rng.range(-3, 3) } xs.push(cur); } xs };
        let pl = rng.below(12) as usize; let pre = gen(rng, pl);
        let xs = gen(rng, len);
        let mut s = Spec::new(kind).with("N", n).with("pre", join(&pre));
        if i % 2 == 0 { s = s.with("shift", rng.below(len as u64 + 3)); }
        v.push(s.with("xs", join(&xs)));
    }
    // soak: more samples through ONE instance (no re-injection: the ring buffer keeps whatever internal counters it has) than a
    // 16-bit counter can hold, widths that do not divide 65 536; `soak=K` stands for K generated pre-samples, only the window
    // before the checked stretch is handed to Coq
    for (n, kind) in [(3usize, "max"), (6, "min"), (5, "bounds")] {
        let xs: Vec<i64> = (0..300i64).map(|k| ((k * 5 + k / 7) % 9) - (k % 4)).collect();
        v.push(Spec::new(kind).with("N", n).with("pre", "").with("soak", 65_700).with("xs", join(&xs))); }
    add_entry_points(v, rng, &["max", "min", "bounds"], 60, |rng: &mut Rng| { let l = rng.range(1, 4); (0..l).map(|k| if k == 0 { rng.range(5, 9).to_string() } else { rng.range(-11, 11).to_string() }).collect::<Vec<_>>().join(",") })
}

fn taps_of<const N: usize>(cb: &CircularBuffer<N, (i64, usize)>) -> Vec<(i64, usize)> { cb.iter().cloned().collect() }
fn cb_of<const N: usize>(v: &[(i64, usize)]) -> CircularBuffer<N, (i64, usize)> { let mut cb = CircularBuffer::new(); for e in v { cb.push_back(*e); } cb }
fn ctaps(v: &[(i64, usize)]) -> String { clist(v, |(a, t)| format!("({}, {}%N)", cz(*a), t)) }
fn shifted(taps: &[(i64, usize)], d: usize) -> Vec<(i64, usize)> { taps.iter().map(|(a, t)| (*a, t + d)).collect() }

/// the same-instance soak: `soak` pre-samples and then `xs` go through ONE filter object; its state before `xs` is read from a clone
fn run_soak<const N: usize>(kind: &str, soak: usize, xs: &[i64], stats: &mut Stats) -> Outcome {
    let pre: Vec<i64> = (0..soak as i64).map(|k| ((k * 7 + k / 5) % 11) - (k % 3)).collect();
    let window: Vec<i64> = pre[pre.len().saturating_sub(N)..].to_vec();
    let mut ys: Vec<(i64, i64)> = vec![]; let mut panic = false;
    let (k, time0, a0, b0, time1, a1, b1);
    match kind {
        "max" => { let mut f: max::Max<i64, N> = Default::default(); for x in &pre { f.filter(*x); }
            let g0 = f.clone().into_guts(); time0 = g0.time; a0 = taps_of(&g0.taps); b0 = vec![];
            for x in xs { match catch(|| f.filter(*x)) { Ok(y) => ys.push((y, y)), Err(_) => { panic = true; break } } }
            let g = f.into_guts(); k = 0; time1 = g.time; a1 = taps_of(&g.taps); b1 = vec![]; }
        "min" => { let mut f: min::Min<i64, N> = Default::default(); for x in &pre { f.filter(*x); }
            let g0 = f.clone().into_guts(); time0 = g0.time; a0 = taps_of(&g0.taps); b0 = vec![];
            for x in xs { match catch(|| f.filter(*x)) { Ok(y) => ys.push((y, y)), Err(_) => { panic = true; break } } }
            let g = f.into_guts(); k = 1; time1 = g.time; a1 = taps_of(&g.taps); b1 = vec![]; }
        _ => { let mut f: Bounds<i64, N> = Default::default(); for x in &pre { f.filter(*x); }
            let g0 = f.clone().into_guts(); let (m0, x0) = (g0.min.into_guts(), g0.max.into_guts()); time0 = m0.time; a0 = taps_of(&m0.taps); b0 = taps_of(&x0.taps);
            for x in xs { match catch(|| f.filter(*x)) { Ok(y) => ys.push(y), Err(_) => { panic = true; break } } }
            let g = f.into_guts(); let (gmin, gmax) = (g.min.into_guts(), g.max.into_guts());
            k = 2; time1 = gmin.time; a1 = taps_of(&gmin.taps); b1 = taps_of(&gmax.taps); }
    }
    if panic { stats.panics += 1; }
    stats.bump("same-instance-soak");
    Outcome::Case(format!("mk {}%nat {}%N {} {}%N {} {} {} {} {} {}%N {} {}", k, N, czlist(&window), time0, ctaps(&a0), ctaps(&b0),
        czlist(xs), clist(&ys, |(a, b)| format!("({}, {})", cz(*a), cz(*b))), cbool(panic), time1, ctaps(&a1), ctaps(&b1)))
}

fn run<const N: usize>(kind: &str, pre: &[i64], shift: Option<usize>, xs: &[i64], stats: &mut Stats) -> Outcome {
    // 1. reach a well-formed state on the real code, 2. move its clock, 3. re-inject it
    let mut fmax: max::Max<i64, N> = enter(Default::default(), stats, |f: &mut max::Max<i64, N>, t| { f.filter(t.parse::<i64>().unwrap()); });
    let mut fmin: min::Min<i64, N> = enter(Default::default(), stats, |f: &mut min::Min<i64, N>, t| { f.filter(t.parse::<i64>().unwrap()); });
    for x in pre { fmax.filter(*x); fmin.filter(*x); }
    let (gmax, gmin) = (fmax.into_guts(), fmin.into_guts());
    let t = gmax.time;
    let d = match shift { Some(s) => (usize::MAX - s) - t, None => 0 };
    let (tmax, tmin) = (shifted(&taps_of(&gmax.taps), d), shifted(&taps_of(&gmin.taps), d));
    let time0 = t + d;
    let mut ys: Vec<(i64, i64)> = vec![]; let mut panic = false;
    let (k, a0, b0, time1, a1, b1);
    match kind {
        "max" => {
            let mut f = max::Max::<i64, N>::from_guts(max::State { time: time0, taps: cb_of(&tmax) });
            for x in xs { match catch(|| f.filter(*x)) { Ok(y) => ys.push((y, y)), Err(_) => { panic = true; break } } }
            let g = f.into_guts(); k = 0; a0 = tmax; b0 = vec![]; time1 = g.time; a1 = taps_of(&g.taps); b1 = vec![];
        }
        "min" => {
            let mut f = min::Min::<i64, N>::from_guts(min::State { time: time0, taps: cb_of(&tmin) });
            for x in xs { match catch(|| f.filter(*x)) { Ok(y) => ys.push((y, y)), Err(_) => { panic = true; break } } }
            let g = f.into_guts(); k = 1; a0 = tmin; b0 = vec![]; time1 = g.time; a1 = taps_of(&g.taps); b1 = vec![];
        }
        _ => {
            let mut f = Bounds::<i64, N>::from_guts(BState {
                min: min::Min::from_guts(min::State { time: time0, taps: cb_of(&tmin) }),
                max: max::Max::from_guts(max::State { time: time0, taps: cb_of(&tmax) }) });
            for x in xs { match catch(|| f.filter(*x)) { Ok(y) => ys.push(y), Err(_) => { panic = true; break } } }
            let g = f.into_guts(); let (gmin, gmax) = (g.min.into_guts(), g.max.into_guts());
            k = 2; a0 = tmin; b0 = tmax; time1 = gmin.time; a1 = taps_of(&gmin.taps); b1 = taps_of(&gmax.taps);
            if gmin.time != gmax.time { stats.bump("bounds-clocks-differ"); }
        }
    }
    if panic { stats.panics += 1; }
    Outcome::Case(format!("mk {}%nat {}%N {} {}%N {} {} {} {} {} {}%N {} {}", k, N, czlist(pre), time0, ctaps(&a0), ctaps(&b0),
        czlist(xs), clist(&ys, |(a, b)| format!("({}, {})", cz(*a), cz(*b))), cbool(panic), time1, ctaps(&a1), ctaps(&b1)))
}

pub fn exec(s: &Spec, stats: &mut Stats) -> Outcome {
    let n = s.usize("N");
    let (pre, xs) = (s.i64s("pre"), s.i64s("xs"));
    let shift = if s.has("shift") { Some(s.usize("shift")) } else { None };
    stats.bump(format!("N:{}", n)); stats.bump(format!("len:{}", xs.len() / 10 * 10));
    if let Some(sh) = shift { if sh < xs.len() { stats.bump("crosses-rebase"); } else { stats.bump("injected-no-rebase"); } }
    if s.has("soak") { let k = s.usize("soak"); return crate::dispatch_n!(n, run_soak, (s.kind.as_str(), k, &xs, stats); 1 2 3 4 5 6 7 8 64 100 128); }
    crate::dispatch_n!(n, run, (s.kind.as_str(), &pre, shift, &xs, stats); 1 2 3 4 5 6 7 8 64 100 128)
}
