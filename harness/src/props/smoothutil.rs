#![allow(unused_imports, dead_code)]
//! C15 (Differentiate/Integrate), C13 (exponential mean/median), C14 (alpha-beta), C06 (Kalman)
//! over exact rationals.
use crate::rat::Rat;
use crate::util::*;
use signalo_filters::{differentiate::Differentiate, integrate::Integrate, mean::exp::mean as ema, median::exp as xmed,
    observe::{alpha_beta as ab, kalman as kal}};
use signalo_pipes::pipe::Pipe;
use signalo_traits::{Filter, IntoGuts, WithConfig};

#[allow(dead_code)] pub const H15: &str = "From Signalo Require Import Check.Common Check.C15.";
#[allow(dead_code)] pub const H13: &str = "From Signalo Require Import Check.Common Check.C13.";
#[allow(dead_code)] pub const H14: &str = "From Signalo Require Import Check.Common Check.C14.";
#[allow(dead_code)] pub const H06: &str = "From Signalo Require Import Check.Common Model.Smooth Check.C06.";

pub fn run_all<F: Filter<Rat, Output = Rat>>(f: &mut F, xs: &[Rat]) -> (Vec<Rat>, bool) {
    let mut ys = vec![];
    for x in xs { match catch(|| f.filter(*x)) { Ok(y) => ys.push(y), Err(_) => return (ys, true) } }
    (ys, false)
}
pub fn rand_hist(rng: &mut Rng, len: usize, den: i64) -> Vec<Rat> {
    let mut cur = Rat::new(rng.range(-9, 9) as i128, rng.range(1, den) as i128);
    (0..len).map(|_| { match rng.below(5) { 0 => {} 1 => cur = Rat::int(rng.range(-40, 40)), _ => cur = Rat::new(rng.range(-9, 9) as i128, rng.range(1, den) as i128) } cur }).collect()
}
pub fn small_hists(len: usize) -> Vec<Vec<Rat>> { crate::util::all_seqs(&[Rat::int(-1), Rat::int(0), Rat::int(2)], len) }

