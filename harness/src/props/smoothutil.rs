#![allow(unused_imports, dead_code)]
//! C15 (Differentiate/Integrate), C13 (exponential mean/median), C14 (alpha-beta), C06 (Kalman)
//! over exact rationals.
use crate::rat::Rat;
use crate::util::*;
use signalo_filters::{differentiate::Differentiate, integrate::Integrate, mean::exp::mean as ema, median::exp as xmed,
    observe::{alpha_beta as ab, kalman as kal}};
use signalo_pipes::pipe::Pipe;
use signalo_traits::{Filter, IntoGuts, WithConfig};

#[allow(dead_code)] pub const H15: &str = "From Signalo Require Import Check.Common Check.C15.";
#[allow(dead_code)] pub const H13: &str = "From Signalo Require Import Check.Common Check.C13.";
#[allow(dead_code)] pub const H14: &str = "From Signalo Require Import Check.Common Check.C14.";
#[allow(dead_code)] pub const H06: &str = "From Signalo Require Import Check.Common Model.Smooth Check.C06.";

pub fn run_all<F: Filter<Rat, Output = Rat>>(f: &mut F, xs: &[Rat]) -> (Vec<Rat>, bool) {
    let mut ys = vec![];
    for x in xs { match catch(|| f.filter(*x)) { Ok(y) => ys.push(y), Err(_) => return (ys, true) } }
    (ys, false)
}
pub fn rand_hist(rng: &mut Rng, len: usize, den: i64) -> Vec<Rat> {
    let mut cur = Rat::new(rng.range(-9, 9) as i128, rng.range(1, den) as i128);
    (0..len).map(|_| { match rng.below(5) { 0 => {} 1 => cur = Rat::int(rng.range(-40, 40)), _ => cur = Rat::new(rng.range(-9, 9) as i128, rng.range(1, den) as i128) } cur }).collect()
}
pub fn small_hists(len: usize) -> Vec<Vec<Rat>> { crate::util::all_seqs(&[Rat::int(-1), Rat::int(0), Rat::int(2)], len) }


/// run a float instantiation on exactly representable inputs and report its outputs as exact rationals
pub struct ViaF64<F>(pub F);
impl<F: Filter<f64, Output = f64>> Filter<Rat> for ViaF64<F> { type Output = Rat; fn filter(&mut self, x: Rat) -> Rat { f64_exact(self.0.filter(x.to_f64())).unwrap_or(Rat::int(i64::MAX / 16)) } }
pub struct ViaF32<F>(pub F);
impl<F: Filter<f32, Output = f32>> Filter<Rat> for ViaF32<F> { type Output = Rat; fn filter(&mut self, x: Rat) -> Rat { f64_exact(self.0.filter(x.to_f64() as f32) as f64).unwrap_or(Rat::int(i64::MAX / 16)) } }
pub fn int_hist(rng: &mut Rng, len: usize, mag: i64) -> Vec<Rat> { let mut cur = rng.range(-mag, mag); (0..len).map(|_| { if rng.below(4) != 0 { cur = rng.range(-mag, mag); } Rat::int(cur) }).collect() }

/// Entry points other than construction.  A spec with `via=reset|clonefrom` and `pre=<samples>` first feeds `pre` to the
/// filter and then brings it back to its freshly constructed behaviour through `Reset::reset` / `Clone::clone_from(&fresh)`;
/// only then does it see `xs`.  The case is judged exactly like a fresh run (that a reset / overwritten filter IS a fresh one
/// is C12 / C20; the property's own clauses - first output, recurrence, hull - must hold on that path too).
pub fn prep<F>(f: F, s: &Spec, stats: &mut Stats) -> F where F: Filter<Rat> + signalo_traits::Reset + Clone {
    if !s.has("via") { return f; }
    stats.bump(format!("via:{}", s.get("via")));
    let fresh = f.clone();
    let mut g = f;
    for x in s.rats("pre") { let _ = catch(|| g.filter(x)); }
    match s.get("via") { "reset" => g.reset(), "clonefrom" => { g.clone_from(&fresh); g } _ => g }
}
/// adds, for a share of the generated specs of the given kinds, copies that enter through reset / clone_from after a history
pub fn with_entry_points(v: Vec<Spec>, rng: &mut Rng, kinds: &[&str], every: u64) -> Vec<Spec> {
    let mut out = Vec::with_capacity(v.len() + v.len() / every as usize * 2 + 8);
    let mut firsts: std::collections::BTreeSet<String> = Default::default();
    for s in v {
        let eligible = kinds.contains(&s.kind.as_str()) && !s.has("ty") && !s.has("v0") && !s.has("cov0") && !s.has("via") && s.has("xs") && !s.get("xs").is_empty();
        let first = eligible && firsts.insert(s.kind.clone() + if s.get("xs").contains(',') { "+" } else { "" });
        if eligible && (first || rng.below(every) == 0) {
            let l = rng.range(1, 4) as usize;
            let pre: Vec<Rat> = (0..l).map(|k| if k == 0 { Rat::int(rng.range(5, 9)) } else { Rat::new(rng.range(-11, 11) as i128, rng.range(1, 2) as i128) }).collect();
            for via in ["reset", "clonefrom"] { out.push(s.clone().with("via", via).with("pre", join_rats(&pre))); }
        }
        out.push(s);
    }
    out
}
