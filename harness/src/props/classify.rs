//! C08 (threshold, schmitt, debounce over i64) and C09 (slopes, peaks over f64 incl. NaN, and the slope-driven path).
use crate::util::*;
use signalo_filters::classify::{debounce, peaks, schmitt, slopes, threshold};
use signalo_traits::{Filter, FromGuts, IntoGuts, StateMut, WithConfig};

pub const H08: &str = "From Coq Require Import ZArith NArith.\nFrom Signalo Require Import Check.Common Check.C08.\nOpen Scope Z_scope.";
pub const H09: &str = "From Coq Require Import ZArith.\nFrom Signalo Require Import Check.Common Check.C09.\nOpen Scope Z_scope.";

pub fn gen08(tier: &str, rng: &mut Rng) -> Vec<Spec> {
    let t = tier == "thorough"; let mut v = vec![];
    let outs = [(10i64, 20i64), (-1, 1), (7, 7)];
    // threshold: samples below / equal / above
    for l in 0..=(if t { 6 } else { 5 }) { for (i, xs) in crate::util::all_seqs(&[4i64, 5, 6], l).into_iter().enumerate() {
        let (off, on) = outs[i % 2];
        v.push(Spec::new("threshold").with("a", 5).with("off", off).with("on", on).with("xs", join(&xs))); } }
    // schmitt: the three relations of low to high; sample positions below / equal / between / above
    for (lo, hi, alpha) in [(2i64, 6i64, vec![1i64, 2, 4, 6, 7]), (4, 4, vec![3, 4, 5]), (6, 2, vec![1, 2, 4, 6, 7])] {
        for xs in crate::util::all_seqs(&alpha, if t { 7 } else { if alpha.len() == 3 { 7 } else { 5 } }) {
            let (off, on) = outs[(xs.len() + xs[0] as usize) % 2];
            v.push(Spec::new("schmitt").with("a", lo).with("b", hi).with("off", off).with("on", on).with("xs", join(&xs)));
        }
    }
    // debounce: thresholds 0..8, fresh and injected counters at the end of the range
    for thr in 0..=8u64 { for xs in crate::util::all_seqs(&[7i64, 3], if t { 9 } else { 7 }) {
        v.push(Spec::new("debounce").with("a", 7).with("thr", thr).with("c0", 0).with("off", 10).with("on", 20).with("xs", join(&xs))); } }
    for c0 in [u64::MAX, u64::MAX - 1, u64::MAX - 2, u64::MAX - 3, 5, 1000] { for thr in [0u64, 1, 3, u64::MAX - 2, u64::MAX - 1, u64::MAX] {
        for xs in crate::util::all_seqs(&[7i64, 3], if t { 7 } else { 5 }) {
            v.push(Spec::new("debounce").with("a", 7).with("thr", thr).with("c0", c0).with("off", 10).with("on", 20).with("xs", join(&xs))); } } }
    for _ in 0..(if t { 2000 } else { 300 }) {
        let len = rng.range(1, 60) as usize; let xs: Vec<i64> = (0..len).map(|_| rng.range(0, 9)).collect();
        match rng.below(3) {
            0 => v.push(Spec::new("threshold").with("a", rng.range(0, 9)).with("off", 0).with("on", 1).with("xs", join(&xs))),
            1 => v.push(Spec::new("schmitt").with("a", rng.range(0, 9)).with("b", rng.range(0, 9)).with("off", 0).with("on", 1).with("xs", join(&xs))),
            _ => { let xs: Vec<i64> = xs.iter().map(|x| if *x < 7 { 7 } else { *x }).collect();
                   v.push(Spec::new("debounce").with("a", 7).with("thr", rng.below(12)).with("c0", 0).with("off", 0).with("on", 1).with("xs", join(&xs))) }
        }
    }
    add_entry_points(v, rng, &["threshold", "schmitt", "debounce"], 25, |rng: &mut Rng| { let l = rng.range(1, 4); (0..l).map(|_| rng.range(0, 9).to_string()).collect::<Vec<_>>().join(",") })
}
pub fn exec08(s: &Spec, stats: &mut Stats) -> Outcome {
    let xs = s.i64s("xs"); let (off, on) = (s.i64("off"), s.i64("on")); let a = s.i64("a");
    stats.bump(format!("kind:{}", s.kind)); stats.bump(format!("len:{}", xs.len() / 10 * 10));
    let mut ys = vec![]; let mut panic = false;
    let (k, b, thr, c0, fin): (u8, i64, u64, u64, u64);
    match s.kind.as_str() {
        "threshold" => { let mut f = enter(threshold::Threshold::with_config(threshold::Config { threshold: a, outputs: [off, on] }), stats, |f, t| { f.filter(t.parse::<i64>().unwrap()); });
            for x in &xs { match catch(|| f.filter(*x)) { Ok(y) => ys.push(y), Err(_) => { panic = true; break } } }
            k = 0; b = 0; thr = 0; c0 = 0; fin = 0; }
        "schmitt" => { b = s.i64("b"); let mut f = enter(schmitt::Schmitt::with_config(schmitt::Config { thresholds: [a, b], outputs: [off, on] }), stats, |f, t| { f.filter(t.parse::<i64>().unwrap()); });
            for x in &xs { match catch(|| f.filter(*x)) { Ok(y) => ys.push(y), Err(_) => { panic = true; break } } }
            k = 1; thr = 0; c0 = 0; fin = f.into_guts().1.on as u64; }
        _ => { thr = s.u64("thr"); c0 = s.u64("c0");
            if c0 > 0 { stats.bump("debounce-injected-counter"); }
            let cfg = debounce::Config { threshold: thr as usize, predicate: a, outputs: [off, on] };
            let mut f = if ENTRY.with(|e| e.borrow().is_some()) { enter(debounce::Debounce::with_config(cfg), stats, |f, t| { f.filter(t.parse::<i64>().unwrap()); }) }
                        else if xs.len() % 2 == 0 { debounce::Debounce::from_guts((cfg, debounce::State { count: c0 as usize })) }
                        else { let mut f = debounce::Debounce::with_config(cfg); unsafe { f.state_mut().count = c0 as usize; } f };
            for x in &xs { match catch(|| f.filter(*x)) { Ok(y) => ys.push(y), Err(_) => { panic = true; break } } }
            k = 2; b = 0; fin = f.into_guts().1.count as u64; }
    }
    if panic { stats.panics += 1; }
    Outcome::Case(format!("mk {}%nat {} {} {}%N {}%N {} {} {} {} {} {}%N", k, cz(a), cz(b), thr, c0, cz(off), cz(on), czlist(&xs), czlist(&ys), cbool(panic), fin))
}

fn tok(v: &str) -> f64 { if v == "nan" { f64::NAN } else { v.parse::<i64>().unwrap() as f64 } }
fn show(x: f64) -> String { if x.is_nan() { "None".into() } else { format!("(Some {})", cz(x as i64)) } }
pub fn gen09(tier: &str, rng: &mut Rng) -> Vec<Spec> {
    let t = tier == "thorough"; let mut v = vec![];
    let s3: Vec<String> = ["0", "1", "2"].iter().map(|s| s.to_string()).collect();
    let s4: Vec<String> = ["0", "1", "nan", "2"].iter().map(|s| s.to_string()).collect();
    // soak: more samples than a 16-bit counter can hold (one zig-zag run each; the thorough tier adds an irregular one)
    for kind in ["slopes", "peaks", "peaks_slopes"] { for j in 0..(if t { 2 } else { 1 }) {
        let xs: Vec<String> = (0..70_000u32).map(|k| if kind == "peaks_slopes" { ((k + j) % 3).to_string() } else if j == 0 { (k % 2).to_string() } else { ((k * 7 + k / 5) % 4).to_string() }).collect();
        v.push(Spec::new(kind).with("xs", xs.join(","))); } }
    for kind in ["slopes", "peaks", "peaks_slopes"] {
        for l in 0..=(if t { 9 } else { 8 }) { for xs in crate::util::all_seqs(&s3, l) { v.push(Spec::new(kind).with("xs", xs.join(","))); } }
        if kind != "peaks_slopes" { for xs in crate::util::all_seqs(&s4, if t { 7 } else { 6 }) { v.push(Spec::new(kind).with("xs", xs.join(","))); } }
        for _ in 0..(if t { 1500 } else { 200 }) { let len = rng.range(3, 80) as usize; let hi = if kind == "peaks_slopes" { 2 } else { rng.range(2, 9) };
            let xs: Vec<String> = (0..len).map(|_| rng.range(0, hi).to_string()).collect(); v.push(Spec::new(kind).with("xs", xs.join(","))); }
    }
    add_entry_points(v, rng, &["slopes", "peaks", "peaks_slopes"], 40, |rng: &mut Rng| { let l = rng.range(1, 4); (0..l).map(|_| rng.range(0, 2).to_string()).collect::<Vec<_>>().join(",") })
}
pub fn exec09(s: &Spec, stats: &mut Stats) -> Outcome {
    let toks = s.strs("xs"); let xs: Vec<f64> = toks.iter().map(|t| tok(t)).collect();
    stats.bump(format!("kind:{}", s.kind)); stats.bump(format!("len:{}", xs.len() / 10 * 10));
    let mut ys: Vec<usize> = vec![]; let mut panic = false;
    let k = match s.kind.as_str() {
        "slopes" => { let mut f: slopes::Slopes<f64, usize> = enter(slopes::Slopes::with_config(slopes::Config { outputs: [0, 1, 2] }), stats, |f, t| { f.filter(tok(t) + 5.0); });
            for x in &xs { match catch(|| f.filter(*x)) { Ok(y) => ys.push(y), Err(_) => { panic = true; break } } } 0 }
        "peaks" => { let mut f: peaks::Peaks<f64, usize> = enter(peaks::Peaks::with_config(peaks::Config { outputs: [0, 1, 2] }), stats, |f, t| { f.filter(tok(t) * 3.0 + 1.0); });
            for x in &xs { match catch(|| f.filter(*x)) { Ok(y) => ys.push(y), Err(_) => { panic = true; break } } } 1 }
        _ => { let mut f: peaks::Peaks<slopes::Slope, usize> = enter(peaks::Peaks::with_config(peaks::Config { outputs: [0, 1, 2] }), stats, |f, t| { f.filter(match t { "0" => slopes::Slope::Rising, "2" => slopes::Slope::Falling, _ => slopes::Slope::None }); });
            for x in &xs { let sl = match *x as i64 { 0 => slopes::Slope::Rising, 2 => slopes::Slope::Falling, _ => slopes::Slope::None };
                match catch(|| f.filter(sl)) { Ok(y) => ys.push(y), Err(_) => { panic = true; break } } } 2 }
    };
    if panic { stats.panics += 1; }
    Outcome::Case(format!("mk {}%nat {} {} {}", k, clist(&xs, |x| show(*x)), clist(&ys, |y| format!("{}%nat", y)), cbool(panic)))
}
