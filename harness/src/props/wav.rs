//! C07: Analyze/Synthesize<Rat,N> with arbitrary kernels, and the kernels held by the compiled
//! Daubechies presets (f32 and f64, orders 2..20).
use crate::util::f64_exact;
use crate::rat::Rat;
use crate::util::*;
use signalo_filters::convolve::Config as CC;
use signalo_filters::wavelet::{analyze::{Analyze, Config as AC}, daubechies::Daubechies, synthesize::{Config as SC, Synthesize}};
use signalo_traits::{ConfigClone, Filter, WithConfig};

pub const HEADER: &str = "From Signalo Require Import Check.Common Check.C07.";

pub fn generate(tier: &str, rng: &mut Rng) -> Vec<Spec> {
    let t = tier == "thorough"; let mut v = vec![];
    let ks = [Rat::int(-1), Rat::int(0), Rat::int(2)];
    for n in 1..=2usize { for la in crate::util::all_seqs(&ks, n) { for ha in crate::util::all_seqs(&ks, n) {
        for (i, xs) in crate::util::all_seqs(&[Rat::int(-1), Rat::int(1), Rat::int(3)], if t { 5 } else { 4 }).into_iter().enumerate() {
            let ls: Vec<Rat> = la.iter().rev().cloned().collect(); let hs: Vec<Rat> = if i % 2 == 0 { ha.iter().rev().cloned().collect() } else { ha.clone() };
            if !t && n == 2 && i % 3 != 0 { continue; }
            v.push(Spec::new("wav").with("N", n).with("la", join_rats(&la)).with("ha", join_rats(&ha)).with("ls", join_rats(&ls)).with("hs", join_rats(&hs)).with("xs", join_rats(&xs)));
        } } } }
    for _ in 0..(if t { 2500 } else { 400 }) {
        let n = *rng.pick(&[1usize, 2, 3, 4, 6, 8, 16, 18, 20]);
        let k = |rng: &mut Rng| (0..n).map(|_| Rat::new(rng.range(-4, 4) as i128, rng.range(1, 3) as i128)).collect::<Vec<Rat>>();
        let len = rng.range(1, if t { 30 } else { 16 }) as usize;
        let xs: Vec<Rat> = (0..len).map(|_| Rat::new(rng.range(-6, 6) as i128, rng.range(1, 2) as i128)).collect();
        v.push(Spec::new("wav").with("N", n).with("la", join_rats(&k(rng))).with("ha", join_rats(&k(rng))).with("ls", join_rats(&k(rng))).with("hs", join_rats(&k(rng))).with("xs", join_rats(&xs)));
    }
    // data through the kernels of the longer presets' widths (the exact rational kernels of the model)
    for n in [16usize, 18, 20] { for j in 0..(if t { 4 } else { 2 }) {
        let k = |rng: &mut Rng| (0..n).map(|i| Rat::new(rng.range(-4, 4) as i128 + if i + 2 >= n { 3 } else { 0 }, 4)).collect::<Vec<Rat>>();
        let xs: Vec<Rat> = (0..(n + 12 + j)).map(|_| Rat::int(rng.range(-5, 5))).collect();
        v.push(Spec::new("wav").with("N", n).with("la", join_rats(&k(rng))).with("ha", join_rats(&k(rng))).with("ls", join_rats(&k(rng))).with("hs", join_rats(&k(rng))).with("xs", join_rats(&xs))); } }
    for n in (2..=20).step_by(2) { for ty in ["f32", "f64"] { v.push(Spec::new("daub").with("N", n).with("ty", ty)); } }
    v
}

fn arr<const N: usize>(v: &[Rat]) -> [Rat; N] { let mut a = [Rat::int(0); N]; a.copy_from_slice(v); a }
fn wav<const N: usize>(la: &[Rat], ha: &[Rat], ls: &[Rat], hs: &[Rat], xs: &[Rat], stats: &mut Stats) -> Outcome {
    let mut a = Analyze::<Rat, N>::with_config(AC { low_pass: CC { coefficients: arr(la) }, high_pass: CC { coefficients: arr(ha) } });
    let mut s = Synthesize::<Rat, N>::with_config(SC { low_pass: CC { coefficients: arr(ls) }, high_pass: CC { coefficients: arr(hs) } });
    let (mut dec, mut ys, mut panic) = (vec![], vec![], false);
    for x in xs {
        match catch(|| a.filter(*x)) { Ok(d) => { dec.push((d.low, d.high));
            match catch(|| s.filter(d)) { Ok(y) => ys.push(y), Err(_) => { panic = true; break } } } Err(_) => { panic = true; break } }
    }
    if panic { stats.panics += 1; }
    Outcome::Case(format!("mk 0%nat {} {} {} {} {} {} {} {}", cqlist(la), cqlist(ha), cqlist(ls), cqlist(hs), cqlist(xs), clist(&dec, |(l, h)| format!("({}, {})", cq(l), cq(h))), cqlist(&ys), cbool(panic)))
}
macro_rules! daub_cfg {
    ($n:expr, $ty:expr; $($k:literal)*) => { match ($n, $ty) {
        $( ($k, "f32") => { let a = <Analyze<f32, $k> as Daubechies>::daubechies().config(); let s = <Synthesize<f32, $k> as Daubechies>::daubechies().config();
              Some([a.low_pass.coefficients.iter().map(|c| *c as f64).collect::<Vec<f64>>(), a.high_pass.coefficients.iter().map(|c| *c as f64).collect(), s.low_pass.coefficients.iter().map(|c| *c as f64).collect(), s.high_pass.coefficients.iter().map(|c| *c as f64).collect()]) }
           ($k, _) => { let a = <Analyze<f64, $k> as Daubechies>::daubechies().config(); let s = <Synthesize<f64, $k> as Daubechies>::daubechies().config();
              Some([a.low_pass.coefficients.to_vec(), a.high_pass.coefficients.to_vec(), s.low_pass.coefficients.to_vec(), s.high_pass.coefficients.to_vec()]) } )*
        _ => None } };
}
pub fn exec(s: &Spec, stats: &mut Stats) -> Outcome {
    let n = s.usize("N"); stats.bump(format!("kind:{}", s.kind)); stats.bump(format!("N:{}", n));
    if s.kind == "wav" {
        let (la, ha, ls, hs, xs) = (s.rats("la"), s.rats("ha"), s.rats("ls"), s.rats("hs"), s.rats("xs"));
        if [&la, &ha, &ls, &hs].iter().any(|k| k.len() != n) { return Outcome::Skip("kernel-length-mismatch"); }
        crate::dispatch_n!(n, wav, (&la, &ha, &ls, &hs, &xs, stats); 1 2 3 4 6 8 16 18 20)
    } else {
        let ty = s.get("ty");
        let ks = match daub_cfg!(n, ty; 2 4 6 8 10 12 14 16 18 20) { Some(k) => k, None => return Outcome::Skip("order-not-instantiated") };
        let ex: Option<Vec<Vec<Rat>>> = ks.iter().map(|k| k.iter().map(|c| f64_exact(*c)).collect::<Option<Vec<Rat>>>()).collect();
        match ex { Some(e) => Outcome::Case(format!("mk {}%nat {} {} {} {} [] [] [] false", if ty == "f64" { 1 } else { 2 }, cqlist(&e[0]), cqlist(&e[1]), cqlist(&e[2]), cqlist(&e[3]))), None => Outcome::Skip("non-finite-coefficient") }
    }
}
