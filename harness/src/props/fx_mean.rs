//! kinds 20 (moving mean), 21 (moving mean-variance), 22 (exponential mean-variance)
#![allow(dead_code, unused_imports)]
use crate::fx::*;
use crate::fx_run;
use crate::util::*;
use num_traits::{Num, One, Signed, Zero};
use signalo_traits::{Filter, Finalize, Sink, WithConfig};
macro_rules! by_n { ($n:expr, $f:ident, $t:ty, $args:tt; $($k:literal)*) => { match $n { $($k => Some($f::<$t, $k> $args),)* _ => None } } }

use signalo_filters::mean::exp::mean_variance as mve;
use signalo_filters::mean::mean::Mean;
use signalo_filters::mean::mean_variance as mvw;
fn mean_n<T: Samp, const N: usize>(xs: &[T], xs2: Option<&[T]>) -> (Vec<T>, bool) { fx_run!({ let f0: Mean<T, N> = Mean::default(); f0 }, xs, xs2, |f, x| vec![f.filter(x)]) }
fn mvw_n<T: Samp, const N: usize>(xs: &[T], xs2: Option<&[T]>) -> (Vec<T>, bool) { fx_run!(mvw::MeanVariance::<T, N>::default(), xs, xs2, |f, x| { let o = f.filter(x); vec![o.mean, o.variance] }) }
pub struct R;
impl Runner for R { fn run<T: Samp>(kind: usize, ps: &[T], n: usize, xs: &[T], xs2: Option<&[T]>) -> Option<(Vec<T>, bool)> {
    let p = |k: usize| ps.get(k).copied().unwrap_or_else(T::zero);
    match kind {
        20 => by_n!(n, mean_n, T, (xs, xs2); 1 2 3 4 5 7 8 16),
        21 => by_n!(n, mvw_n, T, (xs, xs2); 1 2 3 4 5 8),
        22 => { Some(fx_run!(mve::MeanVariance::with_config(mve::Config { inverse_width: p(0) }), xs, xs2, |f, x| { let o = f.filter(x); vec![o.mean, o.variance] })) }
        _ => None,
    }
} }
