//! C19: operation programs over {filter(v), clone, reset, guts round trip, drop} on pools of windowed
//! filters instantiated with the instrumented owning sample type `Tok`.
use crate::tok::{self, Tok};
use crate::util::*;
use signalo_filters::{bounds, convolve, delay::Delay, mean::mean::Mean, median::Median};
use signalo_traits::{Filter, FromGuts, IntoGuts, Reset, WithConfig};

pub const HEADER: &str = "From Coq Require Import ZArith.\nFrom Signalo Require Import Check.Common Model.Ledger Check.C19.\nOpen Scope Z_scope.";

trait DynOwn { fn step(&mut self, v: i64); fn clone_box(&self) -> Box<dyn DynOwn>; fn reset_box(self: Box<Self>) -> Box<dyn DynOwn>; fn guts_box(self: Box<Self>) -> Box<dyn DynOwn>; }
impl<F> DynOwn for F where F: Filter<Tok> + Clone + Reset + FromGuts + IntoGuts + 'static {
    fn step(&mut self, v: i64) { let _ = self.filter(Tok::new(v)); }
    fn clone_box(&self) -> Box<dyn DynOwn> { Box::new(self.clone()) }
    fn reset_box(self: Box<Self>) -> Box<dyn DynOwn> { Box::new((*self).reset()) }
    fn guts_box(self: Box<Self>) -> Box<dyn DynOwn> { Box::new(F::from_guts((*self).into_guts())) }
}
macro_rules! mk_inst {
    ($kind:expr, $n:expr; $($k:literal)*) => { match ($kind, $n) {
        $( ("median", $k) => Some(Box::new(Median::<Tok, $k>::default()) as Box<dyn DynOwn>),
           ("mean", $k) => Some(Box::new(Mean::<Tok, $k>::default()) as Box<dyn DynOwn>),
           ("max", $k) => Some(Box::new(bounds::max::Max::<Tok, $k>::default()) as Box<dyn DynOwn>),
           ("min", $k) => Some(Box::new(bounds::min::Min::<Tok, $k>::default()) as Box<dyn DynOwn>),
           ("bounds", $k) => Some(Box::new(bounds::Bounds::<Tok, $k>::default()) as Box<dyn DynOwn>),
           ("conv", $k) => Some(Box::new(convolve::Convolve::<Tok, $k>::with_config(convolve::Config { coefficients: core::array::from_fn(|_| Tok::new(1)) })) as Box<dyn DynOwn>),
           ("convn", $k) => Some(Box::new(convolve::Convolve::<Tok, $k>::normalized(convolve::Config { coefficients: core::array::from_fn(|i| Tok::new(if i == 1 { 0 } else { 2 })) })) as Box<dyn DynOwn>),
           ("delay", $k) => Some(Box::new(Delay::<Tok, $k>::default()) as Box<dyn DynOwn>), )*
        _ => None } };
}
const KINDS: [&str; 8] = ["median", "mean", "max", "min", "bounds", "conv", "delay", "convn"];

pub fn generate(tier: &str, rng: &mut Rng) -> Vec<Spec> {
    let t = tier == "thorough"; let mut v = vec![];
    // exhaustive short programs over the five operations (values cycle through a small alphabet), widths 1..3(4)
    let opsyms = ["f", "c", "r", "g", "d"];
    for kind in KINDS { for n in 1..=(if t { 4 } else { 3 }) { for l in 1..=(if t { 6 } else { 5 }) { for prog in crate::util::all_seqs(&opsyms, l) {
        if !t && l == 5 && prog[0] != "f" { continue; }
        let mut ops = vec![]; let mut slots = 1usize; let mut val = 0i64;
        for (i, o) in prog.iter().enumerate() { let slot = i % slots; match *o {
            "f" => { val = (val * 3 + 1) % 5; ops.push(format!("f{}:{}", slot, val)); } "c" => { ops.push(format!("c{}", slot)); slots += 1; }
            "r" => ops.push(format!("r{}", slot)), "g" => ops.push(format!("g{}", slot)), _ => ops.push(format!("d{}", slot)) } }
        v.push(Spec::new("own").with("k", kind).with("N", n).with("ops", ops.join(",")));
    } } } }
    // long random programs, fill levels around the width, widths up to 6
    for _ in 0..(if t { 3000 } else { 400 }) {
        let kind = *rng.pick(&KINDS); let n = rng.range(1, 6) as usize; let len = rng.range(10, if t { 200 } else { 60 }) as usize;
        let mut ops = vec![]; let mut slots = 1usize;
        for _ in 0..len { let slot = rng.below(slots as u64) as usize; match rng.below(12) {
            0 => { ops.push(format!("c{}", slot)); slots += 1; } 1 => ops.push(format!("r{}", slot)), 2 => ops.push(format!("g{}", slot)), 3 => ops.push(format!("d{}", slot)),
            _ => ops.push(format!("f{}:{}", slot, rng.range(-4, 4))) } }
        v.push(Spec::new("own").with("k", kind).with("N", n).with("ops", ops.join(",")));
    }
    // fault injection (outside the property's own quantifier, see DESIGN 6/C19): a filter call during which the k-th clone or
    // comparison of the sample type panics; the unwinding is caught and the program goes on. Only the ledger's anomaly
    // count is judged on these (a leak after a panic is not an error; a double drop or a read of a dropped value is).
    for kind in KINDS { for n in 1..=(if t { 5 } else { 4 }) { for k in 1..=(if t { 12 } else { 8 }) { for pre in 0..=(n + 1) {
        let mut ops: Vec<String> = (0..pre).map(|i| format!("f0:{}", (i * 3 + 1) % 5)).collect();
        ops.push(format!("p0:{}:{}", rng.range(-4, 4), k));
        for _ in 0..(n + 2) { match rng.below(8) { 0 => ops.push("c0".into()), 1 => ops.push("r0".into()), 2 => ops.push("g0".into()), 3 => ops.push(format!("p0:{}:{}", rng.range(-4, 4), rng.range(1, 6))), _ => ops.push(format!("f0:{}", rng.range(-4, 4))) } }
        v.push(Spec::new("own").with("k", kind).with("N", n).with("ops", ops.join(",")));
    } } } }
    v
}
pub fn exec(s: &Spec, stats: &mut Stats) -> Outcome {
    let kind = s.get("k").to_string(); let n = s.usize("N"); let ops = s.strs("ops");
    stats.bump(format!("kind:{}", kind)); stats.bump(format!("N:{}", n)); stats.bump(format!("len:{}", ops.len() / 10 * 10));
    tok::reset_ledger();
    let mut lives: Vec<usize> = vec![]; let mut cops: Vec<String> = vec![]; let faults = std::cell::Cell::new(0u64);
    let faulty = ops.iter().any(|o| o.starts_with('p')); if faulty { stats.bump("fault-injection"); }
    let r = catch(|| {
        let first = match mk_inst!(kind.as_str(), n; 1 2 3 4 5 6) { Some(f) => f, None => return false };
        let mut pool: Vec<Option<Box<dyn DynOwn>>> = vec![Some(first)];
        for o in &ops {
            let (c, rest) = o.split_at(1); let mut parts = rest.split(':');
            let slot = parts.next().unwrap().parse::<usize>().unwrap(); let val = parts.next().map(|b| b.parse::<i64>().unwrap()).unwrap_or(0); let fuse = parts.next().map(|b| b.parse::<u64>().unwrap()).unwrap_or(0);
            match c {
                "p" => { if let Some(Some(f)) = pool.get_mut(slot) { tok::arm(fuse); let r = catch(|| f.step(val)); tok::disarm(); if r.is_err() { faults.set(faults.get() + 1); } } cops.push(format!("(OFilter {}%nat {})", slot, cz(val))); }
                "f" => { if let Some(Some(f)) = pool.get_mut(slot) { f.step(val); } cops.push(format!("(OFilter {}%nat {})", slot, cz(val))); }
                "c" => { let cl = pool.get(slot).and_then(|f| f.as_ref().map(|f| f.clone_box())); if let Some(cl) = cl { pool.push(Some(cl)); } cops.push(format!("(OClone {}%nat)", slot)); }
                "r" => { if slot < pool.len() { if let Some(f) = pool[slot].take() { pool[slot] = Some(f.reset_box()); } } cops.push(format!("(OReset {}%nat)", slot)); }
                "g" => { if slot < pool.len() { if let Some(f) = pool[slot].take() { pool[slot] = Some(f.guts_box()); } } cops.push(format!("(OGuts {}%nat)", slot)); }
                _ => { if slot < pool.len() { pool[slot] = None; } cops.push(format!("(ODrop {}%nat)", slot)); }
            }
            lives.push(tok::live());
        }
        drop(pool); true
    });
    tok::disarm(); if faults.get() > 0 { stats.bump("fault-injection:panicked"); }
    let panic = !matches!(r, Ok(true));
    if let Ok(false) = r { return Outcome::Skip("width-not-instantiated"); }
    if panic { stats.panics += 1; }
    let k = match kind.as_str() { "median" => "KMedian", "mean" => "KMean", "max" => "KMax", "min" => "KMin", "bounds" => "KBounds", "conv" | "convn" => "KConv", _ => "KDelay" };
    Outcome::Case(format!("mk {} {}%nat [{}] {} {}%nat {}%nat {} {}", k, n, cops.join(";"), clist(&lives, |l| format!("{}%nat", l)), tok::anomalies(), tok::live(), cbool(panic), cbool(faulty)))
}
