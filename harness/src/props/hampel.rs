//! C18: Hampel<f64,N> and Hampel<f32,N> on small integers with dyadic thresholds. Cases in which a
//! float comparison that feeds the replace/pass decision is closer than a margin to its boundary are
//! skipped and counted, so float decisions coincide with the exact-arithmetic model.
use crate::rat::Rat;
use crate::util::*;
use signalo_filters::hampel::{Config, Hampel};
use signalo_traits::{Filter, WithConfig};

pub const HEADER: &str = "From Signalo Require Import Check.Common Check.C18.";

pub fn generate(tier: &str, rng: &mut Rng) -> Vec<Spec> {
    let t = tier == "thorough"; let mut v = vec![];
    let thrs = ["0", "1/2", "1", "2", "3"];
    for n in 1..=(if t { 6 } else { 5 }) { for thr in thrs { for ty in ["f64", "f32"] {
        let alpha: &[i64] = if ty == "f64" { &[0, 1, 3, 50] } else { &[0, 2, 40] };
        for xs in crate::util::all_seqs(alpha, if t { 6 } else { if ty == "f64" { 5 } else { 4 } }) {
            v.push(Spec::new("hampel").with("N", n).with("thr", thr).with("ty", ty).with("xs", join(&xs))); } } } }
    // samples just inside / just outside the pass bound thr*1.4826*MAD (a wrong scale factor or a >= for > shows here)
    for n in 2..=(if t { 6 } else { 4 }) { for thr in ["1/2", "1", "2", "3"] { for m in (1..=(if t { 60 } else { 30 })).chain([99_999_999i64, 100_000_007, 12_345_677, 1_000_003]) {
        let tq = Rat::parse(thr); let bound = (Rat::int(m) * Rat::new(14826, 10000) * tq).to_f64().floor() as i64;
        for x in [m + bound, m + bound + 1, m - bound, m - bound - 1] {
            let mut xs = vec![0i64]; xs.extend(std::iter::repeat(m).take(n - 1)); xs.push(x); xs.push(m);
            v.push(Spec::new("hampel").with("N", n).with("thr", thr).with("ty", if m % 3 == 0 && m < 100_000 { "f32" } else { "f64" }).with("xs", join(&xs)));
        } } } }
    // wide windows
    for (i, n) in [64usize, 100, 300].iter().enumerate() { for _ in 0..(if t { 6 } else { 2 }) {
        let len = n + 40 + i; let mut cur = 0i64;
        let xs: Vec<i64> = (0..len).map(|_| { match rng.below(9) { 0 => cur + rng.range(50, 400), 1 | 2 | 3 => { cur += rng.range(-2, 2); cur } _ => cur } }).collect();
        v.push(Spec::new("hampel").with("N", n).with("thr", "2").with("ty", "f64").with("xs", join(&xs))); } }
    for _ in 0..(if t { 4000 } else { 500 }) {
        let n = rng.range(1, 9) as usize; let len = rng.range(2, if t { 80 } else { 30 }) as usize;
        let mut cur = rng.range(-5, 5);
        let xs: Vec<i64> = (0..len).map(|_| { match rng.below(8) { 0 => cur + rng.range(20, 200) * if rng.coin(1, 2) { 1 } else { -1 }, 1 | 2 => { cur += rng.range(-2, 2); cur } _ => cur } }).collect();
        let ty = if rng.coin(1, 3) { "f32" } else { "f64" };
        let mut sp = Spec::new("hampel").with("N", n).with("thr", *rng.pick(&thrs)).with("ty", ty).with("xs", join(&xs));
        // every fourth case at an extreme amplitude: the samples are multiplied by 2^sc (exact in binary floating point), the outputs
        // divided by it; by C18_affine_equivariant the model's outputs scale the same way, so the Coq side sees the unscaled case
        if rng.coin(1, 4) { sp = sp.with("sc", if ty == "f32" { *rng.pick(&[64i64, -64, 100, -100]) } else { *rng.pick(&[500i64, -500, 900, -900]) }); }
        v.push(sp);
    }
    for n in 1..=3 { for thr in ["1", "3"] { for (ty, scs) in [("f32", [64i64, -64]), ("f64", [520, -520])] { for sc in scs {
        for xs in crate::util::all_seqs(&[0, 2, 40], 4) {
            v.push(Spec::new("hampel").with("N", n).with("thr", thr).with("ty", ty).with("xs", join(&xs)).with("sc", sc)); } } } } }
    add_entry_points(v, rng, &["hampel"], 40, |rng: &mut Rng| { let l = rng.range(1, 4); (0..l).map(|k| if k == 0 { rng.range(5, 9).to_string() } else { rng.range(-11, 11).to_string() }).collect::<Vec<_>>().join(",") })
}

/// smallest distance between `dev` and the exact threshold over all steps, for both candidate readings
/// of the window maximum (newest sample / true maximum); None = exact tie that floats also decide exactly
fn min_margin(n: usize, thr: Rat, xs: &[i64]) -> f64 {
    let f = Rat::new(14826, 10000); let mut m = f64::INFINITY;
    for k in 1..xs.len() {
        let lo = k.saturating_sub(n); let mut w: Vec<i64> = xs[lo..k].to_vec(); let newest = *w.last().unwrap(); w.sort();
        let med = w[(w.len() - 1) / 2]; let mn = w[0]; let mx = *w.last().unwrap();
        let dev = Rat::int((xs[k] - med).abs());
        for cand in [newest, mx] {
            let mad = Rat::int((med - mn).abs().max((cand - med).abs()));
            let t = mad * f * thr;
            if t == dev && (mad.n == 0 || thr.n == 0) { continue; }        // 0 vs 0: exact in floating point as well
            m = m.min((t - dev).to_f64().abs());
        }
    }
    m
}

fn run<const N: usize>(ty: &str, thr: Rat, xs: &[i64], sc: i32, stats: &mut Stats) -> Outcome {
    let margin = min_margin(N, thr, xs);
    if margin < (if ty == "f32" { 1e-3 } else { 1e-6 }) { return Outcome::Skip("decision-margin-too-small"); }
    let mut ys: Vec<i64> = vec![]; let mut panic = false; let mut inexact = false;
    if ty == "f32" {
        let k = 2.0f32.powi(sc);        // a power of two: scaling by it is exact (no overflow, no subnormals for the amplitudes generated)
        let mut f: Hampel<f32, N> = enter(Hampel::with_config(Config { threshold: thr.to_f64() as f32 }), stats, |f, t| { f.filter(t.parse::<i64>().unwrap() as f32 * k); });
        for x in xs { match catch(|| f.filter(*x as f32 * k)) { Ok(y) => { let y = y / k; if y.fract() != 0.0 { inexact = true; } ys.push(y as i64) } Err(_) => { panic = true; break } } }
    } else {
        let k = 2.0f64.powi(sc);
        let mut f: Hampel<f64, N> = enter(Hampel::with_config(Config { threshold: thr.to_f64() }), stats, |f, t| { f.filter(t.parse::<i64>().unwrap() as f64 * k); });
        for x in xs { match catch(|| f.filter(*x as f64 * k)) { Ok(y) => { let y = y / k; if y.fract() != 0.0 { inexact = true; } ys.push(y as i64) } Err(_) => { panic = true; break } } }
    }
    if panic { stats.panics += 1; }
    if inexact { // an output that is not an integer cannot be one of the (integer) samples: report it as a value no sample has
        ys = ys.iter().map(|_| i64::MAX / 4).collect(); }
    Outcome::Case(format!("mk {}%nat {} {} {} {}", N, cq(&thr), clist(xs, |z| qi(*z)), clist(&ys, |z| qi(*z)), cbool(panic)))
}

pub fn exec(s: &Spec, stats: &mut Stats) -> Outcome {
    let n = s.usize("N"); let xs = s.i64s("xs"); let thr = s.rat("thr"); let ty = s.get("ty").to_string();
    stats.bump(format!("N:{}", n)); stats.bump(format!("ty:{}", ty)); stats.bump(format!("thr:{}", thr.show()));
    let sc = if s.has("sc") { s.i64s("sc")[0] as i32 } else { 0 };
    if sc != 0 { stats.bump(format!("scale:2^{}", sc)); }
    crate::dispatch_n!(n, run, (&ty, thr, &xs, sc, stats); 1 2 3 4 5 6 7 8 9 64 100 300)
}
