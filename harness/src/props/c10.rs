//! C10: source adapters of signalo_sources, arbitrary nestings built at run time (dynsrc.rs).
use crate::dynsrc::Expr::{self, *};
use crate::util::*;
use signalo_sources::{cache::Cache, peek::Peek};
use signalo_traits::Source;

pub const HEADER: &str = "From Coq Require Import ZArith.\nFrom Signalo Require Import Model.Sources Base.Report Check.C10.\nOpen Scope Z_scope.";

fn leaves() -> Vec<Expr> { vec![List(vec![]), List(vec![1]), List(vec![1, 2]), List(vec![1, 2, 3]), Const(7), Rep(5, 2), Rep(4, 0), Inc(0, 1)] }
fn unary(e: &Expr, big: bool) -> Vec<Expr> {
    let b = || Box::new(e.clone());
    let mut v = vec![Cycle(b()), Peek(b()), Cache(b()), Rt(b())];
    let counts: &[usize] = if big { &[0, 1, 2, 3, 5] } else { &[0, 1, 2, 4] };
    for &n in counts { v.push(Take(b(), n)); v.push(Skip(b(), n)); }
    for &c in if big { &[0usize, 1, 2, 3][..] } else { &[0usize, 1, 2][..] } { v.push(PadC(b(), 9, c)); v.push(PadE(b(), c)); }
    v
}
fn random_expr(rng: &mut Rng, depth: usize) -> Expr {
    if depth == 0 || rng.below(6) == 0 {
        return match rng.below(6) { 0 => Const(rng.range(-3, 9)), 1 => Rep(rng.range(-3, 9), rng.below(4) as usize), 2 => Inc(rng.range(-3, 3), rng.range(-2, 2)),
            _ => List((0..rng.below(5)).map(|_| rng.range(-5, 9)).collect()) };
    }
    let a = Box::new(random_expr(rng, depth - 1));
    match rng.below(12) {
        0 | 1 => Chain(a, Box::new(random_expr(rng, depth - 1))), 2 => Take(a, rng.below(6) as usize), 3 => Skip(a, rng.below(5) as usize), 4 => Cycle(a),
        5 => PadC(a, rng.range(-9, 9), rng.below(4) as usize), 6 | 7 => PadE(a, rng.below(4) as usize), 8 => Peek(a), 9 => Cache(a), 10 => Rt(a),
        _ => Chain(Box::new(List((0..rng.below(3)).map(|_| rng.range(0, 5)).collect())), a),
    }
}

pub fn generate(tier: &str, rng: &mut Rng) -> Vec<Spec> {
    let thorough = tier == "thorough";
    let k = if thorough { 20 } else { 16 };
    let pulls = |e: &Expr, k: usize| Spec::new("src").with("e", e.show()).with("ops", vec!["p"; k].join(","));
    let mut v = vec![];
    let mut lv = leaves();
    if thorough { lv.push(List(vec![3, 1, 4, 1, 5])); lv.push(List(vec![2, 2, 2, 2])); }
    let mut d1: Vec<Expr> = vec![];
    for l in &lv { d1.extend(unary(l, thorough)); }
    for a in &lv { for b in &lv { d1.push(Chain(Box::new(a.clone()), Box::new(b.clone()))); } }
    for e in lv.iter().chain(d1.iter()) { v.push(pulls(e, k)); }
    // depth 2: every unary adapter over every depth-1 expression; chains sampled
    let mut ctr = 0u64;
    for e in &d1 { for u in unary(e, thorough) { ctr += 1; if thorough || ctr % 2 == 0 || matches!(u, PadE(..)) { v.push(pulls(&u, k)); } } }
    for a in &d1 { for b in &d1 { ctr += 1; if ctr % (if thorough { 7 } else { 61 }) == 0 { v.push(pulls(&Chain(Box::new(a.clone()), Box::new(b.clone())), k)); } } }
    // random deeper trees
    for _ in 0..(if thorough { 6000 } else { 1500 }) { let d = 3 + rng.below(3) as usize; let e = random_expr(rng, d); v.push(pulls(&e, k + 8)); }
    // counts at the end of the integer range and just past 2^32 (the model sees them capped at 40): never a huge
    // skip over an endless source (it would not terminate)
    let huge = [usize::MAX, usize::MAX - 1, (1usize << 32) + 2, 1usize << 32, (1usize << 16) + 1];
    for (i, h) in huge.iter().enumerate() { for l in [List(vec![]), List(vec![7]), List(vec![7, 8, 9]), Inc(3, 2)] {
        let b = || Box::new(l.clone());
        let mut es = vec![Take(b(), *h), PadE(b(), *h), PadC(b(), 5, *h), Take(Box::new(PadE(b(), *h)), 5), Chain(Box::new(Rep(4, *h)), b()), Take(Box::new(Rep(4, *h)), 3), Take(Box::new(Take(b(), *h)), *h)];
        if !matches!(l, Inc(..)) { es.push(Skip(b(), *h)); es.push(PadE(Box::new(Skip(b(), *h)), 2)); }
        for e in es { v.push(pulls(&e, k + i)); }
    } }
    // peek / cache roots: every interleaving of the two root operations up to length 6 (7 thorough)
    let inners = [List(vec![]), List(vec![1]), List(vec![1, 2, 3]), Take(Box::new(Inc(0, 1)), 2), PadE(Box::new(List(vec![4, 5])), 1), Chain(Box::new(List(vec![1])), Box::new(List(vec![2])))];
    for inner in &inners {
        for l in 1..=(if thorough { 7 } else { 6 }) {
            for ops in crate::util::all_seqs(&["p", "k"], l) { v.push(Spec::new("src").with("e", Peek(Box::new(inner.clone())).show()).with("ops", ops.join(","))); }
            for ops in crate::util::all_seqs(&["p", "c"], l) { v.push(Spec::new("src").with("e", Cache(Box::new(inner.clone())).show()).with("ops", ops.join(","))); }
        }
    }
    v
}

pub fn exec(s: &Spec, stats: &mut Stats) -> Outcome {
    let e = Expr::parse(s.get("e"));
    let ops = s.strs("ops");
    stats.bump(format!("depth:{}", e.depth())); stats.bump(format!("root:{}", s.get("e").split('(').next().unwrap()));
    let mut res: Vec<Option<i64>> = vec![]; let mut panic = false;
    let leaves: std::cell::RefCell<crate::dynsrc::Leaves> = std::cell::RefCell::new(vec![]);
    let r = catch(|| {
        let mut out = vec![];
        match &e {
            Peek(inner) => { let mut p = Peek::<_, i64>::from(inner.build_with(&mut leaves.borrow_mut()));
                for o in &ops { match o.as_str() { "p" => out.push(p.source()), "k" => out.push(p.peek().cloned()), _ => panic!("op {} not available on a peek root", o) } } }
            Cache(inner) => { let mut c = Cache::<_, i64>::from(inner.build_with(&mut leaves.borrow_mut()));
                for o in &ops { match o.as_str() { "p" => out.push(c.source()), "c" => out.push(c.cached().cloned()), _ => panic!("op {} not available on a cache root", o) } } }
            _ => { let mut src = e.build_with(&mut leaves.borrow_mut()); for o in &ops { match o.as_str() { "p" => out.push(src.source()), _ => panic!("op {} needs a peek/cache root", o) } } }
        }
        out
    });
    match r { Ok(o) => res = o, Err(_) => { panic = true; stats.panics += 1; } }
    let left: Option<Vec<usize>> = if e.has_cycle() || panic { None } else { Some(leaves.borrow().iter().map(|h| h.borrow().len()).collect()) };
    let cops = clist(&ops, |o| match o.as_str() { "p" => "OPull".into(), "k" => "OPeek".into(), _ => "OCached".to_string() });
    Outcome::Case(format!("mk {} {} {} {} {}", e.coq(), cops, clist(&res, |o| copt(o, |z| cz(*z))), copt(&left, |l| clist(l, |n| format!("{}%nat", n))), cbool(panic)))
}
