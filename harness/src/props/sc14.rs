#![allow(unused_imports)]
use crate::rat::Rat;
use crate::util::*;
use crate::smoothutil::*;
use signalo_filters::{differentiate::Differentiate, integrate::Integrate, mean::exp::mean as ema, median::exp as xmed, observe::{alpha_beta as ab, kalman as kal}};
use signalo_pipes::pipe::Pipe;
use signalo_traits::{Filter, IntoGuts, WithConfig};
pub fn gen14(tier: &str, rng: &mut Rng) -> Vec<Spec> {
    let t = tier == "thorough"; let mut v = vec![];
    let grid = [Rat::int(0), Rat::new(1, 4), Rat::new(1, 2), Rat::int(1), Rat::new(3, 2)];
    let tf = [(Rat::int(1), Rat::int(3)), (Rat::int(-2), Rat::new(1, 2)), (Rat::int(0), Rat::int(5))];
    for a in grid { for b in grid { for (i, xs) in small_hists(if t { 6 } else { 5 }).into_iter().enumerate() {
        let (ta, tb) = tf[i % 3];
        v.push(Spec::new("ab").with("alpha", a.show()).with("beta", b.show()).with("a", ta.show()).with("b", tb.show()).with("xs", join_rats(&xs))); } } }
    // f64: constant signals with non-dyadic gains and values are reproduced bit-exactly (the residual is exactly 0)
    for (k, c) in [0.3f64, 1234.567, 0.1, -2.2].iter().enumerate() { for (al, be) in [(0.1f64, 0.05f64), (0.9, 0.3), (1.0 / 3.0, 0.7)] {
        let ex = |x: f64| crate::util::f64_exact(x).unwrap();
        v.push(Spec::new("ab").with("ty", "f64").with("alpha", ex(al).show()).with("beta", ex(be).show()).with("a", "1").with("b", "0").with("xs", join_rats(&vec![ex(*c); 5 + k]))); } }
    // states injected through FromGuts: non-zero velocity with beta = 0 (or alpha = 0), unreachable from a fresh filter
    for (al, be) in [(Rat::new(1, 2), Rat::int(0)), (Rat::int(0), Rat::new(1, 4)), (Rat::new(1, 4), Rat::new(1, 2)), (Rat::int(1), Rat::int(0))] {
        for v0 in [Rat::int(2), Rat::new(-3, 2)] { for xs in small_hists(if t { 4 } else { 3 }) {
            v.push(Spec::new("ab").with("alpha", al.show()).with("beta", be.show()).with("v0", v0.show()).with("x0", "10").with("a", "1").with("b", "0").with("xs", join_rats(&xs))); } } }
    for _ in 0..(if t { 3000 } else { 400 }) {
        let len = rng.range(1, if t { 14 } else { 10 }) as usize;
        let q = |rng: &mut Rng| Rat::new(rng.range(-4, 12) as i128, 8);
        v.push(Spec::new("ab").with("alpha", q(rng).show()).with("beta", q(rng).show()).with("a", q(rng).show()).with("b", Rat::int(rng.range(-5, 5)).show()).with("xs", join_rats(&rand_hist(rng, len, 4))));
    }
    with_entry_points(v, rng, &["ab"], 12)
}
pub fn exec14(s: &Spec, stats: &mut Stats) -> Outcome {
    let xs = s.rats("xs"); stats.bump(format!("len:{}", xs.len()));
    let (alpha, beta, a, b) = (s.rat("alpha"), s.rat("beta"), s.rat("a"), s.rat("b"));
    if s.has("ty") && s.get("ty") == "f64" {
        stats.bump("ty:f64-constant");
        let mut f = ViaF64(ab::AlphaBeta::with_config(ab::Config { alpha: alpha.to_f64(), beta: beta.to_f64() }));
        let (ys, p1) = run_all(&mut f, &xs);
        let vel = crate::util::f64_exact(f.0.into_guts().1.velocity).unwrap_or(Rat::int(i64::MAX / 16));
        return Outcome::Case(format!("mk {} {} {} {} {} {} {} {} {} {} {}", cq(&alpha), cq(&beta), cq(&Rat::int(0)), "None", cqlist(&xs), cqlist(&ys), cq(&vel), cq(&a), cq(&b), cqlist(&ys), cbool(p1)));
    }
    let (v0, x0) = if s.has("v0") { (s.rat("v0"), Some(s.rat("x0"))) } else { (Rat::int(0), None) };
    if x0.is_some() { stats.bump("injected-state"); }
    let mut f = if x0.is_some() { <ab::AlphaBeta<Rat> as signalo_traits::FromGuts>::from_guts((ab::Config { alpha, beta }, ab::State { velocity: v0, value: x0 })) } else { prep(ab::AlphaBeta::with_config(ab::Config { alpha, beta }), s, stats) };
    let (ys, p1) = run_all(&mut f, &xs);
    let (_, st) = f.into_guts();
    let xs2: Vec<Rat> = xs.iter().map(|x| a * *x + b).collect();
    let (ys2, p2) = run_all(&mut ab::AlphaBeta::with_config(ab::Config { alpha, beta }), &xs2);
    Outcome::Case(format!("mk {} {} {} {} {} {} {} {} {} {} {}", cq(&alpha), cq(&beta), cq(&v0), copt(&x0, cq), cqlist(&xs), cqlist(&ys), cq(&st.velocity), cq(&a), cq(&b), cqlist(&ys2), cbool(p1 || p2)))
}

