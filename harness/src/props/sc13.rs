#![allow(unused_imports)]
use crate::rat::Rat;
use crate::util::*;
use crate::smoothutil::*;
use signalo_filters::{differentiate::Differentiate, integrate::Integrate, mean::exp::mean as ema, median::exp as xmed, observe::{alpha_beta as ab, kalman as kal}};
use signalo_pipes::pipe::Pipe;
use signalo_traits::{Filter, IntoGuts, WithConfig};
fn gains() -> Vec<Rat> { vec![Rat::int(0), Rat::new(1, 4), Rat::new(1, 2), Rat::new(3, 4), Rat::int(1)] }
pub fn gen13(tier: &str, rng: &mut Rng) -> Vec<Spec> {
    let t = tier == "thorough"; let mut v = vec![];
    let l = if t { 6 } else { 5 };
    for w in gains() { for len in 0..=l { for xs in small_hists(len) { v.push(Spec::new("ema").with("pre", w.show()).with("xs", join_rats(&xs))); } } }
    for a in gains() { for b in gains() { for c in gains() { for xs in small_hists(if t { 5 } else { 4 }) {
        if !t && xs[0] == Rat::int(0) { continue; }
        v.push(Spec::new("expmed").with("pre", a.show()).with("mid", b.show()).with("post", c.show()).with("xs", join_rats(&xs))); } } } }
    for _ in 0..(if t { 400 } else { 60 }) {      // f64 instantiations: dyadic gains, integers, short (every operation exact)
        let l = rng.range(2, 9) as usize; let xs = int_hist(rng, l, 100); let g = gains();
        v.push(Spec::new("ema").with("ty", "f64").with("pre", g[rng.below(5) as usize].show()).with("xs", join_rats(&xs)));
        let l = rng.range(2, 5) as usize; let xs = int_hist(rng, l, 50);
        v.push(Spec::new("expmed").with("ty", "f64").with("pre", g[rng.below(5) as usize].show()).with("mid", g[rng.below(5) as usize].show()).with("post", g[rng.below(5) as usize].show()).with("xs", join_rats(&xs)));
    }
    // f64: a constant signal with NON-dyadic gains and values must be reproduced bit-exactly (x + (c - x)*w with x = c)
    for (k, c) in [0.1f64, 13.0, 1.1, 0.3, 1234.567, -0.7].iter().enumerate() { for w in [0.1f64, 0.3, 1.0 / 3.0, 0.9] {
        let cr = crate::util::f64_exact(*c).unwrap(); let wr = crate::util::f64_exact(w).unwrap(); let xs = vec![cr; 6 + k];
        v.push(Spec::new("ema").with("ty", "f64").with("pre", wr.show()).with("xs", join_rats(&xs)));
        v.push(Spec::new("expmed").with("ty", "f64").with("pre", wr.show()).with("mid", crate::util::f64_exact(0.7).unwrap().show()).with("post", crate::util::f64_exact(0.15).unwrap().show()).with("xs", join_rats(&xs)));
    } }
    for i in 0..(if t { 3000 } else { 500 }) {
        let len = rng.range(2, if t { 14 } else { 10 }) as usize; let xs = rand_hist(rng, len, 5);
        let g = |rng: &mut Rng| if rng.below(8) == 0 { Rat::new(rng.range(-3, 9) as i128, 4) } else { Rat::new(rng.range(0, 8) as i128, 8) };
        if i % 2 == 0 { v.push(Spec::new("ema").with("pre", g(rng).show()).with("xs", join_rats(&xs))); }
        else { v.push(Spec::new("expmed").with("pre", g(rng).show()).with("mid", g(rng).show()).with("post", g(rng).show()).with("xs", join_rats(&xs))); }
    }
    with_entry_points(v, rng, &["ema", "expmed"], 12)
}
pub fn exec13(s: &Spec, stats: &mut Stats) -> Outcome {
    let xs = s.rats("xs"); stats.bump(format!("len:{}", xs.len()));
    let pre = s.rat("pre");
    let f64ty = s.has("ty") && s.get("ty") == "f64"; if f64ty { stats.bump("ty:f64"); }
    let (k, mid, post, (ys, p)) = if f64ty && s.kind == "ema" {
        (0, Rat::int(0), Rat::int(0), run_all(&mut ViaF64(ema::Mean::with_config(ema::Config { inverse_width: pre.to_f64() })), &xs))
    } else if f64ty {
        let (mid, post) = (s.rat("mid"), s.rat("post"));
        let cfg = xmed::Config { pre: ema::Config { inverse_width: pre.to_f64() }, mid: mid.to_f64(), post: ema::Config { inverse_width: post.to_f64() } };
        (1, mid, post, run_all(&mut ViaF64(xmed::Median::with_config(cfg)), &xs))
    } else if s.kind == "ema" {
        (0, Rat::int(0), Rat::int(0), run_all(&mut prep(ema::Mean::with_config(ema::Config { inverse_width: pre }), s, stats), &xs))
    } else {
        let (mid, post) = (s.rat("mid"), s.rat("post"));
        let cfg = xmed::Config { pre: ema::Config { inverse_width: pre }, mid, post: ema::Config { inverse_width: post } };
        let built = prep(xmed::Median::with_config(cfg), s, stats);
        let mut f = if xs.len() % 2 == 0 { built } else { use signalo_traits::ConfigClone; xmed::Median::with_config(built.config()) };
        (1, mid, post, run_all(&mut f, &xs))
    };
    if p { stats.panics += 1; }
    let inside = |g: &Rat| *g >= Rat::int(0) && *g <= Rat::int(1);
    stats.bump(if inside(&pre) && inside(&mid) && inside(&post) { "gains-in-unit-interval" } else { "gains-outside" });
    Outcome::Case(format!("mk {} {} {} {} {} {} {}", k, cq(&pre), cq(&mid), cq(&post), cqlist(&xs), cqlist(&ys), cbool(p)))
}

