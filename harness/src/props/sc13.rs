#![allow(unused_imports)]
use crate::rat::Rat;
use crate::util::*;
use crate::smoothutil::*;
use signalo_filters::{differentiate::Differentiate, integrate::Integrate, mean::exp::mean as ema, median::exp as xmed, observe::{alpha_beta as ab, kalman as kal}};
use signalo_pipes::pipe::Pipe;
use signalo_traits::{Filter, IntoGuts, WithConfig};
fn gains() -> Vec<Rat> { vec![Rat::int(0), Rat::new(1, 4), Rat::new(1, 2), Rat::new(3, 4), Rat::int(1)] }
pub fn gen13(tier: &str, rng: &mut Rng) -> Vec<Spec> {
    let t = tier == "thorough"; let mut v = vec![];
    let l = if t { 6 } else { 5 };
    for w in gains() { for len in 0..=l { for xs in small_hists(len) { v.push(Spec::new("ema").with("pre", w.show()).with("xs", join_rats(&xs))); } } }
    for a in gains() { for b in gains() { for c in gains() { for xs in small_hists(if t { 5 } else { 4 }) {
        if !t && xs[0] == Rat::int(0) { continue; }
        v.push(Spec::new("expmed").with("pre", a.show()).with("mid", b.show()).with("post", c.show()).with("xs", join_rats(&xs))); } } } }
    for i in 0..(if t { 3000 } else { 500 }) {
        let len = rng.range(2, if t { 14 } else { 10 }) as usize; let xs = rand_hist(rng, len, 5);
        let g = |rng: &mut Rng| if rng.below(8) == 0 { Rat::new(rng.range(-3, 9) as i128, 4) } else { Rat::new(rng.range(0, 8) as i128, 8) };
        if i % 2 == 0 { v.push(Spec::new("ema").with("pre", g(rng).show()).with("xs", join_rats(&xs))); }
        else { v.push(Spec::new("expmed").with("pre", g(rng).show()).with("mid", g(rng).show()).with("post", g(rng).show()).with("xs", join_rats(&xs))); }
    }
    v
}
pub fn exec13(s: &Spec, stats: &mut Stats) -> Outcome {
    let xs = s.rats("xs"); stats.bump(format!("len:{}", xs.len()));
    let pre = s.rat("pre");
    let (k, mid, post, (ys, p)) = if s.kind == "ema" {
        (0, Rat::int(0), Rat::int(0), run_all(&mut ema::Mean::with_config(ema::Config { inverse_width: pre }), &xs))
    } else {
        let (mid, post) = (s.rat("mid"), s.rat("post"));
        let cfg = xmed::Config { pre: ema::Config { inverse_width: pre }, mid, post: ema::Config { inverse_width: post } };
        (1, mid, post, run_all(&mut xmed::Median::with_config(cfg), &xs))
    };
    if p { stats.panics += 1; }
    let inside = |g: &Rat| *g >= Rat::int(0) && *g <= Rat::int(1);
    stats.bump(if inside(&pre) && inside(&mid) && inside(&post) { "gains-in-unit-interval" } else { "gains-outside" });
    Outcome::Case(format!("mk {} {} {} {} {} {} {}", k, cq(&pre), cq(&mid), cq(&post), cqlist(&xs), cqlist(&ys), cbool(p)))
}

