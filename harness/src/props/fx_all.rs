//! every resettable arithmetic / comparison filter, for the reset stream of C12
#![allow(dead_code, unused_imports)]
use crate::fx::*;
pub const KINDS: [usize; 24] = [0, 1, 10, 11, 12, 13, 14, 20, 21, 22, 30, 31, 32, 33, 50, 51, 52, 53, 54, 60, 61, 62, 70, 80];
pub struct R;
impl Runner for R { fn run<T: Samp>(kind: usize, ps: &[T], n: usize, xs: &[T], xs2: Option<&[T]>) -> Option<(Vec<T>, bool)> {
    match kind {
        0..=14 => crate::fx_smooth::R::run(kind, ps, n, xs, xs2), 20..=22 => crate::fx_mean::R::run(kind, ps, n, xs, xs2),
        30..=33 => crate::fx_conv::R::run(kind, ps, n, xs, xs2), 50..=54 => crate::fx_classify::R::run(kind, ps, n, xs, xs2),
        60..=62 => crate::fx_bounds::R::run(kind, ps, n, xs, xs2), 70 | 80 => crate::fx_median::R::run(kind, ps, n, xs, xs2),
        _ => None,
    }
} }
