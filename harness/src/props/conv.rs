//! C05: Convolve<Rat,N> (with_config / normalized), Delay<i64,N>, and the coefficients the compiled
//! Savitzky-Golay presets hold (exact rationals from the float bit patterns).
use crate::rat::Rat;
use crate::util::*;
use signalo_filters::convolve::{savitzky_golay::SavitzkyGolay, Config, Convolve};
use signalo_filters::delay::Delay;
use signalo_traits::{ConfigRef, Filter, WithConfig};

pub const HEADER: &str = "From Signalo Require Import Check.Common Check.C05.";

pub use crate::util::f64_exact;

pub fn generate(tier: &str, rng: &mut Rng) -> Vec<Spec> {
    let t = tier == "thorough"; let mut v = vec![];
    let cs = [Rat::int(-1), Rat::int(0), Rat::int(1), Rat::int(2)];
    let sigs = |len: usize| crate::util::all_seqs(&[Rat::int(-1), Rat::int(0), Rat::int(3)], len);
    for kind in ["conv", "norm"] {
        for n in 1..=3usize { for c in crate::util::all_seqs(&cs, n) { for xs in sigs(if t { 5 } else { 4 }) {
            if !t && n == 3 && (xs[0] == Rat::int(0)) { continue; }
            v.push(Spec::new(kind).with("N", n).with("c", join_rats(&c)).with("xs", join_rats(&xs))); } } }
        for _ in 0..(if t { 2500 } else { 350 }) {
            let n = *rng.pick(if t { &[1usize, 2, 3, 4, 5, 6, 8, 16, 18, 20, 24][..] } else { &[1usize, 2, 3, 4, 5, 6, 8, 16, 18, 21][..] });
            let c: Vec<Rat> = (0..n).map(|_| Rat::new(rng.range(-6, 6) as i128, rng.range(1, 4) as i128)).collect();
            let len = rng.range(1, if t { 50 } else { 24 }) as usize;
            let xs: Vec<Rat> = (0..len).map(|_| Rat::new(rng.range(-9, 9) as i128, rng.range(1, 3) as i128)).collect();
            v.push(Spec::new(kind).with("N", n).with("c", join_rats(&c)).with("xs", join_rats(&xs)));
        }
    }
    // integer instantiation of the normalising constructor: coefficient / sum in the type's own (truncating) division
    for n in 1..=3usize { for c in crate::util::all_seqs(&[Rat::int(-2), Rat::int(0), Rat::int(3), Rat::int(4)], n) {
        v.push(Spec::new("normint").with("N", n).with("c", join_rats(&c)).with("xs", "5,-3,2,7")); } }
    for n in [0usize, 1, 2, 3, 4, 5, 6, 16] {
        for l in 0..=(if t { 7 } else { 6 }) { for xs in crate::util::all_seqs(&[1i64, 2, 5], l) { if n > 3 && l < 5 { continue; } v.push(Spec::new("delay").with("N", n).with("xs", join(&xs))); } }
        for _ in 0..(if t { 100 } else { 15 }) { let len = rng.range(1, 60) as usize; let xs: Vec<i64> = (0..len).map(|_| rng.range(-99, 99)).collect(); v.push(Spec::new("delay").with("N", n).with("xs", join(&xs))); }
    }
    for n in 1..=13 { for ty in ["f32", "f64"] { v.push(Spec::new("sg").with("N", n).with("ty", ty)); } }
    add_entry_points(v, rng, &["conv", "delay"], 30, |rng: &mut Rng| { let l = rng.range(1, 4); (0..l).map(|k| if k == 0 { rng.range(5, 9).to_string() } else { rng.range(-11, 11).to_string() }).collect::<Vec<_>>().join(",") })
}

fn conv<const N: usize>(norm: bool, c: &[Rat], xs: &[Rat], stats: &mut Stats) -> Outcome {
    let mut arr = [Rat::int(0); N]; arr.copy_from_slice(c);
    let cfg = Config { coefficients: arr };
    let built = catch(|| if norm { Convolve::<Rat, N>::normalized(cfg.clone()) } else { Convolve::<Rat, N>::with_config(cfg.clone()) });
    let f = match built { Ok(f) => f, Err(_) => { stats.panics += 1; return Outcome::Case(format!("mk {}%nat {}%nat {} [] {} [] true", norm as u8, N, cqlist(c), cqlist(xs))); } };
    let mut f = enter(f, stats, |f, t| { f.filter(Rat::parse(t)); });
    let reported: Vec<Rat> = f.config_ref().coefficients.to_vec();
    let mut ys = vec![]; let mut panic = false;
    for x in xs { match catch(|| f.filter(*x)) { Ok(y) => ys.push(y), Err(_) => { panic = true; stats.panics += 1; break } } }
    Outcome::Case(format!("mk {}%nat {}%nat {} {} {} {} {}", norm as u8, N, cqlist(c), cqlist(&reported), cqlist(xs), cqlist(&ys), cbool(panic)))
}
fn conv_int<const N: usize>(c: &[Rat], xs: &[Rat], stats: &mut Stats) -> Outcome {
    let mut arr = [0i64; N]; for (a, r) in arr.iter_mut().zip(c) { *a = r.n as i64; }
    let built = catch(|| Convolve::<i64, N>::normalized(Config { coefficients: arr }));
    let mut f = match built { Ok(f) => f, Err(_) => { stats.panics += 1; return Outcome::Case(format!("mk 4%nat {}%nat {} [] {} [] true", N, cqlist(c), cqlist(xs))); } };
    let reported: Vec<i64> = f.config_ref().coefficients.to_vec();
    let mut ys = vec![]; let mut panic = false;
    for x in xs { match catch(|| f.filter(x.n as i64)) { Ok(y) => ys.push(y), Err(_) => { panic = true; stats.panics += 1; break } } }
    Outcome::Case(format!("mk 4%nat {}%nat {} {} {} {} {}", N, cqlist(c), clist(&reported, |z| qi(*z)), cqlist(xs), clist(&ys, |z| qi(*z)), cbool(panic)))
}
fn delay<const N: usize>(xs: &[i64], stats: &mut Stats) -> Outcome {
    let mut f: Delay<i64, N> = enter(Delay::default(), stats, |f, t| { f.filter(t.parse::<i64>().unwrap()); });
    let mut ys = vec![]; let mut panic = false;
    for x in xs { match catch(|| f.filter(*x)) { Ok(y) => ys.push(y), Err(_) => { panic = true; stats.panics += 1; break } } }
    Outcome::Case(format!("mk 2%nat {}%nat [] [] {} {} {}", N, clist(xs, |z| qi(*z)), clist(&ys, |z| qi(*z)), cbool(panic)))
}
macro_rules! sg_coeffs {
    ($n:expr, $ty:expr; $($k:literal)*) => { match ($n, $ty) {
        $( ($k, "f32") => Some(<Convolve<f32, $k> as SavitzkyGolay>::savitzky_golay().config_ref().coefficients.iter().map(|c| *c as f64).collect::<Vec<f64>>()),
           ($k, _) => Some(<Convolve<f64, $k> as SavitzkyGolay>::savitzky_golay().config_ref().coefficients.to_vec()), )*
        _ => None } };
}
fn sg(n: usize, ty: &str) -> Outcome {
    let coeffs: Vec<f64> = match sg_coeffs!(n, ty; 1 2 3 4 5 6 7 8 9 10 11 12 13) { Some(c) => c, None => return Outcome::Skip("width-not-instantiated") };
    let exact: Option<Vec<Rat>> = coeffs.iter().map(|c| f64_exact(*c)).collect();
    match exact { Some(e) => Outcome::Case(format!("mk 3%nat {}%nat [] {} [] [] false", n, cqlist(&e))), None => Outcome::Skip("non-finite-or-huge-coefficient") }
}

pub fn exec(s: &Spec, stats: &mut Stats) -> Outcome {
    let n = s.usize("N"); stats.bump(format!("kind:{}", s.kind)); stats.bump(format!("N:{}", n));
    match s.kind.as_str() {
        "normint" => { let (c, xs) = (s.rats("c"), s.rats("xs")); if c.len() != n { return Outcome::Skip("coefficient-count-mismatch"); }
            crate::dispatch_n!(n, conv_int, (&c, &xs, stats); 1 2 3) }
        "conv" | "norm" => { let (c, xs) = (s.rats("c"), s.rats("xs")); let norm = s.kind == "norm";
            if c.len() != n { return Outcome::Skip("coefficient-count-mismatch"); }
            crate::dispatch_n!(n, conv, (norm, &c, &xs, stats); 1 2 3 4 5 6 8 16 18 20 21 24) }
        "delay" => { let xs = s.i64s("xs"); crate::dispatch_n!(n, delay, (&xs, stats); 0 1 2 3 4 5 6 16) }
        _ => sg(n, s.get("ty")),
    }
}
