//! C02 / C17: signalo_filters::median::Median<f64, N> on small integers (exact in f64) and NaN.
use crate::util::*;
fn super_all(a: &[String], l: usize) -> Vec<Vec<String>> { crate::util::all_seqs(a, l) }
use signalo_filters::median::Median;
use signalo_traits::Filter;

pub const HEADER: &str = "From Coq Require Import ZArith.\nFrom Signalo Require Import Base.Report Check.C02.\nOpen Scope Z_scope.";
pub const HEADER17: &str = "From Coq Require Import ZArith.\nFrom Signalo Require Import Base.Report Check.C02 Check.C17.\nOpen Scope Z_scope.";

fn tok(v: &str) -> f64 { match v { "nan" => f64::NAN, "inf" => f64::INFINITY, "-inf" => f64::NEG_INFINITY, "-0" => -0.0, _ => v.parse::<i64>().unwrap() as f64 } }
fn show(x: f64) -> String { if x.is_nan() { "None".into() } else if x.is_infinite() { format!("(Some {})", cz(if x > 0.0 { 1_000_000_000_000 } else { -1_000_000_000_000 })) } else { format!("(Some {})", cz(x as i64)) } }
fn oshow(x: Option<f64>) -> String { match x { Some(v) => format!("(Some {})", show(v)), None => "None".into() } }

pub fn generate(tier: &str, rng: &mut Rng) -> Vec<Spec> {
    let thorough = tier == "thorough";
    let mut v = vec![];
    let mk = |n: usize, xs: &[String]| Spec::new("median").with("N", n).with("xs", xs.join(","));
    let abc: Vec<String> = ["0", "1", "2"].iter().map(|s| s.to_string()).collect();
    let abcd: Vec<String> = ["0", "1", "2", "3"].iter().map(|s| s.to_string()).collect();
    let nan: Vec<String> = ["0", "1", "nan", "2"].iter().map(|s| s.to_string()).collect();
    // exhaustive small scope (ties everywhere): complete histories of the maximal length; their
    // prefixes are covered because every output and accessor is compared after every sample
    let (len3, len4, lennan) = if thorough { (9, 7, 7) } else { (7, 5, 6) };
    for n in 1..=6 { for xs in crate::util::all_seqs(&abc, len3) { v.push(mk(n, &xs)); } }
    for n in 1..=6 { for xs in crate::util::all_seqs(&abcd, len4) { v.push(mk(n, &xs)); } }
    for n in 1..=5 { for xs in crate::util::all_seqs(&nan, lennan) { v.push(mk(n, &xs)); } }
    for n in 1..=4 { for l in 0..3 { for xs in crate::util::all_seqs(&nan, l) { v.push(mk(n, &xs)); } } }
    // infinities and negative zero (ordered like very large / zero values), wide windows, very long histories
    let special: Vec<String> = ["0", "-0", "inf", "-inf", "1"].iter().map(|s| s.to_string()).collect();
    for n in 1..=4 { for xs in super_all(&special, if thorough { 6 } else { 5 }) { v.push(mk(n, &xs)); } }
    for i in 0..(if thorough { 60 } else { 14 }) {
        let n = [12usize, 16, 32, 5, 8, 3, 7][i % 7]; let len = if i % 7 >= 3 { rng.range(600, if thorough { 4000 } else { 1500 }) } else { rng.range(40, 200) } as usize;
        let mut cur = 0i64; let xs: Vec<String> = (0..len).map(|_| { match rng.below(6) { 0 => {} 1 => cur += 1, 2 => cur -= 1, 3 => cur = rng.range(-1000000, 1000000), _ => cur = rng.range(-6, 6) } cur.to_string() }).collect();
        v.push(mk(n, &xs));
    }
    // wide windows (also not powers of two), more than two revolutions, many ties
    for (i, n) in [100usize, 129, 200, 300].iter().enumerate() { for j in 0..(if thorough { 4 } else { 1 }) {
        let len = 2 * n + 30 + i + j; let al = 3 + j as i64;
        let xs: Vec<String> = (0..len).map(|k| if k % 11 == 0 { rng.range(-500, 500).to_string() } else { rng.range(0, al).to_string() }).collect();
        v.push(mk(*n, &xs)); } }
    // windows wider than 2^16 (anything that stores a link, an index or a count in 16 bits): a few samples only; Coq
    // evaluates the boolean spec on these, not the list-based model (quadratic in the width)
    for (i, n) in [65537usize, 70001].iter().enumerate() { for l in 1..=(if thorough { 6 } else { 4 }) {
        let xs: Vec<String> = (0..l + i).map(|_| rng.range(0, 3).to_string()).collect(); v.push(mk(*n, &xs)); } }
    // sample types with a niche (Option<char>: the all-zero bit pattern is Some('\0'))
    for n in 1..=4 { for xs in super_all(&abc, if thorough { 6 } else { 4 }) { v.push(mk(n, &xs).with("ty", "char")); } }
    // Clone::clone_from into a filter that has seen other samples, from a source at every fill level
    for n in [1usize, 3, 5] { for l1 in [0usize, 2, n + 2] { for l2 in 0..=(n + 1) {
        let g = |rng: &mut Rng, l: usize| (0..l).map(|_| rng.range(0, 9).to_string()).collect::<Vec<String>>();
        let (h1, h2, c) = (g(rng, l1), g(rng, l2), g(rng, n + 3));
        let mut all = h2.clone(); all.extend(c);
        v.push(mk(n, &all).with("pre", h1.join(",")).with("split", l2)); } } }
    // random long histories: small alphabets (ties), monotone runs, outliers, some NaN
    let nrand = if thorough { 5000 } else { 600 };
    let widths: &[usize] = if thorough { &[1, 2, 3, 4, 5, 6, 7, 8, 9, 10, 11, 12, 13, 16] } else { &[3, 4, 5, 6, 7, 8, 9] };
    for i in 0..nrand {
        let n = *rng.pick(widths);
        let len = rng.range(n as i64, if thorough { 200 } else { 40 }) as usize;
        let alpha = rng.range(2, 6);
        let mut cur = rng.range(-alpha, alpha);
        let mut xs = vec![];
        for _ in 0..len {
            match rng.below(8) { 0 => {} 1 => cur += 1, 2 => cur -= 1, 3 => cur = rng.range(-100, 100), _ => cur = rng.range(-alpha, alpha) }
            if i % 5 == 0 && rng.below(10) == 0 { xs.push("nan".to_string()); } else { xs.push(cur.to_string()); }
        }
        v.push(mk(n, &xs));
    }
    add_entry_points(v, rng, &["median"], 80, |rng: &mut Rng| { let l = rng.range(1, 4); (0..l).map(|k| if k == 0 { rng.range(5, 9).to_string() } else { rng.range(-11, 11).to_string() }).collect::<Vec<_>>().join(",") })
}

fn run<const N: usize>(xs: &[f64], stats: &mut Stats) -> Outcome { run_cf::<N>(xs, None, stats) }
/// with `cf = Some((pre, split))`: a second filter is fed `pre`, and after `split` samples it is overwritten by
/// `clone_from(&f)` and continues in f's place
fn run_cf<const N: usize>(xs: &[f64], cf: Option<(&[f64], usize)>, stats: &mut Stats) -> Outcome {
    let mut f: Median<f64, N> = if cf.is_none() { enter(Median::default(), stats, |f: &mut Median<f64, N>, t| { f.filter(t.parse::<i64>().unwrap() as f64); }) } else { Median::default() };
    let acc = |f: &Median<f64, N>| format!("({}, {}, {})", copt(&catch(|| f.min()).ok(), |o| oshow(*o)), copt(&catch(|| f.median()).ok(), |o| oshow(*o)), copt(&catch(|| f.max()).ok(), |o| oshow(*o)));
    let mut ys = vec![]; let mut accs = vec![acc(&f)]; let mut panic = false;
    let mut dst: Median<f64, N> = Median::default();
    if let Some((pre, _)) = cf { for x in pre { let _ = catch(|| dst.filter(*x)); } }
    for (k, x) in xs.iter().enumerate() {
        if let Some((_, split)) = cf { if k == split { if catch(|| dst.clone_from(&f)).is_err() { panic = true; break; } std::mem::swap(&mut f, &mut dst); accs.pop(); accs.push(acc(&f)); } }
        match catch(|| f.filter(*x)) { Ok(y) => { ys.push(y); accs.push(acc(&f)); } Err(_) => { panic = true; stats.panics += 1; break } }
    }
    if let Some((_, split)) = cf { if split == xs.len() && !panic { if catch(|| dst.clone_from(&f)).is_err() { panic = true; } else { accs.pop(); accs.push(acc(&dst)); } } }
    Outcome::Case(format!("mk {}%nat {} {} {} [{}]", N, clist(xs, |x| show(*x)), clist(&ys, |x| show(*x)), cbool(panic), accs.join(";")))
}

fn run_char<const N: usize>(xs: &[char], stats: &mut Stats) -> Outcome {
    let sh = |c: char| format!("(Some {})", (c as i64) - ('a' as i64));
    let osh = |o: Option<char>| match o { Some(c) => format!("(Some {})", sh(c)), None => "None".to_string() };
    let mut f: Median<char, N> = Median::default();
    let acc = |f: &Median<char, N>| format!("({}, {}, {})", copt(&catch(|| f.min()).ok(), |o| osh(*o)), copt(&catch(|| f.median()).ok(), |o| osh(*o)), copt(&catch(|| f.max()).ok(), |o| osh(*o)));
    let mut ys = vec![]; let mut accs = vec![acc(&f)]; let mut panic = false;
    for x in xs { match catch(|| f.filter(*x)) { Ok(y) => { ys.push(y); accs.push(acc(&f)); } Err(_) => { panic = true; stats.panics += 1; break } } }
    Outcome::Case(format!("mk {}%nat {} {} {} [{}]", N, clist(xs, |x| sh(*x)), clist(&ys, |x| sh(*x)), cbool(panic), accs.join(";")))
}

pub fn exec(s: &Spec, stats: &mut Stats) -> Outcome {
    let n = s.usize("N");
    let xs: Vec<f64> = s.strs("xs").iter().map(|t| tok(t)).collect();
    stats.bump(format!("N:{}", n)); stats.bump(format!("len:{}", xs.len() / 10 * 10));
    if xs.iter().any(|x| x.is_nan()) { stats.bump("with-NaN"); }
    if s.has("ty") && s.get("ty") == "char" { stats.bump("ty:char"); let cs: Vec<char> = xs.iter().map(|x| (b'a' + *x as u8) as char).collect(); return crate::dispatch_n!(n, run_char, (&cs, stats); 1 2 3 4); }
    if s.has("pre") { stats.bump("clone_from"); let pre: Vec<f64> = s.strs("pre").iter().map(|t| tok(t)).collect(); let split = s.usize("split");
        return crate::dispatch_n!(n, run_cf, (&xs, Some((&pre[..], split)), stats); 1 3 5); }
    if n > 60000 { // the filter value alone is megabytes: run on a thread with a large stack
        let xs2 = xs.clone();
        let h = std::thread::Builder::new().stack_size(512 << 20).spawn(move || { crate::util::quiet_panics(); let mut st = Stats::default();
            let o = match n { 65537 => run::<65537>(&xs2, &mut st), 70001 => run::<70001>(&xs2, &mut st), _ => Outcome::Skip("width-not-instantiated") }; (o, st.panics) }).unwrap();
        return match h.join() { Ok((o, p)) => { stats.panics += p; o } Err(_) => Outcome::Skip("wide-window-thread-died") };
    }
    crate::dispatch_n!(n, run, (&xs, stats); 1 2 3 4 5 6 7 8 9 10 11 12 13 16 32 100 129 200 300)
}
