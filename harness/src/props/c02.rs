//! C02 / C17: signalo_filters::median::Median<f64, N> on small integers (exact in f64) and NaN.
use crate::util::*;
use signalo_filters::median::Median;
use signalo_traits::Filter;

pub const HEADER: &str = "From Coq Require Import ZArith.\nFrom Signalo Require Import Base.Report Check.C02.\nOpen Scope Z_scope.";
pub const HEADER17: &str = "From Coq Require Import ZArith.\nFrom Signalo Require Import Base.Report Check.C02 Check.C17.\nOpen Scope Z_scope.";

fn tok(v: &str) -> f64 { if v == "nan" { f64::NAN } else { v.parse::<i64>().unwrap() as f64 } }
fn show(x: f64) -> String { if x.is_nan() { "None".into() } else { format!("(Some {})", cz(x as i64)) } }
fn oshow(x: Option<f64>) -> String { match x { Some(v) => format!("(Some {})", show(v)), None => "None".into() } }

pub fn generate(tier: &str, rng: &mut Rng) -> Vec<Spec> {
    let thorough = tier == "thorough";
    let mut v = vec![];
    let mk = |n: usize, xs: &[String]| Spec::new("median").with("N", n).with("xs", xs.join(","));
    let abc: Vec<String> = ["0", "1", "2"].iter().map(|s| s.to_string()).collect();
    let abcd: Vec<String> = ["0", "1", "2", "3"].iter().map(|s| s.to_string()).collect();
    let nan: Vec<String> = ["0", "1", "nan", "2"].iter().map(|s| s.to_string()).collect();
    // exhaustive small scope (ties everywhere): complete histories of the maximal length; their
    // prefixes are covered because every output and accessor is compared after every sample
    let (len3, len4, lennan) = if thorough { (9, 7, 7) } else { (7, 5, 6) };
    for n in 1..=6 { for xs in crate::util::all_seqs(&abc, len3) { v.push(mk(n, &xs)); } }
    for n in 1..=6 { for xs in crate::util::all_seqs(&abcd, len4) { v.push(mk(n, &xs)); } }
    for n in 1..=5 { for xs in crate::util::all_seqs(&nan, lennan) { v.push(mk(n, &xs)); } }
    for n in 1..=4 { for l in 0..3 { for xs in crate::util::all_seqs(&nan, l) { v.push(mk(n, &xs)); } } }
    // random long histories: small alphabets (ties), monotone runs, outliers, some NaN
    let nrand = if thorough { 5000 } else { 600 };
    let widths: &[usize] = if thorough { &[1, 2, 3, 4, 5, 6, 7, 8, 9, 10, 11, 12, 13, 16] } else { &[3, 4, 5, 6, 7, 8, 9] };
    for i in 0..nrand {
        let n = *rng.pick(widths);
        let len = rng.range(n as i64, if thorough { 200 } else { 40 }) as usize;
        let alpha = rng.range(2, 6);
        let mut cur = rng.range(-alpha, alpha);
        let mut xs = vec![];
        for _ in 0..len {
            match rng.below(8) { 0 => {} 1 => cur += 1, 2 => cur -= 1, 3 => cur = rng.range(-100, 100), _ => cur = rng.range(-alpha, alpha) }
            if i % 5 == 0 && rng.below(10) == 0 { xs.push("nan".to_string()); } else { xs.push(cur.to_string()); }
        }
        v.push(mk(n, &xs));
    }
    v
}

fn run<const N: usize>(xs: &[f64], stats: &mut Stats) -> Outcome {
    let mut f: Median<f64, N> = Median::default();
    let acc = |f: &Median<f64, N>| format!("({}, {}, {})", copt(&catch(|| f.min()).ok(), |o| oshow(*o)), copt(&catch(|| f.median()).ok(), |o| oshow(*o)), copt(&catch(|| f.max()).ok(), |o| oshow(*o)));
    let mut ys = vec![]; let mut accs = vec![acc(&f)]; let mut panic = false;
    for x in xs {
        match catch(|| f.filter(*x)) { Ok(y) => { ys.push(y); accs.push(acc(&f)); } Err(_) => { panic = true; stats.panics += 1; break } }
    }
    Outcome::Case(format!("mk {}%nat {} {} {} [{}]", N, clist(xs, |x| show(*x)), clist(&ys, |x| show(*x)), cbool(panic), accs.join(";")))
}

pub fn exec(s: &Spec, stats: &mut Stats) -> Outcome {
    let n = s.usize("N");
    let xs: Vec<f64> = s.strs("xs").iter().map(|t| tok(t)).collect();
    stats.bump(format!("N:{}", n)); stats.bump(format!("len:{}", xs.len() / 10 * 10));
    if xs.iter().any(|x| x.is_nan()) { stats.bump("with-NaN"); }
    crate::dispatch_n!(n, run, (&xs, stats); 1 2 3 4 5 6 7 8 9 10 11 12 13 16)
}
