//! C03: signalo_filters::mean::mean::Mean<T, N>
use crate::rat::Rat;
use crate::util::*;
use signalo_filters::mean::mean::Mean;
use signalo_traits::{Filter, IntoGuts};

pub const HEADER: &str = "From Signalo Require Import Base.QR Base.Report Check.C03.";

pub fn generate(tier: &str, rng: &mut Rng) -> Vec<Spec> {
    let mut v = vec![];
    let thorough = tier == "thorough";
    // exhaustive small scope: all histories over {-1,0,2,5}, x0 != 0 included, lengths 0..L
    let (maxn, len) = if thorough { (7, 7) } else { (6, 5) };
    for n in 1..=maxn {
        for l in 0..=len {
            for xs in crate::util::all_seqs(&[-1i64, 0, 2, 5], l) {
                v.push(Spec::new("mean").with("N", n).with("ty", "rat").with("xs", join(&xs)));
                if l == len || l <= 2 { v.push(Spec::new("mean").with("N", n).with("ty", "int").with("xs", join(&xs))); }
            }
        }
    }
    // random long rational / integer histories with plateaus and outliers
    let nrand = if thorough { 3000 } else { 400 };
    for i in 0..nrand {
        let n = [1usize, 2, 3, 4, 5, 6, 7, 8, 16][rng.below(9) as usize];
        let len = rng.range(1, if thorough { 120 } else { 50 }) as usize;
        let int = i % 3 == 0;
        let mut xs: Vec<Rat> = vec![];
        let mut cur = Rat::new(rng.range(-20, 20) as i128, if int { 1 } else { rng.range(1, 6) as i128 });
        for _ in 0..len {
            match rng.below(6) { 0 => {} 1 => cur = Rat::int(rng.range(-1000, 1000)), _ => cur = Rat::new(rng.range(-30, 30) as i128, if int { 1 } else { rng.range(1, 8) as i128 }) }
            xs.push(cur);
        }
        v.push(Spec::new("mean").with("N", n).with("ty", if int { "int" } else { "rat" }).with("xs", join_rats(&xs)));
    }
    // float instantiations where every operation is exact: integer samples, power-of-two widths; and wide windows
    for i in 0..(if thorough { 400 } else { 60 }) {
        let n = [1usize, 2, 4, 8, 16, 32][i % 6]; let len = rng.range(1, 80) as usize;
        let xs: Vec<Rat> = (0..len).map(|_| Rat::int(rng.range(-1000, 1000))).collect();
        // during warm-up the divisor is k = 1..N-1 (not a power of two): keep the first N samples equal so that
        // (k*c)/k is exact; afterwards the divisor is N
        let c0 = xs[0]; let fx: Vec<Rat> = xs.iter().enumerate().map(|(k, x)| if k < n { c0 } else { *x }).collect();
        v.push(Spec::new("mean").with("N", n).with("ty", if i % 2 == 0 { "f64" } else { "f32" }).with("xs", join_rats(&fx)));
        v.push(Spec::new("mean").with("N", [12usize, 16, 32, 64][i % 4]).with("ty", "rat").with("xs", join_rats(&xs)));
    }
    // wide windows that are not powers of two, more than two revolutions of the ring
    for (i, n) in [100usize, 129, 200].iter().enumerate() { for j in 0..(if thorough { 3 } else { 1 }) {
        let len = 2 * n + 40 + i + j; let xs: Vec<Rat> = (0..len).map(|k| if j == 0 { Rat::int(1000) } else { Rat::int(rng.range(-9, 9) + (k as i64 % 7)) }).collect();
        v.push(Spec::new("mean").with("N", n).with("ty", "int").with("xs", join_rats(&xs))); } }
    // narrow integer types with magnitudes such that every window sum fits but window sum + one more sample does not
    for (ty, lim) in [("i32", i32::MAX as i64), ("u8", 255), ("i8", 127), ("i16", i16::MAX as i64)] { for n in [1usize, 2, 3, 4] { for k in 0..(if thorough { 8 } else { 3 }) {
        let hi = lim / n as i64; let lo = lim / (n as i64 + 1) + 1; if lo > hi { continue; }
        let len = n + 3 + k; let xs: Vec<Rat> = (0..len).map(|_| Rat::int(rng.range(lo, hi))).collect();
        v.push(Spec::new("mean").with("N", n).with("ty", ty).with("xs", join_rats(&xs)));
        if ty != "u8" { let neg: Vec<Rat> = xs.iter().map(|x| Rat::int(-(x.n as i64))).collect(); v.push(Spec::new("mean").with("N", n).with("ty", ty).with("xs", join_rats(&neg))); }
    } } }
    // Clone::clone_from into a filter that has already seen samples, from a source at every fill level
    for n in [1usize, 2, 3, 4] { for l1 in 0..=(n + 1) { for l2 in 0..=(n + 1) {
        let g = |rng: &mut Rng, l: usize| (0..l).map(|_| Rat::int(rng.range(-9, 9))).collect::<Vec<Rat>>();
        let (h1, h2, c) = (g(rng, l1), g(rng, l2), g(rng, n + 4));
        v.push(Spec::new("mean").with("N", n).with("ty", "clonefrom").with("pre", join_rats(&h1)).with("xs", join_rats(&h2)).with("ys", join_rats(&c)));
    } } }
    // long runs (internal re-synchronisation or drift only shows after hundreds of samples)
    for i in 0..(if thorough { 40 } else { 10 }) {
        let n = [1usize, 2, 4, 8, 3, 16][i % 6];
        let len = rng.range(280, if thorough { 2400 } else { 700 }) as usize;
        let int = i % 2 == 0;
        let xs: Vec<Rat> = (0..len).map(|k| if k % 97 == 0 { Rat::int(rng.range(-50, 50)) } else { Rat::new(rng.range(-6, 6) as i128, if int { 1 } else { rng.range(1, 3) as i128 }) }).collect();
        v.push(Spec::new("mean").with("N", n).with("ty", if int { "int" } else { "rat" }).with("xs", join_rats(&xs)));
    }
    // soak: more samples through ONE instance than a 16-bit counter can hold, widths that do not divide 65536 (one run per tier and kind)
    for n in [3usize] { let xs: Vec<i64> = (0..65_800i64).map(|k| ((k * 7 + k / 5) % 11) - 5).collect();
        v.push(Spec::new("mean").with("N", n).with("ty", "int").with("tail", 300).with("xs", join(&xs))); }
    add_entry_points(v, rng, &["mean"], 40, |rng: &mut Rng| { let l = rng.range(1, 4); (0..l).map(|k| if k == 0 { rng.range(5, 9).to_string() } else { rng.range(-11, 11).to_string() }).collect::<Vec<_>>().join(",") })
}

fn run_rat<const N: usize>(xs: &[Rat], stats: &mut Stats) -> Outcome {
    let mut f: Mean<Rat, N> = enter(Mean::default(), stats, |f: &mut Mean<Rat, N>, t| { f.filter(Rat::parse(t)); });
    let mut ys = vec![]; let mut panic = false;
    for x in xs { match catch(|| f.filter(*x)) { Ok(y) => ys.push(y), Err(_) => { panic = true; stats.panics += 1; break } } }
    let g = f.into_guts();
    let taps: Vec<Rat> = g.taps.iter().cloned().collect();
    Outcome::Case(format!("mk {} false {} {} {} {} {} {}", N, cqlist(xs), cqlist(&ys), cbool(panic), copt(&g.mean, cq), cqlist(&taps), cq(&g.weight)))
}
fn run_int<const N: usize>(xs: &[i64], stats: &mut Stats) -> Outcome {
    let mut f: Mean<i64, N> = enter(Mean::default(), stats, |f: &mut Mean<i64, N>, t| { f.filter(t.parse::<i64>().unwrap()); });
    let mut ys = vec![]; let mut panic = false;
    for x in xs { match catch(|| f.filter(*x)) { Ok(y) => ys.push(y), Err(_) => { panic = true; stats.panics += 1; break } } }
    let ys = tail_of(ys);
    let g = f.into_guts();
    let taps: Vec<i64> = g.taps.iter().cloned().collect();
    Outcome::Case(format!("mk {} true {} {} {} {} {} {}", N, clist(xs, |z| qi(*z)), clist(&ys, |z| qi(*z)), cbool(panic), copt(&g.mean, |z| qi(*z)), clist(&taps, |z| qi(*z)), qi(g.weight)))
}

fn run_flt<const N: usize>(f32ty: bool, xs: &[Rat], stats: &mut Stats) -> Outcome {
    use crate::util::f64_exact;
    let ex = |v: f64| f64_exact(v).unwrap_or(Rat::int(i64::MAX / 16));
    let mut ys = vec![]; let mut panic = false;
    let (mean, taps, weight);
    if f32ty { let mut f: Mean<f32, N> = Mean::default();
        for x in xs { match catch(|| f.filter(x.to_f64() as f32)) { Ok(y) => ys.push(ex(y as f64)), Err(_) => { panic = true; stats.panics += 1; break } } }
        let g = f.into_guts(); mean = g.mean.map(|m| ex(m as f64)); taps = g.taps.iter().map(|t| ex(*t as f64)).collect::<Vec<Rat>>(); weight = ex(g.weight as f64);
    } else { let mut f: Mean<f64, N> = Mean::default();
        for x in xs { match catch(|| f.filter(x.to_f64())) { Ok(y) => ys.push(ex(y)), Err(_) => { panic = true; stats.panics += 1; break } } }
        let g = f.into_guts(); mean = g.mean.map(ex); taps = g.taps.iter().map(|t| ex(*t)).collect::<Vec<Rat>>(); weight = ex(g.weight);
    }
    Outcome::Case(format!("mk {} false {} {} {} {} {} {}", N, cqlist(xs), cqlist(&ys), cbool(panic), copt(&mean, cq), cqlist(&taps), cq(&weight)))
}

fn run_narrow<const N: usize>(ty: &str, xs: &[Rat], stats: &mut Stats) -> Outcome {
    macro_rules! go { ($t:ty) => {{ let mut f: Mean<$t, N> = Mean::default(); let mut ys: Vec<i64> = vec![]; let mut panic = false;
        for x in xs { let v = x.n as $t; match catch(|| f.filter(v)) { Ok(y) => ys.push(y as i64), Err(_) => { panic = true; stats.panics += 1; break } } }
        let g = f.into_guts(); let taps: Vec<i64> = g.taps.iter().map(|t| *t as i64).collect();
        (ys, panic, g.mean.map(|m| m as i64), taps, g.weight as i64) }} }
    let (ys, panic, mean, taps, weight) = match ty { "i32" => go!(i32), "u8" => go!(u8), "i8" => go!(i8), _ => go!(i16) };
    Outcome::Case(format!("mk {} true {} {} {} {} {} {}", N, cqlist(xs), clist(&ys, |z| qi(*z)), cbool(panic), copt(&mean, |z| qi(*z)), clist(&taps, |z| qi(*z)), qi(weight)))
}
fn run_clonefrom<const N: usize>(h1: &[Rat], h2: &[Rat], cont: &[Rat], stats: &mut Stats) -> Outcome {
    let mut dst: Mean<Rat, N> = Mean::default(); let mut src: Mean<Rat, N> = Mean::default();
    let mut ys = vec![]; let mut panic = false;
    let r = catch(|| { for x in h1 { dst.filter(*x); } for x in h2 { src.filter(*x); } dst.clone_from(&src); });
    if r.is_err() { panic = true; }
    if !panic { for x in cont { match catch(|| dst.filter(*x)) { Ok(y) => ys.push(y), Err(_) => { panic = true; break } } } }
    if panic { stats.panics += 1; }
    let g = dst.into_guts(); let taps: Vec<Rat> = g.taps.iter().cloned().collect();
    let all: Vec<Rat> = h2.iter().chain(cont.iter()).cloned().collect();
    // the copy must behave like a filter that has seen h2 and then the continuation: outputs are given for the continuation only
    Outcome::Case(format!("mk {} false {} {} {} {} {} {}", N, cqlist(&all), cqlist(&ys), cbool(panic), copt(&g.mean, cq), cqlist(&taps), cq(&g.weight)))
}

pub fn exec(s: &Spec, stats: &mut Stats) -> Outcome {
    let n = s.usize("N");
    stats.bump(format!("N:{}", n)); { let l = s.rats("xs").len(); stats.bump(if l >= 256 { "len:>=256".to_string() } else { format!("len:{}", l / 10 * 10) }); }
    if s.get("ty") == "f64" || s.get("ty") == "f32" {
        stats.bump(format!("ty:{}", s.get("ty"))); let xs = s.rats("xs"); let f32ty = s.get("ty") == "f32";
        return dispatch_n!(n, run_flt, (f32ty, &xs, stats); 1 2 4 8 16 32);
    }
    if ["i32", "u8", "i8", "i16"].contains(&s.get("ty")) { stats.bump(format!("ty:{}", s.get("ty"))); let xs = s.rats("xs"); let ty = s.get("ty").to_string();
        return dispatch_n!(n, run_narrow, (&ty, &xs, stats); 1 2 3 4); }
    if s.get("ty") == "clonefrom" { stats.bump("clone_from"); let (h1, h2, c) = (s.rats("pre"), s.rats("xs"), s.rats("ys"));
        return dispatch_n!(n, run_clonefrom, (&h1, &h2, &c, stats); 1 2 3 4); }
    if s.get("ty") == "int" {
        let xs: Vec<i64> = s.rats("xs").iter().map(|r| r.n as i64).collect();
        dispatch_n!(n, run_int, (&xs, stats); 1 2 3 4 5 6 7 8 16 100 129 200)
    } else {
        let xs = s.rats("xs");
        dispatch_n!(n, run_rat, (&xs, stats); 1 2 3 4 5 6 7 8 12 16 32 64)
    }
}
