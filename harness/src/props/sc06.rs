#![allow(unused_imports)]
use crate::rat::Rat;
use crate::util::*;
use crate::smoothutil::*;
use signalo_filters::{differentiate::Differentiate, integrate::Integrate, mean::exp::mean as ema, median::exp as xmed, observe::{alpha_beta as ab, kalman as kal}};
use signalo_pipes::pipe::Pipe;
use signalo_traits::{Filter, IntoGuts, WithConfig};
pub fn gen06(tier: &str, rng: &mut Rng) -> Vec<Spec> {
    let t = tier == "thorough"; let mut v = vec![];
    let mk = |r: Rat, q: Rat, a: Rat, b: Rat, c: Rat, plain: bool, zs: &[Rat], us: &[Rat]| Spec::new("kalman").with("r", r.show()).with("q", q.show()).with("a", a.show()).with("b", b.show()).with("c", c.show())
        .with("plain", plain as u8).with("cov0", "0").with("zs", join_rats(zs)).with("us", join_rats(us));
    let h = |n: i128, d: i128| Rat::new(n, d);
    // convex configurations (a = c = 1, b = 0): grid of (r, q), all small measurement histories
    for r in [h(0, 1), h(1, 2), h(1, 1), h(3, 1)] { for q in [h(1, 4), h(1, 1), h(2, 1)] {
        for zs in small_hists(if t { 5 } else { 4 }) { let us = vec![Rat::int(0); zs.len()]; v.push(mk(r, q, h(1, 1), h(0, 1), h(1, 1), true, &zs, &us)); } } }
    // general configurations incl. b != 0, c != 1, c < 0, c = 0 (division by zero), and the degenerate gain divisor
    let avals = [h(1, 1), h(1, 2), h(-1, 1), h(2, 1)]; let bvals = [h(0, 1), h(1, 1), h(-1, 2)]; let cvals = [h(1, 1), h(2, 1), h(-1, 1), h(1, 2), h(0, 1)];
    for a in avals { for b in bvals { for c in cvals { for (r, q) in [(h(1, 1), h(1, 1)), (h(0, 1), h(0, 1)), (h(1, 2), h(2, 1))] {
        for zs in [[h(2, 1), h(4, 1), h(-1, 1)], [h(0, 1), h(1, 1), h(1, 1)], [h(3, 1), h(3, 1), h(3, 1)]] {
            let us = [h(1, 1), h(0, 1), h(-2, 1)];
            v.push(mk(r, q, a, b, c, false, &zs, &us));
            v.push(mk(r, q, a, b, c, true, &zs, &[h(0, 1); 3]));
        } } } } }
    // f64, convex configuration, constant measurements with non-dyadic r, q and values: reproduced bit-exactly
    for (k, c0) in [0.3f64, 13.7, -0.1].iter().enumerate() { for (rr, qq) in [(0.1f64, 0.7f64), (1.0 / 3.0, 0.9), (0.0, 0.3)] {
        let ex = |x: f64| crate::util::f64_exact(x).unwrap();
        let zs = vec![ex(*c0); 5 + k]; let us = vec![Rat::int(0); zs.len()];
        let mut sp = mk(ex(rr), ex(qq), h(1, 1), h(0, 1), h(1, 1), true, &zs, &us); sp = sp.with("ty", "f64const"); v.push(sp); } }
    // states built through FromGuts with no value yet but a stale covariance: the first sample must overwrite it
    for cov0 in [h(1000, 1), h(-3, 2), h(1, 7)] { for (r, q, a, b, c) in [(h(1, 1), h(1, 1), h(1, 1), h(0, 1), h(1, 1)), (h(1, 2), h(2, 1), h(1, 2), h(1, 1), h(2, 1))] {
        for zs in small_hists(3) { let us = vec![Rat::int(1); 3];
            let mut sp = mk(r, q, a, b, c, false, &zs, &us); for f in sp.fields.iter_mut() { if f.0 == "cov0" { f.1 = cov0.show(); } } v.push(sp); } } }
    for i in 0..(if t { 4000 } else { 500 }) {
        let len = rng.range(1, if t { 9 } else { 7 }) as usize;
        let zs = rand_hist(rng, len, 3);
        let plain = i % 3 == 0;
        let us: Vec<Rat> = (0..len).map(|_| if plain { Rat::int(0) } else { Rat::int(rng.range(-2, 2)) }).collect();
        let s = |rng: &mut Rng| Rat::new(rng.range(-4, 6) as i128, rng.range(1, 3) as i128);
        let pos = |rng: &mut Rng| Rat::new(rng.range(0, 6) as i128, rng.range(1, 3) as i128);
        if i % 4 == 0 { v.push(mk(pos(rng), pos(rng) + h(1, 4), h(1, 1), h(0, 1), h(1, 1), plain, &zs, &us)); }
        else { v.push(mk(pos(rng), pos(rng), s(rng), s(rng), s(rng), plain, &zs, &us)); }
    }
    let v: Vec<Spec> = v.into_iter().map(|s| if s.has("zs") && !s.has("xs") { let z = s.get("zs").to_string(); s.with("xs", z) } else { s }).collect();
    add_entry_points(v, rng, &["kalman"], 15, |rng: &mut Rng| { let l = rng.range(1, 3); (0..l).map(|_| rng.range(1, 9).to_string()).collect::<Vec<_>>().join(",") })
}
pub fn exec06(s: &Spec, stats: &mut Stats) -> Outcome {
    let cfg = kal::Config { r: s.rat("r"), q: s.rat("q"), a: s.rat("a"), b: s.rat("b"), c: s.rat("c") };
    let plain = s.usize("plain") == 1; let (zs, us) = (s.rats("zs"), s.rats("us"));
    stats.bump(format!("len:{}", zs.len())); stats.bump(if plain { "plain-form" } else { "control-form" });
    if cfg.a == Rat::int(1) && cfg.b == Rat::int(0) && cfg.c == Rat::int(1) { stats.bump("convex-config"); }
    if s.has("ty") && s.get("ty") == "f64const" {
        // only the estimates are compared (they must equal the constant exactly); the float covariance is not exact
        stats.bump("ty:f64-constant");
        let mut f = kal::Kalman::with_config(kal::Config { r: cfg.r.to_f64(), q: cfg.q.to_f64(), a: 1.0, b: 0.0, c: 1.0 });
        let mut ys = vec![]; let mut bad = false;
        for z in &zs { match catch(|| f.filter(z.to_f64())) { Ok(y) => ys.push(crate::util::f64_exact(y).unwrap_or(Rat::int(i64::MAX / 16))), Err(_) => { bad = true; break } } }
        // estimates: the f64 filter's (a constant run is reproduced exactly for ANY r, q); covariances: the exact-rational filter's
        let mut g = kal::Kalman::with_config(cfg.clone()); let mut covs = vec![];
        for z in &zs { let _ = catch(|| g.filter(*z)); covs.push(g.clone().into_guts().1.cov); }
        let zus: Vec<(Rat, Rat)> = zs.iter().cloned().zip(us.iter().cloned()).collect();
        let shown: Vec<Rat> = ys.clone();
        return Outcome::Case(format!("mk {{| kr := {}; kq := {}; ka := {}; kb := {}; kc := {} |}} {} {} {} {} {} {}", cq(&cfg.r), cq(&cfg.q), cq(&cfg.a), cq(&cfg.b), cq(&cfg.c),
            cbool(plain), cq(&Rat::int(0)), clist(&zus, |(z, u)| format!("({}, {})", cq(z), cq(u))), cqlist(&shown), cqlist(&covs), cbool(bad)));
    }
    let cov0 = if s.has("cov0") { s.rat("cov0") } else { Rat::int(0) };
    if cov0 != Rat::int(0) { stats.bump("injected-stale-covariance"); }
    let mut f = if cov0 == Rat::int(0) { enter(kal::Kalman::with_config(cfg.clone()), stats, |f, t| { let _ = <kal::Kalman<Rat> as Filter<Rat>>::filter(f, Rat::parse(t)); }) } else { <kal::Kalman<Rat> as signalo_traits::FromGuts>::from_guts((cfg.clone(), kal::State { cov: cov0, value: None })) };
    let (mut ys, mut covs, mut panic) = (vec![], vec![], false);
    for (z, u) in zs.iter().zip(us.iter()) {
        let r = if plain { catch(|| f.filter(*z)) } else { catch(|| f.filter((*z, *u))) };
        match r { Ok(y) => { ys.push(y); covs.push(f.clone().into_guts().1.cov); } Err(_) => { panic = true; stats.panics += 1; break } }
    }
    let zus: Vec<(Rat, Rat)> = zs.iter().cloned().zip(us.iter().cloned()).collect();
    Outcome::Case(format!("mk {{| kr := {}; kq := {}; ka := {}; kb := {}; kc := {} |}} {} {} {} {} {} {}", cq(&cfg.r), cq(&cfg.q), cq(&cfg.a), cq(&cfg.b), cq(&cfg.c),
        cbool(plain), cq(&cov0), clist(&zus, |(z, u)| format!("({}, {})", cq(z), cq(u))), cqlist(&ys), cqlist(&covs), cbool(panic)))
}

