//! C15 (Differentiate/Integrate), C13 (exponential mean/median), C14 (alpha-beta), C06 (Kalman)
//! over exact rationals.
use crate::rat::Rat;
use crate::util::*;
use signalo_filters::{differentiate::Differentiate, integrate::Integrate, mean::exp::mean as ema, median::exp as xmed,
    observe::{alpha_beta as ab, kalman as kal}};
use signalo_pipes::pipe::Pipe;
use signalo_traits::{Filter, IntoGuts, WithConfig};

pub const H15: &str = "From Signalo Require Import Check.Common Check.C15.";
pub const H13: &str = "From Signalo Require Import Check.Common Check.C13.";
pub const H14: &str = "From Signalo Require Import Check.Common Check.C14.";
pub const H06: &str = "From Signalo Require Import Check.Common Model.Smooth Check.C06.";

fn run_all<F: Filter<Rat, Output = Rat>>(f: &mut F, xs: &[Rat]) -> (Vec<Rat>, bool) {
    let mut ys = vec![];
    for x in xs { match catch(|| f.filter(*x)) { Ok(y) => ys.push(y), Err(_) => return (ys, true) } }
    (ys, false)
}
fn rand_hist(rng: &mut Rng, len: usize, den: i64) -> Vec<Rat> {
    let mut cur = Rat::new(rng.range(-9, 9) as i128, rng.range(1, den) as i128);
    (0..len).map(|_| { match rng.below(5) { 0 => {} 1 => cur = Rat::int(rng.range(-40, 40)), _ => cur = Rat::new(rng.range(-9, 9) as i128, rng.range(1, den) as i128) } cur }).collect()
}
fn small_hists(len: usize) -> Vec<Vec<Rat>> { super::all_seqs(&[Rat::int(-1), Rat::int(0), Rat::int(2)], len) }

// ---------------------------------------------------------------- C15
pub fn gen15(tier: &str, rng: &mut Rng) -> Vec<Spec> {
    let t = tier == "thorough"; let mut v = vec![];
    for kind in ["diff", "int", "pipe_di", "pipe_id"] {
        for l in 0..=(if t { 7 } else { 6 }) { for xs in small_hists(l) { v.push(Spec::new(kind).with("xs", join_rats(&xs))); } }
        for _ in 0..(if t { 1500 } else { 200 }) { let l = rng.range(1, if t { 120 } else { 40 }) as usize; v.push(Spec::new(kind).with("xs", join_rats(&rand_hist(rng, l, 7)))); }
    }
    v
}
pub fn exec15(s: &Spec, stats: &mut Stats) -> Outcome {
    let xs = s.rats("xs"); stats.bump(format!("len:{}", xs.len() / 10 * 10));
    let (k, (ys, p)) = match s.kind.as_str() {
        "diff" => (0, run_all(&mut Differentiate::<Rat>::default(), &xs)),
        "int" => (1, run_all(&mut Integrate::<Rat>::default(), &xs)),
        "pipe_di" => (2, run_all(&mut Pipe::new(Differentiate::<Rat>::default(), Integrate::<Rat>::default()), &xs)),
        _ => (3, run_all(&mut Pipe::new(Integrate::<Rat>::default(), Differentiate::<Rat>::default()), &xs)),
    };
    if p { stats.panics += 1; }
    Outcome::Case(format!("mk {} {} {} {}", k, cqlist(&xs), cqlist(&ys), cbool(p)))
}

// ---------------------------------------------------------------- C13
fn gains() -> Vec<Rat> { vec![Rat::int(0), Rat::new(1, 4), Rat::new(1, 2), Rat::new(3, 4), Rat::int(1)] }
pub fn gen13(tier: &str, rng: &mut Rng) -> Vec<Spec> {
    let t = tier == "thorough"; let mut v = vec![];
    let l = if t { 6 } else { 5 };
    for w in gains() { for len in 0..=l { for xs in small_hists(len) { v.push(Spec::new("ema").with("pre", w.show()).with("xs", join_rats(&xs))); } } }
    for a in gains() { for b in gains() { for c in gains() { for xs in small_hists(if t { 5 } else { 4 }) {
        if !t && xs[0] == Rat::int(0) { continue; }
        v.push(Spec::new("expmed").with("pre", a.show()).with("mid", b.show()).with("post", c.show()).with("xs", join_rats(&xs))); } } } }
    for i in 0..(if t { 3000 } else { 500 }) {
        let len = rng.range(2, if t { 14 } else { 10 }) as usize; let xs = rand_hist(rng, len, 5);
        let g = |rng: &mut Rng| if rng.below(8) == 0 { Rat::new(rng.range(-3, 9) as i128, 4) } else { Rat::new(rng.range(0, 8) as i128, 8) };
        if i % 2 == 0 { v.push(Spec::new("ema").with("pre", g(rng).show()).with("xs", join_rats(&xs))); }
        else { v.push(Spec::new("expmed").with("pre", g(rng).show()).with("mid", g(rng).show()).with("post", g(rng).show()).with("xs", join_rats(&xs))); }
    }
    v
}
pub fn exec13(s: &Spec, stats: &mut Stats) -> Outcome {
    let xs = s.rats("xs"); stats.bump(format!("len:{}", xs.len()));
    let pre = s.rat("pre");
    let (k, mid, post, (ys, p)) = if s.kind == "ema" {
        (0, Rat::int(0), Rat::int(0), run_all(&mut ema::Mean::with_config(ema::Config { inverse_width: pre }), &xs))
    } else {
        let (mid, post) = (s.rat("mid"), s.rat("post"));
        let cfg = xmed::Config { pre: ema::Config { inverse_width: pre }, mid, post: ema::Config { inverse_width: post } };
        (1, mid, post, run_all(&mut xmed::Median::with_config(cfg), &xs))
    };
    if p { stats.panics += 1; }
    let inside = |g: &Rat| *g >= Rat::int(0) && *g <= Rat::int(1);
    stats.bump(if inside(&pre) && inside(&mid) && inside(&post) { "gains-in-unit-interval" } else { "gains-outside" });
    Outcome::Case(format!("mk {} {} {} {} {} {} {}", k, cq(&pre), cq(&mid), cq(&post), cqlist(&xs), cqlist(&ys), cbool(p)))
}

// ---------------------------------------------------------------- C14
pub fn gen14(tier: &str, rng: &mut Rng) -> Vec<Spec> {
    let t = tier == "thorough"; let mut v = vec![];
    let grid = [Rat::int(0), Rat::new(1, 4), Rat::new(1, 2), Rat::int(1), Rat::new(3, 2)];
    let tf = [(Rat::int(1), Rat::int(3)), (Rat::int(-2), Rat::new(1, 2)), (Rat::int(0), Rat::int(5))];
    for a in grid { for b in grid { for (i, xs) in small_hists(if t { 6 } else { 5 }).into_iter().enumerate() {
        let (ta, tb) = tf[i % 3];
        v.push(Spec::new("ab").with("alpha", a.show()).with("beta", b.show()).with("a", ta.show()).with("b", tb.show()).with("xs", join_rats(&xs))); } } }
    for _ in 0..(if t { 3000 } else { 400 }) {
        let len = rng.range(1, if t { 14 } else { 10 }) as usize;
        let q = |rng: &mut Rng| Rat::new(rng.range(-4, 12) as i128, 8);
        v.push(Spec::new("ab").with("alpha", q(rng).show()).with("beta", q(rng).show()).with("a", q(rng).show()).with("b", Rat::int(rng.range(-5, 5)).show()).with("xs", join_rats(&rand_hist(rng, len, 4))));
    }
    v
}
pub fn exec14(s: &Spec, stats: &mut Stats) -> Outcome {
    let xs = s.rats("xs"); stats.bump(format!("len:{}", xs.len()));
    let (alpha, beta, a, b) = (s.rat("alpha"), s.rat("beta"), s.rat("a"), s.rat("b"));
    let mut f = ab::AlphaBeta::with_config(ab::Config { alpha, beta });
    let (ys, p1) = run_all(&mut f, &xs);
    let (_, st) = f.into_guts();
    let xs2: Vec<Rat> = xs.iter().map(|x| a * *x + b).collect();
    let (ys2, p2) = run_all(&mut ab::AlphaBeta::with_config(ab::Config { alpha, beta }), &xs2);
    Outcome::Case(format!("mk {} {} {} {} {} {} {} {} {}", cq(&alpha), cq(&beta), cqlist(&xs), cqlist(&ys), cq(&st.velocity), cq(&a), cq(&b), cqlist(&ys2), cbool(p1 || p2)))
}

// ---------------------------------------------------------------- C06
pub fn gen06(tier: &str, rng: &mut Rng) -> Vec<Spec> {
    let t = tier == "thorough"; let mut v = vec![];
    let mk = |r: Rat, q: Rat, a: Rat, b: Rat, c: Rat, plain: bool, zs: &[Rat], us: &[Rat]| Spec::new("kalman").with("r", r.show()).with("q", q.show()).with("a", a.show()).with("b", b.show()).with("c", c.show())
        .with("plain", plain as u8).with("zs", join_rats(zs)).with("us", join_rats(us));
    let h = |n: i128, d: i128| Rat::new(n, d);
    // convex configurations (a = c = 1, b = 0): grid of (r, q), all small measurement histories
    for r in [h(0, 1), h(1, 2), h(1, 1), h(3, 1)] { for q in [h(1, 4), h(1, 1), h(2, 1)] {
        for zs in small_hists(if t { 5 } else { 4 }) { let us = vec![Rat::int(0); zs.len()]; v.push(mk(r, q, h(1, 1), h(0, 1), h(1, 1), true, &zs, &us)); } } }
    // general configurations incl. b != 0, c != 1, c < 0, c = 0 (division by zero), and the degenerate gain divisor
    let avals = [h(1, 1), h(1, 2), h(-1, 1), h(2, 1)]; let bvals = [h(0, 1), h(1, 1), h(-1, 2)]; let cvals = [h(1, 1), h(2, 1), h(-1, 1), h(1, 2), h(0, 1)];
    for a in avals { for b in bvals { for c in cvals { for (r, q) in [(h(1, 1), h(1, 1)), (h(0, 1), h(0, 1)), (h(1, 2), h(2, 1))] {
        for zs in [[h(2, 1), h(4, 1), h(-1, 1)], [h(0, 1), h(1, 1), h(1, 1)], [h(3, 1), h(3, 1), h(3, 1)]] {
            let us = [h(1, 1), h(0, 1), h(-2, 1)];
            v.push(mk(r, q, a, b, c, false, &zs, &us));
            v.push(mk(r, q, a, b, c, true, &zs, &[h(0, 1); 3]));
        } } } } }
    for i in 0..(if t { 4000 } else { 500 }) {
        let len = rng.range(1, if t { 9 } else { 7 }) as usize;
        let zs = rand_hist(rng, len, 3);
        let plain = i % 3 == 0;
        let us: Vec<Rat> = (0..len).map(|_| if plain { Rat::int(0) } else { Rat::int(rng.range(-2, 2)) }).collect();
        let s = |rng: &mut Rng| Rat::new(rng.range(-4, 6) as i128, rng.range(1, 3) as i128);
        let pos = |rng: &mut Rng| Rat::new(rng.range(0, 6) as i128, rng.range(1, 3) as i128);
        if i % 4 == 0 { v.push(mk(pos(rng), pos(rng) + h(1, 4), h(1, 1), h(0, 1), h(1, 1), plain, &zs, &us)); }
        else { v.push(mk(pos(rng), pos(rng), s(rng), s(rng), s(rng), plain, &zs, &us)); }
    }
    v
}
pub fn exec06(s: &Spec, stats: &mut Stats) -> Outcome {
    let cfg = kal::Config { r: s.rat("r"), q: s.rat("q"), a: s.rat("a"), b: s.rat("b"), c: s.rat("c") };
    let plain = s.usize("plain") == 1; let (zs, us) = (s.rats("zs"), s.rats("us"));
    stats.bump(format!("len:{}", zs.len())); stats.bump(if plain { "plain-form" } else { "control-form" });
    if cfg.a == Rat::int(1) && cfg.b == Rat::int(0) && cfg.c == Rat::int(1) { stats.bump("convex-config"); }
    let mut f = kal::Kalman::with_config(cfg.clone());
    let (mut ys, mut covs, mut panic) = (vec![], vec![], false);
    for (z, u) in zs.iter().zip(us.iter()) {
        let r = if plain { catch(|| f.filter(*z)) } else { catch(|| f.filter((*z, *u))) };
        match r { Ok(y) => { ys.push(y); covs.push(f.clone().into_guts().1.cov); } Err(_) => { panic = true; stats.panics += 1; break } }
    }
    let zus: Vec<(Rat, Rat)> = zs.iter().cloned().zip(us.iter().cloned()).collect();
    Outcome::Case(format!("mk {{| kr := {}; kq := {}; ka := {}; kb := {}; kc := {} |}} {} {} {} {} {}", cq(&cfg.r), cq(&cfg.q), cq(&cfg.a), cq(&cfg.b), cq(&cfg.c),
        cbool(plain), clist(&zus, |(z, u)| format!("({}, {})", cq(z), cq(u))), cqlist(&ys), cqlist(&covs), cbool(panic)))
}

// ---------------------------------------------------------------- C16
use signalo_filters::mean::mean_variance as mvw;
use signalo_filters::mean::exp::mean_variance as mve;
pub const H16: &str = "From Signalo Require Import Check.Common Check.C16.";
pub fn gen16(tier: &str, rng: &mut Rng) -> Vec<Spec> {
    let t = tier == "thorough"; let mut v = vec![];
    let offs = [Rat::int(10), Rat::new(-7, 2), Rat::int(0)];
    for n in 1..=4usize { for (i, xs) in small_hists(if t { 6 } else { 5 }).into_iter().enumerate() {
        v.push(Spec::new("mvw").with("N", n).with("off", offs[i % 3].show()).with("xs", join_rats(&xs))); } }
    for w in gains() { for (i, xs) in small_hists(if t { 6 } else { 5 }).into_iter().enumerate() {
        v.push(Spec::new("mve").with("w", w.show()).with("off", offs[i % 3].show()).with("xs", join_rats(&xs))); } }
    for i in 0..(if t { 3000 } else { 400 }) {
        let len = rng.range(1, if t { 16 } else { 11 }) as usize; let xs = rand_hist(rng, len, 4);
        let off = Rat::new(rng.range(-30, 30) as i128, rng.range(1, 3) as i128);
        if i % 2 == 0 { v.push(Spec::new("mvw").with("N", *rng.pick(&[1usize, 2, 3, 4, 5, 8])).with("off", off.show()).with("xs", join_rats(&xs))); }
        else { v.push(Spec::new("mve").with("w", Rat::new(rng.range(0, 8) as i128, 8).show()).with("off", off.show()).with("xs", join_rats(&xs))); }
    }
    v
}
fn run_mv<F: Filter<Rat, Output = O>, O>(f: &mut F, xs: &[Rat], get: impl Fn(O) -> (Rat, Rat)) -> (Vec<(Rat, Rat)>, bool) {
    let mut ys = vec![];
    for x in xs { match catch(|| f.filter(*x)) { Ok(y) => ys.push(get(y)), Err(_) => return (ys, true) } }
    (ys, false)
}
fn mvw_run<const N: usize>(xs: &[Rat]) -> (Vec<(Rat, Rat)>, bool) { run_mv(&mut mvw::MeanVariance::<Rat, N>::default(), xs, |o| (o.mean, o.variance)) }
pub fn exec16(s: &Spec, stats: &mut Stats) -> Outcome {
    let xs = s.rats("xs"); let off = s.rat("off"); let xs2: Vec<Rat> = xs.iter().map(|x| *x + off).collect();
    stats.bump(format!("kind:{}", s.kind)); stats.bump(format!("len:{}", xs.len()));
    let pr = |v: &[(Rat, Rat)]| clist(v, |(a, b)| format!("({}, {})", cq(a), cq(b)));
    if s.kind == "mvw" {
        let n = s.usize("N");
        let (a, b) = match n { 1 => (mvw_run::<1>(&xs), mvw_run::<1>(&xs2)), 2 => (mvw_run::<2>(&xs), mvw_run::<2>(&xs2)), 3 => (mvw_run::<3>(&xs), mvw_run::<3>(&xs2)),
            4 => (mvw_run::<4>(&xs), mvw_run::<4>(&xs2)), 5 => (mvw_run::<5>(&xs), mvw_run::<5>(&xs2)), 8 => (mvw_run::<8>(&xs), mvw_run::<8>(&xs2)), _ => return Outcome::Skip("width-not-instantiated") };
        Outcome::Case(format!("mk 0%nat {}%nat 0 {} {} {} {} {}", n, cqlist(&xs), cq(&off), pr(&a.0), pr(&b.0), cbool(a.1 || b.1)))
    } else {
        let w = s.rat("w");
        let mk = || mve::MeanVariance::with_config(mve::Config { inverse_width: w });
        let a = run_mv(&mut mk(), &xs, |o| (o.mean, o.variance)); let b = run_mv(&mut mk(), &xs2, |o| (o.mean, o.variance));
        Outcome::Case(format!("mk 1%nat 0%nat {} {} {} {} {} {}", cq(&w), cqlist(&xs), cq(&off), pr(&a.0), pr(&b.0), cbool(a.1 || b.1)))
    }
}
