//! Boxing glue so that the *shape* of a source expression can be chosen at run time: every
//! adapter layer is the real signalo type, instantiated over `DynSrc` (a boxed, clonable source).
use signalo_sources::{cache::Cache, chain::Chain, constant::Constant, cycle::Cycle, from_iter::FromIter, increment::Increment,
    into_iter::IntoIter, pad, peek::Peek, repeat::Repeat, skip::Skip, take::Take};
use signalo_traits::Source;
use std::cell::RefCell;
use std::collections::VecDeque;
use std::rc::Rc;

/// list leaf whose remaining items can be inspected after the run (a clone is an independent copy)
pub struct Leaf(pub Rc<RefCell<VecDeque<i64>>>);
impl Clone for Leaf { fn clone(&self) -> Leaf { Leaf(Rc::new(RefCell::new(self.0.borrow().clone()))) } }
impl Iterator for Leaf { type Item = i64; fn next(&mut self) -> Option<i64> { self.0.borrow_mut().pop_front() } }
pub type Leaves = Vec<Rc<RefCell<VecDeque<i64>>>>;

pub trait DynObj {
    fn pull(&mut self) -> Option<i64>;
    fn box_clone(&self) -> Box<dyn DynObj>;
    fn as_any(&self) -> &dyn std::any::Any;
    /// `Clone::clone_from` of the concrete adapter when `other` has the same concrete type (the glue must be
    /// transparent for the defaulted trait methods too: an adapter may specialise `clone_from`)
    fn clone_from_dyn(&mut self, other: &dyn DynObj) -> bool;
}
impl<S: Source<Output = i64> + Clone + 'static> DynObj for S {
    fn pull(&mut self) -> Option<i64> { self.source() }
    fn box_clone(&self) -> Box<dyn DynObj> { Box::new(self.clone()) }
    fn as_any(&self) -> &dyn std::any::Any { self }
    fn clone_from_dyn(&mut self, other: &dyn DynObj) -> bool {
        if let Some(o) = other.as_any().downcast_ref::<S>() { self.clone_from(o); true } else { false }
    }
}
pub struct DynSrc(Box<dyn DynObj>);
impl DynSrc { pub fn new<S: Source<Output = i64> + Clone + 'static>(s: S) -> DynSrc { DynSrc(Box::new(s)) } }
impl Clone for DynSrc {
    fn clone(&self) -> DynSrc { DynSrc(self.0.box_clone()) }
    fn clone_from(&mut self, src: &DynSrc) { if !self.0.clone_from_dyn(&*src.0) { self.0 = src.0.box_clone(); } }
}
impl Source for DynSrc { type Output = i64; fn source(&mut self) -> Option<i64> { self.0.pull() } }

#[derive(Clone, Debug, PartialEq)]
pub enum Expr {
    List(Vec<i64>), Chain(Box<Expr>, Box<Expr>), Take(Box<Expr>, usize), Skip(Box<Expr>, usize), Cycle(Box<Expr>),
    Const(i64), Rep(i64, usize), Inc(i64, i64), PadC(Box<Expr>, i64, usize), PadE(Box<Expr>, usize),
    Peek(Box<Expr>), Cache(Box<Expr>), Rt(Box<Expr>),
}
use Expr::*;

impl Expr {
    pub fn show(&self) -> String {
        match self {
            List(v) => format!("list({})", v.iter().map(|x| x.to_string()).collect::<Vec<_>>().join(" ")),
            Chain(a, b) => format!("chain({},{})", a.show(), b.show()),
            Take(a, n) => format!("take({},{})", a.show(), n), Skip(a, n) => format!("skip({},{})", a.show(), n),
            Cycle(a) => format!("cycle({})", a.show()), Const(v) => format!("const({})", v), Rep(v, n) => format!("rep({},{})", v, n),
            Inc(a, d) => format!("inc({},{})", a, d), PadC(a, v, c) => format!("padc({},{},{})", a.show(), v, c),
            PadE(a, c) => format!("pade({},{})", a.show(), c), Peek(a) => format!("peek({})", a.show()),
            Cache(a) => format!("cache({})", a.show()), Rt(a) => format!("rt({})", a.show()),
        }
    }
    pub fn coq(&self) -> String {
        let z = |v: &i64| if *v < 0 { format!("({})", v) } else { v.to_string() };
        match self {
            List(v) => format!("(EList [{}])", v.iter().map(z).collect::<Vec<_>>().join(";")),
            Chain(a, b) => format!("(EChain {} {})", a.coq(), b.coq()),
            Take(a, n) => format!("(ETake {} {}%nat)", a.coq(), (*n).min(40)), Skip(a, n) => format!("(ESkip {} {}%nat)", a.coq(), (*n).min(40)),
            Cycle(a) => format!("(ECycle {})", a.coq()), Const(v) => format!("(EConstant {})", z(v)),
            Rep(v, n) => format!("(ERepeat {} {}%nat)", z(v), (*n).min(40)), Inc(a, d) => format!("(EIncrement {} {})", z(a), z(d)),
            PadC(a, v, c) => format!("(EPadConst {} {} {}%nat)", a.coq(), z(v), (*c).min(40)), PadE(a, c) => format!("(EPadEdge {} {}%nat)", a.coq(), (*c).min(40)),
            Peek(a) => format!("(EPeek {})", a.coq()), Cache(a) => format!("(ECache {})", a.coq()), Rt(a) => format!("(ERoundTrip {})", a.coq()),
        }
    }
    pub fn depth(&self) -> usize {
        match self { List(_) | Const(_) | Rep(..) | Inc(..) => 0, Chain(a, b) => 1 + a.depth().max(b.depth()),
            Take(a, _) | Skip(a, _) | Cycle(a) | PadC(a, ..) | PadE(a, _) | Peek(a) | Cache(a) | Rt(a) => 1 + a.depth() }
    }
    pub fn has_cycle(&self) -> bool { match self { Cycle(_) => true, Chain(a, b) => a.has_cycle() || b.has_cycle(), Take(a, _) | Skip(a, _) | PadC(a, ..) | PadE(a, _) | Peek(a) | Cache(a) | Rt(a) => a.has_cycle(), _ => false } }
    pub fn build(&self) -> DynSrc { let mut l = vec![]; self.build_with(&mut l) }
    /// builds the real adapters; every list leaf's buffer is registered in `leaves` (expression order)
    pub fn build_with(&self, leaves: &mut Leaves) -> DynSrc {
        match self {
            List(v) => { let h = Rc::new(RefCell::new(v.iter().cloned().collect::<VecDeque<i64>>())); leaves.push(h.clone()); DynSrc::new(FromIter::from(Leaf(h))) }
            Chain(a, b) => DynSrc::new(Chain::new(a.build_with(leaves), b.build_with(leaves))),
            Take(a, n) => DynSrc::new(Take::new(a.build_with(leaves), *n)),
            Skip(a, n) => DynSrc::new(Skip::new(a.build_with(leaves), *n)),
            Cycle(a) => DynSrc::new(Cycle::new(a.build_with(leaves))),
            Const(v) => DynSrc::new(Constant::new(*v)),
            Rep(v, n) => DynSrc::new(Repeat::new(*v, *n)),
            Inc(a, d) => DynSrc::new(Increment::new(*a, *d)),
            PadC(a, v, c) => DynSrc::new(pad::constant::Pad::new(a.build_with(leaves), *v, *c)),
            PadE(a, c) => DynSrc::new(pad::edge::Pad::new(a.build_with(leaves), *c)),
            Peek(a) => DynSrc::new(Peek::<DynSrc, i64>::from(a.build_with(leaves))),
            Cache(a) => DynSrc::new(Cache::<DynSrc, i64>::from(a.build_with(leaves))),
            Rt(a) => DynSrc::new(FromIter::from(IntoIter::from(a.build_with(leaves)))),
        }
    }
    pub fn parse(s: &str) -> Expr { let b = s.as_bytes(); let mut p = 0; let e = parse_at(b, &mut p); assert!(p == b.len(), "trailing input in {}", s); e }
}
fn ident(b: &[u8], p: &mut usize) -> String { let s = *p; while *p < b.len() && (b[*p] as char).is_ascii_alphabetic() { *p += 1; } String::from_utf8(b[s..*p].to_vec()).unwrap() }
fn expect(b: &[u8], p: &mut usize, c: u8) { assert!(*p < b.len() && b[*p] == c, "expected {} at {}", c as char, *p); *p += 1; }
fn int(b: &[u8], p: &mut usize) -> i64 { let s = *p; if *p < b.len() && b[*p] == b'-' { *p += 1; } while *p < b.len() && b[*p].is_ascii_digit() { *p += 1; } std::str::from_utf8(&b[s..*p]).unwrap().parse().unwrap() }
fn uint(b: &[u8], p: &mut usize) -> usize { let s = *p; while *p < b.len() && b[*p].is_ascii_digit() { *p += 1; } std::str::from_utf8(&b[s..*p]).unwrap().parse().unwrap() }
fn parse_at(b: &[u8], p: &mut usize) -> Expr {
    let id = ident(b, p); expect(b, p, b'(');
    let e = match id.as_str() {
        "list" => { let mut v = vec![]; while b[*p] != b')' { if b[*p] == b' ' { *p += 1; continue; } v.push(int(b, p)); } List(v) }
        "chain" => { let a = parse_at(b, p); expect(b, p, b','); let c = parse_at(b, p); Chain(Box::new(a), Box::new(c)) }
        "take" => { let a = parse_at(b, p); expect(b, p, b','); Take(Box::new(a), uint(b, p)) }
        "skip" => { let a = parse_at(b, p); expect(b, p, b','); Skip(Box::new(a), uint(b, p)) }
        "cycle" => Cycle(Box::new(parse_at(b, p))),
        "const" => Const(int(b, p)),
        "rep" => { let v = int(b, p); expect(b, p, b','); Rep(v, uint(b, p)) }
        "inc" => { let v = int(b, p); expect(b, p, b','); Inc(v, int(b, p)) }
        "padc" => { let a = parse_at(b, p); expect(b, p, b','); let v = int(b, p); expect(b, p, b','); PadC(Box::new(a), v, uint(b, p)) }
        "pade" => { let a = parse_at(b, p); expect(b, p, b','); PadE(Box::new(a), uint(b, p)) }
        "peek" => Peek(Box::new(parse_at(b, p))),
        "cache" => Cache(Box::new(parse_at(b, p))),
        "rt" => Rt(Box::new(parse_at(b, p))),
        other => panic!("unknown adapter {}", other),
    };
    expect(b, p, b')'); e
}
