//! Exact rationals on checked i128. Overflow never panics: it sets a thread-local flag and the
//! case that hit it is skipped (counted) by the caller.
use core::cmp::Ordering;
use core::ops::{Add, AddAssign, Div, Mul, Neg, Rem, Sub};
use num_traits::{Num, One, Signed, Zero};
use std::cell::Cell;

thread_local! { static OVERFLOW: Cell<bool> = Cell::new(false); }
pub fn overflow_reset() { OVERFLOW.with(|f| f.set(false)); }
pub fn overflowed() -> bool { OVERFLOW.with(|f| f.get()) }
pub fn mark_overflow() { OVERFLOW.with(|f| f.set(true)); }
fn poison() -> Rat { OVERFLOW.with(|f| f.set(true)); Rat { n: 0, d: 1 } }

#[derive(Clone, Copy, Debug, Default)]
pub struct Rat { pub n: i128, pub d: i128 }

fn gcd(a: i128, b: i128) -> i128 { let (mut a, mut b) = (a.abs(), b.abs()); while b != 0 { let t = a % b; a = b; b = t; } a }

impl Rat {
    pub fn new(n: i128, d: i128) -> Rat {
        if d == 0 { panic!("Rat: division by zero"); }
        let g = gcd(n, d);
        let (mut n, mut d) = if g == 0 { (0, 1) } else { (n / g, d / g) };
        if d < 0 { n = -n; d = -d; }
        Rat { n, d }
    }
    pub fn int(n: i64) -> Rat { Rat { n: n as i128, d: 1 } }
    /// Coq literal of type Q, e.g. `(-3 # 4)`
    pub fn coq(&self) -> String { format!("({}#{})", self.n, self.d) }
    pub fn parse(s: &str) -> Rat {
        let s = s.trim();
        if let Some((a, b)) = s.split_once('/') { Rat::new(a.parse().unwrap(), b.parse().unwrap()) }
        else { Rat::new(s.parse().unwrap(), 1) }
    }
    pub fn show(&self) -> String { if self.d == 1 { format!("{}", self.n) } else { format!("{}/{}", self.n, self.d) } }
    pub fn to_f64(&self) -> f64 { self.n as f64 / self.d as f64 }
}
impl PartialEq for Rat { fn eq(&self, o: &Rat) -> bool { self.n == o.n && self.d == o.d } }
impl PartialOrd for Rat {
    fn partial_cmp(&self, o: &Rat) -> Option<Ordering> {
        match (self.n.checked_mul(o.d), o.n.checked_mul(self.d)) {
            (Some(a), Some(b)) => a.partial_cmp(&b),
            _ => { poison(); Some(Ordering::Equal) }
        }
    }
}
impl Add for Rat { type Output = Rat; fn add(self, o: Rat) -> Rat {
    let g = gcd(self.d, o.d); let (da, db) = (self.d / g, o.d / g);
    match (self.n.checked_mul(db), o.n.checked_mul(da), self.d.checked_mul(db)) {
        (Some(a), Some(b), Some(d)) => match a.checked_add(b) { Some(n) => Rat::new(n, d), None => poison() },
        _ => poison() } } }
impl Neg for Rat { type Output = Rat; fn neg(self) -> Rat { Rat { n: -self.n, d: self.d } } }
impl Sub for Rat { type Output = Rat; fn sub(self, o: Rat) -> Rat { self + (-o) } }
impl Mul for Rat { type Output = Rat; fn mul(self, o: Rat) -> Rat {
    let g1 = gcd(self.n, o.d); let g2 = gcd(o.n, self.d);
    let (g1, g2) = (if g1 == 0 { 1 } else { g1 }, if g2 == 0 { 1 } else { g2 });
    match ((self.n / g1).checked_mul(o.n / g2), (self.d / g2).checked_mul(o.d / g1)) {
        (Some(n), Some(d)) => Rat::new(n, d), _ => poison() } } }
impl Div for Rat { type Output = Rat; fn div(self, o: Rat) -> Rat {
    if o.n == 0 { panic!("Rat: division by zero"); }
    self * Rat::new(o.d, o.n) } }
impl Rem for Rat { type Output = Rat; fn rem(self, _o: Rat) -> Rat { Rat::zero() } }
impl AddAssign for Rat { fn add_assign(&mut self, o: Rat) { *self = *self + o; } }
impl Zero for Rat { fn zero() -> Rat { Rat { n: 0, d: 1 } } fn is_zero(&self) -> bool { self.n == 0 } }
impl One for Rat { fn one() -> Rat { Rat { n: 1, d: 1 } } }
impl Num for Rat { type FromStrRadixErr = (); fn from_str_radix(_: &str, _: u32) -> Result<Rat, ()> { Err(()) } }
impl Signed for Rat {
    fn abs(&self) -> Rat { Rat { n: self.n.abs(), d: self.d } }
    fn abs_sub(&self, o: &Rat) -> Rat { if *self <= *o { Rat::zero() } else { *self - *o } }
    fn signum(&self) -> Rat { Rat::int(self.n.signum() as i64) }
    fn is_positive(&self) -> bool { self.n > 0 }
    fn is_negative(&self) -> bool { self.n < 0 }
}
