//! Instrumented owning sample type for C19: every value has a unique serial; a thread-local ledger
//! records creation, clone and drop, and flags the drop or use of a serial that is not live.
use core::cmp::Ordering;
use core::ops::{Add, Div, Mul, Rem, Sub};
use num_traits::{Num, One, Zero};
use std::cell::RefCell;
use std::collections::HashSet;

#[derive(Default)]
pub struct Ledger { pub live: HashSet<u64>, pub next: u64, pub created: u64, pub dropped: u64, pub anomalies: Vec<String> }
thread_local! { pub static LEDGER: RefCell<Ledger> = RefCell::new(Ledger::default()); }
pub fn reset_ledger() { LEDGER.with(|l| *l.borrow_mut() = Ledger::default()); }
pub fn live() -> usize { LEDGER.with(|l| l.borrow().live.len()) }
/// fault injection: when armed with k > 0, the k-th subsequent `clone` or comparison of a Tok panics (once)
thread_local! { pub static FUSE: std::cell::Cell<u64> = std::cell::Cell::new(0); }
pub fn arm(k: u64) { FUSE.with(|f| f.set(k)); }
pub fn disarm() -> bool { FUSE.with(|f| { let left = f.get(); f.set(0); left == 0 }) }
fn tick() { let blow = FUSE.with(|f| { let k = f.get(); if k == 0 { false } else { f.set(k - 1); k == 1 } }); if blow { panic!("injected fault in user code of the sample type"); } }
pub fn anomalies() -> usize { LEDGER.with(|l| l.borrow().anomalies.len()) }

#[derive(Debug)]
/// `tag` is a bool on purpose: Option<Tok> then keeps its None in the bool's niche, so an all-zero bit pattern is
/// Some(Tok { id: 0, .. }) -- a value that was never created (catches zero-initialised buffers read as initialised)
pub struct Tok { id: u64, val: i64, tag: bool }
impl Tok {
    pub fn new(val: i64) -> Tok { LEDGER.with(|l| { let mut l = l.borrow_mut(); l.next += 1; l.created += 1; let id = l.next; l.live.insert(id); Tok { id, val, tag: true } }) }
    fn touch(&self) -> i64 { LEDGER.with(|l| { let mut l = l.borrow_mut(); if !l.live.contains(&self.id) { let m = format!("use of non-live value #{}", self.id); l.anomalies.push(m); } }); self.val }
}
impl Clone for Tok { fn clone(&self) -> Tok { tick(); Tok::new(self.touch()) } }
impl Drop for Tok { fn drop(&mut self) { LEDGER.with(|l| { let mut l = l.borrow_mut(); l.dropped += 1; if !l.live.remove(&self.id) { let m = format!("drop of non-live value #{}", self.id); l.anomalies.push(m); } }) } }
impl PartialEq for Tok { fn eq(&self, o: &Tok) -> bool { tick(); self.touch() == o.touch() } }
impl PartialOrd for Tok { fn partial_cmp(&self, o: &Tok) -> Option<Ordering> { tick(); self.touch().partial_cmp(&o.touch()) } }
impl Add for Tok { type Output = Tok; fn add(self, o: Tok) -> Tok { Tok::new(self.touch().wrapping_add(o.touch())) } }
impl Sub for Tok { type Output = Tok; fn sub(self, o: Tok) -> Tok { Tok::new(self.touch().wrapping_sub(o.touch())) } }
impl Mul for Tok { type Output = Tok; fn mul(self, o: Tok) -> Tok { Tok::new(self.touch().wrapping_mul(o.touch())) } }
impl Div for Tok { type Output = Tok; fn div(self, o: Tok) -> Tok { let d = o.touch(); Tok::new(if d == 0 { 0 } else { self.touch().wrapping_div(d) }) } }
impl Rem for Tok { type Output = Tok; fn rem(self, o: Tok) -> Tok { let d = o.touch(); Tok::new(if d == 0 { 0 } else { self.touch().wrapping_rem(d) }) } }
impl Zero for Tok { fn zero() -> Tok { Tok::new(0) } fn is_zero(&self) -> bool { self.touch() == 0 } }
impl One for Tok { fn one() -> Tok { Tok::new(1) } }
impl Num for Tok { type FromStrRadixErr = (); fn from_str_radix(_: &str, _: u32) -> Result<Tok, ()> { Err(()) } }
