//! Shared command-line driver of every harness binary: generate or read spec lines, execute them on the
//! real code, write shards of Coq terms plus meta.json.
use std::collections::HashSet;
use std::fs;
use std::io::Write;
use crate::util::*;
use crate::rat;

const SHARD: usize = 400;

/// Watchdog: a case on which the implementation does not return (a loop that stopped making progress) must not hang the check.
/// The case being executed and its start time are published here; a thread prints `HANG <spec line>` and ends the process with
/// status 3 when one case runs longer than VERIF_CASE_TIMEOUT seconds (default 600; the longest legitimate case takes seconds).
static CURRENT: std::sync::Mutex<Option<(String, std::time::Instant)>> = std::sync::Mutex::new(None);
fn start_watchdog(outdir: String) {
    let limit: u64 = std::env::var("VERIF_CASE_TIMEOUT").ok().and_then(|v| v.parse().ok()).unwrap_or(600);
    std::thread::spawn(move || loop {
        std::thread::sleep(std::time::Duration::from_millis(500));
        let cur = CURRENT.lock().map(|g| g.clone()).unwrap_or(None);
        if let Some((line, t0)) = cur {
            if t0.elapsed().as_secs() >= limit {
                let _ = fs::write(format!("{}/hang.txt", outdir), format!("{}\n", line));
                println!("HANG {}", line);
                eprintln!("HANG {}", line);
                std::process::exit(3);
            }
        }
    });
}

pub fn run(props: &[(&str, Prop)]) {
    let args: Vec<String> = std::env::args().collect();
    if args.len() < 5 { eprintln!("usage: harness gen <prop> <tier> <seed> <outdir> | harness exec <prop> <specfile> <outdir>"); std::process::exit(2); }
    quiet_panics();
    let prop = args[2].as_str();
    let p = match props.iter().find(|(id, _)| *id == prop) { Some((_, p)) => p, None => { eprintln!("property {} is not served by this binary", prop); std::process::exit(2) } };
    let (specs, outdir): (Vec<Spec>, &str) = match args[1].as_str() {
        "gen" => { let seed: u64 = args[4].parse().unwrap(); let mut rng = Rng(seed.wrapping_mul(0x2545F4914F6CDD1D) ^ 0xC0FFEE); ((p.generate)(args[3].as_str(), &mut rng), args[5].as_str()) }
        "exec" => (fs::read_to_string(&args[3]).unwrap().lines().filter(|l| !l.trim().is_empty() && !l.starts_with('#')).map(Spec::parse).collect(), args[4].as_str()),
        _ => { eprintln!("bad command"); std::process::exit(2) }
    };
    fs::create_dir_all(outdir).unwrap();
    start_watchdog(outdir.to_string());
    let mut seen = HashSet::new();
    let mut stats = Stats::default();
    let mut kept: Vec<(String, String)> = vec![];
    let mut xkept: Vec<(String, String)> = vec![];
    let mut generated = 0u64;
    for s in specs {
        let line = s.line();
        if !seen.insert(line.clone()) { continue; }
        generated += 1;
        rat::overflow_reset();
        set_entry(&s);
        if let Ok(mut g) = CURRENT.lock() { *g = Some((line.clone(), std::time::Instant::now())); }
        let out = (p.exec)(&s, &mut stats);
        if let Ok(mut g) = CURRENT.lock() { *g = None; }
        if rat::overflowed() { *stats.skipped.entry("rational-overflow".into()).or_insert(0) += 1; continue; }
        match out {
            Outcome::Case(term) => { stats.bump(format!("kind:{}", s.kind)); if stats.samples.len() < 4 { stats.samples.push(format!("{} => {}", line, term)); } kept.push((line, term)); }
            Outcome::XCase(term) => { stats.bump(format!("kind:{}", s.kind)); xkept.push((line, term)); }
            Outcome::Skip(why) => { *stats.skipped.entry(why.to_string()).or_insert(0) += 1; }
        }
    }
    // bit-exact float / integer cases (Check/Float.v): when present, every case is injected into the sum type
    let summode = !xkept.is_empty();
    if summode { for c in kept.iter_mut() { c.1 = format!("inl ({})", c.1); } for (l, t) in xkept { kept.push((l, format!("inr ({})", t))); } }
    let mut specs_out = fs::File::create(format!("{}/specs.txt", outdir)).unwrap();
    for (l, _) in &kept { writeln!(specs_out, "{}", l).unwrap(); }
    let mut nshards = 0;
    for (k, chunk) in kept.chunks(SHARD).enumerate() {
        let mut f = fs::File::create(format!("{}/cases_{}.v", outdir, k)).unwrap();
        writeln!(f, "{}", p.header).unwrap();
        if summode { writeln!(f, "From Signalo Require Import Check.Float.\nDefinition cases : list (case + xcase) := [").unwrap(); }
        else { writeln!(f, "Definition cases : list case := [").unwrap(); }
        for (i, (_, t)) in chunk.iter().enumerate() { writeln!(f, " {}{}", t, if i + 1 < chunk.len() { ";" } else { "" }).unwrap(); }
        writeln!(f, "].").unwrap();
        if summode { writeln!(f, "Eval vm_compute in (report (either check) cases).").unwrap(); } else { writeln!(f, "Eval vm_compute in (report check cases).").unwrap(); }
        nshards += 1;
    }
    let meta = format!("{{\"generated\":{},\"cases\":{},\"shards\":{},\"shard_size\":{},\"panics\":{},\"distribution\":{},\"skipped\":{},\"samples\":[{}]}}",
        generated, kept.len(), nshards, SHARD, stats.panics, json_map(&stats.hist), json_map(&stats.skipped),
        stats.samples.iter().map(|s| json_str(s)).collect::<Vec<_>>().join(","));
    fs::write(format!("{}/meta.json", outdir), meta).unwrap();
}
