import fcntl, glob, json, os, re, shutil, subprocess, sys, time
from concurrent.futures import ThreadPoolExecutor

import props as P
sys.path.insert(0, os.path.join(os.path.dirname(os.path.dirname(os.path.abspath(__file__))), 'translator'))

ROOT = os.path.dirname(os.path.dirname(os.path.abspath(__file__)))
COQ = os.path.join(ROOT, "coq")
BUILD = os.path.join(ROOT, "build")
HARNESS = os.path.join(ROOT, "harness")
TARGET = os.path.join(BUILD, "target")
ENV = dict(os.environ, CARGO_TARGET_DIR=TARGET, CARGO_NET_OFFLINE="true")
FORBIDDEN = re.compile(r"\b(Admitted|admit|Axiom|Axioms|Parameter|Parameters|Conjecture|Admit Obligations|Unset Guard Checking|bypass_check|type-in-type|impredicative-set|Unset Universe Checking|Unset Positivity Checking)\b")
# axioms a theorem may depend on; every entry must be named in DESIGN.md section 8
AXIOM_ALLOW = set()


def sh(cmd, cwd=None, timeout=None, env=None):
    try:
        p = subprocess.run(cmd, cwd=cwd, shell=isinstance(cmd, str), stdout=subprocess.PIPE, stderr=subprocess.STDOUT,
                           timeout=timeout, env=env or ENV, text=True)
    except subprocess.TimeoutExpired as e:      # never hang or crash the check: a command that does not finish is a failed command
        o = e.stdout if isinstance(e.stdout, str) else (e.stdout or b"").decode("utf-8", "replace")
        return 124, o + "\nTIMEOUT after %s s: %s" % (timeout, cmd if isinstance(cmd, str) else " ".join(map(str, cmd))[:300])
    return p.returncode, p.stdout


class Lock:
    def __init__(self, name):
        os.makedirs(BUILD, exist_ok=True)
        self.path = os.path.join(BUILD, name)
    def __enter__(self):
        self.f = open(self.path, "w"); fcntl.flock(self.f, fcntl.LOCK_EX); return self
    def __exit__(self, *a):
        fcntl.flock(self.f, fcntl.LOCK_UN); self.f.close()


# ------------------------------------------------------------------------------------------ build

def coq_makefile():
    mk = os.path.join(COQ, "Makefile")
    cp = os.path.join(COQ, "_CoqProject")
    if not os.path.exists(mk) or os.path.getmtime(mk) < os.path.getmtime(cp):
        rc, out = sh("coq_makefile -f _CoqProject -o Makefile", cwd=COQ)
        if rc: raise SystemExit("coq_makefile failed:\n" + out)


def coq_make(targets, timeout=1500):
    """Full .vo build of the given targets (all when empty). Returns (ok, log)."""
    with Lock(".coq.lock"):
        coq_makefile()
        try:
            rc, out = sh(["make", "-j16", "-k"] + targets, cwd=COQ, timeout=timeout)
        except subprocess.TimeoutExpired as e:
            return False, "make timed out\n" + (e.stdout or "")
        return rc == 0, out


BIN_OF = {"C01": "h_c01", "C02": "h_c02", "C17": "h_c02", "C03": "h_c03", "C04": "h_c04", "C05": "h_c05", "C06": "h_c06",
          "C07": "h_c07", "C08": "h_c08", "C09": "h_c08", "C10": "h_c10", "C11": "h_c11", "C12": "h_c12", "C20": "h_c12",
          "C13": "h_c13", "C14": "h_c14", "C15": "h_c15", "C16": "h_c16", "C18": "h_c18", "C19": "h_c19"}


def cargo_build(profile, pid=None):
    """Builds the harness binary serving pid (all binaries when pid is None). One binary per property family:
    a change to /repo that stops one family's glue from compiling cannot raise an alarm for the others."""
    with Lock(".cargo.lock"):
        lock_src = "/repo/Cargo.lock"
        if os.path.exists(lock_src):
            shutil.copy(lock_src, os.path.join(HARNESS, "Cargo.lock"))
        cmd = ["cargo", "build", "--offline", "--quiet"] + (["--release"] if profile == "release" else [])
        cmd += (["--bin", BIN_OF[pid]] if pid else ["--bins", "--keep-going"])
        rc, out = sh(cmd, cwd=HARNESS, timeout=1500)
        if rc and os.path.exists(os.path.join(HARNESS, "Cargo.lock")):
            # a lock file copied from /repo may not cover the harness's own needs; let cargo extend it offline
            os.remove(os.path.join(HARNESS, "Cargo.lock"))
            rc, out = sh(cmd, cwd=HARNESS, timeout=1500)
        return rc == 0, out


def harness_bin(profile, pid):
    return os.path.join(TARGET, profile if profile == "release" else "debug", BIN_OF[pid])


def scan_sources():
    """No Admitted/Axiom/... anywhere in the development (comments stripped)."""
    hits = []
    for path in sorted(glob.glob(os.path.join(COQ, "**", "*.v"), recursive=True)):
        txt = open(path).read()
        txt = strip_comments(txt)
        for i, line in enumerate(txt.split("\n"), 1):
            if FORBIDDEN.search(line):
                hits.append("%s:%d: %s" % (os.path.relpath(path, ROOT), i, line.strip()))
    cp = open(os.path.join(COQ, "_CoqProject")).read()
    if re.search(r"type-in-type|impredicative-set|-vos|-vok", cp): hits.append("_CoqProject: forbidden flag")
    return hits


def strip_comments(txt):
    out = []; depth = 0; i = 0
    while i < len(txt):
        if txt.startswith("(*", i): depth += 1; i += 2
        elif txt.startswith("*)", i) and depth: depth -= 1; i += 2
        else:
            if depth == 0 or txt[i] == "\n": out.append(txt[i])
            i += 1
    return "".join(out)


def theorem_names(pid):
    names = []
    for path in (os.path.join(COQ, "Props", pid + ".v"), os.path.join(COQ, "Props", pid + "_checker.v")):
        if not os.path.exists(path): continue
        txt = strip_comments(open(path).read())
        names += re.findall(r"^\s*Theorem\s+([A-Za-z0-9_']+)", txt, re.M)
    return names


def print_assumptions(pid, names, extra_q=()):
    """Ask Coq which axioms each property theorem depends on. Returns (ok, {name: [axioms]}, log)."""
    d = os.path.join(BUILD, "pa"); os.makedirs(d, exist_ok=True)
    f = os.path.join(d, "pa_%s.v" % pid)
    with open(f, "w") as h:
        h.write("From Signalo Require Import Props.%s.\n" % pid)
        if os.path.exists(os.path.join(COQ, "Props", pid + "_checker.v")): h.write("From Signalo Require Import Props.%s_checker.\n" % pid)
        for n in names:
            h.write('Goal True. idtac "@@%s". Abort.\nPrint Assumptions %s.\n' % (n, n))
    cmd = ["coqc", "-noglob", "-Q", COQ, "Signalo"]
    for (dirp, logical) in extra_q: cmd += ["-Q", dirp, logical]
    rc, out = sh(cmd + [f], cwd=d, timeout=600)
    res = {}
    if rc: return False, res, out
    cur = None
    for line in out.split("\n"):
        if line.startswith("@@"): cur = line[2:].strip(); res[cur] = []; continue
        if cur is None: continue
        if "Closed under the global context" in line or line.strip() in ("", "Axioms:"): continue
        m = re.match(r"^([A-Za-z0-9_.']+)\s*:", line)
        if m: res[cur].append(m.group(1))
    return True, res, out


# ------------------------------------------------------------------------------------------ cases

def _big_stack():
    # long soak cases are list literals with tens of thousands of elements: coqc's parser needs a deep stack
    import resource
    try: resource.setrlimit(resource.RLIMIT_STACK, (resource.RLIM_INFINITY, resource.RLIM_INFINITY))
    except Exception: pass


def run_shard(args):
    path, extra = args
    cmd = ["coqc", "-noglob", "-Q", COQ, "Signalo"] + extra + [os.path.basename(path)]
    try:
        p = subprocess.run(cmd, cwd=os.path.dirname(path), stdout=subprocess.PIPE, stderr=subprocess.STDOUT, timeout=1500,
                           env=ENV, text=True, preexec_fn=_big_stack)
        rc, out = p.returncode, p.stdout
    except subprocess.TimeoutExpired:
        return path, None, "timeout"
    if rc: return path, None, out[-2000:]
    flat = re.sub(r"\s+", "", out)
    m = re.search(r"=\(\[(.*?)\],(\d+)%N\):list", flat)
    if not m: return path, None, "unparsable output: " + out[-500:]
    bad = [(int(a), int(b)) for a, b in re.findall(r"\((\d+)%N,(\d+)%N\)", m.group(1))]
    return path, (bad, int(m.group(2))), ""


def evaluate(casedir, extra=(), max_shards=None):
    """Compile every shard in casedir (at most max_shards, evenly spread, when given);
    returns (bad [(global index, code)], nontrivial, errors, meta)."""
    meta = json.load(open(os.path.join(casedir, "meta.json")))
    ks = list(range(meta["shards"]))
    if max_shards and len(ks) > max_shards:
        step = len(ks) / float(max_shards)
        ks = sorted(set(int(i * step) for i in range(max_shards)))
        meta = dict(meta, cases=min(meta["cases"], len(ks) * meta["shard_size"]))
    shards = [os.path.join(casedir, "cases_%d.v" % k) for k in ks]
    bad = []; nt = 0; errors = []
    with ThreadPoolExecutor(max_workers=16) as ex:
        for path, res, err in ex.map(run_shard, [(s, list(extra)) for s in shards]):
            k = int(re.search(r"cases_(\d+)\.v$", path).group(1))
            if res is None: errors.append("%s: %s" % (os.path.basename(path), err)); continue
            bad += [(k * meta["shard_size"] + i, c) for i, c in res[0]]
            nt += res[1]
    bad.sort()
    return bad, nt, errors, meta


def harness_gen(pid, tier, seed, casedir, profile="release"):
    shutil.rmtree(casedir, ignore_errors=True); os.makedirs(casedir)
    rc, out = sh([harness_bin(profile, pid), "gen", pid, tier, str(seed), casedir], timeout=1500)
    return rc == 0, out


def harness_exec(pid, lines, casedir, profile="release"):
    shutil.rmtree(casedir, ignore_errors=True); os.makedirs(casedir)
    sf = os.path.join(casedir, "in.txt")
    open(sf, "w").write("\n".join(lines) + "\n")
    rc, out = sh([harness_bin(profile, pid), "exec", pid, sf, casedir], timeout=1500)
    return rc == 0, out


def read_specs(casedir):
    return [l.rstrip("\n") for l in open(os.path.join(casedir, "specs.txt"))]


def case_term(casedir, idx, meta):
    """The Coq term (inputs + implementation outputs) of case idx, for the replay file."""
    k, i = divmod(idx, meta["shard_size"])
    lines = open(os.path.join(casedir, "cases_%d.v" % k)).read().split("\n")
    start = next(j for j, l in enumerate(lines) if l.startswith("Definition cases"))
    return lines[start + 1 + i].strip().rstrip(";")


# ------------------------------------------------------------------------------------------ shrink

LISTKEYS = ("xs", "ops", "zs", "us", "ys")

def shrink(pid, line, want_mask, cfg, profile, extra, budget_s=45):
    """Greedy deletion of list elements (chunks first, single elements only for short lists), keeping a
    case whose verdict still has a bit of want_mask. Bounded by a wall-clock budget."""
    best = line
    t0 = time.time()
    for _round in range(40):
        if time.time() - t0 > budget_s: break
        kind, *fields = best.split("|")
        cands = []
        for fi, f in enumerate(fields):
            k, v = f.split("=", 1)
            if k not in LISTKEYS or v == "": continue
            items = v.split(",")
            n = len(items)
            cuts = []
            size = n // 2
            while size >= 1 and (size > 1 or n <= 48):
                cuts += [(a, min(n, a + size)) for a in range(0, n, size)]
                if size == 1: break
                size //= 2
            for a, b in cuts:
                new = items[:a] + items[b:]
                nf = fields[:fi] + [k + "=" + ",".join(new)] + fields[fi + 1:]
                cands.append("|".join([kind] + nf))
        cands = list(dict.fromkeys(cands))[:96]
        # very long cases (soak runs): only a handful of candidates per round, or the shard would not fit in memory
        if len(best) > 20000: cands = cands[:6]
        if not cands: break
        d = os.path.join(BUILD, "cases", pid, "shrink")
        ok, out = harness_exec(pid, cands, d, profile)
        if not ok: break
        bad, _, errs, meta = evaluate(d, extra)
        if errs: break
        specs = read_specs(d)
        hit = [specs[i] for i, c in bad if c & want_mask and i < len(specs)]
        if not hit: break
        hit.sort(key=len)
        if len(hit[0]) >= len(best): break
        best = hit[0]
    return best


# ------------------------------------------------------------------------------------------ known findings

def known_findings(pid):
    """finding: lines of KNOWN_FINDINGS.txt for this property -> list of description strings."""
    path = os.path.join(ROOT, "KNOWN_FINDINGS.txt")
    res = []
    if os.path.exists(path):
        for l in open(path):
            l = l.strip()
            m = re.match(r"^finding:\s+property=(\S+)\s+(.*)$", l)
            if m and m.group(1) == pid: res.append(m.group(2))
    return res


# ------------------------------------------------------------------------------------------ main

def write_replay(pid, tier, seed, k, payload):
    d = os.path.join(ROOT, "replays", pid); os.makedirs(d, exist_ok=True)
    path = os.path.join(d, "%s-%s-%d.json" % (tier, seed, k))
    payload = dict(payload, property=pid, replay_cmd="./check %s --replay %s" % (pid, os.path.relpath(path, ROOT)))
    json.dump(payload, open(path, "w"), indent=1)
    return os.path.relpath(path, ROOT)


def write_evidence(pid, ev):
    d = os.path.join(ROOT, "evidence"); os.makedirs(d, exist_ok=True)
    json.dump(ev, open(os.path.join(d, pid + ".json"), "w"), indent=1)


def setup():
    t0 = time.time()
    ok, log = coq_make([])
    print(log[-3000:])
    if not ok:
        print("SETUP: warning: some Coq files did not build; the affected checks will report it")
    ok, log = cargo_build("release")
    if not ok:
        print(log[-3000:]); print("SETUP: warning: some harness binaries did not build; the affected checks will report it")
    ok, log = cargo_build("debug", "C04")
    if not ok:
        print(log[-3000:]); print("SETUP: warning: debug build of the C04 harness failed")
    print("setup ok in %.0fs" % (time.time() - t0))
    return 0


def decide(pid, tier, seed, replay=None):
    t0 = time.time()
    cfg = P.PROPS[pid]
    profiles = cfg.get("profiles", ["release"])
    violations = []        # (kind, text, replay path or None, found_input: bool)
    notes = []
    trusted = list(P.TRUSTED_COMMON) + cfg.get("trusted", [])
    extra_q = []

    # 1. generated obligations (translator), if any
    gen_ok = True; gen_info = {}
    if cfg.get("translator") and not replay:
        import tables
        gen_ok, gen_info = tables.regenerate(pid, ROOT, BUILD)
        if not gen_ok:
            violations.append(("translator", gen_info.get("error", "translator failed"), None, False))

    # 2. proofs
    targets = ["Props/%s.vo" % pid, "Check/%s.vo" % pid, "Check/Float.vo", "Proofs/Generic.vo", "Base/Bits.vo", "Proofs/Translate.vo"]
    if os.path.exists(os.path.join(COQ, "Props", pid + "_checker.v")): targets.append("Props/%s_checker.vo" % pid)
    ok, log = coq_make(targets)
    proof_ok = os.path.exists(os.path.join(COQ, "Props", pid + ".vo")) and ok
    check_ok = os.path.exists(os.path.join(COQ, "Check", pid + ".vo"))
    if not ok:
        m = re.findall(r'File "([^"]+)", line (\d+)[^\n]*\n(Error:[^\n]*(?:\n[^\n]+){0,3})', log)
        notes.append("make failed: " + "; ".join("%s:%s %s" % (a, b, c.replace("\n", " ")[:200]) for a, b, c in m)[:1500])
    # 1b. method bodies re-translated from the Rust source (translator/bodies.py): one lemma per state shape, checked
    #     by the kernel against the generic model (needs the compiled models, hence after make)
    import bodies
    if (pid in bodies.ENTRIES or pid in bodies.ASSERTS) and not replay:
        try:
            _, binfo = bodies.regenerate(pid, ROOT, BUILD)
        except Exception as e:
            binfo = {"obligations": 1, "discharged": 0, "failed": ["translator"], "bodies": {}, "logs": {"translator": "the method-body translator crashed: %s: %s" % (type(e).__name__, e)}}
        gen_info["obligations"] = gen_info.get("obligations", 0) + binfo["obligations"]
        gen_info["discharged"] = gen_info.get("discharged", 0) + binfo["discharged"]
        gen_info["failed"] = gen_info.get("failed", []) + binfo["failed"]
        gen_info["bodies"] = binfo["bodies"]
        if binfo.get("logs"): gen_info.setdefault("logs", {}).update(binfo["logs"])
        if binfo["failed"]:
            notes.append("source bodies no longer translate to the model: " + "; ".join("%s: %s" % (k, " ".join(str(v).split())[:300]) for k, v in binfo.get("logs", {}).items()))
    names = theorem_names(pid)
    obligations = len(names); discharged = 0; axioms = {}
    if proof_ok:
        pa_ok, axioms, pa_log = print_assumptions(pid, names)
        if pa_ok:
            for n in names:
                bad_ax = [a for a in axioms.get(n, []) if a not in AXIOM_ALLOW]
                if n in axioms and not bad_ax: discharged += 1
                elif bad_ax: notes.append("theorem %s depends on non-allowlisted axioms %s" % (n, bad_ax))
        else:
            notes.append("Print Assumptions failed: " + pa_log[-500:])
    hits = scan_sources()
    if hits:
        notes.append("forbidden constructs: " + "; ".join(hits[:10]))
    gen_obl = gen_info.get("obligations", 0); gen_dis = gen_info.get("discharged", 0)
    if not (proof_ok and discharged == obligations and not hits and gen_obl == gen_dis):
        what = "proof obligations of %s no longer check (%d/%d theorems, %d/%d generated obligations)%s" % (
            pid, discharged, obligations, gen_dis, gen_obl, (": " + " | ".join(notes)) if notes else "")
        if gen_info.get("failed"): what += " failed=" + ",".join(gen_info["failed"][:8])
        violations.append(("proof-break", what, None, False))

    # 3. correspondence
    evaluations = 0; nontrivial = 0; samples = []; dist = {}; skipped = {}; drift = 0; known_hits = 0
    found_inputs = []; mism = []
    known_lines = []
    if check_ok:
        for prof in profiles:
            ok, log = cargo_build(prof, pid)
            if not ok:
                violations.append(("harness-build", "the harness no longer builds against /repo (%s): %s" % (prof, log[-1500:]), None, False))
                continue
            casedir = os.path.join(BUILD, "cases", pid, "%s-%s" % (tier if not replay else "replay", prof))
            if replay:
                rp = json.load(open(replay))
                if not rp.get("spec"):
                    print("replay file names no input (%s); re-running the full check instead" % rp.get("kind"))
                    return decide(pid, tier, seed)
                ok, out = harness_exec(pid, [rp["spec"]], casedir, prof)
            else:
                corpus = sorted(glob.glob(os.path.join(ROOT, "corpus", pid, "*.txt")))
                ok, out = harness_gen(pid, tier, seed, casedir, prof)
                if ok and corpus:
                    lines = [l.strip() for c in corpus for l in open(c) if l.strip() and not l.startswith("#")]
                    cdir = casedir + "-corpus"
                    ok2, out2 = harness_exec(pid, lines, cdir, prof)
                    if ok2:
                        b, n, e, m = evaluate(cdir, sum((["-Q", d, l] for d, l in extra_q), []))
                        evaluations += m["cases"]; nontrivial += n
                        for i, c in b:
                            if c & 3: mism.append((cdir, i, c, m, prof))
                            if c & 4: known_hits += 1
            if not ok:
                hang = re.search(r"(?m)^HANG (.*)$", out or "")
                if hang:        # the implementation did not return on this case (harness watchdog): the case is the replay
                    path = write_replay(pid, tier, seed, 90 + len(violations), {"kind": "impl-hangs", "spec": hang.group(1).strip(), "profile": prof,
                        "explanation": "the implementation did not return from this case within the watchdog limit (VERIF_CASE_TIMEOUT, default 600 s): non-termination; every model function is total"})
                    violations.append(("impl-hangs", "the implementation does not return on: %s" % hang.group(1).strip()[:300], path, True)); continue
                violations.append(("harness-run", "harness failed: " + out[-1500:], None, False)); continue
            bad, nt, errors, meta = evaluate(casedir, sum((["-Q", d, l] for d, l in extra_q), []))
            evaluations += meta["cases"]; nontrivial += nt
            for k, v in meta["distribution"].items(): dist[prof + ":" + k] = v
            for k, v in meta["skipped"].items(): skipped[prof + ":" + k] = v
            samples += meta["samples"][:2]
            if errors:
                violations.append(("correspondence-eval", "case files did not evaluate: " + " | ".join(errors)[:1500], None, False))
            for i, c in bad:
                if c & 3: mism.append((casedir, i, c, meta, prof))
                if c & 4: known_hits += 1
                if c & 8: drift += 1
    else:
        violations.append(("check-build", "Check/%s.v does not build: %s" % (pid, " | ".join(notes)), None, False))

    # 4. classify disagreements, search for failing input
    extra = sum((["-Q", d, l] for d, l in extra_q), [])
    spec_fail = [m for m in mism if m[2] & 2]
    only_model = [m for m in mism if not (m[2] & 2)]
    if mism and not spec_fail and tier == "quick" and not replay and check_ok:
        # correspondence broke but the spec held on every case: widen the search (thorough bounds)
        for prof in profiles:
            casedir = os.path.join(BUILD, "cases", pid, "search-%s" % prof)
            ok, out = harness_gen(pid, "thorough", seed, casedir, prof)
            if ok:
                # bounded: at most 160 shards (64 000 cases) per profile, spread evenly over the thorough stream
                bad, nt, errors, meta = evaluate(casedir, extra, max_shards=160)
                evaluations += meta["cases"]
                spec_fail += [(casedir, i, c, meta, prof) for i, c in bad if c & 2]
    k = 0
    if spec_fail:
        casedir, i, c, meta, prof = spec_fail[0]
        line = read_specs(casedir)[i]
        small = shrink(pid, line, 2, cfg, prof, extra) if not replay else line
        d = os.path.join(BUILD, "cases", pid, "final")
        harness_exec(pid, [small], d, prof)
        b2, _, _, m2 = evaluate(d, extra)
        term = case_term(d, 0, m2) if m2["cases"] else case_term(casedir, i, meta)
        path = write_replay(pid, tier, seed, k, {
            "kind": "impl-violates-spec", "spec": small, "original_spec": line, "profile": prof,
            "verdict_code": (b2[0][1] if b2 else c), "case_term": term,
            "explanation": "the boolean spec of %s (Spec/%s.v), evaluated in Coq on the implementation's output, is false on this input; verdict bits: 1 = differs from model, 2 = spec fails" % (pid, pid),
            "failing_cases_total": len(spec_fail)})
        violations.append(("impl-violates-spec", "%d explored case(s) violate the spec; minimal: %s" % (len(spec_fail), small), path, True))
    elif only_model:
        casedir, i, c, meta, prof = only_model[0]
        line = read_specs(casedir)[i]
        path = write_replay(pid, tier, seed, k, {
            "kind": "correspondence-break", "spec": line, "profile": prof, "verdict_code": c,
            "case_term": case_term(casedir, i, meta),
            "broken": "correspondence %s (Check/%s.v) between the Coq model and the implementation" % (cfg["corr"], pid),
            "explanation": "model and implementation disagree on %d case(s) but no explored input violates the spec" % len(only_model)})
        violations.append(("correspondence-break", "correspondence %s no longer checks (%d cases)" % (cfg["corr"], len(only_model)), path, False))

    # 5. known findings
    rc = 0
    kf = known_findings(pid)
    if known_hits:
        if kf:
            for desc in kf: print("KNOWN-FINDING: property=%s %s" % (pid, desc))
        else:
            path = write_replay(pid, tier, seed, 99, {"kind": "unlisted-known-class", "spec": "",
                                "explanation": "cases fall in a known-finding class of the model but KNOWN_FINDINGS.txt lists no finding for this property"})
            violations.append(("unlisted-finding", "known-class failures without a KNOWN_FINDINGS.txt entry", path, False))
    found_path = next((pth for _k, _t, pth, fnd in violations if fnd), None)
    for kind, text, path, found in violations:
        if not found and found_path is not None:
            # the break is explained by the concrete failing input reported alongside
            print("# %s: %s (failing input: %s)" % (kind, text[:3000], found_path)); rc = 1; continue
        if path is None:
            path = write_replay(pid, tier, seed, 50 + k, {"kind": kind, "spec": "", "broken": text})
        k += 1
        print("# %s: %s" % (kind, text[:3000]))
        print("VIOLATION property=%s replay=%s%s" % (pid, path, "" if found else " no-failing-input-found"))
        rc = 1

    ev = {
        "property_id": pid, "tier": tier if tier in ("quick", "thorough") else "quick", "seed": int(seed),
        "level": cfg.get("level", "proof"),
        "coverage": {
            "obligations": obligations + gen_obl, "discharged": discharged + gen_dis,
            "checker_cmd": "cd coq && make Props/%s.vo && coqc (Print Assumptions of every Theorem in Props/%s.v)%s" % (
                pid, pid, " ; coqchk -o (thorough)" if tier == "thorough" else ""),
            "trusted_base": trusted,
            "theorems": names, "axioms": {n: axioms.get(n, []) for n in names},
            "generated_obligations": gen_info,
            "evaluations": evaluations, "distinct_nontrivial": nontrivial,
            "traces_validated_against_impl": evaluations,
            "rule": cfg["rule"], "samples": samples[:6],
            "input_distribution": dist, "skipped": skipped, "representation_drift": drift,
            "known_finding_cases": known_hits,
            "explanation": cfg.get("explanation", ""),
            "profiles": profiles,
        },
        "assumptions": cfg.get("assumptions", []),
        "wall_s": round(time.time() - t0, 2),
        "violations": len(violations),
    }
    if tier == "thorough" and proof_ok and not replay:
        rcq, outq = sh(["coqchk", "-silent", "-o", "-Q", COQ, "Signalo", "Signalo.Props.%s" % pid], cwd=COQ, timeout=3000)
        tail = outq.strip().split("\n")[-12:]
        ev["coverage"]["coqchk"] = {"exit": rcq, "tail": tail}
        if rcq != 0:
            print("# coqchk failed: " + " ".join(tail)[:500])
            path = write_replay(pid, tier, seed, 98, {"kind": "coqchk", "spec": "", "broken": "coqchk rejects Props/%s.vo" % pid, "log": tail})
            print("VIOLATION property=%s replay=%s no-failing-input-found" % (pid, path)); rc = 1
            ev["violations"] += 1
    if not replay and not os.environ.get("VERIF_NO_EVIDENCE"):      # seeded-change runs (driver/seedtest.py) must not overwrite the evidence of the unchanged tree
        write_evidence(pid, ev)
    print("%s %s: %d theorems (%d discharged), %d cases evaluated on the implementation (%d non-trivial), %d violation(s), %.1fs" % (
        pid, tier, obligations + gen_obl, discharged + gen_dis, evaluations, nontrivial, len(violations), time.time() - t0))
    return rc


def main(argv):
    if not argv or argv[0] in ("-h", "--help"):
        print(__doc__ or "usage: ./check --setup | Cxx quick|thorough | Cxx --replay file"); return 2
    if argv[0] == "--setup": return setup()
    pid = argv[0]
    if pid not in P.PROPS:
        print("property %s is not claimed by this machinery" % pid); return 2
    seed = os.environ.get("VERIF_SEED", "1")
    if len(argv) >= 3 and argv[1] == "--replay":
        return decide(pid, "quick", seed, replay=os.path.join(ROOT, argv[2]) if not os.path.isabs(argv[2]) else argv[2])
    tier = os.environ.get("VERIF_TIER") or (argv[1] if len(argv) > 1 else "quick")
    if tier not in ("quick", "thorough"): tier = "quick"
    return decide(pid, tier, seed)
