#!/usr/bin/env python3
"""Runs a seeded mutation against the registered check of its property.
   usage: seedtest.py <mutdir> <pid> [tier]   (mutdir holds patch.diff)
   Applies the patch to /repo, runs ./check <pid> <tier>, always restores /repo, prints the verdict."""
import subprocess, sys, os, json, time
mut, pid = sys.argv[1], sys.argv[2]
tier = sys.argv[3] if len(sys.argv) > 3 else "quick"
ROOT = os.path.dirname(os.path.dirname(os.path.abspath(__file__)))
def sh(c, **k): return subprocess.run(c, shell=True, stdout=subprocess.PIPE, stderr=subprocess.STDOUT, text=True, **k)
st = sh("git -C /repo status --porcelain")
if st.stdout.strip(): print("REFUSING: /repo has local modifications:\n" + st.stdout); sys.exit(2)
r = sh("git -C /repo apply %s" % os.path.join(mut, "patch.diff"))
if r.returncode: print("patch does not apply:", r.stdout); sys.exit(2)
t0 = time.time()
try:
    r = sh("VERIF_NO_EVIDENCE=1 ./check %s %s" % (pid, tier), cwd=ROOT)
finally:
    sh("git -C /repo checkout -- .")
    sh("git -C /repo clean -fdq")      # files ADDED by the patch are untracked: checkout alone leaves them behind
out = r.stdout
viol = [l for l in out.split("\n") if l.startswith("VIOLATION")]
print(out[-2500:])
print("RESULT %s %s: exit=%d %s (%.0fs)" % (os.path.basename(mut.rstrip('/')), pid, r.returncode, "DETECTED" if (r.returncode == 1 and viol) else "MISSED", time.time() - t0))
