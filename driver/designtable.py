#!/usr/bin/env python3
"""Regenerates the two machine-derived tables of DESIGN.md from evidence/*.json and seeded/*/meta.json:
   the per-property status table (between the markers PER-PROPERTY-TABLE) and the seeded-change tables."""
import json, os, re, sys
ROOT = os.path.dirname(os.path.dirname(os.path.abspath(__file__)))
NOTES = {
 "C01": "all stage behaviours, all nestings; real Pipe/UnitPipe/`|` of run-time shape; scripted sources; 70 000-sample soak; release+debug",
 "C02": "lower median (total order) + robustness (any comparison); widths up to 300 through the model, 65 537 and 70 001 against the spec; inf, -0.0, char samples; clone_from; bit-exact f64/f32/i64 stream",
 "C03": "repaired (`fix:` 02a9d7d); long runs; f64/f32/i32/u8/i8/i16 instantiations; bit-exact f64/f32/i64 stream; release+debug",
 "C04": "repaired (`fix:` 762fbaa); states injected at usize::MAX; wide windows; bit-exact stream with NaN/inf; release+debug",
 "C05": "translator for the 13 SG tables; kernels up to 24 taps; integer `normalized`; bit-exact stream (plain and normalized)",
 "C06": "textbook recursion, zero divisors = panic, convex case; stale injected covariance; bit-exact f64/f32 and integer (truncating) Kalman",
 "C07": "translator for the 10 Daubechies tables; 20 compiled kernel sets; data through 16-20 tap kernels; bit-exact analysis/synthesis",
 "C08": "counters injected (FromGuts and state_mut) at MAX-3..MAX; bit-exact stream with NaN thresholds/samples; release+debug",
 "C09": "incl. NaN and the slope-driven path; 70 000-sample soak; bit-exact stream; release+debug",
 "C10": "repaired (`fix:` 0bfc269); all nestings; counts up to usize::MAX (capping proved sound); leaf consumption",
 "C11": "finalize after every prefix; 10 000-sample sum; bit-exact sum/mean/mean-variance/min/max sinks",
 "C12": "28 registry entries + Cache::from(used).reset(), reset at end of clock range, reported config; bit-exact reset stream over 24 filter kinds (state driven to inf/NaN before the reset)",
 "C13": "f64 instantiations (dyadic exact; non-dyadic constants bit-exact); config round trip; bit-exact stream",
 "C14": "injected states; f64 constants; bit-exact stream",
 "C15": "f64/f32 instantiations, magnitudes to 4e12; bit-exact stream incl. inf/NaN/-0.0",
 "C16": "known finding (sliding variance offset); 1 100-sample runs; f64 constants; bit-exact stream",
 "C17": "known finding (max()); widths 65 537 / 70 001 against the spec",
 "C18": "f64 and f32 with decision margin; magnitudes to 1e8; widths to 300; bit-exact Hampel (nano-scale, huge, thresholds 0 and 1e-9)",
 "C19": "partial (level other); instrumented type with a niche; fault injection (panic inside the sample type's clone / comparison)",
 "C20": "clone / guts / clone_from at every split point, diverging continuations; float copies incl. 70 000-sample continuation; source cache",
}
def status_table():
    rows = ["| id | theorems | quick cases | of which bit-exact float/int | notes |", "|---|---|---|---|---|"]
    for i in range(1, 21):
        pid = "C%02d" % i; e = json.load(open(os.path.join(ROOT, "evidence", pid + ".json"))); c = e["coverage"]
        th = c["obligations"]; gen = len(c.get("generated_obligations", {}) or {})
        fx = sum(v for k, v in c.get("input_distribution", {}).items() if k.endswith(":kind:fx"))
        rows.append("| %s | %s | %.1f k | %s | %s |" % (pid, "%d" % th if not gen else "%d (%d generated)" % (th, gen), c["evaluations"] / 1000.0, fx or "-", NOTES[pid]))
    return "\n".join(rows)
def flagged(ck):
    """did the regenerated obligations (translated bodies, tables, source assertions) alone flag the change?"""
    for l in ck.get("report", []):
        m = re.search(r"(\d+)/(\d+) generated obligations", l)
        if m: return "yes (%d of %d fail)" % (int(m.group(2)) - int(m.group(1)), int(m.group(2))) if m.group(1) != m.group(2) else "no"
    return "no"
def seeded_table(pred, needs=False, obl=False):
    rows = ["| id | %sresult of `./check <prop> quick` | %sreport |" % ("needs | " if needs else "", "flagged by the obligations | " if obl else ""), "|---|---|---|" + ("---|" if needs else "") + ("---|" if obl else "")]
    for mid in sorted(os.listdir(os.path.join(ROOT, "seeded"))):
        mp = os.path.join(ROOT, "seeded", mid, "meta.json")
        if not os.path.isfile(mp) or not pred(mid): continue
        meta = json.load(open(mp)); ck = meta.get("check", {})
        nd = ("%s%s | " % (meta.get("needs_to_manifest", ""), " *(%s)*" % meta["history"] if meta.get("history") else "")) if needs else ""
        rep = next((l for l in ck.get("report", []) if l.startswith("# ")), "")
        rep = re.sub(r"\|", r"\\|", rep[2:110])
        extra = " (missed on its first run: %s)" % ck["was_missed_before"][:90] if "was_missed_before" in ck else ""
        if rep.startswith("proof-break"): rep = next((re.sub(r"\|", r"\\|", l[2:110]) for l in ck.get("report", []) if l.startswith("# ") and not l.startswith("# proof-break")), rep[:60])
        rows.append("| %s | %s%s | %s%s%s |" % (mid, nd, "VIOLATION" if ck.get("detected") else "**not detected**", (flagged(ck) + " | ") if obl else "", "`%s`" % rep if rep else ck.get("why_missed", ""), extra))
    return "\n".join(rows)
def splice(s, tag, body):
    a, b = "<!-- BEGIN %s -->" % tag, "<!-- END %s -->" % tag
    if a not in s: sys.exit("marker %s missing in DESIGN.md" % tag)
    return s[:s.index(a) + len(a)] + "\n" + body + "\n" + s[s.index(b):]
p = os.path.join(ROOT, "DESIGN.md"); s = open(p).read()
s = splice(s, "PER-PROPERTY-TABLE", status_table())
s = splice(s, "SEEDED-WAVES-1-3", seeded_table(lambda m: bool(re.search(r"^C\d\d_\d$", m)), True, True))
s = splice(s, "SEEDED-WAVE-4", seeded_table(lambda m: bool(re.search(r"_a\d$", m)), False, True))
s = splice(s, "SEEDED-WAVE-5", seeded_table(lambda m: bool(re.search(r"_b\d$", m)), False, True))
s = splice(s, "SEEDED-WAVE-6", seeded_table(lambda m: bool(re.search(r"_c\d$", m)), False, True))
s = splice(s, "SEEDED-WAVE-7", seeded_table(lambda m: bool(re.search(r"_d\d$", m)), False, True))
s = splice(s, "SEEDED-WAVE-8", seeded_table(lambda m: bool(re.search(r"_e\d$", m)), False, True))
s = splice(s, "SEEDED-WAVE-9", seeded_table(lambda m: bool(re.search(r"_f\d$", m)), False, True))
s = splice(s, "SEEDED-WAVE-10", seeded_table(lambda m: bool(re.search(r"_g\d$", m)), False, True))
s = splice(s, "SEEDED-WAVE-11", seeded_table(lambda m: bool(re.search(r"_h\d$", m)), False, True))
open(p, "w").write(s)
print("DESIGN.md tables regenerated")
