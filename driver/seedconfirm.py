#!/usr/bin/env python3
"""Confirms a change delivered by a sub-agent in a fresh scratch worktree of /repo (never in /repo itself) and, when it
   is confirmed, stores it as seeded/<id>/{patch.diff, demo.rs, notes.md, where.txt, meta.json}.
   usage: seedconfirm.py <delivery dir> <id> <property> [wave text]
   Confirmed means: the patch applies to HEAD, the whole suite passes with it, the demonstration fails with it and
   passes without it.  The scratch worktree and its build output are removed at the end."""
import json, os, shutil, subprocess, sys, time
src, mid, pid = sys.argv[1], sys.argv[2], sys.argv[3]
wave = sys.argv[4] if len(sys.argv) > 4 else "5"
ROOT = os.path.dirname(os.path.dirname(os.path.abspath(__file__)))
WT = "/tmp/sc/%s" % mid
ENV = dict(os.environ, CARGO_NET_OFFLINE="true")
def sh(c, cwd=None, timeout=1800):
    p = subprocess.run(c, shell=True, cwd=cwd, env=ENV, stdout=subprocess.PIPE, stderr=subprocess.STDOUT, text=True, timeout=timeout)
    return p.returncode, p.stdout
def fail(msg):
    print("NOT CONFIRMED %s: %s" % (mid, msg)); cleanup(); sys.exit(1)
def cleanup():
    sh("git -C /repo worktree remove --force %s" % WT); shutil.rmtree(WT, ignore_errors=True); sh("git -C /repo worktree prune")
for f in ("patch.diff", "demo.rs", "where.txt"):
    if not os.path.isfile(os.path.join(src, f)): print("NOT CONFIRMED %s: missing %s" % (mid, f)); sys.exit(1)
where = [l.strip() for l in open(os.path.join(src, "where.txt")).read().split("\n")] + ["", "", ""]
crate, pkg, flags = where[0], where[1], where[2]
os.makedirs("/tmp/sc", exist_ok=True); cleanup()
rc, out = sh("git -C /repo worktree add -q --detach %s HEAD" % WT)
if rc: fail("worktree: " + out)
rc, out = sh("git apply %s" % os.path.join(os.path.abspath(src), "patch.diff"), cwd=WT)
if rc: fail("patch does not apply: " + out[-400:])
rc, out = sh("git diff --stat", cwd=WT)
touched = [l.split("|")[0].strip() for l in out.split("\n") if "|" in l]
if any("/tests/" in t for t in touched): fail("patch touches tests: %s" % touched)
t0 = time.time()
rc_suite2, out2 = sh("cargo test --workspace --offline --no-fail-fast > /tmp/sc/%s.suite.log 2>&1; echo $?" % mid, cwd=WT)
suite_exit = int(out2.strip().split("\n")[-1])
if suite_exit != 0: fail("suite fails with the patch (exit %d): see /tmp/sc/%s.suite.log" % (suite_exit, mid))
demo_dst = os.path.join(WT, "crates", crate, "tests", "demo.rs")
os.makedirs(os.path.dirname(demo_dst), exist_ok=True)
shutil.copy(os.path.join(src, "demo.rs"), demo_dst)
cmd_demo = "cargo test -p %s --offline --test demo %s" % (pkg, flags)
rc_with = sh(cmd_demo + " >/dev/null 2>&1; echo $?", cwd=WT)[1].strip().split("\n")[-1]
sh("git checkout -- .", cwd=WT)
rc_wo = sh(cmd_demo + " >/dev/null 2>&1; echo $?", cwd=WT)[1].strip().split("\n")[-1]
if rc_with == "0": fail("demonstration passes WITH the patch")
if rc_wo != "0": fail("demonstration fails WITHOUT the patch (exit %s)" % rc_wo)
dst = os.path.join(ROOT, "seeded", mid)
os.makedirs(dst, exist_ok=True)
for f in ("patch.diff", "demo.rs", "where.txt", "notes.md"):
    if os.path.isfile(os.path.join(src, f)): shutil.copy(os.path.join(src, f), os.path.join(dst, f))
meta = {"id": mid, "wave": wave, "breaks_property": pid, "needs_to_manifest": "see notes.md (agent's analysis)",
        "origin": "independent sub-agent given only the property text and a scratch worktree of /repo (nothing from /verif)",
        "touches": touched,
        "confirmed": {"suite_with_patch_exit": 0, "demo_with_patch_exit": int(rc_with), "demo_without_patch_exit": 0,
                      "commands": ["git apply patch.diff && cargo test --workspace --offline --no-fail-fast",
                                   "cp demo.rs crates/%s/tests/demo.rs && %s" % (crate, cmd_demo),
                                   "git checkout -- . && %s" % cmd_demo], "seconds": round(time.time() - t0)}}
json.dump(meta, open(os.path.join(dst, "meta.json"), "w"), indent=1)
cleanup()
try: os.remove("/tmp/sc/%s.suite.log" % mid)
except OSError: pass
print("CONFIRMED %s (%s) touches %s" % (mid, pid, touched))
