#!/usr/bin/env python3
"""Regenerates MANIFEST.json from driver/props.py (claimed properties) and the not_applicable list."""
import json, os, sys
sys.path.insert(0, os.path.dirname(os.path.abspath(__file__)))
import props as P
sys.path.insert(0, os.path.join(os.path.dirname(os.path.dirname(os.path.abspath(__file__))), "translator"))
import bodies
TRANSLATED = set(bodies.ENTRIES) | set(bodies.ASSERTS)
ROOT = os.path.dirname(os.path.dirname(os.path.abspath(__file__)))
ALL = [json.loads(l)["id"] for l in open(os.path.join(ROOT, "properties.jsonl"))]
checks = []
for pid in ALL:
    if pid not in P.PROPS or not P.PROPS[pid].get('ready', True): continue
    c = P.PROPS[pid]
    checks.append({
        "property_id": pid,
        "quick_cmd": "./check %s quick" % pid,
        "thorough_cmd": "./check %s thorough" % pid,
        "evidence_file": "/verif/evidence/%s.json" % pid,
        "replay_cmd_template": "./check %s --replay {path}" % pid,
        "engine": "coq+harness",
        "level_claimed": {"category": c.get("level", "proof"), "text": c["level_text"], "design_ref": "DESIGN.md section 6, " + pid},
        "level_note": c["level_note"] + (" Method bodies re-translated from the Rust source and kernel-checked against the model on every run (DESIGN.md 4.2b)." if pid in TRANSLATED else ""),
        "technique": c.get("technique", "machine-checked proof in Coq 8.16 (induction/invariants over all histories); model tied to the code by (i) a translator that re-derives the model from the Rust method bodies on every run, each obligation checked by the Coq kernel, and (ii) model-vs-implementation correspondence evaluated inside Coq (vm_compute) on generated cases"),
    })
na = [{"property_id": pid, "reason": P.NOT_YET.get(pid, "no check built yet; the Coq model and theorems for this property are not in the tree at this commit")}
      for pid in ALL if pid not in P.PROPS or not P.PROPS[pid].get('ready', True)]
m = {
    "version": 1,
    "setup_cmd": "./check --setup",
    "hooks": {"guard": "signalo_verif", "enable": "none needed: every observation goes through the public API (Filter/Source/Sink/Finalize, accessors, IntoGuts/FromGuts, pub state fields)",
              "baseline_off_cmd": "cd /repo && cargo test --workspace --no-fail-fast --offline", "source_commits": [], "add_only": True},
    "engines": [{"name": "coq+harness", "path": "/verif/check", "serves_properties": [c["property_id"] for c in checks],
                 "kind_free_text": "Coq 8.16 development (coq/: models, specs, theorems) + Rust harness crate (harness/: path deps on /repo) whose observations are evaluated against model and spec by coqc/vm_compute; driver in driver/run.py"}],
    "checks": checks,
    "not_applicable": na,
    "notes": "fix: commits in /repo and known findings are listed in KNOWN_FINDINGS.txt; see DESIGN.md sections 5 and 7.",
}
json.dump(m, open(os.path.join(ROOT, "MANIFEST.json"), "w"), indent=1)
print("MANIFEST.json: %d checks, %d not_applicable" % (len(checks), len(na)))
