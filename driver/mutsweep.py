#!/usr/bin/env python3
"""First-order mutation sweep against the regenerated obligations only (no case is run): how much of the library's source text is
   tied to the models?  For every non-test source file of the four crates a few single-token mutants (operator swaps, off-by-one
   constants, negated conditions, swapped boolean connectives) are applied in a scratch worktree (never /repo itself) and the
   obligations of the properties that read the file are regenerated until one fails.  A mutant that NO obligation flags is either
   equivalent, or sits in code nothing re-reads: those are listed (with whether they compile) for inspection.
   usage: mutsweep.py [mutants per file, default 4] [file substring ...]     writes mutants/RESULTS.md"""
import os, re, subprocess, sys, random, json, hashlib
ROOT = os.path.dirname(os.path.dirname(os.path.abspath(__file__)))
WT = "/tmp/mwt"
def sh(c, **k): return subprocess.run(c, shell=True, stdout=subprocess.PIPE, stderr=subprocess.STDOUT, text=True, **k)
sh("git -C /repo worktree remove --force %s; rm -rf %s; git -C /repo worktree prune; git -C /repo worktree add -q --detach %s HEAD" % (WT, WT, WT))
sh("cp /repo/Cargo.lock %s/" % WT)
sys.path.insert(0, os.path.join(ROOT, "translator"))
os.environ["VERIF_REPO"] = WT
import bodies
per_file = int(sys.argv[1]) if len(sys.argv) > 1 and sys.argv[1].isdigit() else 4
want = [a for a in sys.argv[1:] if not a.isdigit()]
SWAPS = [(r" \+ ", " - "), (r" - ", " + "), (r" \* ", " / "), (r" / ", " * "), (r" < ", " <= "), (r" <= ", " < "), (r" > ", " >= "), (r" >= ", " > "),
         (r" == ", " != "), (r" != ", " == "), (r" && ", " || "), (r" \|\| ", " && "), (r"\btrue\b", "false"), (r"\bfalse\b", "true"),
         (r"(?<![\w.])0(?![\w.])", "1"), (r"(?<![\w.])1(?![\w.])", "2"), (r"\bif !", "if "), (r"\.is_some\(\)", ".is_none()"), (r"\.is_none\(\)", ".is_some()"),
         (r" \+= ", " -= "), (r" -= ", " += "), (r"T::zero\(\)", "T::one()"), (r"T::one\(\)", "T::zero()"), (r"\.min\(", ".max("), (r"\.max\(", ".min("),
         (r"\.0\b(?!\.)", ".1"), (r"\.1\b(?!\.)", ".0"), (r"\bSome\(([a-z_]+)\.clone\(\)\)", "None"), (r" < ", " > "), (r" > ", " < "),
         # statement deletion: an assignment to a field of the receiver / through a reference, a compound assignment
         (r"(?m)^[ \t]*(?:self|state)\.[A-Za-z_.]+ (?:\+|-|\*|/)?= [^;\n]*;\n", ""), (r"(?m)^[ \t]*\*[a-z_]+ (?:\+|-|\*|/)?= [^;\n]*;\n", "")]
def code_spans(txt):
    """character ranges inside fn bodies of the non-test part (attributes, generics, doc comments and the test module excluded)"""
    cut = txt.find("#[cfg(test)]"); end = len(txt) if cut < 0 else cut
    spans = []
    for m in re.finditer(r"\bfn\s+[A-Za-z_$][A-Za-z0-9_]*[^;{]*\{", txt[:end]):
        i = m.end() - 1; depth = 0
        for j in range(i, end):
            if txt[j] == "{": depth += 1
            elif txt[j] == "}":
                depth -= 1
                if depth == 0: spans.append((i, j)); break
    return spans
def mutants(path):
    txt = open(path).read(); out = []
    spans = code_spans(txt)
    lines_comment = [(m.start(), m.end()) for m in re.finditer(r"//[^\n]*", txt)]
    for rx, rep in SWAPS:
        for m in re.finditer(rx, txt):
            if not any(a <= m.start() < b for a, b in spans): continue
            if any(a <= m.start() < b for a, b in lines_comment): continue
            line = txt.count("\n", 0, m.start()) + 1
            out.append((line, m.group(0).strip()[:60], rep.strip() or "(statement deleted)", txt[:m.start()] + rep + txt[m.end():]))
    return out
files = []
for pid in sorted(set(bodies.ENTRIES) | set(bodies.ASSERTS)):
    for f in bodies.files_of(pid):
        if f not in files and "/traits/" not in f: files.append(f)
allsrc = []
for r, d, fs in os.walk(os.path.join(WT, "crates")):
    for x in fs:
        p = os.path.join(r, x)
        if x.endswith(".rs") and "/src" in r and "/traits/" not in p: allsrc.append(p)
rows = []; unflagged = []; total = 0; flagged = 0
rnd = random.Random(20260930)
for f in sorted(allsrc):
    if want and not any(w in f for w in want): continue
    ms = mutants(f)
    if not ms: continue
    rnd.shuffle(ms); ms = ms[:per_file]
    pids = sorted({pid for pid, es in bodies.ENTRIES.items() for e in es if e["file"] == f} | {pid for pid, es in bodies.ASSERTS.items() for e in es if e.get("file") == f},
                  key=lambda p: len(bodies.ENTRIES.get(p, [])))
    orig = open(f).read()
    for line, a, b, mtxt in ms:
        total += 1
        open(f, "w").write(mtxt)
        hit = None
        for pid in pids:
            _, info = bodies.regenerate(pid, ROOT, os.path.join(ROOT, "build", "mutsweep"))
            if info["failed"]:
                hit = "%s: %s" % (pid, ", ".join(info["failed"][:3])); break
        rel = f[len(WT) + 1:]
        if hit: flagged += 1
        else:
            crate = rel.split("/")[1]
            pkg = {"filters": "signalo_filters", "pipes": "signalo_pipes", "sinks": "signalo_sinks", "sources": "signalo_sources", "signalo": "signalo"}.get(crate, crate)
            c = sh("cargo check -q --offline -p %s 2>&1 | tail -3" % pkg, cwd=WT, env=dict(os.environ, CARGO_NET_OFFLINE="true"))
            compiles = "error" not in c.stdout
            unflagged.append((rel, line, a, b, compiles, "no property reads this file" if not pids else "read by " + ",".join(pids)))
        rows.append("| %s:%d | `%s` -> `%s` | %s |" % (rel, line, a, b, hit or "**not flagged**"))
        print(rows[-1], flush=True)
        open(f, "w").write(orig)
sh("git checkout -- .", cwd=WT)
os.makedirs(os.path.join(ROOT, "mutants"), exist_ok=True)
with open(os.path.join(ROOT, "mutants", "RESULTS.md"), "w") as o:
    o.write("# First-order mutation sweep against the regenerated obligations (no case is run)\n\n`driver/mutsweep.py %d` - %d mutants (seeded sample of single-token changes inside fn bodies of the non-test source of the filters, pipes, sinks, sources and umbrella crates), **%d flagged by an obligation**, %d not.\n\n" % (per_file, total, flagged, total - flagged))
    o.write("## Not flagged\n\n| mutant | compiles | note |\n|---|---|---|\n")
    for rel, line, a, b, comp, note in unflagged: o.write("| %s:%d `%s` -> `%s` | %s | %s |\n" % (rel, line, a, b, "yes" if comp else "no (not a mutant)", note))
    o.write("\n## All\n\n| mutant | change | first failing obligation |\n|---|---|---|\n" + "\n".join(rows) + "\n")
print("%d mutants, %d flagged, %d not" % (total, flagged, total - flagged))
sh("git -C /repo worktree remove --force %s; git -C /repo worktree prune" % WT)
