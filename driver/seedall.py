#!/usr/bin/env python3
"""Re-runs every stored seeded change against the registered quick check of its property and records the outcome in
   its meta.json (check.detected, check.report, check.last_run_s).  usage: seedall.py [id-prefix ...]
   NEVER run while another job (vp run, another seedtest) uses /repo."""
import json, os, subprocess, sys, time
ROOT = os.path.dirname(os.path.dirname(os.path.abspath(__file__)))
SEEDED = os.path.join(ROOT, "seeded")
want = sys.argv[1:]
ids = sorted(d for d in os.listdir(SEEDED) if os.path.isfile(os.path.join(SEEDED, d, "patch.diff")))
if want: ids = [i for i in ids if any(i.startswith(w) for w in want)]
summary = []
DONE = os.environ.get("SEED_DONE_DIR")          # markers shared by several seedall processes working on copies of /verif + /repo
if os.environ.get("SEED_REVERSE"): ids = ids[::-1]
for mid in ids:
    if DONE:
        os.makedirs(DONE, exist_ok=True)
        try:
            fd = os.open(os.path.join(DONE, mid), os.O_CREAT | os.O_EXCL | os.O_WRONLY); os.close(fd)
        except FileExistsError:
            continue
    mdir = os.path.join(SEEDED, mid); meta_p = os.path.join(mdir, "meta.json")
    meta = json.load(open(meta_p)); pid = meta.get("breaks_property") or mid[:3]
    t0 = time.time()
    r = subprocess.run([sys.executable, os.path.join(ROOT, "driver", "seedtest.py"), mdir, pid, "quick"], stdout=subprocess.PIPE, stderr=subprocess.STDOUT, text=True)
    out = r.stdout; det = "DETECTED" in out.split("\n")[-2] if out.strip() else False
    rep = [l[:400] for l in out.split("\n") if l.startswith("VIOLATION") or l.startswith("# ")][:4]
    was = meta.get("check", {}).get("detected")
    ck = meta.setdefault("check", {})
    ck["detected"] = det; ck["report"] = rep; ck["last_run_s"] = round(time.time() - t0)
    if det and "why_missed" in ck: ck["was_missed_before"] = ck.pop("why_missed")
    json.dump(meta, open(meta_p, "w"), indent=1)
    line = "%s %s %s (%ds)%s" % (mid, pid, "DETECTED" if det else "MISSED", time.time() - t0, "" if was == det else "  <-- changed (was %s)" % was)
    print(line, flush=True); summary.append(line)
open(os.path.join(ROOT, "seeded", "LAST_RUN.txt"), "w").write("\n".join(summary) + "\n")
