#!/usr/bin/env python3
"""Runs the regenerated obligations (translator/bodies.py) against a behaviour-preserving refactoring of /repo, in a scratch
   worktree (never /repo itself): which obligations does a harmless rewrite break?  usage: harmless.py <patch.diff> [...]
   Prints one line per patch: the properties whose obligations fail and the failing bodies."""
import json, os, subprocess, sys, re
ROOT = os.path.dirname(os.path.dirname(os.path.abspath(__file__)))
WT = "/tmp/hwt"
def sh(c, **k): return subprocess.run(c, shell=True, stdout=subprocess.PIPE, stderr=subprocess.STDOUT, text=True, **k)
sh("git -C /repo worktree remove --force %s; rm -rf %s; git -C /repo worktree prune; git -C /repo worktree add -q --detach %s HEAD" % (WT, WT, WT))
sh("cp /repo/Cargo.lock %s/" % WT)      # untracked in /repo, but part of what the obligations read
sys.path.insert(0, os.path.join(ROOT, "translator"))
os.environ["VERIF_REPO"] = WT
import bodies
for patch in sys.argv[1:]:
    sh("git checkout -- .", cwd=WT)
    r = sh("git apply %s" % os.path.abspath(patch), cwd=WT)
    if r.returncode: print(patch, "DOES NOT APPLY", r.stdout[-200:]); continue
    touched = [l.split("|")[0].strip() for l in sh("git diff --stat", cwd=WT).stdout.split("\n") if "|" in l]
    pids = sorted({pid for pid, es in bodies.ENTRIES.items() for e in es if any(e["file"].endswith(t) for t in touched)} |
                  {pid for pid, es in bodies.ASSERTS.items() for e in es if any(e["file"].endswith(t) for t in touched)})
    out = []
    for pid in pids:
        _, info = bodies.regenerate(pid, ROOT, os.path.join(ROOT, "build", "harmless"))
        if info["failed"]: out.append("%s: %s" % (pid, "; ".join("%s (%s)" % (n, " ".join(str(info.get("logs", {}).get(n, "")).split())[:140]) for n in info["failed"])))
    # the crate-wide surface assertion belongs to every property of the crate: evaluated once here
    import json as _json
    _inv = _json.load(open(os.path.join(ROOT, "translator", "inventory.json")))
    for c_ in sorted({t.split("/")[1] for t in touched if t.startswith("crates/")}):
        if bodies.crate_surface(c_) != _inv.get("/surface:" + c_): out.append("every property of crate %s: crate_surface_%s" % (c_, c_))
    print("%s  touches %s  ->  %s" % (patch, ",".join(os.path.basename(t) for t in touched), "ALL OBLIGATIONS HOLD (%s)" % ",".join(pids) if not out else "BROKEN " + " | ".join(out)), flush=True)
sh("git -C /repo worktree remove --force %s; git -C /repo worktree prune" % WT)
