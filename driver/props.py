"""Per-property configuration of the driver: what the correspondence compares, how a case
counts as non-trivial, what is trusted."""

TRUSTED_COMMON = [
    "Coq 8.16.1 kernel and vm_compute (no native_compute); coqchk in the thorough tier",
    "axioms: none (Print Assumptions of every theorem in Props/ must say 'Closed under the global context')",
    "hand transliteration Rust -> Gallina of the modelled functions, tied to the code in two ways: (i) the method bodies are re-translated from the Rust source text on every run by translator/rs2coq.py + bodies.py (a symbolic executor for the Rust subset in use) and the Coq kernel checks, per state shape / execution path, that the model is convertible with the translated term (trusted: that translator and its conventions, DESIGN.md 4.2b and 8); (ii) the correspondence check on the explored cases",
    "harness (generators, exact rational type on checked i128, catch_unwind, Coq literal printer) and the Python driver",
    "rustc/cargo building /repo's working tree through path dependencies",
]

PROPS = {
    "C03": {
        "profiles": ["release", "debug"],
        "corr": "Model.Mean.step vs signalo_filters::mean::mean::Mean::filter",
        "rule": "exhaustive histories over {-1,0,2,5} up to the tier's length for every width, plus seeded random rational/integer histories with plateaus and outliers; all cases distinct (deduplicated by spec line); non-trivial = history longer than the window (an eviction happens) AND first sample non-zero, as evaluated by Check/C03.v in Coq",
        "trusted": ["model of circular_buffer::CircularBuffer::push_back as a bounded list (Base/ListX.v)",
                    "sample arithmetic: exact rationals / unbounded integers; i64 runs use small values (no overflow modelled); floats not modelled"],
        "assumptions": ["N >= 1", "division respects == (Qdiv, truncating integer division)"],
        "level_text": "Theorems for every width N>=1, every history length and every rational sample (window mean, finite memory, exact constants for field and truncating division), proved by invariant + induction in Coq; the model is tied to Mean<Rat,N>/Mean<i64,N> by differential execution of outputs and IntoGuts state, evaluated inside Coq.",
        "level_note": "Trusted: Coq kernel/vm_compute; hand-written model (Model/Mean.v) validated only on explored cases; bounded-list model of circular_buffer; exact arithmetic (floats and i64 overflow not modelled).",
    },
}

PROPS["C02"] = {
    "corr": "Model.Median.filter vs signalo_filters::median::Median::filter",
    "rule": "Median<f64,N> on small integers (exact) and NaN: every complete history over {0,1,2}, {0,1,2,3} and {0,1,NaN,2} of the tier's length for N=1..6 (1..5 with NaN), outputs compared after every sample (so all prefixes are covered), plus seeded random long histories over small alphabets with runs, outliers and NaN for N up to 9 (16 thorough); cases are distinct spec lines; non-trivial = history longer than the window (evictions happen) AND a repeated value (ties), evaluated by Check/C02.v in Coq",
    "trusted": ["f64 on integers |x| <= 2^53 is exact, NaN is the only incomparable value (modelled as None with all comparisons false)",
                "Rust's >= and <= on the sample type are the same relation read in both directions"],
    "assumptions": ["N >= 1", "lower-median clause: leb is a decidable total order; robustness clause: no assumption on leb"],
    "level_text": "Theorems for every width N>=1, every history length and every sample type: the filter never panics and returns an element of the window (any comparison function); under a total order it returns the element of rank floor((m-1)/2) of the sorted last-m samples. Proved in Coq by an invariant over the pointer structure (ring buffer + sorted doubly linked list) and induction over the history; model tied to Median<f64,N> by differential execution evaluated in Coq.",
    "level_note": "Trusted: Coq kernel/vm_compute; hand-written transliteration Model/Median.v (validated on explored cases only, exhaustive small scope); f64 on small integers exact.",
}
PROPS["C17"] = {
    "corr": "Model.Median.acc_{min,median,max} vs signalo_filters::median::Median::{min,median,max}",
    "rule": "same generator as C02; the three accessors are read before the first sample and after every sample; non-trivial = history longer than the window AND a repeated value, evaluated by Check/C17.v in Coq",
    "trusted": PROPS["C03"]["trusted"][:0] + ["f64 on small integers exact; NaN histories are only compared with the model (the property speaks about ordered windows)"],
    "assumptions": ["N >= 1", "total order"],
    "level_text": "Theorems on top of the C02 invariant: min() and median() return the smallest and the lower median of the window and all three return nothing before the first sample, for every N>=1 and history; max() is proved to return the newest sample, which is the window maximum exactly when the newest sample is a maximum (known finding, refuted in general by a machine-checked witness).",
    "level_note": "Trusted: as C02. The max() clause is a known finding (KNOWN_FINDINGS.txt): violations inside the recorded class with exactly the recorded wrong value are reported as KNOWN-FINDING, anything else as VIOLATION.",
}

PROPS["C04"] = {
    "corr": "Model.Bounds.step vs signalo_filters::bounds::{max::Max,min::Min,Bounds}::filter (outputs, clock and deque through IntoGuts)",
    "profiles": ["release", "debug"],
    "rule": "Max/Min/Bounds<i64,N>: all histories over {0,1,2} of the tier's length from a fresh filter for N=1..5, and from states injected through FromGuts (reached on the real code by every prefix over {0,1,2} of length <= N, then clock and timestamps shifted so that the clock is `shift` ticks before usize::MAX, shift in 0..N+1) every continuation over {0,1,2} long enough to pass the rebase and expire every entry (complete for N<=2, every 8th case for N=3 in the quick tier; complete N<=4 thorough), plus seeded random long runs; both release and debug (overflow-checked) builds; non-trivial = the run crosses the rebase AND is longer than the window, evaluated by Check/C04.v in Coq",
    "trusted": ["model of circular_buffer::CircularBuffer::{push_back,pop_front,pop_back,front,back,iter_mut} as a bounded list",
                "usize = 64-bit word (usize_max = 2^64-1 in the executed instances; theorems are for every word size maxu >= N+1)"],
    "assumptions": ["1 <= N", "N + 1 <= usize::MAX", "total preorder on samples"],
    "level_text": "Theorems for every word size, width, history length (so across arbitrarily many clock rebases) and totally preordered sample type: no checked operation fails (debug = release) and the output is an extremum of the last min(k,N) samples; also from every well-formed injected state (clock anywhere up to usize::MAX). Proved in Coq by an age-based invariant on the monotonic deque; model tied to the Rust filters (both build profiles, states injected at the end of the counter range) by differential execution evaluated in Coq.",
    "level_note": "Trusted: Coq kernel/vm_compute; hand-written Model/Bounds.v validated on explored cases; bounded-list model of circular_buffer; well-formedness predicate WF (Proofs/Bounds.v) as the reading of 'injected state'.",
}

_RAT = ["sample arithmetic: exact rationals (Coq Q with normalising operations; harness: checked i128 rationals, overflowing cases skipped and counted); floats and integer overflow are not modelled"]
PROPS["C15"] = {
    "corr": "Model.Smooth.{diff_step,int_step} vs Differentiate/Integrate::filter, alone and composed through the real Pipe",
    "rule": "Differentiate<Rat>, Integrate<Rat>, Pipe(Differentiate,Integrate), Pipe(Integrate,Differentiate): all histories over {-1,0,2} up to the tier's length plus seeded random rational histories; non-trivial = at least two samples AND first sample non-zero (Check/C15.v)",
    "trusted": _RAT, "assumptions": [],
    "level_text": "Theorems for every history of every length over the rationals: first difference, running sum, and both compositions (x[n]-x[0]; x[n] for n>=1), by induction (telescoping sum); tied to the Rust filters and to the real Pipe composition by differential execution evaluated in Coq.",
    "level_note": "Trusted: Coq kernel/vm_compute; hand-written Model/Smooth.v validated on explored cases; exact arithmetic.",
}
PROPS["C13"] = {
    "corr": "Model.Smooth.{ema_step,xm_step} vs mean::exp::mean::Mean::filter / median::exp::Median::filter",
    "rule": "exponential mean with gains {0,1/4,1/2,3/4,1} and exponential median with all 125 gain triples over that grid, all histories over {-1,0,2} of the tier's length, plus seeded random histories with random gains (1/8 of them outside [0,1], where only the recurrence is checked); non-trivial = at least 3 samples, first sample non-zero, not constant (Check/C13.v)",
    "trusted": _RAT, "assumptions": ["hull/constant clauses: gains in [0,1]"],
    "level_text": "Theorems for all rational gains and all histories: the recurrences (first output = first sample; EMA step; pre/mid/post cascade with prev = previous output) and, for all gains in [0,1] (0 and 1 included), that every output is a convex combination of the samples seen so far, hence stays in their range and reproduces constants exactly. Proved by closure of convex combinations under mixing and induction over the history.",
    "level_note": "Trusted: Coq kernel/vm_compute; Model/Smooth.v validated on explored cases; exact arithmetic (float rounding not modelled).",
}
PROPS["C14"] = {
    "corr": "Model.Smooth.ab_step vs observe::alpha_beta::AlphaBeta::filter (outputs and final velocity via IntoGuts; paired run on a*x+b)",
    "rule": "AlphaBeta<Rat>: (alpha,beta) over {0,1/4,1/2,1,3/2}^2, all histories over {-1,0,2} of the tier's length, each also run on the affinely transformed samples a*x+b, plus seeded random cases; non-trivial = at least 3 samples, not constant (Check/C14.v)",
    "trusted": _RAT, "assumptions": [],
    "level_text": "Theorems for all rational alpha, beta and all histories: the recurrence, explicit data-independent weights summing to one (position) by recursion, hence exact constants and equivariance under z -> a*z+b, by induction over the history.",
    "level_note": "Trusted: Coq kernel/vm_compute; Model/Smooth.v validated on explored cases; exact arithmetic.",
}
PROPS["C06"] = {
    "corr": "Model.Smooth.k_process vs observe::kalman::Kalman::filter (both Filter impls; estimate and covariance via IntoGuts after every sample; division by zero = panic)",
    "rule": "Kalman<Rat>: convex grid (a=c=1,b=0; r in {0,1/2,1,3}, q in {1/4,1,2}) with all measurement histories over {-1,0,2}; general grid a in {1,1/2,-1,2}, b in {0,1,-1/2}, c in {1,2,-1,1/2,0}, three (r,q) incl. (0,0), both Filter impls; seeded random configurations and histories (length <= 9: the harness's i128 rationals overflow beyond, overflowing cases are skipped and counted); non-trivial = at least 3 samples, no zero divisor, not constant (Check/C06.v)",
    "trusted": _RAT, "assumptions": ["recursion clauses: c != 0 and P^- c^2 + q != 0 (otherwise the Rust code divides by zero: panic for integers/rationals)", "hull clauses: a = c = 1, b = 0, r >= 0, q > 0"],
    "level_text": "Theorems for all rational configurations, states and streams: the model's estimate and covariance equal the textbook recursion (base case, one step from any agreeing state, whole streams by induction, under non-zero divisors; a zero divisor is a panic), the measurement-only form is the zero-control form, and for a=c=1,b=0,r>=0,q>0 every estimate is a convex combination of the measurements so far and the covariance stays >= 0 (all r, q, all lengths).",
    "level_note": "Trusted: Coq kernel/vm_compute; Model/Smooth.v validated on explored cases; textbook recursion Spec/C06.v; exact arithmetic.",
}

PROPS["C10"] = {
    "corr": "Model.Sources.{pull,peek,cached} vs the Source impls of signalo_sources (chain, take, skip, cycle, repeat, constant, increment, from_iter/into_iter, peek, cache, pad::constant, pad::edge)",
    "rule": "expressions built at run time from the real adapter types over a boxed source (harness/src/dynsrc.rs): 8 leaves (empty, 1..3 elements, constant, repeat 2/0, increment), every unary adapter variant (counts 0,1,2,4; pads 0,1,2) over every leaf and every chain of two leaves (depth 1), every unary variant over every depth-1 expression (half of them in the quick tier, all edge pads) and sampled chains (depth 2), seeded random trees of depth 3..5; 16..28 pulls each (so at least 3 pulls past every finite end); for peek and cache roots every interleaving of the two root operations up to length 6; non-trivial = nested expression whose stream ends within the observed pulls (Check/C10.v)",
    "trusted": ["boxing glue harness/src/dynsrc.rs (DynSrc delegates Source/Clone to the boxed real adapter)", "leaves are fused (FromIter over vec::IntoIter)", "samples are i64 / Z; Increment does not overflow on the explored values"],
    "assumptions": ["leaf sources are fused"],
    "level_text": "Theorems for every expression of any nesting depth and any number of pulls: k pulls from the initial state return the first k items of the iterator analogue (a list-function semantics sem) followed by Nones; the end is sticky; peek/pull and cached/pull interleavings on a peek/cache root observe exactly the look-ahead / last-result semantics; the fuel used by the model's pull always suffices; plus the one-step law for every well-formed run-time state via a closed-form denotation. Proved in Coq (coinduction-style fusedness invariant, per-adapter lemmas, structural induction on expressions).",
    "level_note": "Trusted: Coq kernel/vm_compute; hand-written Model/Sources.v validated on explored cases; spec sem (Spec/C10.v) read as 'iterator analogue'; boxing glue.",
}

PROPS["C08"] = {
    "profiles": ["release", "debug"],
    "corr": "Model.Classify.{thr_step,schmitt_step,deb_step} vs classify::{threshold,schmitt,debounce}::filter (outputs; final on/count via IntoGuts; counters injected through FromGuts)",
    "rule": "Threshold/Schmitt/Debounce<i64,i64> with distinct configured on/off values: all histories over the sample positions below/equal/between/above the thresholds (threshold 5 over {4,5,6}; schmitt with low<high, low=high, low>high), debounce thresholds 0..8 over {match, mismatch}^7, injected counters MAX-3..MAX with thresholds {0,1,3,MAX-2,MAX-1,MAX}, plus seeded random runs; non-trivial = at least 3 samples and both output values occur (Check/C08.v)",
    "trusted": ["samples are i64 / Z (total order)", "usize = 64 bit in the executed instances; the debounce theorems hold for every counter maximum"],
    "assumptions": ["debounce: threshold <= usize::MAX (always true of a usize)", "history characterisation of the Schmitt state: low <= high, transitive total order"],
    "level_text": "Theorems for every history and configuration: threshold on iff x >= threshold; Schmitt: starts off, off->on iff x > high, on->off iff x < low, output = configured value, for every relation of low to high (plus a history-only characterisation for low <= high); debounce: counter = min(run length, usize::MAX) and on iff threshold <= run length, from fresh and from every injected counter value, so saturation is covered.",
    "level_note": "Trusted: Coq kernel/vm_compute; Model/Classify.v validated on explored cases.",
}
PROPS["C09"] = {
    "profiles": ["release", "debug"],
    "corr": "Model.Classify.{slopes_step,peaks_step,peaks_slope_step} vs classify::slopes::Slopes::filter and both Filter impls of classify::peaks::Peaks",
    "rule": "Slopes<f64,usize>, Peaks<f64,usize>, Peaks<Slope,usize>: all sequences over {0,1,2} up to the tier's length (all slope sequences for the slope-driven path), all sequences over {0,1,NaN,2} of length 6 (7), plus seeded random longer ones; non-trivial = both a rising/max and a falling/min class occur in the output (Check/C09.v)",
    "trusted": ["f64 on small integers is exact; NaN is the only incomparable value"],
    "assumptions": [],
    "level_text": "Theorems for every sample type with any partial comparison and every history: slope = flat first, then by partial_cmp (flat if incomparable); peak output at n is max iff x[n-2] < x[n-1] > x[n], min dually, none for the first two samples; the 4x3 decision table; value-driven and slope-driven paths give identical outputs for all inputs of all lengths.",
    "level_note": "Trusted: Coq kernel/vm_compute; Model/Classify.v validated on explored cases.",
}

PROPS["C11"] = {
    "corr": "Model.Sinks.* vs signalo_sinks::{min,max,bounds,last,integrate,mean,mean_variance,statistics,collect} (Filter::filter after every sample and Finalize::finalize of a clone after every prefix, the empty one included)",
    "rule": "all 9 sinks over Rat: all histories over {-2,0,1,3} (ties) up to the tier's length plus seeded random rational histories; finalize is taken after every prefix (so 'none exactly when empty' is checked for every sink); non-trivial = at least 3 samples, not constant (Check/C11.v)",
    "trusted": _RAT, "assumptions": [],
    "level_text": "Theorems for every sample sequence of every length over the rationals: min/max/bounds are a least/greatest element of everything received, last/sum/collect, Welford mean == sum/n, M2 == sum of squared deviations from the prefix mean, finalised variance == M2/(n-1) for n>=2 and 0 for n=1, statistics agrees with bounds and mean-variance, and each sink yields none exactly for the empty stream; the running-filter clauses are the same invariants read after each step. By invariant + induction with field identities.",
    "level_note": "Trusted: Coq kernel/vm_compute; Model/Sinks.v validated on explored cases; exact arithmetic (float rounding not modelled).",
}

PROPS["C05"] = {
    "translator": True,
    "corr": "Model.Convolve.{conv_step,normalized,delay_step} vs convolve::Convolve::{filter,normalized,config_ref} and delay::Delay::filter; Savitzky-Golay tables re-extracted from the source text (translator/tables.py) and from the compiled presets (config_ref, exact rationals from float bits)",
    "rule": "Convolve<Rat,N> via with_config and via normalized: all coefficient vectors over {-1,0,1,2} for N<=3 (incl. zero sum) x all signals over {-1,0,3} of the tier's length, seeded random rational kernels for N up to 8 (16 thorough); Delay<i64,N> for N in {0..6,16} over all short signals over {1,2,5} plus random; the 26 compiled Savitzky-Golay coefficient vectors (13 widths x f32/f64); 14 regenerated table obligations (13 tables + the width list); non-trivial = signal longer than the kernel, kernel length >= 2 (delay: N < length), first sample non-zero (Check/C05.v)",
    "trusted": _RAT + ["translator/tables.py (regex over macro invocations, decimal literal -> fraction)", "float bits -> rational conversion in harness/src/props/conv.rs", "model of circular_buffer::push_back as a bounded list"],
    "assumptions": ["normalized: unit gain needs a non-zero coefficient sum", "Savitzky-Golay ramps: n >= N-1 (window filled)"],
    "level_text": "Theorems for every coefficient vector, width (N >= 0) and signal: the push-until-evict loop terminates within its fuel and output n is sum_j c[j] x[n-j] with edge padding; linearity and exact shift-invariance of that sum; unit gain of the normalising constructor (and untouched coefficients for zero sum); delay output x[max(n-N,0)] for any sample type; the exact least-squares end-point coefficients reproduce constants and ramps exactly and any table within 5e-6 of them does so to a stated bound. The 13 preset tables are re-extracted from the Rust source on every run and proved (vm_compute, finite) to be within 5e-6 of the least-squares coefficients; the coefficients the compiled code holds are checked against the same bound.",
    "level_note": "Trusted: Coq kernel/vm_compute; Model/Convolve.v validated on explored cases; table translator; exact arithmetic (float rounding of the running products not modelled).",
}

PROPS["C07"] = {
    "translator": True,
    "corr": "Model.Wavelet.{ana_step,syn_step,daub_analysis,daub_synthesis} vs wavelet::{analyze::Analyze,synthesize::Synthesize}::filter and the kernels of the compiled Daubechies presets (ConfigClone::config, exact rationals from float bits); low-pass tables re-extracted from the source text",
    "rule": "Analyze<Rat,N> feeding Synthesize<Rat,N> with arbitrary kernels: all kernel pairs over {-1,0,2} for N<=2 with all signals over {-1,1,3}, seeded random rational kernels for N in {1,2,3,4,6,8}; the 20 compiled preset kernel sets (orders 2..20 x f32/f64): exact macro structure (high = alternating-sign reversed low, synthesis = reversed analysis), unit/zero gain and reconstruction residual (f64: 2e-10 / 1e-9, f32: 1e-6 / 2e-6); 11 regenerated table obligations (10 tables: gains and residual <= 1e-9, + the order list); non-trivial = signal longer than the kernel, N >= 2, first sample non-zero (Check/C07.v)",
    "trusted": _RAT + ["translator/tables.py", "float bits -> rational conversion in the harness", "the macro body (normalise, reverse, alternate signs) is transliterated by hand in Model/Wavelet.v and tied to the compiled presets through the residual/gain bounds and the exact structural relations"],
    "assumptions": ["reconstruction bound: N >= 1, input bounded by M"],
    "level_text": "Theorems for all kernels, widths and signals: analysis = the two edge-padded convolutions, synthesis = their sum, the cascade is one FIR filter with the combined kernel r = lowS*lowA + highS*highA (edge padding composes exactly), hence |output(n) - x(n-(N-1))| <= (|r[N-1]-1| + sum_{k != N-1} |r[k]|) * M for every input bounded by M; gain of a kernel on constants = its coefficient sum. Per order, from the tables re-extracted from the Rust source on every run: low-pass gain 1 and high-pass gain 0 within 2e-10 and residual <= 1e-9 (vm_compute over a finite domain the property enumerates); the kernels the compiled f32/f64 presets hold satisfy the same bounds to float precision.",
    "level_note": "Trusted: Coq kernel/vm_compute; Model/Wavelet.v and Model/Convolve.v validated on explored cases; table translator; exact arithmetic (float rounding of the running filters not modelled).",
}

PROPS["C16"] = {
    "corr": "Model.MeanVar.{mvw_step,mve_step} vs mean::mean_variance::MeanVariance::filter and mean::exp::mean_variance::MeanVariance::filter (paired runs on x and x+c)",
    "rule": "MeanVariance<Rat,N> for N=1..4 and exponential MeanVariance<Rat> with gains {0,1/4,1/2,3/4,1}: all histories over {-1,0,2} of the tier's length, each run on the samples and on the samples shifted by an offset from {10,-7/2,0}; seeded random histories, widths {1,2,3,4,5,8}, gains k/8 and random offsets; non-trivial = at least 3 samples, not constant, non-zero offset (Check/C16.v)",
    "trusted": _RAT, "assumptions": ["N >= 1", "exponential non-negativity: gain in [0,1]"],
    "level_text": "Theorems for all widths/gains and histories: the mean output is exactly the corresponding mean filter's output; the variance is never negative and is zero for constant signals; the exponential filter's variance is exactly offset-invariant for every gain. For the sliding-window filter offset invariance is REFUTED by a machine-checked witness (it measures the deviation from the running sum) -- known finding -- and proved outside the recorded class (width 1; first two outputs of any width).",
    "level_note": "Trusted: Coq kernel/vm_compute; Model/MeanVar.v validated on explored cases. Known finding (KNOWN_FINDINGS.txt): offset clause of the sliding-window filter for N >= 2 at output index >= 2; a failing case counts as the known finding only if it lies in that class AND the implementation's outputs equal the defective model's; anything else is a VIOLATION.",
}
PROPS["C18"] = {
    "corr": "Model.Hampel.hampel_step vs hampel::Hampel<f64,N>/<f32,N>::filter on integer samples with a logged decision margin",
    "rule": "Hampel<f64,N> (alphabet {0,1,3,50}) and Hampel<f32,N> (alphabet {0,2,40}) for N=1..5, thresholds {0,1/2,1,2,3}: all sequences of the tier's length; seeded random sequences with plateaus and injected outliers for N=1..9; a quarter of the random cases and an exhaustive block are run at extreme amplitudes (samples times 2^sc, sc = +-64/100 for f32 and +-500..900 for f64, exact in binary floating point; outputs divided by it; the model's outputs scale the same way by C18_affine_equivariant, so Coq sees the unscaled case); cases in which a float comparison feeding the decision is within 1e-6 (f64) / 1e-3 (f32) of its boundary are skipped and counted (both readings of the window maximum are considered); non-trivial = sequence longer than the window and at least one sample replaced (Check/C18.v)",
    "trusted": ["floats: integer samples and dyadic thresholds, decision margin enforced by the harness, so float decisions coincide with the exact-arithmetic model; outputs must be integers", "factor 1.4826 = 14826/10000"],
    "assumptions": ["N >= 1", "threshold >= 0"],
    "level_text": "Theorems (on top of the median-filter invariant) for every width N>=1, threshold >= 0 and history over canonical rationals: the first sample is returned unchanged; every output is the sample or the lower median of the preceding window; a sample within threshold*1.4826*(median - window minimum) is passed; a sample farther than threshold*1.4826*(largest window deviation) is replaced by the median, in particular any sample differing from a constant window. The proofs use only that max() returns some window element, so they are independent of finding C17.",
    "level_note": "Trusted: Coq kernel/vm_compute; Model/Hampel.v over Qc on top of Model/Median.v, validated on explored cases; float rounding excluded by the margin rule.",
}

PROPS["C01"] = {
    "profiles": ["release", "debug"],
    "corr": "Model.Pipes.{pfilter,psource,psink,pfinalize} instantiated with the models of the probe stages vs the real signalo_pipes::Pipe / UnitPipe / `|` nestings (outputs, per-stage invocation log, finalize result)",
    "rule": "every binary nesting of k = 1..5 stages (1+1+2+5+14 shapes; k <= 6 thorough), each as built by Pipe::new, entirely by `|`, and with randomly sprinkled UnitPipe wrappers and `|`; as a filter, as a source (first stage FromIter with 0..6 items, 3 pulls past the end) and as a sink (last stage Integrate/Max/Collect sink, finalized); stages drawn from Integrate, Differentiate, Delay<2>, 2x+1, each wrapped in a probe that appends (stage id, input) to a shared log; random i64 inputs; non-trivial = at least 3 stages and 2 samples (Check/C01.v)",
    "trusted": ["boxing glue harness/src/dynpipe.rs (boxed stages between the real Pipe/UnitPipe layers) and the logging probes", "homogeneous sample type i64 (that stage types line up in a real pipe is enforced by rustc)", "Check/C01.v's models of the four probe filters, the source and the three sinks"],
    "assumptions": [],
    "level_text": "Theorems for ALL stage behaviours (abstract step functions threading an observable world), all nestings of Pipe, `|` and UnitPipe of any depth and any number of stages, all inputs: a pipe used as a filter equals the left-to-right chain of its stages, invoking each exactly once per sample in order, with the same tree shape and only the stage states changed; as a source it pulls the first stage once and on the end marker invokes no later stage and changes nothing else; as a sink all but the last stage filter and the last sinks; finalize is the last stage's; any two assemblies with the same stage sequence behave identically. By structural induction on the pipe tree.",
    "level_note": "Trusted: Coq kernel/vm_compute; Model/Pipes.v validated on explored shapes; boxing glue; type-level facts are rustc's.",
}

_REG = "27 registry entries (Model/Registry.v): mean (N=1,3), mean_variance, exp mean, exp mean_variance, median (N=3,4), exp median, max, min, bounds, threshold, schmitt (two configs), debounce, slopes, peaks, convolve, delay, differentiate, integrate, hampel (f64, two thresholds), alpha_beta, kalman (two configs), analyze, synthesize, Cache<Integrate>, Cache<Median>, UnitSystem<Integrate> over SI metres"
PROPS["C12"] = {
    "corr": "Model.Registry.{mstep,mreset} vs Filter::filter / Reset::reset of every resettable filter; config()/config_ref() before and after; Cache::cached() after reset",
    "rule": _REG + "; for each: every history over {0,2,5} of length 0..3 (0..4 thorough) x 2 random probes, plus seeded random long histories; the real filter is fed the history, reset(), then the probe, and compared with the model AND with a freshly constructed real filter on the same probe; non-trivial = history of at least 2 samples on which a non-reset filter would answer differently (Check/C12.v)",
    "trusted": _RAT + ["uniform encoding of inputs/outputs/configurations as lists of rationals (harness/src/props/reg.rs, Model/Registry.v)", "Hampel is run in f64 on small integers"],
    "assumptions": [],
    "level_text": "Theorems: for all 27 registry entries, every configuration and every history, reset yields exactly the freshly constructed state for the same configuration, hence history-reset-probe = fresh-probe for every probe; the caching and unit wrappers inherit this from ANY resettable inner filter. The theorems are short (the model transliterates each Rust reset impl); the weight is on the tie, which runs every entry's real reset() against a freshly built real filter and against the model.",
    "level_note": "Trusted: Coq kernel/vm_compute; Model/Registry.v (per-entry transliteration of reset: Self::default(), with_config(self.config), with_config(self.config()) for the wavelet pair, field-wise for Cache/UnitSystem, identity for Threshold) validated on explored cases.",
}
PROPS["C20"] = {
    "corr": "Model.Registry.{mclone,mguts,m_cache,m_unit} vs Clone / IntoGuts+FromGuts of every filter, filters::cache::Cache, filters::unit_system::UnitSystem, sources::unit_system, sinks::unit_system",
    "rule": _REG + "; for each: histories as in C12; at the end of the history the filter is copied (clone on even cases, into_guts+from_guts on odd ones), the ORIGINAL is fed continuation A and only then the COPY is fed a different continuation B (which exposes shared or hidden state); both are compared with the model continued from the split state and with freshly built UNWRAPPED reference filters fed history++A resp. history++B (so the wrappers' transparency is checked too); Cache::cached() after the history; unit-preserving source and sink wrappers on the same histories; non-trivial = history of at least 2 samples and A-outputs differ from B-outputs (Check/C20.v)",
    "trusted": _RAT + ["uniform encoding as in C12", "unit preservation itself is a type-level fact (rustc)"],
    "assumptions": [],
    "level_text": "Theorems: in the model a clone and a guts round trip are the identity on states (the model state IS the guts tuple), so a copy continues exactly like the original and the copies are independent; the caching wrapper over ANY inner machine returns exactly the inner outputs and cached() is the last output (none initially); the unit wrapper is the inner filter on the unit-less value. These are immediate in a pure model; the assurance comes from the tie, which exercises every real filter's Clone and FromGuts/IntoGuts at every split point with diverging continuations.",
    "level_note": "Trusted: Coq kernel/vm_compute; Model/Registry.v validated on explored cases; a pure functional model cannot itself exhibit aliasing -- that is observed on the implementation side by feeding original and copy different continuations.",
}

PROPS["C19"] = {
    "level": "other",
    "corr": "Model.Ledger.{owned,exec_op,live} vs the live-value count of the instrumented owning sample type after every operation on real Median/Mean/Max/Min/Bounds/Convolve/Delay<Tok,N> instances",
    "rule": "operation programs over {filter(v), clone, reset, guts round trip, drop} on a pool that starts with one fresh instance: every program of length <= 5 (<= 6 thorough) over the five operations for the 7 filter kinds and widths 1..3 (1..4), plus seeded random programs of 10..60 (..200) operations for widths 1..6; after every operation the number of live Tok values in the harness's ledger is compared with the model's sum of owned values; the ledger flags any drop or use of a value that is not live; at the end everything is dropped and the live count must be 0; non-trivial = the program clones and also drops or resets an instance and is longer than the window (Check/C19.v)",
    "trusted": ["harness/src/tok.rs: instrumented sample type (unique serial per value, thread-local ledger; arithmetic creates fresh values)", "a Gallina model has no memory: undefined behaviour itself (uninitialised read, real double free) cannot be exhibited; a crash of the harness is reported as a violation without a minimal input"],
    "assumptions": ["N >= 1"],
    "explanation": "PARTIAL. Proved in Coq (for all widths and histories): how many sample values each windowed filter owns after any history (median: min(k,N); mean: min(k,N) taps + sum + weight; min/max deque: between 1 and N; convolution: N coefficients + N taps; delay: N), the ledger arithmetic of clone/reset/guts/drop on a pool, that nothing is live once every slot is dropped, and that the MaybeUninit initialisation loop of Median::default writes every slot exactly once before the array is read. Tied to the code by running the real filters over an instrumented owning sample type and comparing the live-value count after EVERY operation with the model; leaks, double drops and use-after-drop show up as a wrong count or a ledger anomaly. Not covered: undefined behaviour that does not change these counts. Added in the third session: the unsafe surface of the seven source files is pinned by source assertions (no unsafe block other than plain calls of the receiver's own methods outside Median::default, no raw-pointer, MaybeUninit, forget/ManuallyDrop/leak-like token beyond the audited ones) and the method bodies behind the median's `unsafe fn` helpers are re-translated and kernel-checked against the model on every run, so that outside the one audited initialisation loop the exactly-once discipline is rustc's ownership checking of safe code.",
    "level_text": "Partial (level other): ownership bookkeeping proved in Coq for all widths/histories and compared with an instrumented sample type's ledger after every operation of exhaustive short and random long operation programs; undefined behaviour itself is outside what a Gallina model can express.",
    "level_note": "Trusted: Coq kernel/vm_compute; Model/Ledger.v validated on explored programs; the instrumented Tok type and its ledger; no sanitizer/Miri run is part of the registered commands.",
    "technique": "Coq theorems about an ownership-count model + source assertions pinning the audited unsafe surface and kernel-checked re-translation of the windowed filters' bodies + differential execution against an instrumented sample type with fault injection (partial: memory safety itself is not expressible in Gallina)",
}

# ---- bit-exact float / integer stream (Check/Float.v, harness/src/props/fx*.rs) --------------------------------
FX = {
    "C03": "moving mean (f64, f32, checked i64; widths 1-16)",
    "C15": "differentiate, integrate and both pipes",
    "C13": "exponential mean and exponential median",
    "C14": "alpha-beta filter",
    "C06": "Kalman filter, both Filter impls (the integer instance exercises truncating division and the zero-divisor panic)",
    "C16": "sliding-window and exponential mean-variance",
    "C05": "Convolve::with_config and Convolve::normalized",
    "C07": "wavelet Analyze and Synthesize with arbitrary kernels",
    "C11": "sum, mean, mean-variance (with finalize), min and max sinks",
    "C08": "threshold, Schmitt trigger and debounce with sample-valued outputs, thresholds/predicates coinciding with samples, NaN and infinities",
    "C09": "slopes and value-driven peaks with sample-valued outputs, NaN and infinities",
    "C04": "moving max, min and bounds",
    "C02": "moving median (NaN, infinities, both zeros)",
    "C17": "moving median (NaN, infinities, both zeros)",
    "C18": "Hampel filter in f64 and f32 (factor 1.4826 as compiled into the crate), thresholds incl. 0 and 1e-9, nano-scale and huge samples",
    "C12": "every resettable arithmetic / comparison filter (24 kinds): history that may drive the state to inf/NaN, Reset::reset, then a probe that must match a fresh filter",
}
_FX_CORR = ("; bit-exact stream: the same generic model (Model/Generic.v, proved equal to the rational model step by step in Proofs/Generic.v, "
            "or the polymorphic model instantiated with the sample type's own comparisons) evaluated at IEEE-754 binary64/binary32 (Coq SpecFloat, pure Gallina) and at Z, "
            "against the f64 / f32 / checked-i64 instantiations of ")
_FX_RULE = ("; bit-exact stream (spec kind fx): per filter kind and sample type seeded histories in 8-9 modes (inexact decimals, mixed magnitudes, arbitrary bit patterns, "
            "special values inf/-inf/NaN/-0.0/MAX/MIN_POSITIVE/subnormal, near-overflow, subnormal range, large offset with tiny variation, nano-scale; comparison filters mostly a small ordered set with specials), "
            "outputs compared bit for bit (all NaNs identified); integer cases that overflow i64 are skipped and counted; these cases carry no property-level spec (verdict bit 1 only)")
_FX_TRUST = ("float / integer instantiations: Coq's SpecFloat (Coq.Floats.SpecFloat: SFadd, SFsub, SFmul, SFdiv, SFabs, SFltb, SFleb, SFeqb, SFcompare at (53,1024) and (24,128)) "
             "taken as the definition of IEEE-754 round-to-nearest-even arithmetic; rustc compiling f64/f32 operations to IEEE operations without contraction or reassociation; "
             "the float bit pattern -> spec_float printer of harness/src/props/fx.rs; i64 runs use a checked wrapper (overflowing cases are skipped), so wrap-around itself is not modelled")
for _pid, _what in FX.items():
    _P = PROPS[_pid]
    _P["corr"] += _FX_CORR + _what
    _P["rule"] += _FX_RULE
    _P["trusted"] = [t.replace("; floats and integer overflow are not modelled", "").replace("; floats not modelled", "").replace("; i64 runs use small values (no overflow modelled)", "") for t in _P["trusted"]] + [_FX_TRUST]
    _P["level_note"] = _P["level_note"].replace("exact arithmetic (float rounding not modelled)", "exact arithmetic for the theorems").replace("(floats and i64 overflow not modelled)", "for the theorems") \
        + " The theorems are about exact arithmetic; float rounding, non-finite values and truncating integer division are covered by the bit-exact correspondence stream only (a disagreement there is reported as a correspondence break)."

# ---- method bodies re-translated from the Rust source on every run (translator/rs2coq.py, translator/bodies.py) -------
BODIES = {
    "C03": "mean::mean::Mean::filter (4 state shapes: running sum None/Some x push_back evicts None/Some)",
    "C05": "Convolve::filter (push-until-evict loop + zip/rev/fold), Convolve::normalized (sum loop, is_zero test, in-place division), Delay::filter",
    "C06": "Kalman::process (both state shapes; every division is a proof case: non-zero divisors give the translated term, the first zero divisor gives a panic)",
    "C07": "Analyze::filter and Synthesize::filter (the two inner Convolve::filter bodies are executed from their own translated source)",
    "C08": "Threshold::filter, Schmitt::filter (on / off), Debounce::filter",
    "C09": "Slopes::filter (four-way split on partial_cmp)",
    "C11": "sinks: Integrate/Min/Max/Mean/MeanVariance::filter and MeanVariance::finalize",
    "C13": "mean::exp::Mean::filter and median::exp::Median::filter (8 state shapes; inner mean filters executed from their translated source)",
    "C14": "AlphaBeta::filter (both state shapes, with the in-arm reassignments)",
    "C15": "Differentiate::filter, Integrate::filter",
    "C16": "mean::exp::MeanVariance::filter (4 shapes) and mean::MeanVariance::filter (16 shapes; state_mut().mean read as it is)",
    "C18": "Hampel::filter_internal (8 accessor shapes; the median window is an abstract state with its four operations as hypotheses) and the factor literal of both impl_hampel_filter! invocations",
}
_B_TRUST = ("translator/rs2coq.py + translator/bodies.py: a parser for a subset of Rust expressions/statements and a symbolic executor (references, clone and iter are transparent; "
            "Option-valued state fields are case-split into None/Some; `a > b` is printed as altb b a, `a >= b` as aleb b a; a symbolic `if !c` is printed with swapped branches; "
            "circular_buffer push_back / the push-until-evict loop / the median window's accessors enter as hypotheses of the generated lemma); the lemmas themselves are checked by the Coq kernel")
for _pid, _what in BODIES.items():
    _P = PROPS[_pid]
    _P["corr"] += "; source-to-model translation (all inputs): " + _what
    _P["trusted"] = _P["trusted"] + [_B_TRUST]
    _P["level_note"] += " The modelled method bodies are re-translated from the Rust source text on every run and proved equal (by computation) to the generic model that the rational model is an instance of; the differential runs cross-check that translator."

NOT_YET = {}
