"""Per-property configuration of the driver: what the correspondence compares, how a case
counts as non-trivial, what is trusted."""

TRUSTED_COMMON = [
    "Coq 8.16.1 kernel and vm_compute (no native_compute); coqchk in the thorough tier",
    "axioms: none (Print Assumptions of every theorem in Props/ must say 'Closed under the global context')",
    "hand transliteration Rust -> Gallina of the modelled functions, validated by the correspondence check on the explored cases only",
    "harness (generators, exact rational type on checked i128, catch_unwind, Coq literal printer) and the Python driver",
    "rustc/cargo building /repo's working tree through path dependencies",
]

PROPS = {
    "C03": {
        "corr": "Model.Mean.step vs signalo_filters::mean::mean::Mean::filter",
        "rule": "exhaustive histories over {-1,0,2,5} up to the tier's length for every width, plus seeded random rational/integer histories with plateaus and outliers; all cases distinct (deduplicated by spec line); non-trivial = history longer than the window (an eviction happens) AND first sample non-zero, as evaluated by Check/C03.v in Coq",
        "trusted": ["model of circular_buffer::CircularBuffer::push_back as a bounded list (Base/ListX.v)",
                    "sample arithmetic: exact rationals / unbounded integers; i64 runs use small values (no overflow modelled); floats not modelled"],
        "assumptions": ["N >= 1", "division respects == (Qdiv, truncating integer division)"],
        "level_text": "Theorems for every width N>=1, every history length and every rational sample (window mean, finite memory, exact constants for field and truncating division), proved by invariant + induction in Coq; the model is tied to Mean<Rat,N>/Mean<i64,N> by differential execution of outputs and IntoGuts state, evaluated inside Coq.",
        "level_note": "Trusted: Coq kernel/vm_compute; hand-written model (Model/Mean.v) validated only on explored cases; bounded-list model of circular_buffer; exact arithmetic (floats and i64 overflow not modelled).",
    },
}

NOT_YET = {}
