(* List helpers shared by models and specs. *)
From Coq Require Export List Arith Lia.
Export ListNotations.

Section ListX.
Context {A : Type}.

(* the last [min n (length l)] elements *)
Definition lastn (n : nat) (l : list A) : list A := skipn (length l - n) l.

Lemma lastn_length n l : length (lastn n l) = Nat.min n (length l).
Proof. unfold lastn. rewrite skipn_length. lia. Qed.

Lemma lastn_all n l : length l <= n -> lastn n l = l.
Proof. intros H. unfold lastn. replace (length l - n) with 0 by lia. reflexivity. Qed.

Lemma lastn_app_short n l x : length l < n -> lastn n (l ++ [x]) = lastn n l ++ [x].
Proof.
  intros H. rewrite !lastn_all; auto; try lia. rewrite app_length; simpl; lia.
Qed.

Lemma lastn_app_full n l x : 0 < n -> n <= length l -> lastn n (l ++ [x]) = tl (lastn n l) ++ [x].
Proof.
  intros Hn H. unfold lastn. rewrite app_length; simpl.
  replace (length l + 1 - n) with (S (length l - n)) by lia.
  rewrite skipn_app. replace (S (length l - n) - length l) with 0 by lia. simpl.
  f_equal.
  remember (length l - n) as k. assert (Hk : k < length l) by lia. clear Heqk H Hn.
  revert k Hk. induction l as [|a l IH]; intros k Hk; simpl in *; [lia|].
  destruct k; [reflexivity|]. apply IH. lia.
Qed.

Lemma lastn_nil n : lastn n (@nil A) = [].
Proof. unfold lastn. simpl. destruct n; reflexivity. Qed.

Lemma lastn_lastn_app n l1 l2 : n <= length l2 -> lastn n (l1 ++ l2) = lastn n l2.
Proof.
  intros H. unfold lastn. rewrite app_length.
  replace (length l1 + length l2 - n) with (length l1 + (length l2 - n)) by lia.
  rewrite skipn_app. rewrite skipn_all2 by lia. simpl.
  f_equal. lia.
Qed.

(* model of circular_buffer::CircularBuffer<N,T>::push_back as a bounded list, front first:
   returns the new contents and the evicted element, if any.  N = 0: the item comes straight back. *)
Definition push_back (n : nat) (l : list A) (x : A) : list A * option A :=
  if n =? 0 then (l, Some x)
  else if length l <? n then (l ++ [x], None)
  else (tl l ++ [x], hd_error l).

End ListX.
