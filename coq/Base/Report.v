(* Evaluating a batch of correspondence cases inside Coq. A check returns a verdict:
   code 0 = agree and spec holds; bit 1 = model output differs from implementation output;
   bit 2 = the property's boolean spec fails on the implementation's output;
   bit 4 = inside a known-finding class (see KNOWN_FINDINGS.txt) and the implementation
           shows exactly the recorded defective behaviour.
   bit 8 = advisory: observable outputs agree but the internal state representation differs from
           the model's (recorded in the evidence as representation_drift; raises no alarm).
   [nontriv] = the case reaches the non-trivial situation named in the evidence rule. *)
From Coq Require Export NArith List.
Export ListNotations.

Record verdict := { code : N; nontriv : bool }.
Definition mkv (model_ok spec_ok nt : bool) : verdict :=
  {| code := ((if model_ok then 0 else 1) + (if spec_ok then 0 else 2))%N; nontriv := nt |}.
Definition mkv_known (model_ok spec_ok known nt : bool) : verdict :=
  {| code := ((if model_ok then 0 else 1) + (if spec_ok then 0 else if known then 4 else 2))%N; nontriv := nt |}.

(* outputs, spec, state: state drift only matters when outputs agree *)
Definition mkv_st (out_ok spec_ok st_ok nt : bool) : verdict :=
  {| code := ((if out_ok then (if st_ok then 0 else 8) else 1) + (if spec_ok then 0 else 2))%N; nontriv := nt |}.

Fixpoint report_aux {C} (check : C -> verdict) (cs : list C) (i : N) (bad : list (N * N)) (nt : N)
  : list (N * N) * N :=
  match cs with
  | [] => (rev bad, nt)
  | c :: r => let v := check c in
      report_aux check r (i + 1)%N
        (if (code v =? 0)%N then bad else (i, code v) :: bad)
        (if nontriv v then (nt + 1)%N else nt)
  end.
Definition report {C} (check : C -> verdict) (cs : list C) := report_aux check cs 0%N [] 0%N.
