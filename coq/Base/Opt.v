(* The panic monad: None = the Rust code panics (unwrap of None, index out of range, overflow). *)
Definition obind {A B} (o : option A) (f : A -> option B) : option B :=
  match o with Some a => f a | None => None end.
Notation "x <- e ;; f" := (obind e (fun x => f)) (at level 61, e at next level, right associativity).
Notation "' pat <- e ;; f" := (obind e (fun x => match x with pat => f end))
  (at level 61, pat pattern, e at next level, right associativity).
Definition is_some {A} (o : option A) : bool := match o with Some _ => true | None => false end.
