(* Bridging facts between the bit/remainder tests the Rust code uses on indices and the parity functions of the models. *)
From Coq Require Import Arith Lia Bool.
Lemma even_mod2 n : (n mod 2 =? 0) = Nat.even n.
Proof.
  destruct (Nat.even n) eqn:E.
  - apply Nat.even_spec in E. destruct E as [k ->]. apply Nat.eqb_eq. rewrite Nat.mul_comm. apply Nat.mod_mul. lia.
  - apply Nat.eqb_neq. intro H. apply Nat.mod_divide in H; [|lia]. destruct H as [k ->].
    rewrite Nat.even_mul in E. rewrite Bool.orb_false_iff in E. destruct E as [_ E]. discriminate E.
Qed.
Lemma odd_land1 n : (Nat.land n 1 =? 1) = Nat.odd n.
Proof.
  change 1 with (Nat.ones 1) at 1. rewrite Nat.land_ones. change (2 ^ 1) with 2.
  unfold Nat.odd. rewrite <- even_mod2.
  pose proof (Nat.mod_upper_bound n 2). destruct (n mod 2) as [|[|k]]; simpl; try reflexivity. lia.
Qed.
