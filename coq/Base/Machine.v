(* State machines: a filter is  state -> input -> state * output. *)
From Coq Require Export List.
Export ListNotations.

Section Machine.
Context {S X Y : Type}.
Variable step : S -> X -> S * Y.

Fixpoint exec (s : S) (xs : list X) : S :=
  match xs with [] => s | x :: r => exec (fst (step s x)) r end.
Fixpoint run (s : S) (xs : list X) : list Y :=
  match xs with [] => [] | x :: r => snd (step s x) :: run (fst (step s x)) r end.

Lemma exec_app s xs ys : exec s (xs ++ ys) = exec (exec s xs) ys.
Proof. revert s; induction xs as [|x xs IH]; intros s; simpl; auto. Qed.
Lemma run_app s xs ys : run s (xs ++ ys) = run s xs ++ run (exec s xs) ys.
Proof. revert s; induction xs as [|x xs IH]; intros s; simpl; auto. rewrite IH. reflexivity. Qed.
Lemma run_length s xs : length (run s xs) = length xs.
Proof. revert s; induction xs as [|x xs IH]; intros s; simpl; auto. Qed.
Lemma exec_snoc s xs x : exec s (xs ++ [x]) = fst (step (exec s xs) x).
Proof. rewrite exec_app. reflexivity. Qed.
Lemma run_snoc s xs x : run s (xs ++ [x]) = run s xs ++ [snd (step (exec s xs) x)].
Proof. rewrite run_app. reflexivity. Qed.
(* the output produced for the last sample of a non-empty history *)
Definition last_out (s : S) (xs : list X) (x : X) : Y := snd (step (exec s xs) x).
End Machine.

(* machines that can panic: None = panic *)
Section OMachine.
Context {S X Y : Type}.
Variable step : S -> X -> option (S * Y).
Fixpoint oexec (s : S) (xs : list X) : option S :=
  match xs with [] => Some s | x :: r => match step s x with Some (s', _) => oexec s' r | None => None end end.
Fixpoint orun (s : S) (xs : list X) : option (list Y) :=
  match xs with [] => Some []
  | x :: r => match step s x with
              | Some (s', y) => match orun s' r with Some ys => Some (y :: ys) | None => None end
              | None => None end end.
(* outputs up to the first panic, and whether a panic occurred *)
Fixpoint orun_partial (s : S) (xs : list X) : list Y * bool :=
  match xs with [] => ([], false)
  | x :: r => match step s x with
              | Some (s', y) => let '(ys, p) := orun_partial s' r in (y :: ys, p)
              | None => ([], true) end end.
End OMachine.

Definition omap_outputs {Y} (o : option (list Y)) : option (list Y) := o.
