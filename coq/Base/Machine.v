(* State machines: a filter is  state -> input -> state * output. *)
From Coq Require Export List.
Export ListNotations.

Section Machine.
Context {S X Y : Type}.
Variable step : S -> X -> S * Y.

Fixpoint exec (s : S) (xs : list X) : S :=
  match xs with [] => s | x :: r => exec (fst (step s x)) r end.
Fixpoint run (s : S) (xs : list X) : list Y :=
  match xs with [] => [] | x :: r => snd (step s x) :: run (fst (step s x)) r end.

Lemma exec_app s xs ys : exec s (xs ++ ys) = exec (exec s xs) ys.
Proof. revert s; induction xs as [|x xs IH]; intros s; simpl; auto. Qed.
Lemma run_app s xs ys : run s (xs ++ ys) = run s xs ++ run (exec s xs) ys.
Proof. revert s; induction xs as [|x xs IH]; intros s; simpl; auto. rewrite IH. reflexivity. Qed.
Lemma run_length s xs : length (run s xs) = length xs.
Proof. revert s; induction xs as [|x xs IH]; intros s; simpl; auto. Qed.
Lemma exec_snoc s xs x : exec s (xs ++ [x]) = fst (step (exec s xs) x).
Proof. rewrite exec_app. reflexivity. Qed.
Lemma run_snoc s xs x : run s (xs ++ [x]) = run s xs ++ [snd (step (exec s xs) x)].
Proof. rewrite run_app. reflexivity. Qed.
(* the output produced for the last sample of a non-empty history *)
Definition last_out (s : S) (xs : list X) (x : X) : Y := snd (step (exec s xs) x).
End Machine.

(* machines that can panic: None = panic *)
Section OMachine.
Context {S X Y : Type}.
Variable step : S -> X -> option (S * Y).
Fixpoint oexec (s : S) (xs : list X) : option S :=
  match xs with [] => Some s | x :: r => match step s x with Some (s', _) => oexec s' r | None => None end end.
Fixpoint orun (s : S) (xs : list X) : option (list Y) :=
  match xs with [] => Some []
  | x :: r => match step s x with
              | Some (s', y) => match orun s' r with Some ys => Some (y :: ys) | None => None end
              | None => None end end.
(* outputs up to the first panic, and whether a panic occurred *)
Fixpoint orun_partial (s : S) (xs : list X) : list Y * bool :=
  match xs with [] => ([], false)
  | x :: r => match step s x with
              | Some (s', y) => let '(ys, p) := orun_partial s' r in (y :: ys, p)
              | None => ([], true) end end.
Lemma orun_oexec_snoc s xs x ys s1 s2 y :
  orun s xs = Some ys -> oexec s xs = Some s1 -> step s1 x = Some (s2, y) ->
  orun s (xs ++ [x]) = Some (ys ++ [y]) /\ oexec s (xs ++ [x]) = Some s2.
Proof.
  revert s ys; induction xs as [|a xs IH]; intros s ys H1 H2 H3.
  - cbn [orun oexec app] in *. injection H1 as <-. injection H2 as <-. rewrite H3. split; reflexivity.
  - cbn [orun oexec app] in *. destruct (step s a) as [[sa ya]|]; [|discriminate].
    destruct (orun sa xs) as [yr|] eqn:Eo; [|discriminate]. injection H1 as <-.
    destruct (IH sa yr Eo H2 H3) as [A B]. rewrite A, B. split; reflexivity.
Qed.
Lemma oexec_snoc s xs x s1 : oexec s xs = Some s1 ->
  oexec s (xs ++ [x]) = match step s1 x with Some (s2, _) => Some s2 | None => None end.
Proof.
  revert s; induction xs as [|a xs IH]; intros s H.
  - cbn [oexec app] in *. injection H as <-. destruct (step s x) as [[? ?]|]; reflexivity.
  - cbn [oexec app] in *. destruct (step s a) as [[sa ya]|]; [|discriminate]. apply IH, H.
Qed.
Lemma oexec_app s a b : oexec s (a ++ b) = match oexec s a with Some m => oexec m b | None => None end.
Proof.
  revert s; induction a as [|x a IH]; intros s; cbn [oexec app]; [reflexivity|].
  destruct (step s x) as [[s' y]|]; [apply IH|reflexivity].
Qed.
Lemma orun_app s a b : orun s (a ++ b) =
  match orun s a, oexec s a with
  | Some y1, Some m => match orun m b with Some y2 => Some (y1 ++ y2) | None => None end
  | _, _ => None end.
Proof.
  revert s; induction a as [|x a IH]; intros s; cbn [orun oexec app].
  - destruct (orun s b); reflexivity.
  - destruct (step s x) as [[s' y]|]; [|reflexivity]. rewrite IH.
    destruct (orun s' a), (oexec s' a); try reflexivity. destruct (orun s0 b); reflexivity.
Qed.
End OMachine.

Definition omap_outputs {Y} (o : option (list Y)) : option (list Y) := o.
