(* Linear / affine / convex combinations of a list of rational samples. *)
From Signalo Require Export Base.QR.

Fixpoint dot (ws xs : list Q) : Q :=
  match ws, xs with w :: ws', x :: xs' => w * x + dot ws' xs' | _, _ => 0 end.
Definition scale (a : Q) (ws : list Q) : list Q := map (Qmult a) ws.
Fixpoint vadd (u v : list Q) : list Q :=
  match u, v with a :: u', b :: v' => (a + b) :: vadd u' v' | _, _ => [] end.

Lemma scale_length a ws : length (scale a ws) = length ws.
Proof. apply map_length. Qed.
Lemma vadd_length u v : length u = length v -> length (vadd u v) = length u.
Proof. revert v; induction u as [|a u IH]; intros [|b v] H; simpl in *; try discriminate; auto. Qed.

Lemma vadd_length_min u v : length (vadd u v) = Nat.min (length u) (length v).
Proof. revert v; induction u as [|a u IH]; intros [|b v]; simpl; auto. Qed.
Ltac lens := repeat (rewrite ?app_length, ?vadd_length_min, ?scale_length, ?map_length, ?repeat_length in * ); simpl length in *; try lia.

Lemma dot_scale a ws xs : dot (scale a ws) xs == a * dot ws xs.
Proof.
  revert xs; induction ws as [|w ws IH]; intros [|x xs]; simpl; try ring.
  rewrite IH. ring.
Qed.
Lemma dot_vadd u v xs : length u = length v -> dot (vadd u v) xs == dot u xs + dot v xs.
Proof.
  revert v xs; induction u as [|a u IH]; intros [|b v] [|x xs] H; simpl in *; try discriminate; try ring.
  rewrite IH by (injection H; auto). ring.
Qed.
Lemma dot_app ws1 ws2 xs1 xs2 : length ws1 = length xs1 ->
  dot (ws1 ++ ws2) (xs1 ++ xs2) == dot ws1 xs1 + dot ws2 xs2.
Proof.
  revert xs1; induction ws1 as [|w ws1 IH]; intros [|x xs1] H; simpl in *; try discriminate; try ring.
  rewrite IH by (injection H; auto). ring.
Qed.
Lemma dot_nil_r ws : dot ws [] == 0.
Proof. destruct ws; reflexivity. Qed.
Lemma qsum_scale a ws : qsum (scale a ws) == a * qsum ws.
Proof. induction ws as [|w ws IH]; simpl; [ring | rewrite IH; ring]. Qed.
Lemma qsum_vadd u v : length u = length v -> qsum (vadd u v) == qsum u + qsum v.
Proof.
  revert v; induction u as [|a u IH]; intros [|b v] H; simpl in *; try discriminate; try ring.
  rewrite IH by (injection H; auto). ring.
Qed.
Lemma dot_repeat ws c n : length ws = n -> dot ws (repeat c n) == c * qsum ws.
Proof.
  revert n; induction ws as [|w ws IH]; intros [|n] H; simpl in *; try discriminate; try ring.
  rewrite IH by (injection H; auto). ring.
Qed.
(* affine maps of the data: dot ws (a*x+b) = a * dot ws x + b * sum ws *)
Lemma dot_affine ws xs a b : length ws = length xs ->
  dot ws (map (fun x => a * x + b) xs) == a * dot ws xs + b * qsum ws.
Proof.
  revert xs; induction ws as [|w ws IH]; intros [|x xs] H; simpl in *; try discriminate; try ring.
  rewrite IH by (injection H; auto). ring.
Qed.
(* linearity in the data *)
Lemma dot_lin ws xs ys a b : length xs = length ys -> length ws = length xs ->
  dot ws (vadd (scale a xs) (scale b ys)) == a * dot ws xs + b * dot ws ys.
Proof.
  revert xs ys; induction ws as [|w ws IH]; intros [|x xs] [|y ys] H1 H2; simpl in *; try discriminate; try ring.
  rewrite IH by (try injection H1; try injection H2; auto). ring.
Qed.

Lemma dot_hull lo hi ws xs : length ws = length xs -> Forall (fun a => 0 <= a) ws ->
  Forall (fun x => lo <= x <= hi) xs -> lo * qsum ws <= dot ws xs <= hi * qsum ws.
Proof.
  revert xs; induction ws as [|w ws IH]; intros [|x xs] H Hw Hx; simpl in *; try discriminate.
  - split; ring_simplify; apply Qle_refl.
  - inversion Hw as [|? ? Hw0 Hw']; inversion Hx as [|? ? [Hlo Hhi] Hx']; subst.
    destruct (IH xs) as [I1 I2]; auto.
    split.
    + setoid_replace (lo * (w + qsum ws)) with (w * lo + lo * qsum ws) by ring.
      apply Qplus_le_compat; auto. nra.
    + setoid_replace (hi * (w + qsum ws)) with (w * hi + hi * qsum ws) by ring.
      apply Qplus_le_compat; auto. nra.
Qed.

(* y is a convex combination of the samples xs *)
Definition Conv (xs : list Q) (y : Q) : Prop :=
  exists ws, length ws = length xs /\ Forall (fun a => 0 <= a) ws /\ qsum ws == 1 /\ y == dot ws xs.

Lemma Conv_proper xs y y' : y == y' -> Conv xs y -> Conv xs y'.
Proof. intros E (ws & H1 & H2 & H3 & H4). exists ws. repeat split; auto. rewrite <- E; auto. Qed.

Lemma Forall_nonneg_repeat0 n : Forall (fun a => 0 <= a) (repeat 0 n).
Proof. induction n; simpl; constructor; auto. apply Qle_refl. Qed.
Lemma qsum_repeat0 n : qsum (repeat 0 n) == 0.
Proof. induction n; simpl; [reflexivity | rewrite IHn; ring]. Qed.
Lemma dot_repeat0 n xs : dot (repeat 0 n) xs == 0.
Proof. revert xs; induction n; intros [|x xs]; simpl; try reflexivity. rewrite IHn. ring. Qed.

(* the newest sample is a convex combination of the samples *)
Lemma Conv_last xs x : Conv (xs ++ [x]) x.
Proof.
  exists (repeat 0 (length xs) ++ [1]). repeat split.
  - rewrite !app_length, repeat_length. reflexivity.
  - apply Forall_app; split; [apply Forall_nonneg_repeat0 | constructor; [discriminate | constructor]].
  - rewrite qsum_app, qsum_repeat0. simpl. ring.
  - rewrite dot_app by apply repeat_length. rewrite dot_repeat0. simpl. ring.
Qed.
(* seeing one more sample keeps earlier combinations *)
Lemma Conv_weaken xs x y : Conv xs y -> Conv (xs ++ [x]) y.
Proof.
  intros (ws & H1 & H2 & H3 & H4). exists (ws ++ [0]). repeat split.
  - rewrite !app_length, H1. reflexivity.
  - apply Forall_app; split; auto. constructor; [apply Qle_refl | constructor].
  - rewrite qsum_app, H3. simpl. ring.
  - rewrite dot_app by auto. rewrite H4. simpl. ring.
Qed.
(* convex mixing: y + (z - y) * t for t in [0,1] *)
Lemma Forall_nonneg_scale a ws : 0 <= a -> Forall (fun a => 0 <= a) ws -> Forall (fun a => 0 <= a) (scale a ws).
Proof. intros Ha H. induction H; simpl; constructor; auto. apply Qmult_le_0_compat; auto. Qed.
Lemma Forall_nonneg_vadd u v : Forall (fun a => 0 <= a) u -> Forall (fun a => 0 <= a) v -> Forall (fun a => 0 <= a) (vadd u v).
Proof.
  intros Hu; revert v; induction Hu; intros v Hv; simpl; [constructor|].
  destruct Hv; constructor; auto. setoid_replace 0 with (0 + 0) by ring. apply Qplus_le_compat; auto.
Qed.
Lemma Conv_mix xs y z t : 0 <= t -> t <= 1 -> Conv xs y -> Conv xs z -> Conv xs (y + (z - y) * t).
Proof.
  intros Ht0 Ht1 (u & U1 & U2 & U3 & U4) (v & V1 & V2 & V3 & V4).
  exists (vadd (scale (1 - t) u) (scale t v)).
  assert (L : length (scale (1 - t) u) = length (scale t v)) by (rewrite !scale_length; congruence).
  repeat split.
  - rewrite vadd_length, scale_length; auto.
  - apply Forall_nonneg_vadd; apply Forall_nonneg_scale; auto. lra.
  - rewrite qsum_vadd, !qsum_scale, U3, V3 by auto. ring.
  - rewrite dot_vadd, !dot_scale, <- U4, <- V4 by auto. ring.
Qed.
(* hull and constants *)
Lemma Conv_hull xs y lo hi : Conv xs y -> Forall (fun x => lo <= x <= hi) xs -> lo <= y <= hi.
Proof.
  intros (ws & H1 & H2 & H3 & H4) Hx. rewrite H4.
  destruct (dot_hull lo hi ws xs H1 H2 Hx) as [A B]. rewrite H3 in A, B.
  split; [setoid_replace lo with (lo * 1) by ring | setoid_replace hi with (hi * 1) by ring]; auto.
Qed.
Lemma Conv_const c n y : Conv (repeat c n) y -> y == c.
Proof.
  intros (ws & H1 & H2 & H3 & H4). rewrite repeat_length in H1.
  rewrite H4, dot_repeat, H3 by auto. ring.
Qed.
