(* Rationals with normalising operations: Coq's Q never reduces fractions, so executable models
   use these wrappers; theorems are stated up to Qeq and proved after [qsimp]. *)
From Coq Require Export QArith Qabs Qreduction Lqa Lia List.
Export ListNotations.
Open Scope Q_scope.

Definition radd (x y : Q) : Q := Qred (x + y).
Definition rsub (x y : Q) : Q := Qred (x - y).
Definition rmul (x y : Q) : Q := Qred (x * y).
Definition rdiv (x y : Q) : Q := Qred (x / y).
Definition rabs (x : Q) : Q := Qred (Qabs x).
Definition rneg (x : Q) : Q := Qred (- x).

Lemma radd_ok x y : radd x y == x + y. Proof. apply Qred_correct. Qed.
Lemma rsub_ok x y : rsub x y == x - y. Proof. apply Qred_correct. Qed.
Lemma rmul_ok x y : rmul x y == x * y. Proof. apply Qred_correct. Qed.
Lemma rdiv_ok x y : rdiv x y == x / y. Proof. apply Qred_correct. Qed.
Lemma rabs_ok x : rabs x == Qabs x. Proof. apply Qred_correct. Qed.
Lemma rneg_ok x : rneg x == - x. Proof. apply Qred_correct. Qed.

Global Instance radd_proper : Proper (Qeq ==> Qeq ==> Qeq) radd.
Proof. intros a b H c d H'. rewrite !radd_ok, H, H'. reflexivity. Qed.
Global Instance rsub_proper : Proper (Qeq ==> Qeq ==> Qeq) rsub.
Proof. intros a b H c d H'. rewrite !rsub_ok, H, H'. reflexivity. Qed.
Global Instance rmul_proper : Proper (Qeq ==> Qeq ==> Qeq) rmul.
Proof. intros a b H c d H'. rewrite !rmul_ok, H, H'. reflexivity. Qed.
Global Instance rdiv_proper : Proper (Qeq ==> Qeq ==> Qeq) rdiv.
Proof. intros a b H c d H'. rewrite !rdiv_ok, H, H'. reflexivity. Qed.
Global Instance rabs_proper : Proper (Qeq ==> Qeq) rabs.
Proof. intros a b H. rewrite !rabs_ok, H. reflexivity. Qed.

Ltac rok := repeat first [rewrite radd_ok | rewrite rsub_ok | rewrite rmul_ok | rewrite rdiv_ok | rewrite rabs_ok | rewrite rneg_ok].
Ltac qsimp := unfold radd, rsub, rmul, rdiv, rabs, rneg in *; rewrite ?Qred_correct in *.

(* Q of a nat, and list sums *)
Definition qnat (n : nat) : Q := inject_Z (Z.of_nat n).
Lemma qnat_S n : qnat (S n) == qnat n + 1.
Proof. unfold qnat. rewrite Nat2Z.inj_succ, <- Z.add_1_r, inject_Z_plus. reflexivity. Qed.
Lemma qnat_pos n : (0 < n)%nat -> 0 < qnat n.
Proof. intros H. unfold qnat. replace 0 with (inject_Z 0) by reflexivity. rewrite <- Zlt_Qlt. lia. Qed.
Lemma qnat_nonneg n : 0 <= qnat n.
Proof. unfold qnat. replace 0 with (inject_Z 0) by reflexivity. rewrite <- Zle_Qle. lia. Qed.

Fixpoint qsum (l : list Q) : Q := match l with [] => 0 | x :: r => x + qsum r end.
Lemma qsum_app l1 l2 : qsum (l1 ++ l2) == qsum l1 + qsum l2.
Proof. induction l1 as [|a l1 IH]; simpl; [ring | rewrite IH; ring]. Qed.

(* pointwise Qeq on lists and options *)
Definition oQeq (a b : option Q) : Prop :=
  match a, b with Some x, Some y => x == y | None, None => True | _, _ => False end.
Definition qeqb (x y : Q) : bool := Qeq_bool x y.
Fixpoint qlist_eqb (a b : list Q) : bool :=
  match a, b with [] , [] => true | x :: a', y :: b' => qeqb x y && qlist_eqb a' b' | _, _ => false end.
Definition oqeqb (a b : option Q) : bool :=
  match a, b with Some x, Some y => qeqb x y | None, None => true | _, _ => false end.
Definition qleb (x y : Q) : bool := Qle_bool x y.
Definition qltb (x y : Q) : bool := negb (Qle_bool y x).
