(* The arithmetic a sample type offers to the generic filter code (num_traits::Num + Signed + PartialOrd):
   the models of Model/Generic.v are written once over this record and instantiated with the exact
   rationals of the proofs (Qar), with IEEE-754 binary64 / binary32 as specified by Coq's SpecFloat
   (F64, F32; pure Gallina, no primitive floats) and with mathematical integers under truncating division
   (Zar, the i32/i64 instantiations while no overflow occurs). *)
From Coq Require Import ZArith SpecFloat.
From Signalo Require Import Base.QR.

Record arith (T : Type) := mkA {
  aadd : T -> T -> T; asub : T -> T -> T; amul : T -> T -> T;
  adiv : T -> T -> T;              (* the quotient when the division does not panic *)
  adivz : T -> bool;               (* dividing by this value panics *)
  azero : T; aone : T;
  aabs : T -> T; aneg : T -> T;
  altb : T -> T -> bool;           (* `<` of PartialOrd: false when unordered *)
  aleb : T -> T -> bool;           (* `<=` *)
  aeqb : T -> T -> bool;           (* `==` *)
  acmp : T -> T -> option comparison;   (* partial_cmp *)
  aiszero : T -> bool              (* Zero::is_zero, i.e. `== 0` *)
}.
Arguments aadd {T}. Arguments asub {T}. Arguments amul {T}. Arguments adiv {T}. Arguments adivz {T}.
Arguments azero {T}. Arguments aone {T}. Arguments aabs {T}. Arguments aneg {T}. Arguments altb {T}. Arguments aleb {T}. Arguments aeqb {T}. Arguments acmp {T}. Arguments aiszero {T}.

Definition acdiv {T} (A : arith T) (a b : T) : option T := if adivz A b then None else Some (adiv A a b).

Definition Qar : arith Q :=
  {| aadd := radd; asub := rsub; amul := rmul; adiv := rdiv; adivz := fun b => Qeq_bool b 0;
     azero := 0; aone := 1; aabs := rabs; aneg := rneg; altb := qltb; aleb := qleb; aeqb := qeqb; acmp := fun a b => Some (a ?= b); aiszero := fun b => Qeq_bool b 0 |}.

Definition Zar : arith Z :=
  {| aadd := Z.add; asub := Z.sub; amul := Z.mul; adiv := Z.quot; adivz := Z.eqb 0;
     azero := 0%Z; aone := 1%Z; aabs := Z.abs; aneg := Z.opp; altb := Z.ltb; aleb := Z.leb; aeqb := Z.eqb; acmp := fun a b => Some (a ?= b)%Z; aiszero := Z.eqb 0 |}.

(* IEEE-754 binary floating point with [prec] significand bits and exponent bound [emax], round to nearest even *)
Definition Far (prec emax : Z) : arith spec_float :=
  {| aadd := SFadd prec emax; asub := SFsub prec emax; amul := SFmul prec emax; adiv := SFdiv prec emax;
     adivz := fun _ => false;
     azero := S754_zero false; aone := SFone prec emax; aabs := SFabs; aneg := SFopp;
     altb := SFltb; aleb := SFleb; aeqb := SFeqb; acmp := SFcompare; aiszero := fun x => SFeqb x (S754_zero false) |}.
Definition F64 := Far 53 1024.
Definition F32 := Far 24 128.

(* bit-for-bit equality, all NaNs identified *)
Definition sf_eqb (a b : spec_float) : bool :=
  match a, b with
  | S754_zero s, S754_zero t => Bool.eqb s t
  | S754_infinity s, S754_infinity t => Bool.eqb s t
  | S754_nan, S754_nan => true
  | S754_finite s m e, S754_finite t n f => Bool.eqb s t && Pos.eqb m n && Z.eqb e f
  | _, _ => false
  end.
