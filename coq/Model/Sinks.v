(* Models of the sinks of signalo_sinks (min, max, bounds, last, integrate, mean, mean_variance,
   statistics, collect) over exact rationals; each is a running filter `step` plus `finalize`. *)
From Signalo Require Export Base.QR Base.Machine.

(* min.rs / max.rs: running extremum; `&input < min` *)
Definition min_step (s : option Q) (x : Q) : option Q * Q :=
  let m := match s with Some m => if qltb x m then x else m | None => x end in (Some m, m).
Definition max_step (s : option Q) (x : Q) : option Q * Q :=
  let m := match s with Some m => if qltb m x then x else m | None => x end in (Some m, m).
Definition bounds_step (s : option Q * option Q) (x : Q) : (option Q * option Q) * (Q * Q) :=
  let '(smin, lo) := min_step (fst s) x in let '(smax, hi) := max_step (snd s) x in ((smin, smax), (lo, hi)).
Definition bounds_fin (s : option Q * option Q) : option (Q * Q) :=
  match s with (Some lo, Some hi) => Some (lo, hi) | _ => None end.
(* last.rs *)
Definition last_sink (s : option Q) (x : Q) : option Q := Some x.
(* integrate.rs *)
Definition sum_step (s : option Q) (x : Q) : option Q * Q :=
  let v := radd (match s with Some v => v | None => 0 end) x in (Some v, v).
(* mean.rs:33-52 (Welford) *)
Definition mean_step (s : option (Q * Q)) (x : Q) : option (Q * Q) * Q :=
  let '(c, m) := match s with Some cm => cm | None => (0, 0) end in
  let c' := radd c 1 in
  let m' := radd m (rdiv (rsub x m) c') in
  (Some (c', m'), m').
Definition mean_fin (s : option (Q * Q)) : option Q := match s with Some (_, m) => Some m | None => None end.
(* mean_variance.rs:43-66, 88-104 *)
Record mv := { mv_count : Q; mv_mean : Q; mv_m2 : Q }.
Definition mv_step (s : option mv) (x : Q) : option mv * (Q * Q) :=
  let '(c, m, v) := match s with Some s => (mv_count s, mv_mean s, mv_m2 s) | None => (0, 0, 0) end in
  let c' := radd c 1 in
  let m' := radd m (rdiv (rsub x m) c') in
  let old_delta := rsub x m in
  let delta := rsub x m' in
  let v' := radd v (rmul old_delta delta) in
  (Some {| mv_count := c'; mv_mean := m'; mv_m2 := v' |}, (m', v')).
Definition mv_fin (s : option mv) : option (Q * Q) :=
  match s with
  | Some s => Some (mv_mean s, if qltb 1 (mv_count s) then rdiv (mv_m2 s) (rsub (mv_count s) 1) else mv_m2 s)
  | None => None
  end.
(* statistics.rs *)
Definition stat_step (s : (option Q * option Q) * option mv) (x : Q) :=
  let '(sb, (lo, hi)) := bounds_step (fst s) x in
  let '(sm, (m, v)) := mv_step (snd s) x in ((sb, sm), (lo, hi, m, v)).
Definition stat_fin (s : (option Q * option Q) * option mv) : option (Q * Q * Q * Q) :=
  match bounds_fin (fst s), mv_fin (snd s) with
  | Some (lo, hi), Some (m, v) => Some (lo, hi, m, v)
  | _, _ => None
  end.
(* collect.rs *)
Definition collect_step (s : list Q) (x : Q) : list Q * list Q := (s ++ [x], s ++ [x]).
