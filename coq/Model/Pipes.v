(* Model of signalo_pipes::{pipe::Pipe, unit_pipe::UnitPipe} (pipe.rs:30,43,56,67,79; unit_pipe.rs:31-79).
   Stages are abstract: a stage has an identity, a state, and step functions that also thread a
   "world" W through every call, so that the order and number of stage invocations is observable
   (instantiate W with a call log).  All stages work on one sample type X; that the stage types of
   a real pipe line up is rustc's business. *)
From Coq Require Export List.
Export ListNotations.

Section Pipes.
Variables Id S X R W : Type.
Variable fstep : Id -> W -> S -> X -> W * S * X.            (* Filter::filter of a stage *)
Variable sstep : Id -> W -> S -> W * S * option X.          (* Source::source of a stage *)
Variable kstep : Id -> W -> S -> X -> W * S.                (* Sink::sink of a stage *)
Variable fin : Id -> S -> R.                                (* Finalize::finalize of a stage *)

Inductive pipe := Leaf (i : Id) (s : S) | Unit (p : pipe) | Pipe (lhs rhs : pipe).

Fixpoint pfilter (w : W) (p : pipe) (x : X) : W * pipe * X :=
  match p with
  | Leaf i s => let '(w', s', y) := fstep i w s x in (w', Leaf i s', y)
  | Unit q => let '(w', q', y) := pfilter w q x in (w', Unit q', y)
  | Pipe l r => let '(w1, l', y) := pfilter w l x in
                let '(w2, r', z) := pfilter w1 r y in (w2, Pipe l' r', z)      (* rhs.filter(lhs.filter(x)) *)
  end.
Fixpoint psource (w : W) (p : pipe) : W * pipe * option X :=
  match p with
  | Leaf i s => let '(w', s', o) := sstep i w s in (w', Leaf i s', o)
  | Unit q => let '(w', q', o) := psource w q in (w', Unit q', o)
  | Pipe l r => let '(w1, l', o) := psource w l in
                match o with                                                  (* lhs.source().map(|x| rhs.filter(x)) *)
                | Some x => let '(w2, r', z) := pfilter w1 r x in (w2, Pipe l' r', Some z)
                | None => (w1, Pipe l' r, None)
                end
  end.
Fixpoint psink (w : W) (p : pipe) (x : X) : W * pipe :=
  match p with
  | Leaf i s => let '(w', s') := kstep i w s x in (w', Leaf i s')
  | Unit q => let '(w', q') := psink w q x in (w', Unit q')
  | Pipe l r => let '(w1, l', y) := pfilter w l x in
                let '(w2, r') := psink w1 r y in (w2, Pipe l' r')             (* rhs.sink(lhs.filter(x)) *)
  end.
Fixpoint pfinalize (p : pipe) : R :=
  match p with Leaf i s => fin i s | Unit q => pfinalize q | Pipe l r => pfinalize r end.
Definition bitor (a b : pipe) : pipe := Pipe a b.           (* `a | b` builds Pipe::new(a, b) *)

(* ---- the flat reading: the in-order list of stages ---- *)
Fixpoint leaves (p : pipe) : list (Id * S) :=
  match p with Leaf i s => [(i, s)] | Unit q => leaves q | Pipe l r => leaves l ++ leaves r end.
(* sk(...s2(s1(x))...), threading the world, each stage once, left to right *)
Fixpoint chain (w : W) (ls : list (Id * S)) (x : X) : W * list (Id * S) * X :=
  match ls with
  | [] => (w, [], x)
  | (i, s) :: r => let '(w1, s', y) := fstep i w s x in
                   let '(w2, r', z) := chain w1 r y in (w2, (i, s') :: r', z)
  end.
(* same tree, leaf states replaced in order *)
Fixpoint relabel (p : pipe) (ls : list (Id * S)) : pipe * list (Id * S) :=
  match p with
  | Leaf i s => match ls with (j, t) :: r => (Leaf j t, r) | [] => (p, []) end
  | Unit q => let '(q', r) := relabel q ls in (Unit q', r)
  | Pipe l r => let '(l', rest) := relabel l ls in let '(r', rest') := relabel r rest in (Pipe l' r', rest')
  end.
End Pipes.
Arguments Leaf {Id S}. Arguments Unit {Id S}. Arguments Pipe {Id S}.
