(* Models of signalo_filters::wavelet::{analyze::Analyze, synthesize::Synthesize}<T, N>
   (analyze.rs:125-129, synthesize.rs:125-130) on top of Model/Convolve.v, and of the body of the
   `daubechies_impl_float!` macro (daubechies.rs:39-56, 88-93) that derives the four kernels from a
   low-pass table. *)
From Signalo Require Export Model.Convolve.

Definition ana_step (n : nat) (low high : list Q) (s : list Q * list Q) (x : Q)
  : option ((list Q * list Q) * (Q * Q)) :=
  '(tl', l) <- conv_step n low (fst s) x ;;
  '(th', h) <- conv_step n high (snd s) x ;;
  Some ((tl', th'), (l, h)).
Definition syn_step (n : nat) (low high : list Q) (s : list Q * list Q) (lh : Q * Q)
  : option ((list Q * list Q) * Q) :=
  '(tl', l) <- conv_step n low (fst s) (fst lh) ;;
  '(th', h) <- conv_step n high (snd s) (snd lh) ;;
  Some ((tl', th'), radd l h).

(* the macro body *)
Definition norm_by_sum (tbl : list Q) : list Q :=
  let s := fold_left radd tbl 0 in if Qeq_bool s 0 then tbl else map (fun c => rdiv c s) tbl.
Fixpoint alt_sign_from (odd : bool) (l : list Q) : list Q :=
  match l with [] => [] | c :: r => (if odd then rneg c else c) :: alt_sign_from (negb odd) r end.
Definition alt_sign (l : list Q) : list Q := alt_sign_from false l.      (* negate odd-indexed entries *)
Definition daub_low (tbl : list Q) : list Q := norm_by_sum tbl.
Definition daub_high (tbl : list Q) : list Q := alt_sign (rev (daub_low tbl)).
Definition daub_analysis (tbl : list Q) : list Q * list Q := (daub_low tbl, daub_high tbl).
Definition daub_synthesis (tbl : list Q) : list Q * list Q := (rev (daub_low tbl), rev (daub_high tbl)).
