(* Model of signalo_filters::median::Median<T, N>  (crates/filters/src/median.rs):
   a ring buffer of N slots whose slots are also the nodes of a doubly linked list kept in
   ascending order, with cursors `cursor` (slot to overwrite next = oldest sample), `head`
   (smallest) and `median`.  Every array access goes through nth_error, so an out-of-range index
   (in particular the poison value usize::MAX written by remove_node) and the final `unwrap`
   of an empty node are explicit panics (None). *)
From Coq Require Export List Arith Lia Bool.
From Signalo Require Export Base.Opt Base.ListX.
Export ListNotations.

Section Median.
Variable T : Type.
Variable leb : T -> T -> bool.           (* Rust `a <= b`;  `a >= b` is read as `leb b a` *)

Record node := { value : option T; previous : nat; next : nat }.
Record mstate := { buffer : list node; cursor : nat; head : nat; median : nat }.

Fixpoint upd {A} (l : list A) (i : nat) (a : A) : list A :=
  match l, i with
  | [], _ => []
  | _ :: r, 0 => a :: r
  | x :: r, S i' => x :: upd r i' a
  end.

Definition poison (b : list node) : nat := length b.   (* stands for usize::MAX: indexing with it panics *)
Definition getn (b : list node) (i : nat) : option node := nth_error b i.
Definition setn (b : list node) (i : nat) (nd : node) : option (list node) :=
  if i <? length b then Some (upd b i nd) else None.

(* Median::default *)
Definition init (n : nat) : mstate :=
  {| buffer := map (fun i => {| value := None; previous := (i + n - 1) mod n; next := (i + 1) mod n |}) (seq 0 n);
     cursor := 0; head := 0; median := 0 |}.

Definition move_head_forward (s : mstate) : option mstate :=
  if cursor s =? head s
  then nd <- getn (buffer s) (head s) ;;
       Some {| buffer := buffer s; cursor := cursor s; head := next nd; median := median s |}
  else Some s.

Definition remove_node (s : mstate) : option mstate :=
  nd <- getn (buffer s) (cursor s) ;;
  let pred := previous nd in let succ := next nd in
  pn <- getn (buffer s) pred ;;
  b1 <- setn (buffer s) pred {| value := value pn; previous := previous pn; next := succ |} ;;
  b2 <- setn b1 (cursor s) {| value := None; previous := poison b1; next := poison b1 |} ;;
  sn <- getn b2 succ ;;
  b3 <- setn b2 succ {| value := value sn; previous := pred; next := next sn |} ;;
  Some {| buffer := b3; cursor := cursor s; head := head s; median := median s |}.

Definition should_insert (b : list node) (v : T) (current index : nat) : option bool :=
  nd <- getn b current ;;
  match value nd with
  | Some w => Some ((index + 1 =? length b) || leb v w)
  | None => Some true
  end.

Definition insert (b : list node) (cur : nat) (v : T) (current : nat) : option (list node) :=
  cn <- getn b current ;;
  let pred := previous cn in
  pn <- getn b pred ;;
  b1 <- setn b pred {| value := value pn; previous := previous pn; next := cur |} ;;
  b2 <- setn b1 cur {| value := Some v; previous := pred; next := current |} ;;
  sn <- getn b2 current ;;
  setn b2 current {| value := value sn; previous := cur; next := next sn |}.

Definition shift_median (b : list node) (med index current : nat) : option nat :=
  cn <- getn b current ;;
  if Nat.odd index && is_some (value cn) then mn <- getn b med ;; Some (next mn) else Some med.

(* the `for index in 0..buffer_len` loop of insert_value; state: buffer, median, current, has_inserted *)
Fixpoint insert_loop (idxs : list nat) (cur : nat) (v : T) (b : list node) (med current : nat) (ins : bool)
  : option (list node * nat) :=
  match idxs with
  | [] => Some (b, med)
  | index :: rest =>
      r <- (if ins then Some (b, true)
            else si <- should_insert b v current index ;;
                 if si then (b' <- insert b cur v current ;; Some (b', true)) else Some (b, false)) ;;
      let '(b1, ins1) := r in
      med1 <- shift_median b1 med index current ;;
      cn <- getn b1 current ;;
      insert_loop rest cur v b1 med1 (next cn) ins1
  end.

Definition filter (s : mstate) (v : T) : option (mstate * T) :=
  s1 <- move_head_forward s ;;
  s2 <- remove_node s1 ;;
  (* initialize_median: median := head *)
  r <- insert_loop (seq 0 (length (buffer s2))) (cursor s2) v (buffer s2) (head s2) (head s2) false ;;
  let '(b3, med3) := r in
  (* update_head *)
  hn <- getn b3 (head s2) ;;
  let fire := match value hn with Some hv => leb v hv | None => true end in
  r2 <- (if fire then (mn <- getn b3 med3 ;; Some (cursor s2, previous mn)) else Some (head s2, med3)) ;;
  let '(head4, med4) := r2 in
  (* adjust_median_for_even_length *)
  med5 <- (if Nat.even (length b3) then (mn <- getn b3 med4 ;; Some (previous mn)) else Some med4) ;;
  (* increment_cursor: `% len` panics for len = 0 *)
  cur5 <- (if length b3 =? 0 then None else Some ((cursor s2 + 1) mod length b3)) ;;
  (* median_unchecked *)
  mn <- getn b3 med5 ;;
  out <- value mn ;;
  Some ({| buffer := b3; cursor := cur5; head := head4; median := med5 |}, out).

(* accessors Median::{median,min,max}; outer None = panic (index out of range / N = 0) *)
Definition acc_median (s : mstate) : option (option T) := nd <- getn (buffer s) (median s) ;; Some (value nd).
Definition acc_min (s : mstate) : option (option T) := nd <- getn (buffer s) (head s) ;; Some (value nd).
Definition acc_max (s : mstate) : option (option T) :=
  let n := length (buffer s) in
  if n =? 0 then None else nd <- getn (buffer s) ((cursor s + n - 1) mod n) ;; Some (value nd).

Definition reset (s : mstate) : mstate := init (length (buffer s)).
End Median.

Arguments value {T}. Arguments previous {T}. Arguments next {T}.
Arguments buffer {T}. Arguments cursor {T}. Arguments head {T}. Arguments median {T}.
Arguments init {T}. Arguments filter {T}. Arguments acc_median {T}. Arguments acc_min {T}. Arguments acc_max {T}.
Arguments reset {T}.

(* sample types used for execution: Z, and Z with a NaN-like incomparable element *)
From Coq Require Import ZArith.
Definition zleb (a b : Z) : bool := Z.leb a b.
Definition nleb (a b : option Z) : bool :=      (* None plays NaN: every comparison with it is false *)
  match a, b with Some x, Some y => Z.leb x y | _, _ => false end.
