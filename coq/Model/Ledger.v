(* C19 (partial): the ownership BOOKKEEPING of the windowed filters.  [owned] counts the sample values
   reachable from a model state -- the values the real filter owns and must drop exactly once.  The
   model has no memory: undefined behaviour itself (reading uninitialised memory, a real double free)
   cannot be expressed here; what is modelled is how many values every instance holds after every
   operation, so that a leak or a double drop shows up as a wrong live count on the implementation side. *)
From Coq Require Import ZArith.
From Signalo Require Import Base.QR Base.Opt Base.ListX.
From Signalo Require Model.Median Model.Mean Model.Bounds Model.Convolve.

Inductive kind := KMedian | KMean | KMax | KMin | KBounds | KConv | KDelay.
Inductive inst :=
| IMedian (s : Median.mstate Z)
| IMean (s : Mean.st)
| IMax (s : Bounds.st Z) | IMin (s : Bounds.st Z) | IBounds (a b : Bounds.st Z)
| IConv (taps : list Q)
| IDelay (taps : list Z).

Definition fresh (k : kind) (n : nat) : inst :=
  match k with
  | KMedian => IMedian (Median.init n) | KMean => IMean Mean.init
  | KMax => IMax Bounds.init | KMin => IMin Bounds.init | KBounds => IBounds Bounds.init Bounds.init
  | KConv => IConv [] | KDelay => IDelay []
  end.
Definition count_some {A} (l : list (option A)) : nat := length (filter (fun o => match o with Some _ => true | None => false end) l).
(* number of sample values the instance owns *)
Definition owned (n : nat) (i : inst) : nat :=
  match i with
  | IMedian s => count_some (map (@Median.value Z) (Median.buffer s))
  | IMean s => (length (Mean.taps s) + (match Mean.mean s with Some _ => 1 | None => 0 end) + 1)%nat      (* taps, sum, weight *)
  | IMax s | IMin s => length (Bounds.taps s)
  | IBounds a b => (length (Bounds.taps a) + length (Bounds.taps b))%nat
  | IConv taps => (n + length taps)%nat                                                                  (* N coefficients + taps *)
  | IDelay taps => length taps
  end.
Definition bn (n : nat) : N := N.of_nat n.
Definition step (n : nat) (i : inst) (v : Z) : option inst :=
  match i with
  | IMedian s => '(s', _) <- Median.filter Z.leb s v ;; Some (IMedian s')
  | IMean s => Some (IMean (fst (Mean.step Mean.qquot n false s (inject_Z v))))
  | IMax s => '(s', _) <- Bounds.max_step Z.leb (bn n) Bounds.usize_max false s v ;; Some (IMax s')
  | IMin s => '(s', _) <- Bounds.min_step Z.leb (bn n) Bounds.usize_max false s v ;; Some (IMin s')
  | IBounds a b => '(s', _) <- Bounds.bounds_step Z.leb (bn n) Bounds.usize_max false (a, b) v ;; Some (IBounds (fst s') (snd s'))
  | IConv taps => '(t, _) <- Convolve.conv_step n (repeat 1 n) taps (inject_Z v) ;; Some (IConv t)
  | IDelay taps => '(t, _) <- Convolve.delay_step n taps v ;; Some (IDelay t)
  end.

(* operation programs over a pool of instances (slot = None after drop) *)
Inductive op := OFilter (slot : nat) (v : Z) | OClone (slot : nat) | OReset (slot : nat) | OGuts (slot : nat) | ODrop (slot : nat).
Definition set_slot (pool : list (option inst)) (k : nat) (x : option inst) : list (option inst) :=
  firstn k pool ++ x :: skipn (S k) pool.
Definition exec_op (k : kind) (n : nat) (pool : list (option inst)) (o : op) : option (list (option inst)) :=
  match o with
  | OFilter j v => match nth j pool None with Some i => i' <- step n i v ;; Some (set_slot pool j (Some i')) | None => Some pool end
  | OClone j => match nth j pool None with Some i => Some (pool ++ [Some i]) | None => Some pool end
  | OReset j => match nth j pool None with Some _ => Some (set_slot pool j (Some (fresh k n))) | None => Some pool end
  | OGuts j => Some pool
  | ODrop j => match nth j pool None with Some _ => Some (set_slot pool j None) | None => Some pool end
  end.
Definition live (n : nat) (pool : list (option inst)) : nat :=
  fold_right (fun s acc => match s with Some i => (owned n i + acc)%nat | None => acc end) 0%nat pool.
(* live counts after every operation, starting from one fresh instance *)
Fixpoint run_ops (k : kind) (n : nat) (pool : list (option inst)) (ops : list op) : list nat :=
  match ops with
  | [] => []
  | o :: r => match exec_op k n pool o with
              | Some p' => live n p' :: run_ops k n p' r
              | None => [] end
  end.

(* Median::default builds its node array through MaybeUninit: slots start uninitialised (None here) and
   the loop `for (index, item) in array.iter_mut().enumerate().take(N)` writes slot `index`; the array is
   then read as initialised.  [uninit_write] performs the writes in order on an explicit "initialised?" array. *)
Definition init_node (n i : nat) : Median.node Z :=
  {| Median.value := None; Median.previous := (i + n - 1) mod n; Median.next := (i + 1) mod n |}.
Fixpoint upd_opt {A} (l : list (option A)) (i : nat) (a : A) : list (option A) :=
  match l, i with [], _ => [] | _ :: r, O => Some a :: r | x :: r, S i' => x :: upd_opt r i' a end.
Definition uninit_write (n : nat) : list (option (Median.node Z)) :=
  fold_left (fun arr i => upd_opt arr i (init_node n i)) (seq 0 n) (repeat None n).
