(* Models of signalo_filters::classify::{threshold, schmitt, debounce, slopes, peaks}. *)
From Coq Require Export NArith List Bool Lia.
From Signalo Require Export Base.Machine.
Export ListNotations.

Section Classify.
Variable T : Type.
Variable leb : T -> T -> bool.            (* `a <= b`;  `a >= b` is leb b a;  `a > b` is negb (leb a b) *)
Variable U : Type.
Definition pick (outs : U * U) (on : bool) : U := if on then snd outs else fst outs.   (* outputs[on as usize] *)

(* threshold.rs:92-95 *)
Definition thr_step (thr : T) (outs : U * U) (s : unit) (x : T) : unit * U := (tt, pick outs (leb thr x)).

(* schmitt.rs:116-124; thresholds[0] = low, thresholds[1] = high *)
Definition schmitt_next (lo hi : T) (on : bool) (x : T) : bool := if on then leb lo x else negb (leb x hi).
Definition schmitt_step (lo hi : T) (outs : U * U) (on : bool) (x : T) : bool * U :=
  let on' := schmitt_next lo hi on x in (on', pick outs on').

(* debounce.rs:118-126; count is a usize with saturating_add *)
Variable eqb : T -> T -> bool.
Variable maxu : N.
Definition sat_succ (c : N) : N := if (c <? maxu)%N then (c + 1)%N else maxu.
Definition deb_next (pred : T) (count : N) (x : T) : N := if eqb x pred then sat_succ count else 0%N.
Definition deb_step (threshold : N) (pred : T) (outs : U * U) (count : N) (x : T) : N * U :=
  let c := deb_next pred count x in (c, pick outs (threshold <=? c)%N).
End Classify.
Arguments pick {U}. Arguments thr_step {T} leb {U}. Arguments schmitt_step {T} leb {U}. Arguments schmitt_next {T} leb.
Arguments deb_step {T U}. Arguments deb_next {T}.

(* ---- slopes.rs:134-150 and peaks.rs:74-91,171-195 ---- *)
Inductive slope := Rising | Flat | Falling.        (* Slope::{Rising, None, Falling} *)
Inductive peak := PMax | PNone | PMin.             (* Peak::{Max, None, Min} *)
Section Slopes.
Variable T : Type.
Variable cmp : T -> T -> option comparison.        (* partial_cmp *)
Definition slope_of (prev : option T) (x : T) : slope :=
  match prev with
  | None => Flat
  | Some p => match cmp p x with Some Lt => Rising | Some Eq => Flat | Some Gt => Falling | None => Flat end
  end.
Definition slopes_step (s : option T) (x : T) : option T * slope := (Some x, slope_of s x).

(* the decision table on (previous slope, current slope) *)
Definition peak_of (prev : option slope) (cur : slope) : peak :=
  match prev with
  | None | Some Flat => PNone
  | Some Rising => match cur with Falling => PMax | _ => PNone end
  | Some Falling => match cur with Rising => PMin | _ => PNone end
  end.
(* value-driven path: state = (inner Slopes state, previous slope) *)
Definition peaks_step (s : option T * option slope) (x : T) : (option T * option slope) * peak :=
  let '(sl, out) := slopes_step (fst s) x in ((sl, Some out), peak_of (snd s) out).
(* slope-driven path (Filter<Slope> for Peaks<Slope, U>): bypasses the inner slope filter *)
Definition peaks_slope_step (s : option slope) (sl : slope) : option slope * peak := (Some sl, peak_of s sl).
End Slopes.
Arguments slope_of {T}. Arguments slopes_step {T}. Arguments peaks_step {T}.
