(* Model of signalo_filters::mean::mean::Mean<T, N>  (crates/filters/src/mean/mean.rs).
   State fields as in the Rust struct: `mean` (in fact the running SUM), `taps`, `weight`.
   [old = true] transliterates the code before the C03 repair (running sum initialised with the
   first sample and then the sample added again); [old = false] the repaired code. *)
From Signalo Require Export Base.QR Base.ListX Base.Machine.

Section Mean.
Variable div : Q -> Q -> Q.     (* the sample type's own division *)
Variable N : nat.               (* window width (const generic) *)

Record st := { mean : option Q; taps : list Q; weight : Q }.
Definition init : st := {| mean := None; taps := []; weight := 0 |}.

Definition step (old : bool) (s : st) (x : Q) : st * Q :=
  let old_mean := match mean s with Some m => m | None => if old then x else 0 end in
  let '(taps', ev) := push_back N (taps s) x in
  let '(m, w) := match ev with
                 | Some o => (radd (rsub old_mean o) x, weight s)
                 | None => (radd old_mean x, radd (weight s) 1)
                 end in
  ({| mean := Some m; taps := taps'; weight := w |}, div m w).

Definition reset (s : st) : st := init.
End Mean.

(* truncating integer division of i64-like samples embedded in Q *)
Definition qquot (a b : Q) : Q := inject_Z (Z.quot (Qnum (Qred a)) (Qnum (Qred b))).
