(* One uniform view of every resettable / copyable filter model, for C12 (reset) and C20 (copies and
   wrappers).  A machine has a configuration (list of rationals; widths are its first entry where
   the Rust type has a const generic N), a state, a step on encoded inputs/outputs, and the
   transliteration of its `Reset::reset`, its `Clone`, and its guts round trip
   (`from_guts(into_guts(x))`).  In a pure model a clone and a guts round trip are the identity on
   states -- the state IS the guts tuple, nothing is hidden -- so the weight is on the correspondence. *)
From Coq Require Import Qcanon.
From Signalo Require Import Base.QR Base.Opt Base.Machine Base.ListX.
From Signalo Require Model.Mean Model.Median Model.Bounds Model.Convolve Model.Smooth Model.Classify
                     Model.MeanVar Model.Hampel Model.Wavelet.

Record machine := {
  St : Type;
  minit : list Q -> St;                                      (* Default / with_config(config) *)
  mstep : list Q -> St -> list Q -> option (St * list Q);    (* Filter::filter, None = panic *)
  mreset : list Q -> St -> St;                               (* Reset::reset *)
}.
Definition mclone (m : machine) (s : St m) : St m * St m := (s, s).       (* derived Clone *)
Definition mguts (m : machine) (s : St m) : St m := s.                   (* from_guts (into_guts s) *)

Definition qn (c : list Q) (k : nat) : Q := nth k c 0.
Definition natq (q : Q) : nat := Z.to_nat (Qnum (Qred q)).              (* width stored in the config *)
Definition x0 (i : list Q) : Q := nth 0 i 0.
Definition lift1 {S} (f : S -> Q -> S * Q) : S -> list Q -> option (S * list Q) :=
  fun s i => let '(s', y) := f s (x0 i) in Some (s', [y]).
Definition olift1 {S} (f : S -> Q -> option (S * Q)) : S -> list Q -> option (S * list Q) :=
  fun s i => '(s', y) <- f s (x0 i) ;; Some (s', [y]).
Definition b2q (b : bool) (off on : Q) : Q := if b then on else off.

(* ---- entries; `reset` transliterates the Rust impl: Self::default() / with_config(self.config) ---- *)
Definition m_mean : machine := {|
  minit := fun _ => Mean.init; mstep := fun c => lift1 (Mean.step rdiv (natq (qn c 0)) false);
  mreset := fun _ _ => Mean.init |}.
Definition m_mean_variance : machine := {|
  minit := fun _ => MeanVar.mvw_init;
  mstep := fun c s i => let '(s', (m, v)) := MeanVar.mvw_step (natq (qn c 0)) s (x0 i) in Some (s', [m; v]);
  mreset := fun _ _ => MeanVar.mvw_init |}.
Definition m_exp_mean : machine := {|
  minit := fun _ => (None : option Q); mstep := fun c => lift1 (Smooth.ema_step (qn c 0)); mreset := fun _ _ => None |}.
Definition m_exp_mean_variance : machine := {|
  minit := fun _ => MeanVar.mve_init;
  mstep := fun c s i => let '(s', (m, v)) := MeanVar.mve_step (qn c 0) s (x0 i) in Some (s', [m; v]);
  mreset := fun _ _ => MeanVar.mve_init |}.
Definition m_median : machine := {|
  minit := fun c => Median.init (natq (qn c 0)); mstep := fun _ => olift1 (Median.filter qleb);
  mreset := fun c _ => Median.init (natq (qn c 0)) |}.
Definition m_exp_median : machine := {|
  minit := fun _ => Smooth.xm_init;
  mstep := fun c => lift1 (Smooth.xm_step {| Smooth.xpre := qn c 0; Smooth.xmid := qn c 1; Smooth.xpost := qn c 2 |});
  mreset := fun _ _ => Smooth.xm_init |}.
Definition bn (c : list Q) : N := N.of_nat (natq (qn c 0)).
Definition m_max : machine := {|
  minit := fun _ => @Bounds.init Q; mstep := fun c => olift1 (Bounds.max_step qleb (bn c) Bounds.usize_max false);
  mreset := fun _ _ => Bounds.init |}.
Definition m_min : machine := {|
  minit := fun _ => @Bounds.init Q; mstep := fun c => olift1 (Bounds.min_step qleb (bn c) Bounds.usize_max false);
  mreset := fun _ _ => Bounds.init |}.
Definition m_bounds : machine := {|
  minit := fun _ => (@Bounds.init Q, @Bounds.init Q);
  mstep := fun c s i => '(s', (lo, hi)) <- Bounds.bounds_step qleb (bn c) Bounds.usize_max false s (x0 i) ;; Some (s', [lo; hi]);
  mreset := fun _ _ => (Bounds.init, Bounds.init) |}.
(* classifiers: config = thresholds ++ [off; on] *)
Definition m_threshold : machine := {|
  minit := fun _ => tt; mstep := fun c => lift1 (Classify.thr_step qleb (qn c 0) (qn c 1, qn c 2));
  mreset := fun _ s => s |}.                                               (* Threshold::reset returns self *)
Definition m_schmitt : machine := {|
  minit := fun _ => false; mstep := fun c => lift1 (Classify.schmitt_step qleb (qn c 0) (qn c 1) (qn c 2, qn c 3));
  mreset := fun _ _ => false |}.
Definition m_debounce : machine := {|
  minit := fun _ => 0%N;
  mstep := fun c => lift1 (Classify.deb_step qeqb Bounds.usize_max (N.of_nat (natq (qn c 0))) (qn c 1) (qn c 2, qn c 3));
  mreset := fun _ _ => 0%N |}.
Definition qcmp (a b : Q) : option comparison := Some (Qcompare a b).
Definition sidx (s : Classify.slope) : Q := match s with Classify.Rising => 0 | Classify.Flat => 1 | Classify.Falling => 2 end.
Definition pidx (p : Classify.peak) : Q := match p with Classify.PMax => 0 | Classify.PNone => 1 | Classify.PMin => 2 end.
Definition m_slopes : machine := {|
  minit := fun _ => (None : option Q);
  mstep := fun _ s i => let '(s', o) := Classify.slopes_step qcmp s (x0 i) in Some (s', [sidx o]);
  mreset := fun _ _ => None |}.
Definition m_peaks : machine := {|
  minit := fun _ => ((None, None) : option Q * option Classify.slope);
  mstep := fun _ s i => let '(s', o) := Classify.peaks_step qcmp s (x0 i) in Some (s', [pidx o]);
  mreset := fun _ _ => (None, None) |}.
(* Peaks<Slope, U>: the slope-driven Filter impl (input 0/1/2 = Rising/None/Falling); reset = with_config *)
Definition to_slope (q : Q) : Classify.slope := if qeqb q 0 then Classify.Rising else if qeqb q 2 then Classify.Falling else Classify.Flat.
Definition m_peaks_slopes : machine := {|
  minit := fun _ => (None : option Classify.slope);
  mstep := fun _ s i => let '(s', o) := Classify.peaks_slope_step s (to_slope (x0 i)) in Some (s', [pidx o]);
  mreset := fun _ _ => None |}.
Definition m_convolve : machine := {|
  minit := fun _ => ([] : list Q); mstep := fun c => olift1 (Convolve.conv_step (length c) c);
  mreset := fun _ _ => [] |}.
Definition m_delay : machine := {|
  minit := fun _ => ([] : list Q); mstep := fun c => olift1 (Convolve.delay_step (natq (qn c 0)));
  mreset := fun _ _ => [] |}.
Definition m_differentiate : machine := {|
  minit := fun _ => (None : option Q); mstep := fun _ => lift1 Smooth.diff_step; mreset := fun _ _ => None |}.
Definition m_integrate : machine := {|
  minit := fun _ => 0; mstep := fun _ => lift1 Smooth.int_step; mreset := fun _ _ => 0 |}.
Definition m_hampel : machine := {|
  minit := fun c => @Median.init Qc (natq (qn c 0));
  mstep := fun c s i => '(s', y) <- Hampel.hampel_step (Q2Qc (qn c 1)) s (Q2Qc (x0 i)) ;; Some (s', [this y]);
  mreset := fun c _ => Median.init (natq (qn c 0)) |}.
Definition m_alpha_beta : machine := {|
  minit := fun _ => Smooth.ab_init; mstep := fun c => lift1 (Smooth.ab_step (qn c 0) (qn c 1));
  mreset := fun _ _ => Smooth.ab_init |}.
Definition kcfg (c : list Q) := {| Smooth.kr := qn c 0; Smooth.kq := qn c 1; Smooth.ka := qn c 2; Smooth.kb := qn c 3; Smooth.kc := qn c 4 |}.
Definition m_kalman : machine := {|
  minit := fun _ => Smooth.k_init; mstep := fun c => olift1 (Smooth.k_filter (kcfg c)); mreset := fun _ _ => Smooth.k_init |}.
(* wavelet pair: config = low ++ high; reset = with_config(self.config()), the config being reassembled
   from the two inner convolutions' configs *)
Definition half1 (c : list Q) := firstn (length c / 2) c.
Definition half2 (c : list Q) := skipn (length c / 2) c.
Definition m_analyze : machine := {|
  minit := fun _ => (([], []) : list Q * list Q);
  mstep := fun c s i => '(s', (l, h)) <- Wavelet.ana_step (length c / 2) (half1 c) (half2 c) s (x0 i) ;; Some (s', [l; h]);
  mreset := fun c _ => let c' := half1 c ++ half2 c in ([], []) |}.
Definition m_synthesize : machine := {|
  minit := fun _ => (([], []) : list Q * list Q);
  mstep := fun c s i => '(s', y) <- Wavelet.syn_step (length c / 2) (half1 c) (half2 c) s (nth 0 i 0, nth 1 i 0) ;; Some (s', [y]);
  mreset := fun _ _ => ([], []) |}.

(* wrappers over an arbitrary inner machine: Cache remembers the last output (cached()), reset resets the
   inner filter and clears the cache; UnitSystem maps the inner filter over the unit-less value *)
Definition m_cache (m : machine) : machine := {|
  St := St m * option (list Q);
  minit := fun c => (minit m c, None);
  mstep := fun c s i => '(s', o) <- mstep m c (fst s) i ;; Some ((s', Some o), o);
  mreset := fun c s => (mreset m c (fst s), None) |}.
Definition cached {m} (s : St (m_cache m)) : option (list Q) := snd s.
Definition m_unit (m : machine) : machine := {|
  St := St m; minit := minit m; mstep := mstep m; mreset := mreset m |}.

(* identity machine: what a unit-preserving SOURCE wrapper must be on the unit-less values *)
Definition m_id : machine := {| minit := fun _ => tt; mstep := fun _ s i => Some (s, i); mreset := fun _ s => s |}.

Definition registry : list machine :=
  [m_mean; m_mean_variance; m_exp_mean; m_exp_mean_variance; m_median; m_exp_median; m_max; m_min; m_bounds;
   m_threshold; m_schmitt; m_debounce; m_slopes; m_peaks; m_convolve; m_delay; m_differentiate; m_integrate;
   m_hampel; m_alpha_beta; m_kalman; m_analyze; m_synthesize;
   m_cache m_integrate; m_cache m_median; m_unit m_integrate; m_id; m_peaks_slopes].
