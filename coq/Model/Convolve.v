(* Models of signalo_filters::convolve::Convolve<T, N> (convolve.rs:46-57, 134-147) and
   delay::Delay<T, N> (delay.rs:96-100).  `loop { if push_back(x).is_some() { break } }` is recursion
   on fuel; running out of fuel (None) cannot happen with fuel N+1 (theorem fill_total). *)
From Signalo Require Export Base.QR Base.ListX Base.Opt Base.Machine.

(* push the input until the ring evicts something: new taps and the (last) evicted element *)
Fixpoint fill {A} (fuel n : nat) (taps : list A) (x : A) : option (list A * A) :=
  match fuel with
  | O => None
  | S f => match push_back n taps x with
           | (t', Some e) => Some (t', e)
           | (t', None) => fill f n t' x
           end
  end.

Definition conv_sum (taps coeffs : list Q) : Q :=
  fold_left (fun sum sc => radd sum (rmul (fst sc) (snd sc))) (combine taps (rev coeffs)) 0.

Definition conv_step (n : nat) (coeffs : list Q) (taps : list Q) (x : Q) : option (list Q * Q) :=
  '(t, _) <- fill (S n) n taps x ;; Some (t, conv_sum t coeffs).

Definition delay_step {A} (n : nat) (taps : list A) (x : A) : option (list A * A) := fill (S n) n taps x.

(* Convolve::normalized: divide by the coefficient sum unless it is zero *)
Definition coeff_sum (coeffs : list Q) : Q := fold_left radd coeffs 0.
Definition normalized (coeffs : list Q) : list Q :=
  let s := coeff_sum coeffs in if Qeq_bool s 0 then coeffs else map (fun c => rdiv c s) coeffs.
