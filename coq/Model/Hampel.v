(* Model of signalo_filters::hampel::Hampel<T, N> (hampel.rs:55-81) on top of Model/Median.v.
   Samples are canonical rationals Qc (Leibniz equality = numeric equality, so the order is a total
   order in the sense of Spec/C02.v).  The window statistics are read BEFORE the sample is fed to
   the median filter; `max()` is whatever the accessor returns (see C17). *)
From Coq Require Export QArith Qcanon Qcabs.
From Signalo Require Export Model.Median Base.Opt.

Definition qcleb (a b : Qc) : bool := Qle_bool a b.
Definition qcltb (a b : Qc) : bool := negb (Qle_bool b a).
Definition mad_factor : Qc := Q2Qc (14826 # 10000).

Definition hampel_step (threshold : Qc) (s : mstate Qc) (x : Qc) : option (mstate Qc * Qc) :=
  amin <- acc_min s ;; amed <- acc_median s ;; amax <- acc_max s ;;
  let mn := match amin with Some v => v | None => x end in
  let med := match amed with Some v => v | None => x end in
  let mx := match amax with Some v => v | None => x end in
  '(s', _) <- Median.filter qcleb s x ;;
  let min_dev := Qcabs (med - mn)%Qc in
  let max_dev := Qcabs (mx - med)%Qc in
  let mad := if qcltb min_dev max_dev then max_dev else min_dev in
  let std_dev := (mad * mad_factor)%Qc in
  let dev := Qcabs (x - med)%Qc in
  let thr := (std_dev * threshold)%Qc in
  Some (s', if qcltb thr dev then med else x).
