(* The arithmetic filters once more, written over an arbitrary sample arithmetic (Base/Arith.v) exactly as the
   Rust code is written over `T: Num`: same operations in the same order and association, so that the
   instance at IEEE floats can be compared bit for bit with the f64/f32 instantiations of the real code
   and the instance at Z with the integer instantiations.  Proofs/Generic.v shows that the instance at the
   rationals IS the model the theorems are about (step by step, by computation). *)
From Coq Require Import ZArith.
From Signalo Require Export Base.Arith Base.ListX Base.Opt Base.Machine.
From Signalo Require Import Model.Convolve Model.Median.

Section Generic.
Context {T : Type} (A : arith T).
Local Notation "x +' y" := (aadd A x y) (at level 50, left associativity).
Local Notation "x -' y" := (asub A x y) (at level 50, left associativity).
Local Notation "x *' y" := (amul A x y) (at level 40, left associativity).
Local Notation zero := (azero A).

(* ---- differentiate.rs, integrate.rs ---- *)
Definition g_diff_step (s : option T) (x : T) : option T * T :=
  (Some x, match s with None => zero | Some p => x -' p end).
Definition g_int_step (s : T) (x : T) : T * T := let v := s +' x in (v, v).

(* ---- mean/exp/mean.rs ---- *)
Definition g_ema_step (w : T) (s : option T) (x : T) : option T * T :=
  let m := match s with None => x | Some y => y +' ((x -' y) *' w) end in (Some m, m).

(* ---- median/exp.rs : state = (mean_pre, mean_post, median) ---- *)
Definition g_xm_step (pre mid post : T) (s : option T * option T * option T) (x : T)
  : (option T * option T * option T) * T :=
  let '(sp, so, sm) := s in
  let '(pre', mean) := g_ema_step pre sp x in
  let med := match sm with None => mean | Some st => st +' ((mean -' st) *' mid) end in
  let '(post', out) := g_ema_step post so med in
  ((pre', post', Some out), out).

(* ---- observe/alpha_beta.rs : state = (velocity, value) ---- *)
Definition g_ab_step (alpha beta : T) (s : T * option T) (x : T) : (T * option T) * T :=
  match snd s with
  | None => ((fst s, Some x), x)
  | Some st =>
      let st1 := st +' fst s in
      let r := x -' st1 in
      let st2 := st1 +' (alpha *' r) in
      let v2 := fst s +' (beta *' r) in
      ((v2, Some st2), st2)
  end.

(* ---- observe/kalman.rs : config (r,q,a,b,c), state = (cov, value); None = the division panics ---- *)
Definition g_k_process (r q a b c : T) (s : T * option T) (zu : T * T) : option ((T * option T) * T) :=
  let '(z, u) := zu in
  let c2 := c *' c in
  '(v, p) <- match snd s with
             | None => v <- acdiv A z c ;; p <- acdiv A q c2 ;; Some (v, p)
             | Some x =>
                 let pred_state := (a *' x) +' (b *' u) in
                 let pred_cov := ((a *' fst s) *' a) +' r in
                 gain <- acdiv A (pred_cov *' c) ((pred_cov *' c2) +' q) ;;
                 let v := pred_state +' (gain *' (z -' (c *' pred_state))) in
                 let p := pred_cov -' ((gain *' c) *' pred_cov) in
                 Some (v, p)
             end ;;
  Some ((p, Some v), v).

(* ---- mean/mean.rs : state = (sum, taps, weight) ---- *)
Definition g_mean_step (N : nat) (s : option T * list T * T) (x : T) : (option T * list T * T) * T :=
  let '(sm, taps, weight) := s in
  let old_mean := match sm with Some m => m | None => zero end in
  let '(taps', ev) := push_back N taps x in
  let '(m, w) := match ev with
                 | Some o => ((old_mean -' o) +' x, weight)
                 | None => (old_mean +' x, weight +' aone A)
                 end in
  ((Some m, taps', w), adiv A m w).
Definition g_mean_init : option T * list T * T := (None, [], zero).

(* ---- mean/mean_variance.rs, mean/exp/mean_variance.rs ---- *)
Definition g_mvw_step (N : nat) (s : (option T * list T * T) * (option T * list T * T)) (x : T) :=
  let mean_old := match fst (fst (fst s)) with Some m => m | None => x end in
  let '(sm, mean) := g_mean_step N (fst s) x in
  let dev_old := aabs A (x -' mean_old) in
  let dev_new := aabs A (x -' mean) in
  let sq := dev_old *' dev_new in
  let '(sv, var) := g_mean_step N (snd s) sq in
  ((sm, sv), (mean, var)).
Definition g_mve_step (w : T) (s : option T * option T) (x : T) : (option T * option T) * (T * T) :=
  let mean_old := match fst s with Some m => m | None => x end in
  let '(sm, mean) := g_ema_step w (fst s) x in
  let dev_old := aabs A (x -' mean_old) in
  let dev_new := aabs A (x -' mean) in
  let sq := dev_old *' dev_new in
  let '(sv, var) := g_ema_step w (snd s) sq in
  ((sm, sv), (mean, var)).

(* ---- convolve.rs, wavelet/{analyze,synthesize}.rs ---- *)
Definition g_conv_sum (taps coeffs : list T) : T :=
  fold_left (fun sum sc => sum +' (fst sc *' snd sc)) (combine taps (rev coeffs)) zero.
Definition g_conv_step (n : nat) (coeffs : list T) (taps : list T) (x : T) : option (list T * T) :=
  '(t, _) <- fill (S n) n taps x ;; Some (t, g_conv_sum t coeffs).
Definition g_normalized (coeffs : list T) : list T :=
  let s := fold_left (aadd A) coeffs zero in if aiszero A s then coeffs else map (fun c => adiv A c s) coeffs.
Definition g_ana_step (n : nat) (low high : list T) (s : list T * list T) (x : T)
  : option ((list T * list T) * (T * T)) :=
  '(tl', l) <- g_conv_step n low (fst s) x ;;
  '(th', h) <- g_conv_step n high (snd s) x ;;
  Some ((tl', th'), (l, h)).
Definition g_syn_step (n : nat) (low high : list T) (s : list T * list T) (lh : T * T)
  : option ((list T * list T) * T) :=
  '(tl', l) <- g_conv_step n low (fst s) (fst lh) ;;
  '(th', h) <- g_conv_step n high (snd s) (snd lh) ;;
  Some ((tl', th'), l +' h).

(* ---- freshly constructed states (Default::default / WithConfig::with_config), in the tuple shapes used above ---- *)
Definition g_diff_init : option T := None.
Definition g_int_init : T := zero.
Definition g_ema_init : option T := None.
Definition g_xm_init : option T * option T * option T := (None, None, None).
Definition g_ab_init : T * option T := (zero, None).
Definition g_k_init : T * option T := (zero, None).
Definition g_mvw_init : (option T * list T * T) * (option T * list T * T) := (g_mean_init, g_mean_init).
Definition g_mve_init : option T * option T := (None, None).
Definition g_conv_init : list T := [].
Definition g_wav_init : list T * list T := ([], []).

(* ---- sinks: integrate.rs, mean.rs, mean_variance.rs ---- *)
Definition g_sum_step (s : option T) (x : T) : option T * T :=
  let v := (match s with Some v => v | None => zero end) +' x in (Some v, v).
Definition g_smean_step (s : option (T * T)) (x : T) : option (T * T) * T :=
  let '(c, m) := match s with Some cm => cm | None => (zero, zero) end in
  let c' := c +' aone A in
  let m' := m +' adiv A (x -' m) c' in
  (Some (c', m'), m').
Definition g_smv_step (s : option (T * T * T)) (x : T) : option (T * T * T) * (T * T) :=
  let '(c, m, v) := match s with Some s => s | None => (zero, zero, zero) end in
  let c' := c +' aone A in
  let m' := m +' adiv A (x -' m) c' in
  let old_delta := x -' m in
  let delta := x -' m' in
  let v' := v +' (old_delta *' delta) in
  (Some (c', m', v'), (m', v')).
Definition g_smv_fin (s : option (T * T * T)) : option (T * T) :=
  match s with
  | Some (c, m, v) => Some (m, if altb A (aone A) c then adiv A v (c -' aone A) else v)
  | None => None
  end.

(* ---- sinks: min.rs, max.rs (`&input < min`, `&input > max`) ---- *)
Definition g_smin_step (s : option T) (x : T) : option T * T :=
  let m := match s with Some m => if altb A x m then x else m | None => x end in (Some m, m).
Definition g_smax_step (s : option T) (x : T) : option T * T :=
  let m := match s with Some m => if altb A m x then x else m | None => x end in (Some m, m).

(* ---- sinks: bounds.rs, statistics.rs, mean.rs (finalize), last.rs, collect.rs ---- *)
Definition g_sbounds_step (s : option T * option T) (x : T) : (option T * option T) * (T * T) :=
  let '(smin, lo) := g_smin_step (fst s) x in let '(smax, hi) := g_smax_step (snd s) x in ((smin, smax), (lo, hi)).
Definition g_sbounds_fin (s : option T * option T) : option (T * T) :=
  match s with (Some lo, Some hi) => Some (lo, hi) | _ => None end.
Definition g_stat_step (s : (option T * option T) * option (T * T * T)) (x : T) :=
  let '(sb, (lo, hi)) := g_sbounds_step (fst s) x in
  let '(sm, (m, v)) := g_smv_step (snd s) x in ((sb, sm), (lo, hi, m, v)).
Definition g_stat_fin (s : (option T * option T) * option (T * T * T)) : option (T * T * T * T) :=
  match g_sbounds_fin (fst s), g_smv_fin (snd s) with
  | Some (lo, hi), Some (m, v) => Some (lo, hi, m, v)
  | _, _ => None
  end.
Definition g_smean_fin (s : option (T * T)) : option T := match s with Some (_, m) => Some m | None => None end.
Definition g_last_sink (s : option T) (x : T) : option T := Some x.
Definition g_collect_step (s : list T) (x : T) : list T * list T := (s ++ [x], s ++ [x]).

(* ---- classify/schmitt.rs: `input >= thresholds[0]` when on, `input > thresholds[1]` when off ---- *)
Definition g_schmitt_next (lo hi : T) (on : bool) (x : T) : bool := if on then aleb A lo x else altb A hi x.
Definition g_schmitt_step {U} (lo hi : T) (outs : U * U) (on : bool) (x : T) : bool * U :=
  let on' := g_schmitt_next lo hi on x in (on', if on' then snd outs else fst outs).

(* ---- hampel.rs: filter_internal(input, factor) on top of the median filter ---- *)
Definition g_hampel_step (factor threshold : T) (s : mstate T) (x : T) : option (mstate T * T) :=
  amin <- acc_min s ;; amed <- acc_median s ;; amax <- acc_max s ;;
  let mn := match amin with Some v => v | None => x end in
  let med := match amed with Some v => v | None => x end in
  let mx := match amax with Some v => v | None => x end in
  '(s', _) <- Median.filter (aleb A) s x ;;
  let min_dev := aabs A (med -' mn) in
  let max_dev := aabs A (mx -' med) in
  let mad := if altb A min_dev max_dev then max_dev else min_dev in
  let std_dev := mad *' factor in
  let dev := aabs A (x -' med) in
  let thr := std_dev *' threshold in
  Some (s', if altb A thr dev then med else x).
End Generic.
