(* Model of the source adapters of signalo_sources (crates/sources/src/*.rs) over i64 samples.
   [src] is a deep embedding whose constructors are the adapters' RUN-TIME states; [pull]
   transliterates each `Source::source`.  Skip::source pulls the successor state of its inner
   source in a loop and the pads re-enter themselves after a phase change, so [pull] is not
   structurally recursive on the state: it recurses on fuel (None = out of fuel); the fuel that
   always suffices is [height] (run-time states never grow).
   [old = true] transliterates the edge pad before the C10 repair. *)
From Coq Require Export ZArith List Bool Lia.
From Signalo Require Export Base.Opt.
Export ListNotations.

Inductive cphase := CFront | CInner | CBack.
(* edge pad: Front carries the first value and the remaining front copies, Back the last value
   and the remaining back copies *)
Inductive ephase := Before | Front (first : Z) (rep : nat) | Inner (last : Z) | Back (last : Z) (rep : nat) | After.

Inductive src :=
| FromList (l : list Z)                                  (* FromIter over a (fused) iterator *)
| Chain (front back : src) (in_back : bool)
| Take (inner : src) (count : nat)
| Skip (inner : src) (count : nat)
| Cycle (orig cur : src)
| Constant (v : Z)
| Repeat (v : Z) (count : nat)                           (* Take<Constant> *)
| Increment (state interval : Z)
| PadConst (inner : src) (v : Z) (front back : nat) (ph : cphase)
| PadEdge (inner : src) (count : nat) (ph : ephase)
| Peek (inner : src) (peeked : option (option Z))
| Cache (inner : src) (cached : option Z)
| RoundTrip (inner : src).                               (* FromIter::from(IntoIter::from(inner)) *)

Fixpoint height (s : src) : nat :=
  match s with
  | FromList _ | Constant _ | Repeat _ _ | Increment _ _ => 1
  | Chain f b _ => S (Nat.max (height f) (height b))
  | Take i _ | Skip i _ | Peek i _ | Cache i _ | RoundTrip i => S (height i)
  | Cycle o c => S (Nat.max (height o) (height c))
  | PadConst i _ _ _ _ => 3 + height i
  | PadEdge i _ _ => S (height i)
  end.

Section Pull.
Variable old : bool.

Fixpoint pull (fuel : nat) (s : src) : option (option Z * src) :=
  match fuel with
  | 0 => None
  | S fuel' =>
    match s with
    | FromList [] => Some (None, s)
    | FromList (x :: r) => Some (Some x, FromList r)
    | Chain f b false =>
        '(o, f') <- pull fuel' f ;;
        match o with
        | Some v => Some (Some v, Chain f' b false)
        | None => '(o2, b') <- pull fuel' b ;; Some (o2, Chain f' b' true)
        end
    | Chain f b true => '(o, b') <- pull fuel' b ;; Some (o, Chain f b' true)
    | Take i 0 => Some (None, s)
    | Take i (S c) => '(o, i') <- pull fuel' i ;; Some (o, Take i' c)
    | Skip i c =>
        (* while count > 0 && inner.source().is_some() { count -= 1 } *)
        i1 <- (fix loop (c : nat) (i : src) : option src :=
                 match c with
                 | 0 => Some i
                 | S c' => '(o, i') <- pull fuel' i ;;
                           match o with Some _ => loop c' i' | None => Some i' end
                 end) c i ;;
        '(o, i2) <- pull fuel' i1 ;; Some (o, Skip i2 0)
    | Cycle orig cur =>
        '(o, cur') <- pull fuel' cur ;;
        match o with
        | None => '(o2, c2) <- pull fuel' orig ;; Some (o2, Cycle orig c2)
        | Some v => Some (Some v, Cycle orig cur')
        end
    | Constant v => Some (Some v, s)
    | Repeat v 0 => Some (None, s)
    | Repeat v (S c) => Some (Some v, Repeat v c)
    | Increment st d => Some (Some st, Increment (st + d) d)
    | PadConst i v f b CFront =>
        match f with
        | S f' => Some (Some v, PadConst i v f' b CFront)
        | 0 => pull fuel' (PadConst i v 0 b CInner)
        end
    | PadConst i v f b CInner =>
        '(o, i') <- pull fuel' i ;;
        match o with
        | Some x => Some (Some x, PadConst i' v f b CInner)
        | None => pull fuel' (PadConst i' v f b CBack)
        end
    | PadConst i v f b CBack =>
        match b with
        | S b' => Some (Some v, PadConst i v f b' CBack)
        | 0 => Some (None, s)
        end
    | PadEdge i c Before =>
        '(o, i') <- pull fuel' i ;;
        match o with
        | Some v => Some (Some v, PadEdge i' c (Front v c))
        | None => Some (None, PadEdge i' c After)
        end
    | PadEdge i c (Front first (S r)) => Some (Some first, PadEdge i c (Front first r))
    | PadEdge i c (Front first 0) =>
        '(o, i') <- pull fuel' i ;;
        match o with
        | Some v => Some (Some v, PadEdge i' c (Inner v))
        | None =>
            if old then Some (None, PadEdge i' c After)
            else match c with
                 | S c' => Some (Some first, PadEdge i' c (Back first c'))
                 | 0 => Some (None, PadEdge i' c (Back first 0))
                 end
        end
    | PadEdge i c (Inner last) =>
        '(o, i') <- pull fuel' i ;;
        match o with
        | Some v => Some (Some v, PadEdge i' c (Inner v))
        | None =>
            if old then Some (Some last, PadEdge i' c (Back last (c - 1)))
            else match c with
                 | S c' => Some (Some last, PadEdge i' c (Back last c'))
                 | 0 => Some (None, PadEdge i' c (Back last 0))
                 end
        end
    | PadEdge i c (Back last (S r)) => Some (Some last, PadEdge i c (Back last r))
    | PadEdge i c (Back last 0) => Some (None, PadEdge i c After)
    | PadEdge i c After => Some (None, s)
    | Peek i (Some o) => Some (o, Peek i None)
    | Peek i None => '(o, i') <- pull fuel' i ;; Some (o, Peek i' None)
    | Cache i _ => '(o, i') <- pull fuel' i ;; Some (o, Cache i' o)
    | RoundTrip i => '(o, i') <- pull fuel' i ;; Some (o, RoundTrip i')
    end
  end.

(* Peek::peek on the root *)
Definition peek (fuel : nat) (s : src) : option (option Z * src) :=
  match s with
  | Peek i None => '(o, i') <- pull fuel i ;; Some (o, Peek i' (Some o))
  | Peek i (Some o) => Some (o, s)
  | _ => None
  end.
(* Cache::cached on the root *)
Definition cached (s : src) : option (option Z) :=
  match s with Cache _ c => Some c | _ => None end.

(* operations a client can perform on the root *)
Inductive op := OPull | OPeek | OCached.
Fixpoint run_ops (s : src) (ops : list op) : option (list (option Z)) :=
  match ops with
  | [] => Some []
  | o :: r =>
      '(res, s') <- match o with
                    | OPull => pull (height s) s
                    | OPeek => peek (height s) s
                    | OCached => c <- cached s ;; Some (c, s)
                    end ;;
      rest <- run_ops s' r ;; Some (res :: rest)
  end.
(* the same, also returning the final state (to observe how much of each leaf was consumed) *)
Fixpoint run_ops_state (s : src) (ops : list op) : option (list (option Z) * src) :=
  match ops with
  | [] => Some ([], s)
  | o :: r =>
      '(res, s') <- match o with
                    | OPull => pull (height s) s
                    | OPeek => peek (height s) s
                    | OCached => c <- cached s ;; Some (c, s)
                    end ;;
      '(rest, sf) <- run_ops_state s' r ;; Some (res :: rest, sf)
  end.
End Pull.

(* remaining items of every list leaf, in expression order *)
Fixpoint leaf_lens (s : src) : list nat :=
  match s with
  | FromList l => [length l]
  | Chain f b _ => leaf_lens f ++ leaf_lens b
  | Cycle o c => leaf_lens o ++ leaf_lens c
  | Take i _ | Skip i _ | Peek i _ | Cache i _ | RoundTrip i | PadConst i _ _ _ _ | PadEdge i _ _ => leaf_lens i
  | Constant _ | Repeat _ _ | Increment _ _ => []
  end.

(* ---- expressions as a user writes them, and their initial run-time state ---- *)
Inductive expr :=
| EList (l : list Z) | EChain (a b : expr) | ETake (e : expr) (n : nat) | ESkip (e : expr) (n : nat)
| ECycle (e : expr) | EConstant (v : Z) | ERepeat (v : Z) (n : nat) | EIncrement (start step : Z)
| EPadConst (e : expr) (v : Z) (c : nat) | EPadEdge (e : expr) (c : nat)
| EPeek (e : expr) | ECache (e : expr) | ERoundTrip (e : expr).

Fixpoint init (e : expr) : src :=
  match e with
  | EList l => FromList l
  | EChain a b => Chain (init a) (init b) false
  | ETake e n => Take (init e) n
  | ESkip e n => Skip (init e) n
  | ECycle e => Cycle (init e) (init e)
  | EConstant v => Constant v
  | ERepeat v n => Repeat v n
  | EIncrement a d => Increment a d
  | EPadConst e v c => PadConst (init e) v c c CFront
  | EPadEdge e c => PadEdge (init e) c Before
  | EPeek e => Peek (init e) None
  | ECache e => Cache (init e) None
  | ERoundTrip e => RoundTrip (init e)
  end.
