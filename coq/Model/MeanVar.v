(* Models of signalo_filters::mean::mean_variance::MeanVariance<T,N> (mean_variance.rs:121-138) and
   mean::exp::mean_variance::MeanVariance<T> (exp/mean_variance.rs:136-153).  Both read the inner
   mean filter's `state.mean` as "the previous mean" -- for the sliding-window filter that field
   is the running SUM of the window (see Model/Mean.v), which is transliterated as it is. *)
From Signalo Require Export Model.Mean Model.Smooth.

(* ---- sliding window ---- *)
Record mvst := { mv_mean : Mean.st; mv_var : Mean.st }.
Definition mvw_init : mvst := {| mv_mean := Mean.init; mv_var := Mean.init |}.
Definition mvw_step (N : nat) (s : mvst) (x : Q) : mvst * (Q * Q) :=
  let mean_old := match Mean.mean (mv_mean s) with Some m => m | None => x end in
  let '(sm, mean) := Mean.step rdiv N false (mv_mean s) x in
  let dev_old := rabs (rsub x mean_old) in
  let dev_new := rabs (rsub x mean) in
  let sq := rmul dev_old dev_new in
  let '(sv, var) := Mean.step rdiv N false (mv_var s) sq in
  ({| mv_mean := sm; mv_var := sv |}, (mean, var)).

(* ---- exponential ---- *)
Definition mve_init : option Q * option Q := (None, None).
Definition mve_step (w : Q) (s : option Q * option Q) (x : Q) : (option Q * option Q) * (Q * Q) :=
  let mean_old := match fst s with Some m => m | None => x end in
  let '(sm, mean) := ema_step w (fst s) x in
  let dev_old := rabs (rsub x mean_old) in
  let dev_new := rabs (rsub x mean) in
  let sq := rmul dev_old dev_new in
  let '(sv, var) := ema_step w (snd s) sq in
  ((sm, sv), (mean, var)).
