(* Models of the recursive smoothers over exact rationals:
   signalo_filters::differentiate::Differentiate, integrate::Integrate,
   mean::exp::mean::Mean (EMA), median::exp::Median, observe::alpha_beta::AlphaBeta,
   observe::kalman::Kalman.  States as in the Rust structs. *)
From Signalo Require Export Base.QR Base.Opt Base.Machine.

(* ---- differentiate.rs:81-88, integrate.rs:87-91 ---- *)
Definition diff_step (s : option Q) (x : Q) : option Q * Q :=
  (Some x, match s with None => 0 | Some p => rsub x p end).
Definition int_step (s : Q) (x : Q) : Q * Q := let v := radd s x in (v, v).

(* ---- mean/exp/mean.rs:114-124 : state = previous output ---- *)
Definition ema_step (w : Q) (s : option Q) (x : Q) : option Q * Q :=
  let m := match s with None => x | Some y => radd y (rmul (rsub x y) w) end in (Some m, m).

(* ---- median/exp.rs:135-150 ---- *)
Record xm_cfg := { xpre : Q; xmid : Q; xpost : Q }.
Record xm_st := { mean_pre : option Q; mean_post : option Q; xmedian : option Q }.
Definition xm_init : xm_st := {| mean_pre := None; mean_post := None; xmedian := None |}.
Definition xm_step (c : xm_cfg) (s : xm_st) (x : Q) : xm_st * Q :=
  let '(pre', mean) := ema_step (xpre c) (mean_pre s) x in
  let med := match xmedian s with None => mean | Some st => radd st (rmul (rsub mean st) (xmid c)) end in
  let '(post', out) := ema_step (xpost c) (mean_post s) med in
  ({| mean_pre := pre'; mean_post := post'; xmedian := Some out |}, out).

(* ---- observe/alpha_beta.rs:131-150 ---- *)
Record ab_st := { velocity : Q; abvalue : option Q }.
Definition ab_init : ab_st := {| velocity := 0; abvalue := None |}.
Definition ab_step (alpha beta : Q) (s : ab_st) (x : Q) : ab_st * Q :=
  match abvalue s with
  | None => ({| velocity := velocity s; abvalue := Some x |}, x)
  | Some st =>
      let st1 := radd st (velocity s) in
      let r := rsub x st1 in
      let st2 := radd st1 (rmul alpha r) in
      let v2 := radd (velocity s) (rmul beta r) in
      ({| velocity := v2; abvalue := Some st2 |}, st2)
  end.

(* ---- observe/kalman.rs:66-104 ; division by zero panics (None) ---- *)
Record k_cfg := { kr : Q; kq : Q; ka : Q; kb : Q; kc : Q }.
Record k_st := { cov : Q; kvalue : option Q }.
Definition k_init : k_st := {| cov := 0; kvalue := None |}.
Definition cdiv (a b : Q) : option Q := if Qeq_bool b 0 then None else Some (rdiv a b).
Definition k_process (c : k_cfg) (s : k_st) (zu : Q * Q) : option (k_st * Q) :=
  let '(z, u) := zu in
  let c2 := rmul (kc c) (kc c) in
  '(v, p) <- match kvalue s with
             | None => v <- cdiv z (kc c) ;; p <- cdiv (kq c) c2 ;; Some (v, p)
             | Some x =>
                 let pred_state := radd (rmul (ka c) x) (rmul (kb c) u) in
                 let pred_cov := radd (rmul (rmul (ka c) (cov s)) (ka c)) (kr c) in
                 gain <- cdiv (rmul pred_cov (kc c)) (radd (rmul pred_cov c2) (kq c)) ;;
                 let v := radd pred_state (rmul gain (rsub z (rmul (kc c) pred_state))) in
                 let p := rsub pred_cov (rmul (rmul gain (kc c)) pred_cov) in
                 Some (v, p)
             end ;;
  Some ({| cov := p; kvalue := Some v |}, v).
(* the two Filter impls: plain measurement, and (measurement, control) *)
Definition k_filter (c : k_cfg) (s : k_st) (z : Q) : option (k_st * Q) := k_process c s (z, 0).
Definition k_filter_ctl (c : k_cfg) (s : k_st) (zu : Q * Q) : option (k_st * Q) := k_process c s zu.
