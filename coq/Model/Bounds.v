(* Model of signalo_filters::bounds::{max::Max, min::Min, Bounds}<T, N>
   (crates/filters/src/bounds/max.rs, min.rs, bounds.rs): a monotonic deque of (value, timestamp)
   candidates and a usize clock with a rebase branch at usize::MAX.
   The clock is an N with word size [maxu]; + and - on it are checked (None = debug-build panic).
   [old = true] transliterates the code before the C04 repair (expiry test `t + N <= now`, which
   overflows near the end of the range, and rebase to `time = N`, which is off by one);
   [old = false] the repaired code (`now - t >= N`, rebase to `N + 1`). *)
From Coq Require Export NArith List Bool Lia.
From Signalo Require Export Base.Opt Base.ListX.
Export ListNotations.
Local Open Scope N_scope.

Section Bounds.
Variable T : Type.
Variable leb : T -> T -> bool.     (* `a <= b` of the sample type; `a > b` is read as negb (leb a b) *)
Variable n : N.                    (* window width (const generic N) *)
Variable maxu : N.                 (* usize::MAX *)

Record st := { time : N; taps : list (T * N) }.
Definition init : st := {| time := 0; taps := [] |}.

Definition cadd (a b : N) : option N := if a + b <=? maxu then Some (a + b) else None.
Definition csub (a b : N) : option N := if b <=? a then Some (a - b) else None.

(* while front().map_or(false, |(_, t)| <expired>) { pop_front } *)
Fixpoint expire (old : bool) (ct : N) (l : list (T * N)) : option (list (T * N)) :=
  match l with
  | [] => Some []
  | (v, t) :: r =>
      if old then (d <- cadd t n ;; if d <=? ct then expire old ct r else Some l)
      else (d <- csub ct t ;; if n <=? d then expire old ct r else Some l)
  end.

(* while back().map_or(false, |(v, _)| input > v) { pop_back }   -- on the reversed list *)
Fixpoint drop_dominated (x : T) (rl : list (T * N)) : list (T * N) :=
  match rl with
  | (v, t) :: r => if negb (leb x v) then drop_dominated x r else rl
  | [] => []
  end.

Fixpoint rebase (off : N) (l : list (T * N)) : option (list (T * N)) :=
  match l with
  | [] => Some []
  | (v, t) :: r => t' <- csub t off ;; r' <- rebase off r ;; Some ((v, t') :: r')
  end.

Definition step (old : bool) (s : st) (x : T) : option (st * T) :=
  let ct := time s in
  t1 <- expire old ct (taps s) ;;
  let t2 := rev (drop_dominated x (rev t1)) in
  let t3 := fst (push_back (N.to_nat n) t2 (x, ct)) in
  '(tm, t5) <- (if ct <? maxu then Some (ct + 1, t3)
                else off <- csub ct n ;;
                     t4 <- rebase off t3 ;;
                     tm <- (if old then Some n else cadd n 1) ;;
                     Some (tm, t4)) ;;
  match t5 with
  | (v, _) :: _ => Some ({| time := tm; taps := t5 |}, v)
  | [] => None                                    (* front().unwrap() *)
  end.
End Bounds.

Arguments time {T}. Arguments taps {T}. Arguments init {T}. Arguments step {T}.

(* Max uses the order as it is; Min is the same algorithm under the reversed order
   (`input < value` is `negb (leb value input)`); Bounds runs both on the same input. *)
Definition max_step {T} (leb : T -> T -> bool) := step leb.
Definition min_step {T} (leb : T -> T -> bool) := step (fun a b => leb b a).
Definition bounds_step {T} (leb : T -> T -> bool) (n maxu : N) (old : bool)
           (s : st T * st T) (x : T) : option ((st T * st T) * (T * T)) :=
  '(smin, lo) <- min_step leb n maxu old (fst s) x ;;
  '(smax, hi) <- max_step leb n maxu old (snd s) x ;;
  Some ((smin, smax), (lo, hi)).

Definition usize_max : N := 18446744073709551615.
