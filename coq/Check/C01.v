From Coq Require Import ZArith.
From Signalo Require Import Check.Common Model.Pipes.
Local Open Scope Z_scope.
(* Stage library of the harness (real signalo types wrapped in a logging probe):
   filters  0 Integrate<i64>  1 Differentiate<i64>  2 Delay<i64,2>  3 x -> 2x+1
   source   4 scripted source (state = remaining script; the value -999 stands for a `None` answer, so a
              source may report the end and deliver again later; an exhausted script answers None)
   sinks    5 Integrate sink (sum)  6 Max sink  7 Collect
   The world is the call log [(stage id, input)] (sources log -1). Stage state = list Z. *)
Definition Id := (nat * nat)%type.            (* (kind, identity) *)
Definition St := list Z.
Definition Wd := list (nat * Z).
Definition fstep (i : Id) (w : Wd) (s : St) (x : Z) : Wd * St * Z :=
  let w' := (snd i, x) :: w in          (* newest first; compared reversed (linear for long soak runs) *)
  match fst i with
  | 0%nat => let a := hd 0 s + x in (w', [a], a)
  | 1%nat => (w', [x], match s with [] => 0 | p :: _ => x - p end)
  | 2%nat => match s with [a; b] => (w', [b; x], a) | _ => (w', [x; x], x) end
  | _ => (w', s, 2 * x + 1)
  end.
Definition sstep (i : Id) (w : Wd) (s : St) : Wd * St * option Z :=
  let w' := (snd i, -1) :: w in
  match s with [] => (w', [], None) | x :: r => if x =? -999 then (w', r, None) else (w', r, Some x) end.
Definition kstep (i : Id) (w : Wd) (s : St) (x : Z) : Wd * St :=
  let w' := (snd i, x) :: w in
  match fst i with
  | 5%nat => (w', match s with [] => [x] | a :: _ => [a + x] end)
  | 6%nat => (w', match s with [] => [x] | a :: _ => [if a <? x then x else a] end)
  | _ => (w', s ++ [x])
  end.
Definition fin (i : Id) (s : St) : list Z := s.
Notation pipe := (pipe Id St).

(* mode 0 filter, 1 source (cxs = number of pulls as its length), 2 sink *)
Record case := mk { cmode : nat; cpipe : pipe; cxs : list Z; cys : list (option Z); clog : list (nat * Z);
                    cfin : list Z; cpanic : bool }.
Definition oz_eqb (a b : option Z) := opt_eqb Z.eqb a b.
Definition log_eqb (a b : nat * Z) := Nat.eqb (fst a) (fst b) && Z.eqb (snd a) (snd b).

Fixpoint run_tree (mode : nat) (w : Wd) (p : pipe) (xs : list Z) : Wd * pipe * list (option Z) :=
  match xs with
  | [] => (w, p, [])
  | x :: r =>
      match mode with
      | 0%nat => let '(w1, p1, y) := pfilter Id St Z Wd fstep w p x in
                 let '(w2, p2, ys) := run_tree mode w1 p1 r in (w2, p2, Some y :: ys)
      | 1%nat => let '(w1, p1, o) := psource Id St Z Wd fstep sstep w p in
                 let '(w2, p2, ys) := run_tree mode w1 p1 r in (w2, p2, o :: ys)
      | _ => let '(w1, p1) := psink Id St Z Wd fstep kstep w p x in
             let '(w2, p2, ys) := run_tree mode w1 p1 r in (w2, p2, ys)
      end
  end.
(* the flat reading, computed on the stage list alone *)
Fixpoint run_flat (mode : nat) (w : Wd) (ls : list (Id * St)) (xs : list Z) : Wd * list (Id * St) * list (option Z) :=
  match xs with
  | [] => (w, ls, [])
  | x :: r =>
      match mode with
      | 0%nat => let '(w1, l1, y) := chain Id St Z Wd fstep w ls x in
                 let '(w2, l2, ys) := run_flat mode w1 l1 r in (w2, l2, Some y :: ys)
      | 1%nat => match ls with
                 | (i, s) :: rest =>
                     let '(w1, s', o) := sstep i w s in
                     match o with
                     | None => let '(w2, l2, ys) := run_flat mode w1 ((i, s') :: rest) r in (w2, l2, None :: ys)
                     | Some v => let '(w1', rest', z) := chain Id St Z Wd fstep w1 rest v in
                                 let '(w2, l2, ys) := run_flat mode w1' ((i, s') :: rest') r in (w2, l2, Some z :: ys)
                     end
                 | [] => (w, ls, [])
                 end
      | _ => let front := removelast ls in
             match last ls ((0%nat, 0%nat), []) with
             | (i, s) => let '(w1, f1, y) := chain Id St Z Wd fstep w front x in
                         let '(w2, s') := kstep i w1 s y in
                         let '(w3, l3, ys) := run_flat mode w2 (f1 ++ [(i, s')]) r in (w3, l3, ys)
             end
      end
  end.
(* soak runs (more than 5000 samples) report only the LENGTH of the call log, as the single pair (length, 0) *)
Definition log_ok (c : case) (w : Wd) : bool :=
  if (5000 <? length (cxs c))%nat
  then match clog c with [(n, _)] => Nat.eqb (length w) n | _ => false end
  else list_eqb log_eqb (rev w) (clog c).
Definition check (c : case) : verdict :=
  let '(w, p, ys) := run_tree (cmode c) [] (cpipe c) (cxs c) in
  let model_ok := negb (cpanic c) && list_eqb oz_eqb ys (cys c) && log_ok c w
                  && match cmode c with 2%nat => list_eqb Z.eqb (pfinalize Id St (list Z) fin p) (cfin c) | _ => true end in
  let '(w', ls, ys') := run_flat (cmode c) [] (leaves Id St (cpipe c)) (cxs c) in
  let spec_ok := negb (cpanic c) && list_eqb oz_eqb ys' (cys c) && log_ok c w'
                 && match cmode c with 2%nat => list_eqb Z.eqb (snd (last ls ((0%nat, 0%nat), []))) (cfin c) | _ => true end in
  mkv model_ok spec_ok ((3 <=? length (leaves Id St (cpipe c)))%nat && (2 <=? length (cxs c))%nat).
