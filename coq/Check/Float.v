(* Bit-exact correspondence of the float (f64, f32) and integer (i64) instantiations of the arithmetic filters:
   the generic models of Model/Generic.v evaluated at IEEE-754 arithmetic (Coq's SpecFloat) or at Z, compared
   with what the real code returned -- including infinities, NaN, signed zero, subnormals and every rounding.
   There is no property-level spec on this stream (the theorems are about exact arithmetic): a disagreement is a
   correspondence break (verdict bit 1), never a spec failure. *)
From Coq Require Export ZArith SpecFloat.
From Signalo Require Export Base.Report Base.Arith Model.Generic.
From Signalo Require Import Base.ListX Base.Opt Base.Machine Model.Convolve Model.Classify Model.Bounds Model.Median.

Local Open Scope nat_scope.
Section Dispatch.
Context {T : Type} (A : arith T).
Definition p (k : nat) (ps : list T) : T := nth k ps (azero A).
Fixpoint pairs (l : list T) : list (T * T) := match l with a :: b :: r => (a, b) :: pairs r | _ => [] end.
Fixpoint unpairs (l : list (T * T)) : list T := match l with [] => [] | (a, b) :: r => a :: b :: unpairs r end.
Definition tot {S X Y} (f : S -> X -> S * Y) (s : S) (x : X) : option (S * Y) := Some (f s x).
Definition fin_pair (o : option (T * T)) : list T := match o with Some (a, b) => [a; b] | None => [] end.

(* the bounds models read `input > value` as `negb (leb input value)`: instantiating [leb] with the negation of the
   sample type's own `>` (and, through min_step's argument swap, of its `<`) makes that reading exact for partial orders *)
Definition gtleb (a b : T) : bool := negb (altb A b a).
(* outputs (flattened) up to the first panic, and whether the run panicked *)
Definition gmodel (kind : nat) (ps : list T) (n : nat) (xs : list T) : list T * bool :=
  match kind with
  | 0 => (run (g_diff_step A) None xs, false)
  | 1 => (run (g_int_step A) (azero A) xs, false)
  | 2 => (run (g_int_step A) (azero A) (run (g_diff_step A) None xs), false)
  | 3 => (run (g_diff_step A) None (run (g_int_step A) (azero A) xs), false)
  | 10 => (run (g_ema_step A (p 0 ps)) None xs, false)
  | 11 => (run (g_xm_step A (p 0 ps) (p 1 ps) (p 2 ps)) (None, None, None) xs, false)
  | 12 => (run (g_ab_step A (p 0 ps) (p 1 ps)) (azero A, None) xs, false)
  | 13 => orun_partial (fun s z => g_k_process A (p 0 ps) (p 1 ps) (p 2 ps) (p 3 ps) (p 4 ps) s (z, azero A)) (azero A, None) xs
  | 14 => orun_partial (g_k_process A (p 0 ps) (p 1 ps) (p 2 ps) (p 3 ps) (p 4 ps)) (azero A, None) (pairs xs)
  | 20 => (run (g_mean_step A n) (g_mean_init A) xs, false)
  | 21 => (unpairs (run (g_mvw_step A n) (g_mean_init A, g_mean_init A) xs), false)
  | 22 => (unpairs (run (g_mve_step A (p 0 ps)) (None, None) xs), false)
  | 30 => orun_partial (g_conv_step A n ps) [] xs
  | 31 => orun_partial (g_conv_step A n (g_normalized A ps)) [] xs
  | 32 => let '(ys, b) := orun_partial (g_ana_step A n (firstn n ps) (skipn n ps)) ([], []) xs in (unpairs ys, b)
  | 33 => orun_partial (g_syn_step A n (firstn n ps) (skipn n ps)) ([], []) (pairs xs)
  | 40 => (run (g_sum_step A) None xs, false)
  | 41 => (run (g_smean_step A) None xs, false)
  | 42 => (unpairs (run (g_smv_step A) None xs) ++ fin_pair (g_smv_fin A (exec (g_smv_step A) None xs)), false)
  | 43 => (run (g_smin_step A) None xs, false)
  | 44 => (run (g_smax_step A) None xs, false)
  | 50 => (run (thr_step (aleb A) (p 0 ps) (p 1 ps, p 2 ps)) tt xs, false)
  | 51 => (run (g_schmitt_step A (p 0 ps) (p 1 ps) (p 2 ps, p 3 ps)) false xs, false)
  | 52 => (run (deb_step (aeqb A) usize_max (N.of_nat n) (p 0 ps) (p 1 ps, p 2 ps)) 0%N xs, false)
  | 53 => (map (fun sl => match sl with Rising => p 0 ps | Flat => p 1 ps | Falling => p 2 ps end)
               (run (slopes_step (acmp A)) None xs), false)
  | 54 => (map (fun pk => match pk with PMax => p 0 ps | PNone => p 1 ps | PMin => p 2 ps end)
               (run (peaks_step (acmp A)) (None, None) xs), false)
  | 60 => orun_partial (Bounds.max_step gtleb (N.of_nat n) usize_max false) Bounds.init xs
  | 61 => orun_partial (Bounds.min_step gtleb (N.of_nat n) usize_max false) Bounds.init xs
  | 62 => let '(ys, b) := orun_partial (Bounds.bounds_step gtleb (N.of_nat n) usize_max false) (Bounds.init, Bounds.init) xs in (unpairs ys, b)
  | 70 => orun_partial (Median.filter (aleb A)) (Median.init n) xs
  | 80 => orun_partial (g_hampel_step A (p 0 ps) (p 1 ps)) (Median.init n) xs
  | _ => ([], true)
  end.
End Dispatch.

(* ty 0 = f64, 1 = f32 *)
Inductive xcase :=
| xf (ty kind : nat) (ps : list spec_float) (n : nat) (xs : list spec_float) (xs2 : option (list spec_float)) (ys : list spec_float) (panic : bool)
| xi (kind : nat) (ps : list Z) (n : nat) (xs : list Z) (xs2 : option (list Z)) (ys : list Z) (panic : bool).

(* with a second history: the filter is reset after the first and must then behave as a fresh one *)
Definition gmodel2 {T} (A : arith T) (kind : nat) (ps : list T) (n : nat) (xs : list T) (xs2 : option (list T)) : list T * bool :=
  let '(m1, p1) := gmodel A kind ps n xs in
  match xs2 with
  | Some x2 => if p1 then (m1, true) else let '(m2, p2) := gmodel A kind ps n x2 in (m1 ++ m2, p2)
  | None => (m1, p1)
  end.

Fixpoint leqb {A} (e : A -> A -> bool) (a b : list A) : bool :=
  match a, b with [], [] => true | x :: a', y :: b' => e x y && leqb e a' b' | _, _ => false end.

Definition xcheck (c : xcase) : verdict :=
  match c with
  | xf ty kind ps n xs xs2 ys panic =>
      let '(m, pm) := gmodel2 (match ty with 0 => F64 | _ => F32 end) kind ps n xs xs2 in
      mkv (Bool.eqb pm panic && leqb sf_eqb m ys) true (2 <=? length xs)%nat
  | xi kind ps n xs xs2 ys panic =>
      let '(m, pm) := gmodel2 Zar kind ps n xs xs2 in
      mkv (Bool.eqb pm panic && leqb Z.eqb m ys) true (2 <=? length xs)%nat
  end.

Definition either {C} (check : C -> verdict) (c : C + xcase) : verdict :=
  match c with inl a => check a | inr b => xcheck b end.
