From Coq Require Import ZArith NArith.
From Signalo Require Import Model.Bounds Spec.C04 Base.Machine Base.Report.

(* kind 0 = Max, 1 = Min, 2 = Bounds.  The run starts from an injected state (time0, taps0)
   (for Bounds: the same clock, two deques) that holds the window [cpre] (samples seen before). *)
Record case := mk { ckind : nat; cN : N; cpre : list Z;
                    ctime0 : N; ctapsA : list (Z * N); ctapsB : list (Z * N);
                    cxs : list Z; cys : list (Z * Z); cpanic : bool;
                    ctime1 : N; ctapsA1 : list (Z * N); ctapsB1 : list (Z * N) }.

Definition zpair_eqb (a b : Z * Z) := Z.eqb (fst a) (fst b) && Z.eqb (snd a) (snd b).
Definition tap_eqb (a b : Z * N) := Z.eqb (fst a) (fst b) && N.eqb (snd a) (snd b).
Fixpoint list_eqb {A} (e : A -> A -> bool) (a b : list A) : bool :=
  match a, b with [], [] => true | x :: a', y :: b' => e x y && list_eqb e a' b' | _, _ => false end.

Definition geb (a b : Z) := Z.leb b a.

(* model run; for Max/Min the pair output repeats the single output *)
Definition model_step (c : case) (s : st Z * st Z) (x : Z) : option ((st Z * st Z) * (Z * Z)) :=
  match ckind c with
  | 0%nat => '(s', y) <- max_step Z.leb (cN c) usize_max false (fst s) x ;; Some ((s', snd s), (y, y))
  | 1%nat => '(s', y) <- min_step Z.leb (cN c) usize_max false (fst s) x ;; Some ((s', snd s), (y, y))
  | _ => bounds_step Z.leb (cN c) usize_max false s x
  end.

Fixpoint orun_st {S X Y} (step : S -> X -> option (S * Y)) (s : S) (xs : list X) : list Y * S * bool :=
  match xs with
  | [] => ([], s, false)
  | x :: r => match step s x with
              | Some (s', y) => let '(ys, sf, p) := orun_st step s' r in (y :: ys, sf, p)
              | None => ([], s, true) end
  end.

Definition spec_okb (c : case) : bool :=
  negb (cpanic c) && (length (cxs c) =? length (cys c))%nat &&
  forallb (fun k =>
    let w := lastn (N.to_nat (cN c)) (cpre c ++ firstn (S k) (cxs c)) in
    let '(a, b) := nth k (cys c) (0%Z, 0%Z) in
    match ckind c with
    | 0%nat => is_maxb Z.leb Z.eqb w a
    | 1%nat => is_maxb geb Z.eqb w a
    | _ => is_maxb geb Z.eqb w a && is_maxb Z.leb Z.eqb w b
    end) (seq 0 (length (cxs c))).

Definition check (c : case) : verdict :=
  let s0 := ({| time := ctime0 c; taps := ctapsA c |}, {| time := ctime0 c; taps := ctapsB c |}) in
  let '(ys, sf, p) := orun_st (model_step c) s0 (cxs c) in
  let out_ok := Bool.eqb p (cpanic c) && list_eqb zpair_eqb ys (cys c) in
  (* the clock and the deque are part of the property's subject (rebase), so they count *)
  let st_ok := N.eqb (time (fst sf)) (ctime1 c) && list_eqb tap_eqb (taps (fst sf)) (ctapsA1 c)
               && match ckind c with 2%nat => list_eqb tap_eqb (taps (snd sf)) (ctapsB1 c) | _ => true end in
  let crosses := (usize_max - ctime0 c <? N.of_nat (length (cxs c)))%N in
  mkv (out_ok && (st_ok || cpanic c)) (spec_okb c) (crosses && (cN c <? N.of_nat (length (cpre c) + length (cxs c)))%N).
