From Signalo Require Import Check.Common Model.MeanVar Spec.C03.
(* kind 0 = sliding window of width cN, 1 = exponential with gain cw.
   couts = (mean, variance) outputs on cxs; couts2 = outputs on cxs shifted by the offset coff *)
Record case := mk { ckind : nat; cN : nat; cw : Q; cxs : list Q; coff : Q;
                    couts : list (Q * Q); couts2 : list (Q * Q); cpanic : bool }.
Definition qpair_eqb (a b : Q * Q) := qeqb (fst a) (fst b) && qeqb (snd a) (snd b).
Definition model (c : case) (xs : list Q) : list (Q * Q) :=
  match ckind c with 0%nat => run (mvw_step (cN c)) mvw_init xs | _ => run (mve_step (cw c)) mve_init xs end.
Fixpoint ema_ref (w : Q) (prev : option Q) (xs : list Q) : list Q :=
  match xs with [] => [] | x :: r => let y := match prev with None => x | Some p => p + w * (x - p) end in y :: ema_ref w (Some (Qred y)) r end.
Definition mean_ref (c : case) (xs : list Q) : list Q :=
  match ckind c with
  | 0%nat => map (mean_spec_at rdiv (cN c) xs) (seq 0 (length xs))
  | _ => ema_ref (cw c) None xs end.
Definition check (c : case) : verdict :=
  let xs2 := map (fun x => radd x (coff c)) (cxs c) in
  let model_ok := negb (cpanic c) && list_eqb qpair_eqb (model c (cxs c)) (couts c) && list_eqb qpair_eqb (model c xs2) (couts2 c) in
  let n := length (cxs c) in
  let len_ok := (n =? length (couts c))%nat && (n =? length (couts2 c))%nat in
  let mean_ok := qlist_eqb (mean_ref c (cxs c)) (map fst (couts c)) && qlist_eqb (mean_ref c xs2) (map fst (couts2 c)) in
  let nonneg := forallb (fun o => qleb 0 (snd o)) (couts c) && forallb (fun o => qleb 0 (snd o)) (couts2 c) in
  let gains_ok := match ckind c with 0%nat => true | _ => unit_ok (cw c) end in
  let const_ok := forallb (fun k => negb (all_eq (firstn (S k) (cxs c))) || qeqb (snd (nth k (couts c) (0, 0))) 0) (seq 0 n) in
  (* offset clause, index by index *)
  let off_at k := qeqb (snd (nth k (couts c) (0, 0))) (snd (nth k (couts2 c) (0, 0))) in
  let in_class k := match ckind c with 0%nat => (2 <=? cN c)%nat && (2 <=? k)%nat | _ => false end in
  let off_outside := forallb (fun k => in_class k || off_at k) (seq 0 n) in
  let off_inside := forallb (fun k => negb (in_class k) || off_at k) (seq 0 n) in
  let other_ok := negb (cpanic c) && len_ok && mean_ok && (negb gains_ok || nonneg) && const_ok && off_outside in
  {| code := ((if model_ok then 0 else 1) +
              (if other_ok then (if off_inside then 0 else if model_ok then 4 else 2) else 2))%N;
     nontriv := (3 <=? n)%nat && negb (all_eq (cxs c)) && negb (qeqb (coff c) 0) |}.
