From Coq Require Import Qcanon.
From Signalo Require Import Check.Common Model.Hampel Spec.C02 Base.ListX.
(* Hampel<f64,N> / Hampel<f32,N> on integer samples and dyadic thresholds with a logged decision
   margin (so the float decisions coincide with exact arithmetic).  cxs, cys: samples and outputs. *)
Record case := mk { cN : nat; cthr : Q; cxs : list Q; cys : list Q; cpanic : bool }.
Definition factor : Q := 14826 # 10000.
Definition maxdev (w : list Q) (med : Q) : Q := fold_right (fun v acc => let d := Qabs (v - med) in if qltb acc d then d else acc) 0 w.
Definition spec_at (c : case) (k : nat) : bool :=
  let x := qnth k (cxs c) in let o := qnth k (cys c) in
  match k with
  | O => qeqb o x
  | S _ =>
      let w := lastn (cN c) (firstn k (cxs c)) in
      let med := lower_median qleb w 0 in let mn := window_min qleb w 0 in
      let dev := Qabs (x - med) in
      (qeqb o x || qeqb o med) &&
      (negb (qleb dev (cthr c * factor * (med - mn))) || qeqb o x) &&
      (negb (qltb (cthr c * factor * maxdev w med) dev) || qeqb o med)
  end.
Definition check (c : case) : verdict :=
  let '(ys, p) := orun_partial (hampel_step (Q2Qc (cthr c))) (init (cN c)) (map Q2Qc (cxs c)) in
  let model_ok := Bool.eqb p (cpanic c) && qlist_eqb (map (fun y : Qc => this y) ys) (cys c) in
  let spec_ok := negb (cpanic c) && (length (cxs c) =? length (cys c))%nat && forallb (spec_at c) (seq 0 (length (cxs c))) in
  let replaced := existsb (fun k => negb (qeqb (qnth k (cxs c)) (qnth k (cys c)))) (seq 0 (length (cxs c))) in
  mkv model_ok spec_ok ((cN c <? length (cxs c))%nat && replaced).
