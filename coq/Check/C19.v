From Coq Require Import ZArith.
From Signalo Require Import Check.Common Model.Ledger.
(* clive: live values of the instrumented sample type after every operation, as counted by the
   harness's ledger; canom: ledger anomalies (drop of a value that is not live, use of a dropped value);
   cfinal: live values after every instance has been dropped *)
Record case := mk { ck : kind; cn : nat; cops : list op; clive : list nat; canom : nat; cfinal : nat; cpanic : bool; cfault : bool }.
(* cfault: the program contains filter calls during which the sample type's own clone / comparison was made to panic
   (caught by the harness).  The ledger model says nothing about the state after an unwinding, and leaking on a panic is
   allowed: only "no value dropped twice, none used after its drop" is judged on these. *)
Definition check (c : case) : verdict :=
  if cfault c then mkv true (canom c =? 0)%nat true else
  let expect := run_ops (ck c) (cn c) [Some (fresh (ck c) (cn c))] (cops c) in
  let model_ok := negb (cpanic c) && list_eqb Nat.eqb expect (clive c) in
  let spec_ok := negb (cpanic c) && (canom c =? 0)%nat && (cfinal c =? 0)%nat && (length (clive c) =? length (cops c))%nat in
  let has := fun f => existsb f (cops c) in
  mkv model_ok spec_ok (has (fun o => match o with OClone _ => true | _ => false end) && has (fun o => match o with ODrop _ | OReset _ => true | _ => false end)
                        && (cn c <? length (cops c))%nat).
