From Signalo Require Import Check.Common Model.Smooth.
(* ys = outputs on xs; ys2 = outputs on the transformed samples a*x + b; cvel = final velocity on xs *)
(* cv0/cx0: the state the run on cxs starts from (velocity, position estimate); fresh = (0, None); other states are
   injected through FromGuts (e.g. a non-zero velocity with beta = 0, unreachable from a fresh filter).
   The affine pair (ys2) is only run from the fresh state. *)
Record case := mk { calpha : Q; cbeta : Q; cv0 : Q; cx0 : option Q; cxs : list Q; cys : list Q; cvel : Q;
                    ca : Q; cb : Q; cys2 : list Q; cpanic : bool }.
Fixpoint ab_ref (alpha beta : Q) (st : option (Q * Q)) (xs : list Q) : list Q * Q :=
  match xs with
  | [] => ([], match st with Some (_, v) => v | None => 0 end)
  | z :: r =>
      let '(x, v) := match st with
                     | None => (z, 0)
                     | Some (x, v) => let x' := x + v in let res := z - x' in (x' + alpha * res, v + beta * res)
                     end in
      let '(ys, vf) := ab_ref alpha beta (Some (Qred x, Qred v)) r in (x :: ys, vf)
  end.
Definition check (c : case) : verdict :=
  let step := ab_step (calpha c) (cbeta c) in
  let s0 := {| velocity := cv0 c; abvalue := cx0 c |} in
  let out_ok := negb (cpanic c) && qlist_eqb (run step s0 (cxs c)) (cys c)
                && qeqb (velocity (exec step s0 (cxs c))) (cvel c)
                && qlist_eqb (run step ab_init (map (fun x => radd (rmul (ca c) x) (cb c)) (cxs c))) (cys2 c) in
  let '(rys, rv) := ab_ref (calpha c) (cbeta c) (match cx0 c with Some x => Some (x, cv0 c) | None => None end) (cxs c) in
  let fresh := match cx0 c with None => true | Some _ => false end in
  let spec_ok := negb (cpanic c) && qlist_eqb rys (cys c) && qeqb rv (cvel c)
                 && (negb fresh || qlist_eqb (map (fun y => ca c * y + cb c) (cys c)) (cys2 c))
                 && (negb fresh || negb (all_eq (cxs c)) || forallb (qeqb (qnth 0 (cxs c))) (cys c)) in
  mkv out_ok spec_ok ((3 <=? length (cxs c))%nat && negb (all_eq (cxs c))).
