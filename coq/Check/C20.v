From Signalo Require Import Check.Common Model.Registry Check.C12.
(* after chist the filter is copied (clone, or into_guts + from_guts); then the ORIGINAL is fed ccontA and
   only afterwards the COPY is fed ccontB.  coutsA / coutsB: what they returned; crefA / crefB: what a
   freshly built UNWRAPPED filter returns for chist ++ contA resp. chist ++ contB (so for the Cache entries
   the reference is the bare inner filter: transparency); ccached: Cache::cached() after chist *)
Record case := mk { ce : nat; ccfg : list Q; chist : list (list Q); ccontA : list (list Q); ccontB : list (list Q);
                    couts_hist : list (list Q); coutsA : list (list Q); coutsB : list (list Q);
                    crefA : list (list Q); crefB : list (list Q); ccached : option (option (list Q)); cpanic : bool }.
Definition check (c : case) : verdict :=
  let m := nth (ce c) registry m_mean in
  let '(oh, f) := run_m m (ccfg c) (minit m (ccfg c)) (chist c) in
  let model_ok := negb (cpanic c) && ll_eqb oh (couts_hist c) &&
    match f with
    | Some s => let '(a, b) := mclone m (mguts m s) in
                ll_eqb (fst (run_m m (ccfg c) a (ccontA c))) (coutsA c) && ll_eqb (fst (run_m m (ccfg c) b (ccontB c))) (coutsB c)
    | None => false end in
  let cached_ok := match ccached c with
                   | None => true
                   | Some k => opt_eqb qlist_eqb k (match couts_hist c with [] => None | _ => Some (last (couts_hist c) []) end) end in
  let spec_ok := negb (cpanic c) && ll_eqb (coutsA c) (crefA c) && ll_eqb (coutsB c) (crefB c) && cached_ok
                 && (length (coutsB c) =? length (ccontB c))%nat in
  mkv model_ok spec_ok ((2 <=? length (chist c))%nat && negb (ll_eqb (coutsA c) (coutsB c))).
