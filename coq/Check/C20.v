From Signalo Require Import Check.Common Model.Registry Check.C12.
(* after chist the filter is copied (clone, or into_guts + from_guts); then the ORIGINAL is fed ccontA and
   only afterwards the COPY is fed ccontB.  coutsA / coutsB: what they returned; crefA / crefB: what a
   freshly built UNWRAPPED filter returns for chist ++ contA resp. chist ++ contB (so for the Cache entries
   the reference is the bare inner filter: transparency); ccached: Cache::cached() after chist *)
Record case := mk { ce : nat; ccfg : list Q; chist : list (list Q); ccontA : list (list Q); ccontB : list (list Q);
                    couts_hist : list (list Q); coutsA : list (list Q); coutsB : list (list Q);
                    crefA : list (list Q); crefB : list (list Q); ccached : option (option (list Q)); cpanic : bool }.
(* two further kinds, recognised by an entry number beyond the registry:
   100: float exactness -- a float filter (f32/f64; outputs as exact rationals from the bit patterns) and its
        copy were fed the SAME continuation: coutsA (original) and coutsB (copy) must be identical
   101: source Cache over FromIter(ccfg): chist is the operation program ([0] = pull, [1] = cached()),
        couts_hist the observations ([] = None, [v] = Some v) *)
Fixpoint observe_cache (items : list Q) (pos : nat) (last : option Q) (ops : list (list Q)) : list (list Q) :=
  let enc o := match o with Some v => [v] | None => [] end in
  match ops with
  | [] => []
  | o :: r => if qeqb (nth 0 o 0) 0
              then enc (nth_error items pos) :: observe_cache items (S pos) (nth_error items pos) r
              else enc last :: observe_cache items pos last r
  end.
Definition check_extra (c : case) : verdict :=
  if (ce c =? 100)%nat then
    mkv true (negb (cpanic c) && ll_eqb (coutsA c) (coutsB c) && (length (coutsA c) =? length (ccontA c))%nat) (negb (ll_eqb (coutsA c) []))
  else
    mkv true (negb (cpanic c) && ll_eqb (couts_hist c) (observe_cache (ccfg c) 0 None (chist c))) (2 <=? length (chist c))%nat.
Definition check_reg (c : case) : verdict :=
  let m := nth (ce c) registry m_mean in
  let '(oh, f) := run_m m (ccfg c) (minit m (ccfg c)) (chist c) in
  let model_ok := negb (cpanic c) && ll_eqb oh (couts_hist c) &&
    match f with
    | Some s => let '(a, b) := mclone m (mguts m s) in
                ll_eqb (fst (run_m m (ccfg c) a (ccontA c))) (coutsA c) && ll_eqb (fst (run_m m (ccfg c) b (ccontB c))) (coutsB c)
    | None => false end in
  let cached_ok := match ccached c with
                   | None => true
                   | Some k => opt_eqb qlist_eqb k (match couts_hist c with [] => None | _ => Some (last (couts_hist c) []) end) end in
  let spec_ok := negb (cpanic c) && ll_eqb (coutsA c) (crefA c) && ll_eqb (coutsB c) (crefB c) && cached_ok
                 && (length (coutsB c) =? length (ccontB c))%nat in
  mkv model_ok spec_ok ((2 <=? length (chist c))%nat && negb (ll_eqb (coutsA c) (coutsB c))).
Definition check (c : case) : verdict := if (100 <=? ce c)%nat then check_extra c else check_reg c.
