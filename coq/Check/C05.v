From Signalo Require Import Check.Common Model.Convolve Spec.C05.
(* kind 0 = Convolve::with_config, 1 = Convolve::normalized (ccfg = coefficients reported by config_ref),
   2 = Delay<N> (ccoeffs empty, cn = N), 3 = Savitzky-Golay preset (ccfg = coefficients the compiled
   code holds, as exact rationals from the float bit patterns; cn = width) *)
Record case := mk { ckind : nat; cn : nat; ccoeffs : list Q; ccfg : list Q; cxs : list Q; cys : list Q; cpanic : bool }.

Definition run_model {S} (step : S -> Q -> option (S * Q)) (s : S) (xs : list Q) : list Q * bool := orun_partial step s xs.
Definition spec_norm (c : list Q) : list Q := let s := qsum c in if qeqb s 0 then c else map (fun x => x / s) c.
Definition check (c : case) : verdict :=
  match ckind c with
  | 3%nat =>
      let ok := sg_table_ok (cn c) (ccfg c) in mkv true ok true
  | 2%nat =>
      let '(ys, p) := run_model (delay_step (cn c)) [] (cxs c) in
      let out_ok := Bool.eqb p (cpanic c) && qlist_eqb ys (cys c) in
      let spec_ok := negb (cpanic c) && (length (cxs c) =? length (cys c))%nat &&
                     forallb (fun k => qeqb (qnth k (cys c)) (qnth (k - cn c) (cxs c))) (seq 0 (length (cxs c))) in
      mkv out_ok spec_ok ((cn c <? length (cxs c))%nat && negb (qeqb (qnth 0 (cxs c)) 0))
  | 4%nat =>
      (* Convolve::<i64,N>::normalized: coefficient / sum in truncating integer arithmetic (ccfg = what config_ref reports) *)
      let s := qsum (ccoeffs c) in
      let coeffs := if qeqb s 0 then ccoeffs c else map (fun x => inject_Z (Z.quot (Qnum (Qred x)) (Qnum (Qred s)))) (ccoeffs c) in
      let '(ys, p) := run_model (conv_step (length coeffs) coeffs) [] (cxs c) in
      let ok := Bool.eqb p (cpanic c) && qlist_eqb ys (cys c) && qlist_eqb coeffs (ccfg c) in
      mkv ok (negb (cpanic c) && qlist_eqb coeffs (ccfg c) && forallb (fun n => qeqb (qnth n (cys c)) (fir coeffs (cxs c) n)) (seq 0 (length (cxs c)))) true
  | k =>
      let coeffs := match k with 0%nat => ccoeffs c | _ => normalized (ccoeffs c) end in
      let '(ys, p) := run_model (conv_step (length coeffs) coeffs) [] (cxs c) in
      let out_ok := Bool.eqb p (cpanic c) && qlist_eqb ys (cys c) && qlist_eqb coeffs (ccfg c) in
      let scoeffs := match k with 0%nat => ccoeffs c | _ => spec_norm (ccoeffs c) end in
      let spec_ok := negb (cpanic c) && (length (cxs c) =? length (cys c))%nat && qlist_eqb scoeffs (ccfg c) &&
                     forallb (fun n => qeqb (qnth n (cys c)) (fir scoeffs (cxs c) n)) (seq 0 (length (cxs c))) in
      mkv out_ok spec_ok ((length coeffs <? length (cxs c))%nat && (2 <=? length coeffs)%nat && negb (qeqb (qnth 0 (cxs c)) 0))
  end.
