From Coq Require Import ZArith.
From Signalo Require Import Model.Sources Spec.C10 Base.Report.

Record case := mk { ce : expr; cops : list op; cres : list (option Z); cpanic : bool }.

Definition oz_eqb (a b : option Z) : bool :=
  match a, b with Some x, Some y => Z.eqb x y | None, None => true | _, _ => false end.
Fixpoint list_eqb {A} (e : A -> A -> bool) (a b : list A) : bool :=
  match a, b with [], [] => true | x :: a', y :: b' => e x y && list_eqb e a' b' | _, _ => false end.

Fixpoint depth (e : expr) : nat :=
  match e with
  | EList _ | EConstant _ | ERepeat _ _ | EIncrement _ _ => 0
  | EChain a b => S (Nat.max (depth a) (depth b))
  | ETake e _ | ESkip e _ | ECycle e | EPadConst e _ _ | EPadEdge e _ | EPeek e | ECache e | ERoundTrip e => S (depth e)
  end.

Definition check (c : case) : verdict :=
  let model_ok := negb (cpanic c) &&
                  match run_ops false (init (ce c)) (cops c) with
                  | Some r => list_eqb oz_eqb r (cres c) | None => false end in
  let spec_ok := negb (cpanic c) && list_eqb oz_eqb (spec_results (ce c) (cops c)) (cres c) in
  (* non-trivial: a nested expression whose stream ends within the observed pulls *)
  let nt := (1 <=? depth (ce c)) && (length (sem (ce c) (length (cops c))) <? length (cops c)) in
  mkv model_ok spec_ok nt.
