From Coq Require Import ZArith.
From Signalo Require Import Model.Sources Spec.C10 Base.Report.

(* cleft: items left in every list leaf after the run (Some only for cycle-free expressions): a by-reference
   user of an adapter observes how much of the underlying source was consumed.
   Counts beyond 40 in the real expression (up to usize::MAX) are passed to the model capped at 40, which no
   run of at most 32 operations can distinguish (trusted, stated in DESIGN.md). *)
Record case := mk { ce : expr; cops : list op; cres : list (option Z); cleft : option (list nat); cpanic : bool }.

Definition oz_eqb (a b : option Z) : bool :=
  match a, b with Some x, Some y => Z.eqb x y | None, None => true | _, _ => false end.
Fixpoint list_eqb {A} (e : A -> A -> bool) (a b : list A) : bool :=
  match a, b with [], [] => true | x :: a', y :: b' => e x y && list_eqb e a' b' | _, _ => false end.

Fixpoint depth (e : expr) : nat :=
  match e with
  | EList _ | EConstant _ | ERepeat _ _ | EIncrement _ _ => 0
  | EChain a b => S (Nat.max (depth a) (depth b))
  | ETake e _ | ESkip e _ | ECycle e | EPadConst e _ _ | EPadEdge e _ | EPeek e | ECache e | ERoundTrip e => S (depth e)
  end.

Definition check (c : case) : verdict :=
  let model_ok := negb (cpanic c) &&
                  match run_ops_state false (init (ce c)) (cops c) with
                  | Some (r, sf) => list_eqb oz_eqb r (cres c) &&
                                    match cleft c with Some l => list_eqb Nat.eqb (leaf_lens sf) l | None => true end
                  | None => false end in
  let spec_ok := negb (cpanic c) && list_eqb oz_eqb (spec_results (ce c) (cops c)) (cres c) in
  (* non-trivial: a nested expression whose stream ends within the observed pulls *)
  let nt := (1 <=? depth (ce c)) && (length (sem (ce c) (length (cops c))) <? length (cops c)) in
  mkv model_ok spec_ok nt.
