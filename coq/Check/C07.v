From Signalo Require Import Check.Common Model.Wavelet Spec.C05 Spec.C07.
(* kind 0: Analyze<Rat,N> | Synthesize<Rat,N> with arbitrary kernels (clowA/chighA/clowS/chighS) on cxs:
           cdec = analysis outputs (low, high), cys = synthesis outputs.
   kind 1: the kernels the compiled f64 Daubechies presets hold (exact rationals from the bit patterns)
   kind 2: the same for f32 *)
Record case := mk { ckind : nat; clowA : list Q; chighA : list Q; clowS : list Q; chighS : list Q;
                    cxs : list Q; cdec : list (Q * Q); cys : list Q; cpanic : bool }.
Definition qpair_eqb (a b : Q * Q) := qeqb (fst a) (fst b) && qeqb (snd a) (snd b).
Fixpoint alt (odd : bool) (l : list Q) : list Q := match l with [] => [] | c :: r => (if odd then - c else c) :: alt (negb odd) r end.
Definition check (c : case) : verdict :=
  let n := length (clowA c) in
  match ckind c with
  | 0%nat =>
      let '(das, p1) := orun_partial (ana_step n (clowA c) (chighA c)) ([], []) (cxs c) in
      let '(ys, p2) := orun_partial (syn_step n (clowS c) (chighS c)) ([], []) das in
      let out_ok := Bool.eqb (p1 || p2) (cpanic c) && list_eqb qpair_eqb das (cdec c) && qlist_eqb ys (cys c) in
      let lows := map fst (cdec c) in let highs := map snd (cdec c) in
      let spec_ok := negb (cpanic c) && (length (cxs c) =? length (cys c))%nat && (length (cxs c) =? length (cdec c))%nat &&
        forallb (fun k => qeqb (qnth k lows) (fir (clowA c) (cxs c) k) && qeqb (qnth k highs) (fir (chighA c) (cxs c) k)
                          && qeqb (qnth k (cys c)) (fir (clowS c) lows k + fir (chighS c) highs k)) (seq 0 (length (cxs c))) in
      mkv out_ok spec_ok ((n <? length (cxs c))%nat && (2 <=? n)%nat && negb (qeqb (qnth 0 (cxs c)) 0))
  | k =>
      let '(ts, tr) := match k with 1%nat => (2 # 10000000000, 1 # 1000000000) | _ => (1 # 1000000, 2 # 1000000) end in
      (* structure produced by the macro body (negation and reversal are exact in floating point) *)
      let shape := qlist_eqb (chighA c) (alt false (rev (clowA c))) && qlist_eqb (clowS c) (rev (clowA c))
                   && qlist_eqb (chighS c) (rev (chighA c)) in
      mkv true (shape && daub_ok ts tr (clowA c) (chighA c) (clowS c) (chighS c)) true
  end.
