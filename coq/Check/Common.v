(* helpers shared by the Check files *)
From Signalo Require Export Base.QR Base.Report Base.Machine Base.Opt.
Fixpoint list_eqb {A} (e : A -> A -> bool) (a b : list A) : bool :=
  match a, b with [], [] => true | x :: a', y :: b' => e x y && list_eqb e a' b' | _, _ => false end.
Definition opt_eqb {A} (e : A -> A -> bool) (a b : option A) : bool :=
  match a, b with Some x, Some y => e x y | None, None => true | _, _ => false end.
Definition qnth (k : nat) (l : list Q) : Q := nth k l 0.
(* lo <= y <= hi for the min/max of a non-empty prefix *)
Definition in_hull (xs : list Q) (y : Q) : bool :=
  existsb (fun x => qleb x y) xs && existsb (fun x => qleb y x) xs.
Definition all_eq (xs : list Q) : bool := match xs with [] => true | x :: r => forallb (qeqb x) r end.
Definition unit_ok (w : Q) : bool := qleb 0 w && qleb w 1.
