From Coq Require Import ZArith.
From Signalo Require Import Check.Common Model.Classify.
(* kind 0 = Slopes on samples, 1 = Peaks on samples, 2 = Peaks on a slope sequence (cxs holds 0/1/2).
   samples are option Z (None = NaN); outputs are class indices 0/1/2 *)
Record case := mk { ckind : nat; cxs : list (option Z); cys : list nat; cpanic : bool }.
Definition ocmp (a b : option Z) : option comparison :=
  match a, b with Some x, Some y => Some (Z.compare x y) | _, _ => None end.
Definition sidx (s : slope) : nat := match s with Rising => 0 | Flat => 1 | Falling => 2 end.
Definition pidx (p : peak) : nat := match p with PMax => 0 | PNone => 1 | PMin => 2 end.
Definition to_slope (x : option Z) : slope := match x with Some 0%Z => Rising | Some 2%Z => Falling | _ => Flat end.
Definition model (c : case) : list nat :=
  match ckind c with
  | 0%nat => map sidx (run (slopes_step ocmp) None (cxs c))
  | 1%nat => map pidx (run (peaks_step ocmp) (None, None) (cxs c))
  | _ => map pidx (run peaks_slope_step None (map to_slope (cxs c)))
  end.
(* the statement of the property on the observation level *)
Definition olt (a b : option Z) := match a, b with Some x, Some y => (x <? y)%Z | _, _ => false end.
(* the statement of the property on the observation level, as list functions (linear time, so that soak runs
   of tens of thousands of samples can be checked in full) *)
Definition slope_idx (a b : option Z) : nat := if olt a b then 0 else if olt b a then 2 else 1.
Fixpoint map2 {A B} (f : A -> A -> B) (l1 l2 : list A) : list B :=
  match l1, l2 with a :: r1, b :: r2 => f a b :: map2 f r1 r2 | _, _ => [] end.
Fixpoint map3 {A B} (f : A -> A -> A -> B) (l1 l2 l3 : list A) : list B :=
  match l1, l2, l3 with a :: r1, b :: r2, c :: r3 => f a b c :: map3 f r1 r2 r3 | _, _, _ => [] end.
Definition spec_list (c : case) : list nat :=
  let xs := cxs c in
  match ckind c with
  | 0%nat => match xs with [] => [] | _ => 1%nat :: map2 slope_idx xs (tl xs) end
  | 1%nat => firstn (length xs) ([1; 1]%nat ++
               map3 (fun a b d => if olt a b && olt d b then 0%nat else if olt b a && olt b d then 2%nat else 1%nat) xs (tl xs) (tl (tl xs)))
  | _ => match xs with [] => [] | _ =>
           1%nat :: map2 (fun a b => match to_slope a, to_slope b with Rising, Falling => 0%nat | Falling, Rising => 2%nat | _, _ => 1%nat end) xs (tl xs) end
  end.
Definition check (c : case) : verdict :=
  let out_ok := negb (cpanic c) && list_eqb Nat.eqb (model c) (cys c) in
  let spec_ok := negb (cpanic c) && list_eqb Nat.eqb (spec_list c) (cys c) in
  mkv out_ok spec_ok (existsb (Nat.eqb 0) (cys c) && existsb (Nat.eqb 2) (cys c)).
