From Coq Require Import ZArith.
From Signalo Require Import Check.Common Model.Classify.
(* kind 0 = Slopes on samples, 1 = Peaks on samples, 2 = Peaks on a slope sequence (cxs holds 0/1/2).
   samples are option Z (None = NaN); outputs are class indices 0/1/2 *)
Record case := mk { ckind : nat; cxs : list (option Z); cys : list nat; cpanic : bool }.
Definition ocmp (a b : option Z) : option comparison :=
  match a, b with Some x, Some y => Some (Z.compare x y) | _, _ => None end.
Definition sidx (s : slope) : nat := match s with Rising => 0 | Flat => 1 | Falling => 2 end.
Definition pidx (p : peak) : nat := match p with PMax => 0 | PNone => 1 | PMin => 2 end.
Definition to_slope (x : option Z) : slope := match x with Some 0%Z => Rising | Some 2%Z => Falling | _ => Flat end.
Definition model (c : case) : list nat :=
  match ckind c with
  | 0%nat => map sidx (run (slopes_step ocmp) None (cxs c))
  | 1%nat => map pidx (run (peaks_step ocmp) (None, None) (cxs c))
  | _ => map pidx (run peaks_slope_step None (map to_slope (cxs c)))
  end.
(* the statement of the property on the observation level *)
Definition olt (a b : option Z) := match a, b with Some x, Some y => (x <? y)%Z | _, _ => false end.
Definition spec_at (c : case) (n : nat) : nat :=
  let x k := nth k (cxs c) None in
  match ckind c with
  | 0%nat => match n with O => 1 | S m => if olt (x m) (x n) then 0 else if olt (x n) (x m) then 2 else 1 end
  | 1%nat => match n with
             | S (S m) => if olt (x m) (x (S m)) && olt (x n) (x (S m)) then 0
                          else if olt (x (S m)) (x m) && olt (x (S m)) (x n) then 2 else 1
             | _ => 1 end
  | _ => match n with
         | S m => match to_slope (x m), to_slope (x n) with Rising, Falling => 0 | Falling, Rising => 2 | _, _ => 1 end
         | O => 1 end
  end.
Definition check (c : case) : verdict :=
  let out_ok := negb (cpanic c) && list_eqb Nat.eqb (model c) (cys c) in
  let spec_ok := negb (cpanic c) && (length (cxs c) =? length (cys c))%nat &&
                 forallb (fun n => Nat.eqb (nth n (cys c) 9%nat) (spec_at c n)) (seq 0 (length (cxs c))) in
  mkv out_ok spec_ok (existsb (Nat.eqb 0) (cys c) && existsb (Nat.eqb 2) (cys c)).
