From Signalo Require Import Model.Mean Spec.C03 Base.Report.

Record case := mk { cN : nat; cint : bool; cxs : list Q; cys : list Q; cpanic : bool;
                    cmean : option Q; ctaps : list Q; cweight : Q }.

Definition check (c : case) : verdict :=
  let div := if cint c then qquot else rdiv in
  let ys := run (step div (cN c) false) init (cxs c) in
  let s := exec (step div (cN c) false) init (cxs c) in
  let out_ok := negb (cpanic c) && qlist_eqb (lastn (length (cys c)) ys) (cys c) in
  let st_ok := oqeqb (mean s) (cmean c) && qlist_eqb (taps s) (ctaps c) && qeqb (weight s) (cweight c) in
  let spec_ok := negb (cpanic c) && mean_spec_okb div (cN c) (cxs c) (cys c) in
  let nt := (cN c <? length (cxs c)) && negb (qeqb (hd 0 (cxs c)) 0) in
  mkv_st out_ok spec_ok st_ok nt.
