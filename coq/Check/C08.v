From Coq Require Import ZArith NArith.
From Signalo Require Import Check.Common Model.Classify.
(* kind 0 threshold (ca = threshold), 1 schmitt (ca = low, cb = high), 2 debounce (ca = predicate,
   cthr = threshold, cc0 = injected counter); outputs are the configured (off, on) values *)
Record case := mk { ckind : nat; ca : Z; cb : Z; cthr : N; cc0 : N; coff : Z; con : Z;
                    cxs : list Z; cys : list Z; cpanic : bool; cfinal : N }.
Definition umax : N := 18446744073709551615.
Definition b2n (b : bool) : N := if b then 1%N else 0%N.
Definition model (c : case) : list Z * N :=
  let outs := (coff c, con c) in
  match ckind c with
  | 0%nat => (run (thr_step Z.leb (ca c) outs) tt (cxs c), 0%N)
  | 1%nat => (run (schmitt_step Z.leb (ca c) (cb c) outs) false (cxs c),
              b2n (exec (schmitt_step Z.leb (ca c) (cb c) outs) false (cxs c)))
  | _ => (run (deb_step Z.eqb umax (cthr c) (ca c) outs) (cc0 c) (cxs c),
          exec (deb_step Z.eqb umax (cthr c) (ca c) outs) (cc0 c) (cxs c))
  end.
(* the reference automata of the property statement, written on the observation level *)
Fixpoint ref_schmitt (lo hi : Z) (on : bool) (xs : list Z) : list bool :=
  match xs with [] => []
  | x :: r => let on' := if on then negb (x <? lo)%Z else (hi <? x)%Z in on' :: ref_schmitt lo hi on' r end.
Fixpoint run_of_pred (p : Z) (rl : list Z) : N := match rl with x :: r => if Z.eqb x p then (1 + run_of_pred p r)%N else 0%N | [] => 0%N end.
Definition ref_on (c : case) (k : nat) : bool :=
  match ckind c with
  | 0%nat => (ca c <=? nth k (cxs c) 0)%Z
  | 1%nat => nth k (ref_schmitt (ca c) (cb c) false (cxs c)) false
  | _ => let pre := firstn (S k) (cxs c) in
         let r := run_of_pred (ca c) (rev pre) in
         let total := if (r =? N.of_nat (length pre))%N then (cc0 c + r)%N else r in
         (cthr c <=? total)%N
  end.
Definition check (c : case) : verdict :=
  let '(ys, fin) := model c in
  let out_ok := negb (cpanic c) && list_eqb Z.eqb ys (cys c) && N.eqb fin (cfinal c) in
  let spec_ok := negb (cpanic c) && (length (cxs c) =? length (cys c))%nat &&
                 forallb (fun k => Z.eqb (nth k (cys c) 0%Z) (if ref_on c k then con c else coff c)) (seq 0 (length (cxs c))) in
  mkv out_ok spec_ok ((3 <=? length (cxs c))%nat && existsb (fun y => Z.eqb y (con c)) (cys c) && existsb (fun y => Z.eqb y (coff c)) (cys c)).
