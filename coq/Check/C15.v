From Signalo Require Import Check.Common Model.Smooth.
(* kind 0 = Differentiate, 1 = Integrate, 2 = Differentiate | Integrate (real Pipe), 3 = Integrate | Differentiate *)
Record case := mk { ckind : nat; cxs : list Q; cys : list Q; cpanic : bool }.
Definition model (k : nat) (xs : list Q) : list Q :=
  match k with
  | 0%nat => run diff_step None xs
  | 1%nat => run int_step 0 xs
  | 2%nat => run int_step 0 (run diff_step None xs)
  | _ => run diff_step None (run int_step 0 xs)
  end.
Definition spec_at (k : nat) (xs : list Q) (n : nat) : Q :=
  match k with
  | 0%nat => match n with O => 0 | S m => qnth n xs - qnth m xs end
  | 1%nat => qsum (firstn (S n) xs)
  | 2%nat => qnth n xs - qnth 0 xs
  | _ => match n with O => 0 | S _ => qnth n xs end
  end.
Definition check (c : case) : verdict :=
  let out_ok := negb (cpanic c) && qlist_eqb (model (ckind c) (cxs c)) (cys c) in
  let spec_ok := negb (cpanic c) && (length (cxs c) =? length (cys c))%nat &&
                 forallb (fun n => qeqb (qnth n (cys c)) (spec_at (ckind c) (cxs c) n)) (seq 0 (length (cxs c))) in
  mkv out_ok spec_ok ((2 <=? length (cxs c))%nat && negb (qeqb (qnth 0 (cxs c)) 0)).
