From Signalo Require Import Check.Common Model.Sinks.
(* kind: 0 min 1 max 2 bounds 3 last 4 sum 5 mean 6 mean_variance 7 statistics 8 collect.
   crun: the running-filter outputs after each sample, as tuples padded with 0 (lo/hi/mean/var order
   depends on the kind); cfin: finalize after the whole history (None = `None`).
   cfins: finalize after every prefix (including the empty one), same encoding *)
Definition tup := list Q.
Record case := mk { ckind : nat; cxs : list Q; crun : list tup; cfins : list (option tup); cpanic : bool }.
Definition tup_eqb := qlist_eqb.

Definition sqdevq (xs : list Q) (m : Q) : Q := fold_right (fun x acc => (x - m) * (x - m) + acc) 0 xs.
Definition lmin (xs : list Q) : Q := fold_right (fun x acc => if qltb x acc then x else acc) (hd 0 xs) xs.
Definition lmax (xs : list Q) : Q := fold_right (fun x acc => if qltb acc x then x else acc) (hd 0 xs) xs.
Definition meanq (xs : list Q) : Q := qsum xs / qnat (length xs).
Definition varq (xs : list Q) : Q := if (length xs <=? 1)%nat then 0 else sqdevq xs (meanq xs) / (qnat (length xs) - 1).
(* batch results (the spec) *)
Definition spec_fin (k : nat) (xs : list Q) : option tup :=
  match xs with [] => match k with 8%nat => Some [] | _ => None end
  | _ => Some (match k with
       | 0%nat => [lmin xs] | 1%nat => [lmax xs] | 2%nat => [lmin xs; lmax xs] | 3%nat => [last xs 0]
       | 4%nat => [qsum xs] | 5%nat => [meanq xs] | 6%nat => [meanq xs; varq xs]
       | 7%nat => [lmin xs; lmax xs; meanq xs; varq xs] | _ => xs end)
  end.
Definition spec_run (k : nat) (xs : list Q) : tup :=
  match k with
  | 0%nat => [lmin xs] | 1%nat => [lmax xs] | 2%nat => [lmin xs; lmax xs] | 4%nat => [qsum xs] | 5%nat => [meanq xs]
  | 6%nat => [meanq xs; sqdevq xs (meanq xs)]
  | 7%nat => [lmin xs; lmax xs; meanq xs; sqdevq xs (meanq xs)]
  | 8%nat => xs | _ => [] end.
(* model *)
Definition model_fin (k : nat) (xs : list Q) : option tup :=
  match k with
  | 0%nat => option_map (fun m => [m]) (exec min_step None xs)
  | 1%nat => option_map (fun m => [m]) (exec max_step None xs)
  | 2%nat => option_map (fun p => [fst p; snd p]) (bounds_fin (exec bounds_step (None, None) xs))
  | 3%nat => option_map (fun m => [m]) (fold_left last_sink xs None)
  | 4%nat => option_map (fun m => [m]) (exec sum_step None xs)
  | 5%nat => option_map (fun m => [m]) (mean_fin (exec mean_step None xs))
  | 6%nat => option_map (fun p => [fst p; snd p]) (mv_fin (exec mv_step None xs))
  | 7%nat => option_map (fun p => let '(lo, hi, m, v) := p in [lo; hi; m; v]) (stat_fin (exec stat_step ((None, None), None) xs))
  | _ => Some (exec collect_step [] xs) end.
Definition model_run (k : nat) (xs : list Q) : list tup :=
  match k with
  | 0%nat => map (fun m => [m]) (run min_step None xs)
  | 1%nat => map (fun m => [m]) (run max_step None xs)
  | 2%nat => map (fun p => [fst p; snd p]) (run bounds_step (None, None) xs)
  | 4%nat => map (fun m => [m]) (run sum_step None xs)
  | 5%nat => map (fun m => [m]) (run mean_step None xs)
  | 6%nat => map (fun p => [fst p; snd p]) (run mv_step None xs)
  | 7%nat => map (fun p => let '(lo, hi, m, v) := p in [lo; hi; m; v]) (run stat_step ((None, None), None) xs)
  | 8%nat => run collect_step [] xs
  | _ => map (fun _ => []) xs end.
Definition prefixes (xs : list Q) : list (list Q) := map (fun n => firstn n xs) (seq 0 (S (length xs))).
(* kind 9: a long run through the sum sink: all running outputs (linear scan) and only the final finalize *)
Fixpoint running_sums (acc : Q) (xs : list Q) : list tup :=
  match xs with [] => [] | x :: r => let a := Qred (acc + x) in [a] :: running_sums a r end.
Definition check_long (c : case) : verdict :=
  let ok_run := list_eqb tup_eqb (map (fun m => [m]) (run sum_step None (cxs c))) (crun c) in
  let ok_fin := list_eqb (opt_eqb tup_eqb) [option_map (fun m => [m]) (exec sum_step None (cxs c))] (cfins c) in
  let spec := list_eqb tup_eqb (running_sums 0 (cxs c)) (crun c) && list_eqb (opt_eqb tup_eqb) [match cxs c with [] => None | _ => Some [qsum (cxs c)] end] (cfins c) in
  mkv (negb (cpanic c) && ok_run && ok_fin) (negb (cpanic c) && spec) true.
Definition check_short (c : case) : verdict :=
  let k := ckind c in
  let out_ok := negb (cpanic c) && list_eqb tup_eqb (model_run k (cxs c)) (crun c)
                && list_eqb (opt_eqb tup_eqb) (map (model_fin k) (prefixes (cxs c))) (cfins c) in
  let spec_ok := negb (cpanic c)
                 && list_eqb (opt_eqb tup_eqb) (map (spec_fin k) (prefixes (cxs c))) (cfins c)
                 && list_eqb tup_eqb (map (spec_run k) (tl (prefixes (cxs c)))) (crun c) in
  mkv out_ok spec_ok ((3 <=? length (cxs c))%nat && negb (all_eq (cxs c))).
Definition check (c : case) : verdict := if (ckind c =? 9)%nat then check_long c else check_short c.
