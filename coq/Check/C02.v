From Coq Require Import ZArith.
From Signalo Require Import Model.Median Spec.C02 Base.Machine Base.Report.

(* samples are option Z: None plays NaN.  accs: (min, median, max) accessor results before the
   first sample and after every sample; outer None = the accessor panicked. *)
Definition acc3 := (option (option (option Z)) * option (option (option Z)) * option (option (option Z)))%type.
Record case := mk { cN : nat; cxs : list (option Z); cys : list (option Z); cpanic : bool; caccs : list acc3 }.

Definition oz_eqb (a b : option Z) : bool :=
  match a, b with Some x, Some y => Z.eqb x y | None, None => true | _, _ => false end.
Fixpoint list_eqb {A} (e : A -> A -> bool) (a b : list A) : bool :=
  match a, b with [], [] => true | x :: a', y :: b' => e x y && list_eqb e a' b' | _, _ => false end.
Definition opt_eqb {A} (e : A -> A -> bool) (a b : option A) : bool :=
  match a, b with Some x, Some y => e x y | None, None => true | _, _ => false end.

Definition has_nan (xs : list (option Z)) : bool := existsb (fun x => negb (is_some x)) xs.
Fixpoint has_dup (xs : list (option Z)) : bool :=
  match xs with [] => false | x :: r => existsb (oz_eqb x) r || has_dup r end.

Definition window (n : nat) (xs : list (option Z)) (k : nat) : list (option Z) := lastn n (firstn (S k) xs).

(* C02 on observed outputs *)
Definition c02_spec_okb (n : nat) (xs ys : list (option Z)) (panic : bool) : bool :=
  negb panic && (length xs =? length ys) &&
  forallb (fun k =>
     let w := window n xs k in
     let y := nth k ys None in
     if has_nan w then existsb (oz_eqb y) w
     else oz_eqb y (lower_median nleb w None)) (seq 0 (length xs)).

(* windows wider than this are not run through the list-based model (quadratic in the width): the boolean spec alone
   decides them -- by C02_median_lower the model satisfies that spec for every width *)
Definition wide (n : nat) : bool := (1000 <? n).
Definition check (c : case) : verdict :=
  let '(ys, p) := if wide (cN c) then (cys c, cpanic c) else orun_partial (Median.filter nleb) (init (cN c)) (cxs c) in
  let model_ok := Bool.eqb p (cpanic c) && list_eqb oz_eqb ys (cys c) in
  let spec_ok := c02_spec_okb (cN c) (cxs c) (cys c) (cpanic c) in
  let nt := (cN c <? length (cxs c)) && has_dup (cxs c) in
  mkv model_ok spec_ok nt.
