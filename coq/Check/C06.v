From Signalo Require Import Check.Common Model.Smooth Spec.C06.
(* plain = true: the measurement-only Filter impl was used (controls are all 0);
   cys/ccovs: estimate and covariance (read through IntoGuts of a clone) after every sample *)
(* ccov0: covariance stored in the (value = None) state the run starts from (0 for a fresh filter; anything for a
   state built through FromGuts: the first sample must overwrite it with q/c^2) *)
Record case := mk { ccfg : k_cfg; cplain : bool; ccov0 : Q; czus : list (Q * Q); cys : list Q; ccovs : list Q; cpanic : bool }.
Fixpoint model_run (c : k_cfg) (s : k_st) (zus : list (Q * Q)) : list Q * list Q * bool :=
  match zus with
  | [] => ([], [], false)
  | zu :: r => match k_process c s zu with
               | Some (s', y) => let '(ys, ps, p) := model_run c s' r in (y :: ys, cov s' :: ps, p)
               | None => ([], [], true) end
  end.
Fixpoint ref_all (p : kparams) (st : option (Q * Q)) (zus : list (Q * Q)) : list (Q * Q) :=
  match zus with
  | [] => []
  | (z, u) :: r => let xP := match st with None => ref_init p z | Some xP => ref_step p xP (z, u) end in
                   let xP := (Qred (fst xP), Qred (snd xP)) in xP :: ref_all p (Some xP) r
  end.
(* would the textbook recursion divide by zero? (then the Rust code panics and the property says nothing) *)
Fixpoint ref_safe (p : kparams) (st : option (Q * Q)) (zus : list (Q * Q)) : bool :=
  match zus with
  | [] => true
  | (z, u) :: r =>
      match st with
      | None => negb (qeqb (pc p) 0) && ref_safe p (Some (ref_init p z)) r
      | Some xP => negb (qeqb (ref_den p (snd xP)) 0) &&
                   ref_safe p (Some (let xP' := ref_step p xP (z, u) in (Qred (fst xP'), Qred (snd xP'))) ) r
      end
  end.
Definition params (c : k_cfg) := {| pr := kr c; pq := kq c; pa := ka c; pb := kb c; pc := kc c |}.
Definition convex_cfg (c : k_cfg) : bool :=
  qeqb (ka c) 1 && qeqb (kb c) 0 && qeqb (kc c) 1 && qleb 0 (kr c) && qltb 0 (kq c).
Definition check (c : case) : verdict :=
  let '(ys, ps, p) := model_run (ccfg c) {| cov := ccov0 c; kvalue := None |} (czus c) in
  let out_ok := Bool.eqb p (cpanic c) && qlist_eqb ys (cys c) && qlist_eqb ps (ccovs c) in
  let safe := ref_safe (params (ccfg c)) None (czus c) in
  let r := ref_all (params (ccfg c)) None (czus c) in
  let zs := map fst (czus c) in
  let spec_ok :=
    if safe then
      negb (cpanic c) && qlist_eqb (map fst r) (cys c) && qlist_eqb (map snd r) (ccovs c) &&
      (negb (convex_cfg (ccfg c)) ||
       (forallb (fun n => in_hull (firstn (S n) zs) (qnth n (cys c))) (seq 0 (length zs))
        && forallb (qleb 0) (ccovs c)
        && (negb (all_eq zs) || forallb (qeqb (qnth 0 zs)) (cys c))))
    else true in
  mkv out_ok spec_ok ((3 <=? length (czus c))%nat && safe && negb (all_eq zs)).
