From Signalo Require Import Check.Common Model.Registry.
(* ce = index into Model.Registry.registry; chist, cprobe = encoded inputs; couts_* = implementation outputs:
   on the history, on the probe after reset(), and of a freshly constructed filter on the probe;
   ccfg_same = config()/config_ref() unchanged by reset (and cached() cleared, for Cache) *)
Record case := mk { ce : nat; ccfg : list Q; chist : list (list Q); cprobe : list (list Q);
                    couts_hist : list (list Q); couts_reset : list (list Q); couts_fresh : list (list Q);
                    ccfg_same : bool; cpanic : bool }.
Fixpoint run_m (m : machine) (c : list Q) (s : St m) (xs : list (list Q)) : list (list Q) * option (St m) :=
  match xs with
  | [] => ([], Some s)
  | x :: r => match mstep m c s x with
              | Some (s', y) => let '(ys, f) := run_m m c s' r in (y :: ys, f)
              | None => ([], None) end
  end.
Definition ll_eqb := list_eqb qlist_eqb.
Definition check (c : case) : verdict :=
  let m := nth (ce c) registry m_mean in
  let '(oh, f) := run_m m (ccfg c) (minit m (ccfg c)) (chist c) in
  let model_ok := negb (cpanic c) && ll_eqb oh (couts_hist c) &&
    match f with
    | Some s => let '(orr, _) := run_m m (ccfg c) (mreset m (ccfg c) s) (cprobe c) in ll_eqb orr (couts_reset c)
    | None => false end in
  let spec_ok := negb (cpanic c) && ll_eqb (couts_reset c) (couts_fresh c) && ccfg_same c
                 && (length (couts_reset c) =? length (cprobe c))%nat in
  mkv model_ok spec_ok ((2 <=? length (chist c))%nat && negb (ll_eqb (firstn (length (chist c)) (couts_fresh c ++ couts_fresh c)) (couts_hist c)
                          && (length (chist c) <=? length (cprobe c))%nat)).
