From Signalo Require Import Check.Common Model.Smooth.
(* kind 0 = exponential mean (gain cpre), 1 = exponential median (pre, mid, post) *)
Record case := mk { ckind : nat; cpre : Q; cmid : Q; cpost : Q; cxs : list Q; cys : list Q; cpanic : bool }.
Definition model (c : case) : list Q :=
  match ckind c with
  | 0%nat => run (ema_step (cpre c)) None (cxs c)
  | _ => run (xm_step {| xpre := cpre c; xmid := cmid c; xpost := cpost c |}) xm_init (cxs c)
  end.
(* the recurrences of the property statement, evaluated on the observed outputs *)
Fixpoint ema_seq (w : Q) (prev : option Q) (xs : list Q) : list Q :=
  match xs with [] => []
  | x :: r => let y := match prev with None => x | Some p => p + w * (x - p) end in y :: ema_seq w (Some y) r end.
Definition rec_ok (c : case) : bool :=
  match ckind c with
  | 0%nat => forallb (fun n => qeqb (qnth n (cys c))
               (match n with O => qnth 0 (cxs c)
                | S m => qnth m (cys c) + cpre c * (qnth n (cxs c) - qnth m (cys c)) end)) (seq 0 (length (cxs c)))
  | _ => let pre := ema_seq (cpre c) None (cxs c) in
         forallb (fun n => qeqb (qnth n (cys c))
               (match n with O => qnth 0 (cxs c)
                | S m => let prev := qnth m (cys c) in
                         let med := prev + cmid c * (qnth n pre - prev) in
                         prev + cpost c * (med - prev) end)) (seq 0 (length (cxs c)))
  end.
Definition gains_ok (c : case) : bool :=
  match ckind c with 0%nat => unit_ok (cpre c) | _ => unit_ok (cpre c) && unit_ok (cmid c) && unit_ok (cpost c) end.
Definition hull_ok (c : case) : bool :=
  negb (gains_ok c) ||
  forallb (fun n => in_hull (firstn (S n) (cxs c)) (qnth n (cys c))
                    && (negb (all_eq (firstn (S n) (cxs c))) || qeqb (qnth n (cys c)) (qnth 0 (cxs c))))
          (seq 0 (length (cxs c))).
Definition check (c : case) : verdict :=
  let out_ok := negb (cpanic c) && qlist_eqb (model c) (cys c) in
  let spec_ok := negb (cpanic c) && (length (cxs c) =? length (cys c))%nat && rec_ok c && hull_ok c in
  mkv out_ok spec_ok ((3 <=? length (cxs c))%nat && negb (qeqb (qnth 0 (cxs c)) 0) && negb (all_eq (cxs c))).
