From Coq Require Import ZArith.
From Signalo Require Import Model.Median Spec.C02 Base.Machine Base.Report Check.C02.

(* accessor triples of the model: before the first sample and after each one *)
Fixpoint model_accs (s : mstate (option Z)) (xs : list (option Z)) : list acc3 :=
  (acc_min s, acc_median s, acc_max s) ::
  match xs with
  | [] => []
  | x :: r => match Median.filter nleb s x with Some (s', _) => model_accs s' r | None => [] end
  end.

Definition acc_eqb (a b : acc3) : bool :=
  let '(a1, a2, a3) := a in let '(b1, b2, b3) := b in
  opt_eqb (opt_eqb oz_eqb) a1 b1 && opt_eqb (opt_eqb oz_eqb) a2 b2 && opt_eqb (opt_eqb oz_eqb) a3 b3.

(* C17 on observed accessor values, total-order windows only (no NaN).
   Result: (min/median/"nothing before the first sample" clauses ok, max clause ok,
            max failures all in the known class "newest sample is not a window maximum and
            max() returns exactly that newest sample") *)
Definition c17_spec (n : nat) (xs : list (option Z)) (accs : list acc3) : bool * bool * bool :=
  let first_ok := match accs with (Some None, Some None, Some None) :: _ => true | _ => false end in
  let per := map (fun k =>
       let w := window n xs k in
       let '(amin, amed, amax) := nth (S k) accs (None, None, None) in
       let newest := nth k xs None in
       let okmin := opt_eqb (opt_eqb oz_eqb) amin (Some (Some (window_min nleb w None))) in
       let okmed := opt_eqb (opt_eqb oz_eqb) amed (Some (Some (lower_median nleb w None))) in
       let okmax := opt_eqb (opt_eqb oz_eqb) amax (Some (Some (window_max nleb w None))) in
       let known := negb (oz_eqb newest (window_max nleb w None))
                    && opt_eqb (opt_eqb oz_eqb) amax (Some (Some newest)) in
       (okmin && okmed, okmax, okmax || known)) (seq 0 (length xs)) in
  (first_ok && (length accs =? S (length xs)) && forallb (fun t => fst (fst t)) per,
   forallb (fun t => snd (fst t)) per,
   forallb snd per).

Definition check (c : case) : verdict :=
  let accs := if wide (cN c) then caccs c else model_accs (init (cN c)) (cxs c) in
  let model_ok := list_eqb acc_eqb accs (caccs c) in
  if has_nan (cxs c) then mkv model_ok true false
  else
    let '(ok_other, ok_max, known) := c17_spec (cN c) (cxs c) (caccs c) in
    let nt := (cN c <? length (cxs c)) && has_dup (cxs c) in
    {| code := ((if model_ok then 0 else 1) +
                (if ok_other then (if ok_max then 0 else if known then 4 else 2) else 2))%N;
       nontriv := nt |}.
