(* C07 — Daubechies analysis followed by synthesis reconstructs the signal.  Statements only.
   The per-order obligations (daub_ok for the 10 tables, regenerated from the Rust source on every
   run) live in build/gen/Daub_<N>.v; here are the theorems that give them their meaning. *)
From Signalo Require Import Model.Wavelet Spec.C05 Spec.C07 Proofs.Wavelet.

(* analysis = exactly the two convolutions of the input with the configured kernels *)
Theorem C07_analyze_is_two_convs : forall low high x0 hist, length high = length low ->
  let sig := x0 :: hist in
  exists ys, orun (ana_step (length low) low high) ([], []) sig = Some ys /\ length ys = length sig /\
    forall k, (k < length sig)%nat ->
      fst (nth k ys (0, 0)) == fir low sig k /\ snd (nth k ys (0, 0)) == fir high sig k.
Proof. exact analyze_is_two_convs. Qed.
Print Assumptions C07_analyze_is_two_convs.

(* synthesis = the sum of the two convolutions *)
Theorem C07_synthesize_is_sum : forall low high lh0 lhs, length high = length low ->
  let sig := lh0 :: lhs in
  exists ys, orun (syn_step (length low) low high) ([], []) sig = Some ys /\ length ys = length sig /\
    forall k, (k < length sig)%nat ->
      nth k ys 0 == fir low (map fst sig) k + fir high (map snd sig) k.
Proof. exact synthesize_is_sum. Qed.
Print Assumptions C07_synthesize_is_sum.

(* the cascade is one FIR filter with the combined kernel (edge padding composes exactly) *)
Theorem C07_cascade : forall lowA highA lowS highS x0 hist,
  length highA = length lowA -> length lowS = length lowA -> length highS = length lowA ->
  let n := length lowA in let sig := x0 :: hist in
  exists das ys, orun (ana_step n lowA highA) ([], []) sig = Some das /\
    orun (syn_step n lowS highS) ([], []) das = Some ys /\ length ys = length sig /\
    forall k, (k < length sig)%nat -> nth k ys 0 == fir (recon_kernel lowA highA lowS highS) sig k.
Proof. exact cascade. Qed.
Print Assumptions C07_cascade.

(* hence for every input bounded by M: the output is the input delayed by N-1 samples, up to
   residual * M, where residual = |r[N-1] - 1| + sum_{k <> N-1} |r[k]| of the combined kernel r *)
Theorem C07_recon_bound : forall lowA highA lowS highS x0 hist M,
  length highA = length lowA -> length lowS = length lowA -> length highS = length lowA ->
  (0 < length lowA)%nat ->
  let n := length lowA in let sig := x0 :: hist in
  Forall (fun v => Qabs v <= M) sig ->
  exists das ys, orun (ana_step n lowA highA) ([], []) sig = Some das /\
    orun (syn_step n lowS highS) ([], []) das = Some ys /\
    forall k, (k < length sig)%nat ->
      Qabs (nth k ys 0 - sig_at sig (k - (n - 1))) <= residual (recon_kernel lowA highA lowS highS) (n - 1) * M.
Proof. exact recon_bound. Qed.
Print Assumptions C07_recon_bound.

(* constant signals: gain of a kernel = sum of its coefficients *)
Theorem C07_constant_gain : forall c K n k, (k <= n)%nat ->
  fir c (repeat K (S n)) k == K * qsum c.
Proof. exact fir_constant. Qed.
Print Assumptions C07_constant_gain.

(* the kernels derived by the macro body have the right shape for the theorems above *)
Theorem C07_daub_kernel_lengths : forall tbl,
  length (daub_high tbl) = length (daub_low tbl) /\
  length (fst (daub_synthesis tbl)) = length (daub_low tbl) /\
  length (snd (daub_synthesis tbl)) = length (daub_low tbl) /\ length (daub_low tbl) = length tbl.
Proof. exact daub_lengths. Qed.
Print Assumptions C07_daub_kernel_lengths.

(* ---- the generic (float / integer) model of the bit-exact stream, instantiated at the rationals, is the model above ---- *)
From Signalo Require Base.Arith Model.Generic Proofs.Generic.
Theorem C07_generic_analyze : forall n low high s x, Signalo.Model.Generic.g_ana_step Signalo.Base.Arith.Qar n low high s x = Signalo.Model.Wavelet.ana_step n low high s x.
Proof. exact Signalo.Proofs.Generic.gq_ana. Qed.
Print Assumptions C07_generic_analyze.
Theorem C07_generic_synthesize : forall n low high s lh, Signalo.Model.Generic.g_syn_step Signalo.Base.Arith.Qar n low high s lh = Signalo.Model.Wavelet.syn_step n low high s lh.
Proof. exact Signalo.Proofs.Generic.gq_syn. Qed.
Print Assumptions C07_generic_synthesize.

(* No false alarm: the boolean reading of this property that the correspondence check evaluates on the IMPLEMENTATION's
   outputs (Check/C07.v, verdict bit 2) can never fail on outputs that agree with the model (bit 1 clear); side conditions,
   where there are any, are boolean and say which recorded observations the model comparison does not cover. *)
From Coq Require Import NArith.
From Signalo Require Base.Report Check.C07 Proofs.Sound_C07.
Theorem C07_checker_no_false_alarm : forall c : Signalo.Check.C07.case, Signalo.Proofs.Sound_C07.wf c = true -> N.land (Signalo.Base.Report.code (Signalo.Check.C07.check c)) 3 <> 2%N.
Proof. exact Signalo.Proofs.Sound_C07.C07_check_sound. Qed.
Print Assumptions C07_checker_no_false_alarm.
