(* C10 — Source adapters yield exactly what their iterator analogues yield.  Statements only.
   [sem e n] (Spec/C10.v) is "the first n items of the iterator analogue of e", written with list
   functions only; [run_ops false] runs the model of the (repaired) adapters. *)
From Coq Require Import ZArith.
From Signalo Require Import Model.Sources Spec.C10 Proofs.Sources Proofs.SourcesDenote.
Local Open Scope Z_scope.

(* any expression, any nesting depth, any number of pulls k (in particular any number of extra
   pulls past the end): the k results are the first k items of the analogue, then `None`s *)
Theorem C10_pulls_spec :
  forall e k, run_ops false (init e) (repeat OPull k) = Some (spec_results e (repeat OPull k)).
Proof. exact pulls_spec. Qed.
Print Assumptions C10_pulls_spec.

(* once the end has been reported it keeps being reported *)
Theorem C10_end_is_sticky :
  forall e k, exists items,
  run_ops false (init e) (repeat OPull k) = Some (map Some items ++ repeat None (k - length items)).
Proof. exact end_is_sticky. Qed.
Print Assumptions C10_end_is_sticky.

(* peek = look-ahead without consumption, for any interleaving of peek and pull *)
Theorem C10_peek_spec :
  forall e ops, Forall (fun o => o = OPull \/ o = OPeek) ops ->
  run_ops false (init (EPeek e)) ops = Some (spec_results (EPeek e) ops).
Proof. exact peek_spec. Qed.
Print Assumptions C10_peek_spec.

(* cache = pass-through remembering the last pull result (None before any pull and after the end) *)
Theorem C10_cache_spec :
  forall e ops, Forall (fun o => o = OPull \/ o = OCached) ops ->
  run_ops false (init (ECache e)) ops = Some (spec_results (ECache e) ops).
Proof. exact cache_spec. Qed.
Print Assumptions C10_cache_spec.

(* the fuel that `pull` is given (the height of the run-time state) always suffices: the model's
   out-of-fuel value never occurs, in any state, initial or not *)
Theorem C10_fuel_suffices : forall s fuel, (height s <= fuel)%nat -> pull false fuel s <> None.
Proof. exact pull_total_at_height. Qed.
Print Assumptions C10_fuel_suffices.

(* the one-step law for EVERY well-formed run-time state (not only initial expressions), in terms of
   the closed-form denotation of states `denote` (Proofs/SourcesDenote.v): a pull that yields v
   leaves the rest of the stream; a pull that reports the end leaves an ended state *)
Theorem C10_pull_denote : forall s fuel o s', WFs s -> (height s <= fuel)%nat ->
  pull false fuel s = Some (o, s') ->
  WFs s' /\
  match o with
  | Some v => forall n, denote s (S n) = v :: denote s' n
  | None => forall n, denote s n = [] /\ denote s' n = []
  end.
Proof. exact pull_denote. Qed.
Print Assumptions C10_pull_denote.
Theorem C10_denote_init : forall e n, WFs (init e) /\ denote (init e) n = sem e n.
Proof. intros e n. split; [apply WFs_init | apply denote_init]. Qed.
Print Assumptions C10_denote_init.

(* the spec itself on the corner cases the property names *)
Theorem C10_spec_examples :
  sem (EPadEdge (EList [7]) 2) 8 = [7; 7; 7; 7; 7]%Z /\
  sem (EPadEdge (EList [1; 2; 3]) 0) 8 = [1; 2; 3]%Z /\
  sem (EPadEdge (EList []) 3) 8 = [] /\
  sem (EPadConst (EList []) 9 2) 8 = [9; 9; 9; 9]%Z /\
  sem (ECycle (EList [1; 2])) 5 = [1; 2; 1; 2; 1]%Z /\
  sem (ESkip (ETake (EIncrement 5 2) 4) 1) 8 = [7; 9; 11]%Z /\
  sem (EChain (EList []) (ERepeat 4 2)) 8 = [4; 4]%Z.
Proof. exact spec_examples. Qed.
Print Assumptions C10_spec_examples.

(* the edge pad before the repair (recorded as fixed in KNOWN_FINDINGS.txt) *)
Theorem C10_old_edge_pad_refuted :
  run_ops true (init (EPadEdge (EList [1; 2; 3]) 0)) (repeat OPull 5)
    = Some [Some 1; Some 2; Some 3; Some 3; None]%Z /\
  run_ops true (init (EPadEdge (EList [7]) 2)) (repeat OPull 6)
    = Some [Some 7; Some 7; Some 7; None; None; None]%Z.
Proof. exact old_edge_pad_refuted. Qed.
Print Assumptions C10_old_edge_pad_refuted.

(* ---- bridge: the boolean spec evaluated by the correspondence check is satisfied by the model on every input ---- *)
From Signalo Require Spec.C03 Spec.C04 Spec.C10 Check.Common Check.C15 Proofs.Bridge.
(* C10: capping the counts of take / repeat / pads at K does not change the first n <= K items of the
   iterator analogue (skip counts are NOT capped: the harness only uses huge skips over short lists) *)
Theorem C10_count_capping_sound : forall e n K, Signalo.Proofs.Bridge.skip_free e = true -> (n <= K)%nat -> Signalo.Spec.C10.sem (Signalo.Proofs.Bridge.capc K e) n = Signalo.Spec.C10.sem e n.
Proof. exact Signalo.Proofs.Bridge.bridge_c10_cap. Qed.
Print Assumptions C10_count_capping_sound.
(* C10: a skip count at least as long as the list it skips over yields nothing, whatever its size
   (the only use the harness makes of huge skip counts) *)
Theorem C10_huge_skip_over_short_list : forall l c, (length l <= c)%nat -> forall n, Signalo.Spec.C10.sem (Sources.ESkip (Sources.EList l) c) n = [].
Proof. exact Signalo.Proofs.Bridge.bridge_c10_skip_short. Qed.
Print Assumptions C10_huge_skip_over_short_list.
(* C10: the general form: the cap is sound whenever the items requested plus all skip counts fit under it *)
Theorem C10_count_capping_sound_with_skips : forall e n K, (n + Signalo.Proofs.Bridge.skips e <= K)%nat -> Signalo.Spec.C10.sem (Signalo.Proofs.Bridge.capc K e) n = Signalo.Spec.C10.sem e n.
Proof. exact Signalo.Proofs.Bridge.bridge_c10_cap_skips. Qed.
Print Assumptions C10_count_capping_sound_with_skips.
(* C10: the one nested huge-skip shape of the harness: the skip count may be replaced by any other count past the list's end *)
Theorem C10_pad_over_huge_skip : forall l c c' k, (length l <= c)%nat -> (length l <= c')%nat ->
  forall n, Signalo.Spec.C10.sem (Sources.EPadEdge (Sources.ESkip (Sources.EList l) c) k) n = Signalo.Spec.C10.sem (Sources.EPadEdge (Sources.ESkip (Sources.EList l) c') k) n.
Proof. exact Signalo.Proofs.Bridge.bridge_c10_pad_over_skip_short. Qed.
Print Assumptions C10_pad_over_huge_skip.

(* No false alarm: the boolean reading of this property that the correspondence check evaluates on the IMPLEMENTATION's
   outputs (Check/C10.v, verdict bit 2) can never fail on outputs that agree with the model (bit 1 clear); side conditions,
   where there are any, are boolean and say which recorded observations the model comparison does not cover. *)
From Coq Require Import NArith.
From Signalo Require Base.Report Check.C10 Proofs.Sound_C10.
Theorem C10_checker_no_false_alarm : forall c : Signalo.Check.C10.case, N.land (Signalo.Base.Report.code (Signalo.Check.C10.check c)) 3 <> 2%N.
Proof. exact Signalo.Proofs.Sound_C10.C10_check_sound. Qed.
Print Assumptions C10_checker_no_false_alarm.
