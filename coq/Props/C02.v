(* C02 — Moving median returns the lower median of the last min(k,N) samples.  Statements only. *)
From Signalo Require Import Model.Median Spec.C02 Base.Machine Proofs.Median.

(* total order: for every width N >= 1, every history and every next sample, the filter does not
   panic and returns the element of rank floor((m-1)/2) of the ascending last-m samples *)
Theorem C02_median_lower :
  forall (T : Type) (leb : T -> T -> bool), total_order leb ->
  forall N, 0 < N -> forall hist x,
  exists s s', oexec (Median.filter leb) (init N) hist = Some s /\
    Median.filter leb s x = Some (s', lower_median leb (lastn N (hist ++ [x])) x).
Proof. exact median_lower. Qed.
Print Assumptions C02_median_lower.

(* any comparison function at all (partial orders, NaN): no panic, and the result is one of the
   last-m samples *)
Theorem C02_median_robust :
  forall (T : Type) (leb : T -> T -> bool) N, 0 < N -> forall hist x,
  exists s s' y, oexec (Median.filter leb) (init N) hist = Some s /\
    Median.filter leb s x = Some (s', y) /\ In y (lastn N (hist ++ [x])).
Proof. exact median_robust. Qed.
Print Assumptions C02_median_robust.
