(* C02 — Moving median returns the lower median of the last min(k,N) samples.  Statements only. *)
From Signalo Require Import Model.Median Spec.C02 Base.Machine Proofs.Median.

(* total order: for every width N >= 1, every history and every next sample, the filter does not
   panic and returns the element of rank floor((m-1)/2) of the ascending last-m samples *)
Theorem C02_median_lower :
  forall (T : Type) (leb : T -> T -> bool), total_order leb ->
  forall N, 0 < N -> forall hist x,
  exists s s', oexec (Median.filter leb) (init N) hist = Some s /\
    Median.filter leb s x = Some (s', lower_median leb (lastn N (hist ++ [x])) x).
Proof. exact median_lower. Qed.
Print Assumptions C02_median_lower.

(* any comparison function at all (partial orders, NaN): no panic, and the result is one of the
   last-m samples *)
Theorem C02_median_robust :
  forall (T : Type) (leb : T -> T -> bool) N, 0 < N -> forall hist x,
  exists s s' y, oexec (Median.filter leb) (init N) hist = Some s /\
    Median.filter leb s x = Some (s', y) /\ In y (lastn N (hist ++ [x])).
Proof. exact median_robust. Qed.
Print Assumptions C02_median_robust.

(* the moving median commutes with every order embedding of the sample type (positive scaling, translation, any strictly
   increasing map): only the ORDER of the samples matters *)
From Signalo Require Proofs.OrderEmbed.
Theorem C02_median_equivariant :
  forall (T : Type) (leb : T -> T -> bool), total_order leb ->
  forall f : T -> T, (forall a b, leb (f a) (f b) = leb a b) ->
  forall N, 0 < N -> forall hist x,
  exists s s' t t' y, oexec (Median.filter leb) (init N) hist = Some s /\ Median.filter leb s x = Some (s', y) /\
    oexec (Median.filter leb) (init N) (map f hist) = Some t /\ Median.filter leb t (f x) = Some (t', f y).
Proof. exact Signalo.Proofs.OrderEmbed.median_equivariant. Qed.
Print Assumptions C02_median_equivariant.

(* No false alarm: the boolean reading of this property that the correspondence check evaluates on the IMPLEMENTATION's
   outputs (Check/C02.v, verdict bit 2) can never fail on outputs that agree with the model (bit 1 clear); side conditions,
   where there are any, are boolean and say which recorded observations the model comparison does not cover. *)
From Coq Require Import NArith.
From Signalo Require Base.Report Check.C02 Proofs.Sound_C02.
Theorem C02_checker_no_false_alarm : forall c : Signalo.Check.C02.case, (1 <= Signalo.Check.C02.cN c)%nat -> Signalo.Check.C02.wide (Signalo.Check.C02.cN c) = false -> N.land (Signalo.Base.Report.code (Signalo.Check.C02.check c)) 3 <> 2%N.
Proof. exact Signalo.Proofs.Sound_C02.C02_check_sound. Qed.
Print Assumptions C02_checker_no_false_alarm.
