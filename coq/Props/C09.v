(* C09 — Slope and peak classifiers report sign changes of the first difference. *)
From Signalo Require Import Model.Classify Proofs.Classify.

Theorem C09_slopes_first : forall (T : Type) cmp (x : T), last_out (slopes_step cmp) None [] x = Flat.
Proof. exact slopes_first. Qed.
Print Assumptions C09_slopes_first.
Theorem C09_slopes_spec : forall (T : Type) cmp hist (h x : T),
  last_out (slopes_step cmp) None (hist ++ [h]) x =
  match cmp h x with Some Lt => Rising | Some Gt => Falling | _ => Flat end.
Proof. exact slopes_spec. Qed.
Print Assumptions C09_slopes_spec.
(* peak at sample n: maximum iff x[n-2] < x[n-1] > x[n], minimum iff x[n-2] > x[n-1] < x[n] *)
Theorem C09_peaks_values : forall (T : Type) cmp hist (a b c : T),
  let out := last_out (peaks_step cmp) (None, None) (hist ++ [a; b]) c in
  (out = PMax <-> lt T cmp a b /\ gt T cmp b c) /\ (out = PMin <-> gt T cmp a b /\ lt T cmp b c).
Proof. exact peaks_values_spec. Qed.
Print Assumptions C09_peaks_values.
Theorem C09_peaks_first_two : forall (T : Type) cmp (x y : T),
  run (peaks_step cmp) (None, None) [x; y] = [PNone; PNone].
Proof. exact peaks_first_two. Qed.
Print Assumptions C09_peaks_first_two.
(* driving the detector with samples or with the corresponding slope sequence: identical outputs *)
Theorem C09_peaks_paths_agree : forall (T : Type) cmp (xs : list T),
  run (peaks_step cmp) (None, None) xs = run peaks_slope_step None (run (slopes_step cmp) None xs).
Proof. exact peaks_paths_agree. Qed.
Print Assumptions C09_peaks_paths_agree.
Theorem C09_peaks_table :
  map (fun p => map (peak_of p) [Rising; Flat; Falling]) [None; Some Rising; Some Flat; Some Falling]
  = [[PNone; PNone; PNone]; [PNone; PNone; PMax]; [PNone; PNone; PNone]; [PMin; PNone; PNone]].
Proof. exact peaks_table. Qed.
Print Assumptions C09_peaks_table.

(* No false alarm: the boolean reading of this property that the correspondence check evaluates on the IMPLEMENTATION's
   outputs (Check/C09.v, verdict bit 2) can never fail on outputs that agree with the model (bit 1 clear); side conditions,
   where there are any, are boolean and say which recorded observations the model comparison does not cover. *)
From Coq Require Import NArith.
From Signalo Require Base.Report Check.C09 Proofs.Sound_C09.
Theorem C09_checker_no_false_alarm : forall c : Signalo.Check.C09.case, N.land (Signalo.Base.Report.code (Signalo.Check.C09.check c)) 3 <> 2%N.
Proof. exact Signalo.Proofs.Sound_C09.C09_check_sound. Qed.
Print Assumptions C09_checker_no_false_alarm.
