(* C19 — Windowed filters drop every owned sample exactly once.  PARTIAL: what a memory-less model can
   carry is the ownership bookkeeping: how many sample values each filter holds after any history, that
   the count is bounded by the window, and the ledger arithmetic of clone / reset / drop.  Undefined
   behaviour itself cannot be expressed in Gallina; it is observed on the implementation side by the
   instrumented sample type (and Miri in the thorough tier). *)
From Coq Require Import ZArith.
From Signalo Require Import Base.QR Base.Machine Base.ListX Spec.C04.
From Signalo Require Model.Median Model.Mean Model.Bounds Model.Convolve.
From Signalo Require Import Model.Ledger Proofs.Ledger.

(* after k samples the median filter holds exactly min(k,N) values (one per occupied ring slot) *)
Theorem C19_median_owned : forall N hist s, (0 < N)%nat ->
  oexec (Median.filter Z.leb) (Median.init N) hist = Some s ->
  owned N (IMedian s) = Nat.min (length hist) N.
Proof. exact median_owned. Qed.
Print Assumptions C19_median_owned.
(* the moving average: min(k,N) taps + the running sum (once a sample was seen) + the weight *)
Theorem C19_mean_owned : forall N hist, (0 < N)%nat ->
  owned N (IMean (exec (Mean.step Mean.qquot N false) Mean.init hist))
  = (Nat.min (length hist) N + (match hist with [] => 1 | _ => 2 end))%nat.
Proof. exact mean_owned. Qed.
Print Assumptions C19_mean_owned.
(* moving max (min, bounds: the same deque): between 1 and N candidates once a sample was seen *)
Theorem C19_max_owned_bounded : forall n hist s, (0 < n)%nat ->
  oexec (Bounds.max_step Z.leb (N.of_nat n) Bounds.usize_max false) Bounds.init hist = Some s ->
  (owned n (IMax s) <= n)%nat /\ (hist <> [] -> (1 <= owned n (IMax s))%nat).
Proof. exact max_owned_bounded. Qed.
Print Assumptions C19_max_owned_bounded.
(* convolution: N coefficients + a full ring of N taps from the first sample on; delay: N taps *)
Theorem C19_conv_owned : forall n coeffs x0 hist t, length coeffs = n ->
  oexec (Convolve.conv_step n coeffs) [] (x0 :: hist) = Some t -> owned n (IConv t) = (n + n)%nat.
Proof. exact conv_owned. Qed.
Print Assumptions C19_conv_owned.
Theorem C19_delay_owned : forall n (x0 : Z) hist t,
  oexec (Convolve.delay_step n) [] (x0 :: hist) = Some t -> owned n (IDelay t) = n.
Proof. exact delay_owned. Qed.
Print Assumptions C19_delay_owned.
(* ledger arithmetic of the pool operations: a clone adds exactly the values of the cloned instance, a
   drop removes exactly those of the dropped one, a reset replaces them by those of a fresh instance, a
   guts round trip changes nothing; nothing is live once every slot has been dropped *)
Theorem C19_ledger_ops : forall k n pool j i,
  nth_error pool j = Some (Some i) ->
  exec_op k n pool (OClone j) = Some (pool ++ [Some i]) /\ live n (pool ++ [Some i]) = (live n pool + owned n i)%nat /\
  (live n (set_slot pool j None) + owned n i = live n pool)%nat /\
  (live n (set_slot pool j (Some (fresh k n))) + owned n i = live n pool + owned n (fresh k n))%nat /\
  exec_op k n pool (OGuts j) = Some pool /\
  live n (map (fun _ => None) pool) = 0%nat.
Proof. exact ledger_ops. Qed.
Print Assumptions C19_ledger_ops.
(* the MaybeUninit initialisation loop of Median::default writes every slot exactly once before the
   array is read as initialised, and the result is the initial buffer *)
Theorem C19_uninit_loop_initialises : forall n,
  uninit_write n = map Some (Median.buffer (@Median.init Z n)).
Proof. exact uninit_loop_initialises. Qed.
Print Assumptions C19_uninit_loop_initialises.
