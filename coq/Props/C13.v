(* C13 — Exponential smoothers obey their recurrences and stay in the data hull. *)
From Signalo Require Import Model.Smooth Base.Lincomb Proofs.ExpSmooth.

Theorem C13_ema_first : forall w x, last_out (ema_step w) None [] x = x.
Proof. exact ema_first. Qed.
Print Assumptions C13_ema_first.
Theorem C13_ema_rec : forall w hist h x,
  let prev := last_out (ema_step w) None hist h in
  last_out (ema_step w) None (hist ++ [h]) x == prev + w * (x - prev).
Proof. exact ema_rec. Qed.
Print Assumptions C13_ema_rec.
(* for every gain in [0,1] and every history: a convex combination of the samples seen so far *)
Theorem C13_ema_convex : forall w hist x, 0 <= w -> w <= 1 ->
  Conv (hist ++ [x]) (last_out (ema_step w) None hist x).
Proof. exact ema_conv. Qed.
Print Assumptions C13_ema_convex.
Theorem C13_ema_hull : forall w hist x lo hi, 0 <= w -> w <= 1 ->
  Forall (fun v => lo <= v <= hi) (hist ++ [x]) -> lo <= last_out (ema_step w) None hist x <= hi.
Proof. exact ema_hull. Qed.
Print Assumptions C13_ema_hull.
Theorem C13_ema_const : forall w c k, 0 <= w -> w <= 1 -> last_out (ema_step w) None (repeat c k) c == c.
Proof. exact ema_const. Qed.
Print Assumptions C13_ema_const.

Theorem C13_expmed_first : forall c x, last_out (xm_step c) xm_init [] x = x.
Proof. exact xm_first. Qed.
Print Assumptions C13_expmed_first.
(* out[n] = post(prev + mid*(pre(x[n]) - prev)): pre is the EMA with gain `pre` over the raw samples,
   post the EMA with gain `post` whose state is the previous output prev *)
Theorem C13_expmed_rec : forall c hist h x,
  let prev := last_out (xm_step c) xm_init hist h in
  let pre_x := snd (ema_step (xpre c) (exec (ema_step (xpre c)) None (hist ++ [h])) x) in
  let med := prev + xmid c * (pre_x - prev) in
  last_out (xm_step c) xm_init (hist ++ [h]) x == prev + xpost c * (med - prev).
Proof. exact xm_rec. Qed.
Print Assumptions C13_expmed_rec.
Theorem C13_expmed_convex : forall c, 0 <= xpre c <= 1 -> 0 <= xmid c <= 1 -> 0 <= xpost c <= 1 ->
  forall hist x, Conv (hist ++ [x]) (last_out (xm_step c) xm_init hist x).
Proof. exact xm_conv. Qed.
Print Assumptions C13_expmed_convex.
Theorem C13_expmed_hull : forall c, 0 <= xpre c <= 1 -> 0 <= xmid c <= 1 -> 0 <= xpost c <= 1 ->
  forall hist x lo hi, Forall (fun v => lo <= v <= hi) (hist ++ [x]) ->
  lo <= last_out (xm_step c) xm_init hist x <= hi.
Proof. exact xm_hull. Qed.
Print Assumptions C13_expmed_hull.
Theorem C13_expmed_const : forall c, 0 <= xpre c <= 1 -> 0 <= xmid c <= 1 -> 0 <= xpost c <= 1 ->
  forall v k, last_out (xm_step c) xm_init (repeat v k) v == v.
Proof. exact xm_const. Qed.
Print Assumptions C13_expmed_const.
(* what "convex combination" means, and why it gives hull and constants: Base/Lincomb.v
   Conv xs y := exists ws, |ws| = |xs| /\ all ws >= 0 /\ sum ws == 1 /\ y == sum ws_i * xs_i *)
Theorem C13_conv_meaning : forall xs y lo hi, Conv xs y ->
  Forall (fun x => lo <= x <= hi) xs -> lo <= y <= hi.
Proof. exact Conv_hull. Qed.
Print Assumptions C13_conv_meaning.

(* ---- the generic (float / integer) model of the bit-exact stream, instantiated at the rationals, is the model above ---- *)
From Signalo Require Base.Arith Model.Generic Proofs.Generic.
Theorem C13_generic_ema : forall w s x, Signalo.Model.Generic.g_ema_step Signalo.Base.Arith.Qar w s x = Signalo.Model.Smooth.ema_step w s x.
Proof. exact Signalo.Proofs.Generic.gq_ema. Qed.
Print Assumptions C13_generic_ema.
Theorem C13_generic_xm : forall c s x, (let '(s', y) := Signalo.Model.Generic.g_xm_step Signalo.Base.Arith.Qar (Signalo.Model.Smooth.xpre c) (Signalo.Model.Smooth.xmid c) (Signalo.Model.Smooth.xpost c) s x in (Signalo.Proofs.Generic.xm_of s', y)) = Signalo.Model.Smooth.xm_step c (Signalo.Proofs.Generic.xm_of s) x.
Proof. exact Signalo.Proofs.Generic.gq_xm. Qed.
Print Assumptions C13_generic_xm.

(* No false alarm: the boolean reading of this property that the correspondence check evaluates on the IMPLEMENTATION's
   outputs (Check/C13.v, verdict bit 2) can never fail on outputs that agree with the model (bit 1 clear); side conditions,
   where there are any, are boolean and say which recorded observations the model comparison does not cover. *)
From Coq Require Import NArith.
From Signalo Require Base.Report Check.C13 Proofs.Sound_C13.
Theorem C13_checker_no_false_alarm : forall c : Signalo.Check.C13.case, N.land (Signalo.Base.Report.code (Signalo.Check.C13.check c)) 3 <> 2%N.
Proof. exact Signalo.Proofs.Sound_C13.C13_check_sound. Qed.
Print Assumptions C13_checker_no_false_alarm.
