(* C08 — Threshold, Schmitt trigger and debounce follow their reference automata. *)
From Coq Require Import NArith.
From Signalo Require Import Model.Classify Proofs.Classify.

Theorem C08_threshold : forall (T : Type) (leb : T -> T -> bool) (U : Type) thr (outs : U * U) hist x,
  last_out (thr_step leb thr outs) tt hist x = pick outs (leb thr x).
Proof. exact threshold_spec. Qed.
Print Assumptions C08_threshold.

(* starts off; off -> on exactly on a sample strictly above high; on -> off exactly on a sample
   strictly below low; output = configured value for the new state.  Any relation of low to high. *)
Theorem C08_schmitt_transitions : forall (T : Type) (leb : T -> T -> bool) (U : Type) lo hi (outs : U * U) hist x,
  let on := exec (schmitt_step leb lo hi outs) false hist in
  let on' := exec (schmitt_step leb lo hi outs) false (hist ++ [x]) in
  (on = false -> (on' = true <-> above T leb hi x)) /\
  (on = true -> (on' = false <-> below T leb lo x)) /\
  last_out (schmitt_step leb lo hi outs) false hist x = pick outs on'.
Proof. exact schmitt_transitions. Qed.
Print Assumptions C08_schmitt_transitions.
Theorem C08_schmitt_starts_off : forall (T : Type) (leb : T -> T -> bool) (U : Type) lo hi (outs : U * U),
  exec (schmitt_step leb lo hi outs) false [] = false.
Proof. exact schmitt_starts_off. Qed.
Print Assumptions C08_schmitt_starts_off.
(* for low <= high the state is a function of the history alone *)
Theorem C08_schmitt_history : forall (T : Type) (leb : T -> T -> bool) (U : Type),
  (forall a b, leb a b = true \/ leb b a = true) ->
  (forall a b c, leb a b = true -> leb b c = true -> leb a c = true) ->
  forall lo hi (outs : U * U) hist, leb lo hi = true ->
  (exec (schmitt_step leb lo hi outs) false hist = true <-> schmitt_on T leb lo hi hist).
Proof. exact schmitt_history. Qed.
Print Assumptions C08_schmitt_history.

(* debounce: counter = min(run length, usize::MAX); on <-> threshold <= run length -- from a fresh
   filter and from any injected counter value (count = min r0 maxu), for every threshold <= maxu *)
Theorem C08_debounce_count : forall (T : Type) (eqb : T -> T -> bool) (U : Type) maxu pred threshold (outs : U * U) r0 hist,
  exec (deb_step eqb maxu threshold pred outs) (N.min r0 maxu) hist
  = N.min (total_run T eqb pred r0 hist) maxu.
Proof. exact debounce_count. Qed.
Print Assumptions C08_debounce_count.
Theorem C08_debounce_spec : forall (T : Type) (eqb : T -> T -> bool) (U : Type) maxu pred threshold (outs : U * U) r0 hist x,
  (threshold <= maxu)%N ->
  last_out (deb_step eqb maxu threshold pred outs) (N.min r0 maxu) hist x
  = pick outs (threshold <=? total_run T eqb pred r0 (hist ++ [x]))%N.
Proof. exact debounce_spec. Qed.
Print Assumptions C08_debounce_spec.
Theorem C08_debounce_fresh : forall (T : Type) (eqb : T -> T -> bool) (U : Type) maxu pred threshold (outs : U * U) hist x,
  (threshold <= maxu)%N ->
  last_out (deb_step eqb maxu threshold pred outs) 0%N hist x
  = pick outs (threshold <=? runlen T eqb pred (hist ++ [x]))%N.
Proof. exact debounce_fresh. Qed.
Print Assumptions C08_debounce_fresh.

(* ---- the generic (float / integer) model of the bit-exact stream, instantiated at the rationals, is the model above ---- *)
From Signalo Require Base.Arith Model.Generic Proofs.Generic.
Theorem C08_generic_schmitt : forall (U : Type) lo hi (outs : U * U) on x, Signalo.Model.Generic.g_schmitt_step Signalo.Base.Arith.Qar lo hi outs on x = Signalo.Model.Classify.schmitt_step Signalo.Base.QR.qleb lo hi outs on x.
Proof. exact @Signalo.Proofs.Generic.gq_schmitt. Qed.
Print Assumptions C08_generic_schmitt.

(* No false alarm: the boolean reading of this property that the correspondence check evaluates on the IMPLEMENTATION's
   outputs (Check/C08.v, verdict bit 2) can never fail on outputs that agree with the model (bit 1 clear); side conditions,
   where there are any, are boolean and say which recorded observations the model comparison does not cover. *)
From Coq Require Import NArith.
From Signalo Require Base.Report Check.C08 Proofs.Sound_C08.
Theorem C08_checker_no_false_alarm : forall c : Signalo.Check.C08.case, Signalo.Proofs.Sound_C08.wf c = true -> N.land (Signalo.Base.Report.code (Signalo.Check.C08.check c)) 3 <> 2%N.
Proof. exact Signalo.Proofs.Sound_C08.C08_check_sound. Qed.
Print Assumptions C08_checker_no_false_alarm.
