(* C18 — Hampel filter passes inliers, replaces gross outliers, and emits nothing else. *)
From Signalo Require Import Model.Hampel Spec.C02 Base.Machine Base.ListX Proofs.Hampel.
Local Open Scope Qc_scope.

(* the first sample is returned unchanged; the Hampel state is the median filter's state *)
Theorem C18_first : forall N thr x, (0 < N)%nat ->
  exists s', hampel_step thr (init N) x = Some (s', x).
Proof. exact hampel_first. Qed.
Print Assumptions C18_first.

(* after any non-empty history h ++ [p] (window w = its last min(k,N) samples, med = lower median of w),
   for the next sample x: no panic, the state keeps following the median filter, and ... *)
Theorem C18_either : forall N thr h p x, (0 < N)%nat -> 0 <= thr ->
  let w := lastn N (h ++ [p]) in let med := lower_median qcleb w p in
  exists s s' o, oexec (hampel_step thr) (init N) (h ++ [p]) = Some s /\
    hampel_step thr s x = Some (s', o) /\
    oexec (Median.filter qcleb) (init N) (h ++ [p] ++ [x]) = Some s' /\
    (o = x \/ o = med).
Proof. exact hampel_either. Qed.
Print Assumptions C18_either.

(* inliers pass: |x - med| <= thr * 1.4826 * (med - window minimum) *)
Theorem C18_pass : forall N thr h p x, (0 < N)%nat -> 0 <= thr ->
  let w := lastn N (h ++ [p]) in let med := lower_median qcleb w p in let mn := window_min qcleb w p in
  Qcabs (x - med) <= thr * mad_factor * (med - mn) ->
  exists s s', oexec (hampel_step thr) (init N) (h ++ [p]) = Some s /\ hampel_step thr s x = Some (s', x).
Proof. exact hampel_pass. Qed.
Print Assumptions C18_pass.

(* gross outliers are replaced: |x - med| > thr * 1.4826 * (largest distance of any window sample from med) *)
Theorem C18_replace : forall N thr h p x D, (0 < N)%nat -> 0 <= thr ->
  let w := lastn N (h ++ [p]) in let med := lower_median qcleb w p in
  (forall v, In v w -> Qcabs (v - med) <= D) ->
  thr * mad_factor * D < Qcabs (x - med) ->
  exists s s', oexec (hampel_step thr) (init N) (h ++ [p]) = Some s /\ hampel_step thr s x = Some (s', med).
Proof. exact hampel_replace. Qed.
Print Assumptions C18_replace.

(* in particular any sample differing from a constant window is replaced by that constant *)
Theorem C18_constant_window : forall N thr h c x, (0 < N)%nat -> 0 <= thr ->
  Forall (fun v => v = c) (lastn N (h ++ [c])) -> x <> c ->
  exists s s', oexec (hampel_step thr) (init N) (h ++ [c]) = Some s /\ hampel_step thr s x = Some (s', c).
Proof. exact hampel_constant_window. Qed.
Print Assumptions C18_constant_window.

(* amplitude and offset do not matter: for c > 0 the filter commutes with x |-> c * x + d, at the first sample and at every
   later one (so whatever depends on the amplitude in an f32 / f64 instance is overflow or underflow of an intermediate
   product, not the filter; the differential runs rescale their integer-valued cases by powers of two on this ground) *)
From Signalo Require Proofs.HampelScale.
Theorem C18_affine_equivariant : forall N thr c d h p x, (0 < N)%nat -> 0 < c ->
  exists s s' o t t',
    oexec (hampel_step thr) (init N) (h ++ [p]) = Some s /\ hampel_step thr s x = Some (s', o) /\
    oexec (hampel_step thr) (init N) (map (Signalo.Proofs.HampelScale.aff c d) (h ++ [p])) = Some t /\
    hampel_step thr t (Signalo.Proofs.HampelScale.aff c d x) = Some (t', Signalo.Proofs.HampelScale.aff c d o).
Proof. exact Signalo.Proofs.HampelScale.hampel_affine_equivariant. Qed.
Print Assumptions C18_affine_equivariant.
Theorem C18_affine_first : forall N thr c d x, (0 < N)%nat ->
  exists s' t', hampel_step thr (init N) x = Some (s', x) /\
    hampel_step thr (init N) (Signalo.Proofs.HampelScale.aff c d x) = Some (t', Signalo.Proofs.HampelScale.aff c d x).
Proof. exact Signalo.Proofs.HampelScale.hampel_affine_first. Qed.
Print Assumptions C18_affine_first.
Example C18_aff_is_affine : Signalo.Proofs.HampelScale.aff (Q2Qc 2) (Q2Qc 3) (Q2Qc 5) = Q2Qc 13.
Proof. apply Qc_is_canon. reflexivity. Qed.

(* ---- the generic (float / integer) model of the bit-exact stream, instantiated at the rationals, is the model above ---- *)
From Signalo Require Base.Arith Model.Generic Proofs.Generic.
Theorem C18_generic_hampel : forall thr s x, Signalo.Model.Generic.g_hampel_step Signalo.Proofs.Generic.Qcar Signalo.Model.Hampel.mad_factor thr s x = Signalo.Model.Hampel.hampel_step thr s x.
Proof. exact Signalo.Proofs.Generic.gq_hampel. Qed.
Print Assumptions C18_generic_hampel.

(* No false alarm: the boolean reading of this property that the correspondence check evaluates on the IMPLEMENTATION's
   outputs (Check/C18.v, verdict bit 2) can never fail on outputs that agree with the model (bit 1 clear); side conditions,
   where there are any, are boolean and say which recorded observations the model comparison does not cover. *)
From Coq Require Import NArith.
From Signalo Require Base.Report Check.C18 Proofs.Sound_C18.
Theorem C18_checker_no_false_alarm : forall c : Signalo.Check.C18.case, (1 <= Signalo.Check.C18.cN c)%nat -> N.land (Signalo.Base.Report.code (Signalo.Check.C18.check c)) 3 <> 2%N.
Proof. exact Signalo.Proofs.Sound_C18.C18_check_sound. Qed.
Print Assumptions C18_checker_no_false_alarm.
