(* C11 — Statistics sinks finalise to the batch statistic of everything received. *)
From Signalo Require Import Model.Sinks Proofs.Sinks.

Theorem C11_min : forall xs,
  match exec min_step None xs with Some m => xs <> [] /\ is_least xs m | None => xs = [] end.
Proof. exact min_finalize. Qed.
Print Assumptions C11_min.
Theorem C11_max : forall xs,
  match exec max_step None xs with Some m => xs <> [] /\ is_greatest xs m | None => xs = [] end.
Proof. exact max_finalize. Qed.
Print Assumptions C11_max.
Theorem C11_bounds : forall xs,
  match bounds_fin (exec bounds_step (None, None) xs) with
  | Some (lo, hi) => xs <> [] /\ is_least xs lo /\ is_greatest xs hi | None => xs = [] end.
Proof. exact bounds_finalize. Qed.
Print Assumptions C11_bounds.
Theorem C11_last : forall xs,
  fold_left last_sink xs None = match xs with [] => None | _ => Some (last xs 0) end.
Proof. exact last_finalize. Qed.
Print Assumptions C11_last.
Theorem C11_sum : forall xs,
  match exec sum_step None xs with Some v => xs <> [] /\ v == qsum xs | None => xs = [] end.
Proof. exact sum_inv. Qed.
Print Assumptions C11_sum.
Theorem C11_collect : forall xs, exec collect_step [] xs = xs.
Proof. exact collect_spec. Qed.
Print Assumptions C11_collect.
Theorem C11_mean : forall xs,
  match mean_fin (exec mean_step None xs) with
  | Some m => xs <> [] /\ m == qsum xs / qnat (length xs) | None => xs = [] end.
Proof. exact mean_finalize. Qed.
Print Assumptions C11_mean.
(* mean and unbiased sample variance: divisor n-1, zero for one sample, none when empty *)
Theorem C11_mean_variance : forall xs,
  match mv_fin (exec mv_step None xs) with
  | Some (m, v) => xs <> [] /\ m == qsum xs / qnat (length xs) /\
                   ((2 <= length xs)%nat -> v == sqdev xs m / (qnat (length xs) - 1)) /\
                   (length xs = 1%nat -> v == 0)
  | None => xs = [] end.
Proof. exact mv_finalize. Qed.
Print Assumptions C11_mean_variance.
Theorem C11_statistics_agrees : forall xs,
  stat_fin (exec stat_step ((None, None), None) xs) =
  match bounds_fin (exec bounds_step (None, None) xs), mv_fin (exec mv_step None xs) with
  | Some (lo, hi), Some (m, v) => Some (lo, hi, m, v) | _, _ => None end.
Proof. exact statistics_agrees. Qed.
Print Assumptions C11_statistics_agrees.
Theorem C11_statistics_none_iff_empty : forall xs,
  stat_fin (exec stat_step ((None, None), None) xs) = None <-> xs = [].
Proof. exact statistics_none_iff_empty. Qed.
Print Assumptions C11_statistics_none_iff_empty.
(* used as running filters *)
Theorem C11_min_running : forall hist x, is_least (hist ++ [x]) (last_out min_step None hist x).
Proof. exact min_running. Qed.
Print Assumptions C11_min_running.
Theorem C11_max_running : forall hist x, is_greatest (hist ++ [x]) (last_out max_step None hist x).
Proof. exact max_running. Qed.
Print Assumptions C11_max_running.
Theorem C11_sum_running : forall hist x, last_out sum_step None hist x == qsum (hist ++ [x]).
Proof. exact sum_running. Qed.
Print Assumptions C11_sum_running.
Theorem C11_mean_running : forall hist x,
  last_out mean_step None hist x == qsum (hist ++ [x]) / qnat (length (hist ++ [x])).
Proof. exact mean_running. Qed.
Print Assumptions C11_mean_running.
Theorem C11_mean_variance_running : forall hist x,
  let xs := hist ++ [x] in
  let '(m, v) := last_out mv_step None hist x in
  m == qsum xs / qnat (length xs) /\ v == sqdev xs m.
Proof. exact mv_running. Qed.
Print Assumptions C11_mean_variance_running.

(* ---- the generic (float / integer) model of the bit-exact stream, instantiated at the rationals, is the model above ---- *)
From Signalo Require Base.Arith Model.Generic Proofs.Generic.
Theorem C11_generic_sum : forall s x, Signalo.Model.Generic.g_sum_step Signalo.Base.Arith.Qar s x = Signalo.Model.Sinks.sum_step s x.
Proof. exact Signalo.Proofs.Generic.gq_sum. Qed.
Print Assumptions C11_generic_sum.
Theorem C11_generic_mean : forall s x, Signalo.Model.Generic.g_smean_step Signalo.Base.Arith.Qar s x = Signalo.Model.Sinks.mean_step s x.
Proof. exact Signalo.Proofs.Generic.gq_smean. Qed.
Print Assumptions C11_generic_mean.
Theorem C11_generic_mean_variance : forall s x, (let '(s', y) := Signalo.Model.Generic.g_smv_step Signalo.Base.Arith.Qar s x in (Signalo.Proofs.Generic.mv_of s', y)) = Signalo.Model.Sinks.mv_step (Signalo.Proofs.Generic.mv_of s) x.
Proof. exact Signalo.Proofs.Generic.gq_smv. Qed.
Print Assumptions C11_generic_mean_variance.
Theorem C11_generic_finalize : forall s, Signalo.Model.Generic.g_smv_fin Signalo.Base.Arith.Qar s = Signalo.Model.Sinks.mv_fin (Signalo.Proofs.Generic.mv_of s).
Proof. exact Signalo.Proofs.Generic.gq_smv_fin. Qed.
Print Assumptions C11_generic_finalize.
Theorem C11_generic_min : forall s x, Signalo.Model.Generic.g_smin_step Signalo.Base.Arith.Qar s x = Signalo.Model.Sinks.min_step s x.
Proof. exact Signalo.Proofs.Generic.gq_smin. Qed.
Print Assumptions C11_generic_min.
Theorem C11_generic_max : forall s x, Signalo.Model.Generic.g_smax_step Signalo.Base.Arith.Qar s x = Signalo.Model.Sinks.max_step s x.
Proof. exact Signalo.Proofs.Generic.gq_smax. Qed.
Print Assumptions C11_generic_max.

(* No false alarm: the boolean reading of this property that the correspondence check evaluates on the IMPLEMENTATION's
   outputs (Check/C11.v, verdict bit 2) can never fail on outputs that agree with the model (bit 1 clear); side conditions,
   where there are any, are boolean and say which recorded observations the model comparison does not cover. *)
From Coq Require Import NArith.
From Signalo Require Base.Report Check.C11 Proofs.Sound_C11.
Theorem C11_checker_no_false_alarm : forall c : Signalo.Check.C11.case, Signalo.Proofs.Sound_C11.wf c = true -> N.land (Signalo.Base.Report.code (Signalo.Check.C11.check c)) 3 <> 2%N.
Proof. exact Signalo.Proofs.Sound_C11.C11_check_sound. Qed.
Print Assumptions C11_checker_no_false_alarm.
