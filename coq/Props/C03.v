(* C03 — Moving average equals the mean of the last min(k,N) samples.  Statements only. *)
From Signalo Require Import Model.Mean Proofs.Mean.
From Coq Require Import Morphisms.

(* for every division that respects ==, every width N >= 1, every history: the output for the
   newest sample is (sum of the last min(k,N) samples) / min(k,N) *)
Theorem C03_mean_window :
  forall (div : Q -> Q -> Q), Proper (Qeq ==> Qeq ==> Qeq) div ->
  forall N, (0 < N)%nat -> forall hist x,
  let w := lastn N (hist ++ [x]) in
  last_out (step div N false) init hist x == div (qsum w) (qnat (length w)).
Proof. exact mean_window. Qed.
Print Assumptions C03_mean_window.

(* samples older than the window have no influence *)
Theorem C03_mean_finite_memory :
  forall (div : Q -> Q -> Q), Proper (Qeq ==> Qeq ==> Qeq) div ->
  forall N, (0 < N)%nat -> forall h1 h2 suffix, (N <= length suffix)%nat -> forall x,
  last_out (step div N false) init (h1 ++ suffix) x == last_out (step div N false) init (h2 ++ suffix) x.
Proof. exact mean_finite_memory. Qed.
Print Assumptions C03_mean_finite_memory.

(* constants are reproduced exactly from the first sample on: rational division ... *)
Theorem C03_mean_constant_field :
  forall N c k, (0 < N)%nat -> last_out (step rdiv N false) init (repeat c k) c == c.
Proof. exact mean_constant_field. Qed.
Print Assumptions C03_mean_constant_field.

(* ... and the truncating division of integer sample types *)
Theorem C03_mean_constant_trunc :
  forall N (c : Z) k, (0 < N)%nat ->
  last_out (step qquot N false) init (repeat (inject_Z c) k) (inject_Z c) == inject_Z c.
Proof. exact mean_constant_trunc. Qed.
Print Assumptions C03_mean_constant_trunc.

(* ---- bridge: the boolean spec evaluated by the correspondence check is satisfied by the model on every input ---- *)
From Signalo Require Spec.C03 Spec.C04 Spec.C10 Check.Common Check.C15 Proofs.Bridge.
(* C03: the moving-average model passes mean_spec_okb, for field and truncating division *)
Theorem C03_model_passes_boolean_spec : forall N xs, (0 < N)%nat ->
  Signalo.Spec.C03.mean_spec_okb rdiv N xs (run (Mean.step rdiv N false) Mean.init xs) = true /\
  Signalo.Spec.C03.mean_spec_okb Mean.qquot N xs (run (Mean.step Mean.qquot N false) Mean.init xs) = true.
Proof. exact Signalo.Proofs.Bridge.bridge_c03. Qed.
Print Assumptions C03_model_passes_boolean_spec.

(* ---- the generic (float / integer) model of the bit-exact stream, instantiated at the rationals, is the model above ---- *)
From Signalo Require Base.Arith Model.Generic Proofs.Generic.
Theorem C03_generic_mean : forall N s x, (let '(s', y) := Signalo.Model.Generic.g_mean_step Signalo.Base.Arith.Qar N s x in (Signalo.Proofs.Generic.mean_of s', y)) = Signalo.Model.Mean.step rdiv N false (Signalo.Proofs.Generic.mean_of s) x.
Proof. exact Signalo.Proofs.Generic.gq_mean. Qed.
Print Assumptions C03_generic_mean.
