(* C14 — Alpha-beta tracker follows its recurrence, is linear and preserves constants. *)
From Signalo Require Import Model.Smooth Base.Lincomb Proofs.Observe.

Theorem C14_first : forall alpha beta x,
  ab_step alpha beta ab_init x = ({| velocity := 0; abvalue := Some x |}, x).
Proof. exact ab_first. Qed.
Print Assumptions C14_first.
(* x' = x + v, r = input - x', x = x' + alpha r, v = v + beta r, output x *)
Theorem C14_rec : forall alpha beta v st x,
  let s := {| velocity := v; abvalue := Some st |} in
  let x' := st + v in let r := x - x' in
  snd (ab_step alpha beta s x) == x' + alpha * r /\
  abvalue (fst (ab_step alpha beta s x)) = Some (snd (ab_step alpha beta s x)) /\
  velocity (fst (ab_step alpha beta s x)) == v + beta * r.
Proof. exact ab_rec. Qed.
Print Assumptions C14_rec.
(* fixed (data-independent) weights abw alpha beta n summing to one *)
Theorem C14_affine : forall alpha beta hist x,
  let A := fst (abw alpha beta (length hist)) in
  length A = length (hist ++ [x]) /\ qsum A == 1 /\
  last_out (ab_step alpha beta) ab_init hist x == dot A (hist ++ [x]).
Proof. exact ab_affine. Qed.
Print Assumptions C14_affine.
Theorem C14_const : forall alpha beta c k, last_out (ab_step alpha beta) ab_init (repeat c k) c == c.
Proof. exact ab_const. Qed.
Print Assumptions C14_const.
(* adding a constant to / scaling all samples adds to / scales the output identically *)
Theorem C14_affine_equivariant : forall alpha beta a b hist x,
  last_out (ab_step alpha beta) ab_init (map (fun z => a * z + b) hist) (a * x + b)
  == a * last_out (ab_step alpha beta) ab_init hist x + b.
Proof. exact ab_affine_equivariant. Qed.
Print Assumptions C14_affine_equivariant.

(* ---- the generic (float / integer) model of the bit-exact stream, instantiated at the rationals, is the model above ---- *)
From Signalo Require Base.Arith Model.Generic Proofs.Generic.
Theorem C14_generic_ab : forall al be s x, (let '(s', y) := Signalo.Model.Generic.g_ab_step Signalo.Base.Arith.Qar al be s x in (Signalo.Proofs.Generic.ab_of s', y)) = Signalo.Model.Smooth.ab_step al be (Signalo.Proofs.Generic.ab_of s) x.
Proof. exact Signalo.Proofs.Generic.gq_ab. Qed.
Print Assumptions C14_generic_ab.

(* No false alarm: the boolean reading of this property that the correspondence check evaluates on the IMPLEMENTATION's
   outputs (Check/C14.v, verdict bit 2) can never fail on outputs that agree with the model (bit 1 clear); side conditions,
   where there are any, are boolean and say which recorded observations the model comparison does not cover. *)
From Coq Require Import NArith.
From Signalo Require Base.Report Check.C14 Proofs.Sound_C14.
Theorem C14_checker_no_false_alarm : forall c : Signalo.Check.C14.case, Signalo.Proofs.Sound_C14.wf c = true -> N.land (Signalo.Base.Report.code (Signalo.Check.C14.check c)) 3 <> 2%N.
Proof. exact Signalo.Proofs.Sound_C14.C14_check_sound. Qed.
Print Assumptions C14_checker_no_false_alarm.
