(* C17 — Median filter accessors report true window min/median/max.  Statements only. *)
From Coq Require Import ZArith.
From Signalo Require Import Model.Median Spec.C02 Base.Machine Proofs.Median.

(* nothing before the first sample *)
Theorem C17_nothing_before_first :
  forall (T : Type) N, 0 < N ->
  acc_min (@init T N) = Some None /\ acc_median (@init T N) = Some None /\ acc_max (@init T N) = Some None.
Proof. exact acc_before_first. Qed.
Print Assumptions C17_nothing_before_first.

(* after every sample: min() = smallest, median() = lower median of the window *)
Theorem C17_min_median :
  forall (T : Type) (leb : T -> T -> bool), total_order leb ->
  forall N, 0 < N -> forall hist x,
  let w := lastn N (hist ++ [x]) in
  exists s s' y, oexec (Median.filter leb) (init N) hist = Some s /\
    Median.filter leb s x = Some (s', y) /\
    acc_min s' = Some (Some (window_min leb w x)) /\
    acc_median s' = Some (Some (lower_median leb w x)).
Proof. exact acc_min_median. Qed.
Print Assumptions C17_min_median.

(* max(): what the code really returns is the NEWEST sample (known finding, DESIGN 7.5) ... *)
Theorem C17_max_is_newest :
  forall (T : Type) (leb : T -> T -> bool) N, 0 < N -> forall hist x,
  exists s s' y, oexec (Median.filter leb) (init N) hist = Some s /\
    Median.filter leb s x = Some (s', y) /\ acc_max s' = Some (Some x).
Proof. exact acc_max_is_newest. Qed.
Print Assumptions C17_max_is_newest.

(* ... so the max clause holds exactly outside the known class: whenever the newest sample is a
   maximum of the window *)
Theorem C17_max_outside_known_class :
  forall (T : Type) (leb : T -> T -> bool), total_order leb ->
  forall N, 0 < N -> forall hist x,
  let w := lastn N (hist ++ [x]) in
  (forall v, In v w -> leb v x = true) ->
  exists s s' y, oexec (Median.filter leb) (init N) hist = Some s /\
    Median.filter leb s x = Some (s', y) /\ acc_max s' = Some (Some (window_max leb w x)).
Proof. exact acc_max_partial. Qed.
Print Assumptions C17_max_outside_known_class.

(* ... and fails inside it: window {1,9,3} reports 3 *)
Theorem C17_max_refuted :
  exists s s' y, oexec (Median.filter zleb) (init 3) [1; 9]%Z = Some s /\
    Median.filter zleb s 3%Z = Some (s', y) /\
    acc_max s' = Some (Some 3%Z) /\ window_max zleb [1; 9; 3]%Z 0%Z = 9%Z.
Proof. exact acc_max_refuted. Qed.
Print Assumptions C17_max_refuted.

(* No false alarm: the boolean reading of this property that the correspondence check evaluates on the IMPLEMENTATION's
   outputs (Check/C17.v, verdict bit 2) can never fail on outputs that agree with the model (bit 1 clear); side conditions,
   where there are any, are boolean and say which recorded observations the model comparison does not cover. *)
From Coq Require Import NArith.
From Signalo Require Base.Report Check.C17 Proofs.Sound_C17.
Theorem C17_checker_no_false_alarm : forall c : Signalo.Check.C02.case, (1 <= Signalo.Check.C02.cN c)%nat -> Signalo.Check.C02.wide (Signalo.Check.C02.cN c) = false -> N.land (Signalo.Base.Report.code (Signalo.Check.C17.check c)) 3 <> 2%N.
Proof. exact Signalo.Proofs.Sound_C17.C17_check_sound. Qed.
Print Assumptions C17_checker_no_false_alarm.
