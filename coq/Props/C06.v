(* C06 — Scalar Kalman filter follows the textbook recursion and stays in the data hull. *)
From Signalo Require Import Model.Smooth Base.Lincomb Spec.C06 Proofs.Observe.

(* first estimate = z/c, covariance q/c^2 (c <> 0) *)
Theorem C06_first : forall c z u, ~ kc c == 0 ->
  exists s v, k_process c k_init (z, u) = Some (s, v) /\ kvalue s = Some v /\
    v == fst (ref_init (params_of c) z) /\ cov s == snd (ref_init (params_of c) z).
Proof. exact kalman_first. Qed.
Print Assumptions C06_first.
(* one step from any state that agrees with the textbook state *)
Theorem C06_step : forall c s x0 x P z u,
  kvalue s = Some x0 -> x0 == x -> cov s == P -> ~ ref_den (params_of c) P == 0 ->
  exists s' v, k_process c s (z, u) = Some (s', v) /\ kvalue s' = Some v /\
    v == fst (ref_step (params_of c) (x, P) (z, u)) /\
    cov s' == snd (ref_step (params_of c) (x, P) (z, u)).
Proof. exact kalman_step. Qed.
Print Assumptions C06_step.
(* every stream of (measurement, control) pairs of any length, from a fresh filter, as long as no
   divisor of the textbook recursion vanishes (otherwise the Rust code divides by zero) *)
Theorem C06_stream : forall c z0 u0 zus, ~ kc c == 0 ->
  ref_guard (params_of c) (ref_init (params_of c) z0) zus ->
  exists ys, orun (k_filter_ctl c) k_init ((z0, u0) :: zus) = Some ys /\
    Forall2 (fun y r => y == fst r) ys
            (ref_init (params_of c) z0 :: ref_run (params_of c) (ref_init (params_of c) z0) zus).
Proof. exact kalman_stream. Qed.
Print Assumptions C06_stream.
Theorem C06_zero_divisor_panics : forall c z u, kc c == 0 -> k_process c k_init (z, u) = None.
Proof. exact kalman_zero_divisor. Qed.
Print Assumptions C06_zero_divisor_panics.
Theorem C06_plain_is_zero_control : forall c s z, k_filter c s z = k_filter_ctl c s (z, 0).
Proof. exact kalman_plain_is_zero_control. Qed.
Print Assumptions C06_plain_is_zero_control.
(* a = c = 1, b = 0, r >= 0, q > 0: no panic, every estimate is a convex combination of the
   measurements seen so far, the covariance stays non-negative -- all (r, q), all lengths *)
Theorem C06_convex : forall c, ka c == 1 -> kb c == 0 -> kc c == 1 -> 0 <= kr c -> 0 < kq c ->
  forall zs, exists ys s, orun (k_filter c) k_init zs = Some ys /\ oexec (k_filter c) k_init zs = Some s /\
    KInv s zs /\ length ys = length zs /\
    forall k y, nth_error ys k = Some y -> Conv (firstn (S k) zs) y.
Proof. exact kalman_convex. Qed.
Print Assumptions C06_convex.

(* ---- the generic (float / integer) model of the bit-exact stream, instantiated at the rationals, is the model above ---- *)
From Signalo Require Base.Arith Model.Generic Proofs.Generic.
Theorem C06_generic_kalman : forall c s zu, match Signalo.Model.Generic.g_k_process Signalo.Base.Arith.Qar (Signalo.Model.Smooth.kr c) (Signalo.Model.Smooth.kq c) (Signalo.Model.Smooth.ka c) (Signalo.Model.Smooth.kb c) (Signalo.Model.Smooth.kc c) s zu with Some (s', y) => Some (Signalo.Proofs.Generic.k_of s', y) | None => None end = Signalo.Model.Smooth.k_process c (Signalo.Proofs.Generic.k_of s) zu.
Proof. exact Signalo.Proofs.Generic.gq_kalman. Qed.
Print Assumptions C06_generic_kalman.

(* No false alarm: the boolean reading of this property that the correspondence check evaluates on the IMPLEMENTATION's
   outputs (Check/C06.v, verdict bit 2) can never fail on outputs that agree with the model (bit 1 clear); side conditions,
   where there are any, are boolean and say which recorded observations the model comparison does not cover. *)
From Coq Require Import NArith.
From Signalo Require Base.Report Check.C06 Proofs.Sound_C06.
Theorem C06_checker_no_false_alarm : forall c : Signalo.Check.C06.case, N.land (Signalo.Base.Report.code (Signalo.Check.C06.check c)) 3 <> 2%N.
Proof. exact Signalo.Proofs.Sound_C06.C06_check_sound. Qed.
Print Assumptions C06_checker_no_false_alarm.
