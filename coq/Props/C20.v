(* C20 — A copied filter continues exactly like the original; wrappers are transparent. *)
From Signalo Require Import Base.Machine Model.Registry Proofs.Registry.

Theorem C20_copy_continues : forall m c (s : St m) xs,
  let '(a, b) := mclone m s in
  orun (mstep m c) a xs = orun (mstep m c) s xs /\ orun (mstep m c) b xs = orun (mstep m c) s xs /\
  mguts m s = s.
Proof. exact copy_continues. Qed.
Print Assumptions C20_copy_continues.
Theorem C20_copies_independent : forall m c (s : St m) xs ys,
  let '(a, b) := mclone m s in
  orun (mstep m c) b ys = orun (mstep m c) s ys /\
  (forall a', oexec (mstep m c) a xs = Some a' -> orun (mstep m c) b ys = orun (mstep m c) s ys).
Proof. exact copies_independent. Qed.
Print Assumptions C20_copies_independent.
Theorem C20_cache_transparent : forall m c xs s0 k0,
  orun (mstep (m_cache m) c) (s0, k0) xs = orun (mstep m c) s0 xs.
Proof. exact cache_transparent. Qed.
Print Assumptions C20_cache_transparent.
Theorem C20_cache_remembers_last : forall m c hist x s ys,
  oexec (mstep (m_cache m) c) (minit (m_cache m) c) (hist ++ [x]) = Some s ->
  orun (mstep (m_cache m) c) (minit (m_cache m) c) (hist ++ [x]) = Some ys ->
  cached s = Some (last ys []) /\ cached (minit (m_cache m) c) = None.
Proof. exact cache_remembers_last. Qed.
Print Assumptions C20_cache_remembers_last.
Theorem C20_unit_transparent : forall m c s xs, orun (mstep (m_unit m) c) s xs = orun (mstep m c) s xs.
Proof. exact unit_transparent. Qed.
Print Assumptions C20_unit_transparent.
