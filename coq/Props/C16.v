(* C16 — Mean-variance filters: exact mean, variance non-negative and offset-invariant.
   The offset clause for the SLIDING-WINDOW filter is a known finding (KNOWN_FINDINGS.txt, DESIGN 7.4):
   it is refuted below, characterised, and proved outside the recorded class. *)
From Signalo Require Import Model.MeanVar Proofs.MeanVar.

(* the mean output is exactly (Leibniz) what the corresponding mean filter emits *)
Theorem C16_sliding_mean_is_mean : forall N xs,
  map fst (run (mvw_step N) mvw_init xs) = run (Mean.step rdiv N false) Mean.init xs.
Proof. exact mvw_mean_is_mean. Qed.
Print Assumptions C16_sliding_mean_is_mean.
Theorem C16_exp_mean_is_mean : forall w xs,
  map fst (run (mve_step w) mve_init xs) = run (ema_step w) None xs.
Proof. exact mve_mean_is_mean. Qed.
Print Assumptions C16_exp_mean_is_mean.

(* variance never negative *)
Theorem C16_sliding_var_nonneg : forall N, (0 < N)%nat -> forall xs,
  Forall (fun mv => 0 <= snd mv) (run (mvw_step N) mvw_init xs).
Proof. exact mvw_var_nonneg. Qed.
Print Assumptions C16_sliding_var_nonneg.
Theorem C16_exp_var_nonneg : forall w, 0 <= w -> w <= 1 -> forall xs,
  Forall (fun mv => 0 <= snd mv) (run (mve_step w) mve_init xs).
Proof. exact mve_var_nonneg. Qed.
Print Assumptions C16_exp_var_nonneg.

(* zero for a constant signal *)
Theorem C16_sliding_var_const_zero : forall N, (0 < N)%nat -> forall c k,
  Forall (fun mv => snd mv == 0) (run (mvw_step N) mvw_init (repeat c k)).
Proof. exact mvw_var_const_zero. Qed.
Print Assumptions C16_sliding_var_const_zero.
Theorem C16_exp_var_const_zero : forall w c k,
  Forall (fun mv => snd mv == 0) (run (mve_step w) mve_init (repeat c k)).
Proof. exact mve_var_const_zero. Qed.
Print Assumptions C16_exp_var_const_zero.

(* unchanged when the same offset is added to every sample: exponential filter, all gains *)
Theorem C16_exp_var_offset : forall w c xs,
  Forall2 (fun a b => snd a == snd b) (run (mve_step w) mve_init xs)
                                      (run (mve_step w) mve_init (map (fun x => x + c) xs)).
Proof. exact mve_var_offset. Qed.
Print Assumptions C16_exp_var_offset.

(* sliding-window filter: offset invariance is FALSE of the code (it measures the deviation from the
   running sum, not from the running mean) ... *)
Theorem C16_sliding_var_offset_refuted :
  map snd (run (mvw_step 3) mvw_init [1; 2; 4]) = [0; 1#4; 13#18] /\
  map snd (run (mvw_step 3) mvw_init [11; 12; 14]) = [0; 1#4; 31#6].
Proof. exact mvw_var_offset_refuted. Qed.
Print Assumptions C16_sliding_var_offset_refuted.
(* ... but holds outside the recorded class: width 1, and the first two outputs of any width *)
Theorem C16_sliding_var_offset_outside_known_class : forall N c xs, (0 < N)%nat ->
  let a := map snd (run (mvw_step N) mvw_init xs) in
  let b := map snd (run (mvw_step N) mvw_init (map (fun x => x + c) xs)) in
  (N = 1%nat -> Forall2 Qeq a b) /\ Forall2 Qeq (firstn 2 a) (firstn 2 b).
Proof. exact mvw_var_offset_partial. Qed.
Print Assumptions C16_sliding_var_offset_outside_known_class.

(* ---- the generic (float / integer) model of the bit-exact stream, instantiated at the rationals, is the model above ---- *)
From Signalo Require Base.Arith Model.Generic Proofs.Generic.
Theorem C16_generic_window : forall N s x, (let '(s', y) := Signalo.Model.Generic.g_mvw_step Signalo.Base.Arith.Qar N s x in (Signalo.Proofs.Generic.mvw_of s', y)) = Signalo.Model.MeanVar.mvw_step N (Signalo.Proofs.Generic.mvw_of s) x.
Proof. exact Signalo.Proofs.Generic.gq_mvw. Qed.
Print Assumptions C16_generic_window.
Theorem C16_generic_exp : forall w s x, Signalo.Model.Generic.g_mve_step Signalo.Base.Arith.Qar w s x = Signalo.Model.MeanVar.mve_step w s x.
Proof. exact Signalo.Proofs.Generic.gq_mve. Qed.
Print Assumptions C16_generic_exp.

(* No false alarm: the boolean reading of this property that the correspondence check evaluates on the IMPLEMENTATION's
   outputs (Check/C16.v, verdict bit 2) can never fail on outputs that agree with the model (bit 1 clear); side conditions,
   where there are any, are boolean and say which recorded observations the model comparison does not cover. *)
From Coq Require Import NArith.
From Signalo Require Base.Report Check.C16 Proofs.Sound_C16.
Theorem C16_checker_no_false_alarm : forall c : Signalo.Check.C16.case, N.land (Signalo.Base.Report.code (Signalo.Check.C16.check c)) 3 <> 2%N.
Proof. exact Signalo.Proofs.Sound_C16.C16_check_sound. Qed.
Print Assumptions C16_checker_no_false_alarm.
