(* C19: the checker theorem lives in its own file because Proofs/Sound_C19.v reuses the property theorems of Props/C19.v *)
(* No false alarm: the boolean reading of this property that the correspondence check evaluates on the IMPLEMENTATION's
   outputs (Check/C19.v, verdict bit 2) can never fail on outputs that agree with the model (bit 1 clear); side conditions,
   where there are any, are boolean and say which recorded observations the model comparison does not cover. *)
From Coq Require Import NArith.
From Signalo Require Base.Report Check.C19 Proofs.Sound_C19.
Theorem C19_checker_no_false_alarm : forall c : Signalo.Check.C19.case, Signalo.Proofs.Sound_C19.wf c = true -> N.land (Signalo.Base.Report.code (Signalo.Check.C19.check c)) 3 <> 2%N.
Proof. exact Signalo.Proofs.Sound_C19.C19_check_sound. Qed.
Print Assumptions C19_checker_no_false_alarm.
