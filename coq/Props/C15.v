(* C15 — Differentiate = first difference, integrate = running sum, mutually inverse. *)
From Signalo Require Import Model.Smooth Proofs.DiffInt.

Theorem C15_diff_first : forall x, last_out diff_step None [] x = 0.
Proof. exact diff_first. Qed.
Print Assumptions C15_diff_first.
Theorem C15_diff_spec : forall hist h x, last_out diff_step None (hist ++ [h]) x == x - h.
Proof. exact diff_spec. Qed.
Print Assumptions C15_diff_spec.
Theorem C15_int_spec : forall hist x, last_out int_step 0 hist x == qsum (hist ++ [x]).
Proof. exact int_spec. Qed.
Print Assumptions C15_int_spec.
(* integrate after differentiate: x[n] - x[0], for every n *)
Theorem C15_int_diff : forall x0 xs,
  let sig := x0 :: xs in last (run int_step 0 (run diff_step None sig)) 0 == last sig 0 - x0.
Proof. exact int_diff. Qed.
Print Assumptions C15_int_diff.
(* differentiate after integrate: x[n] for every n >= 1 *)
Theorem C15_diff_int : forall hist h x,
  last_out diff_step None (run int_step 0 (hist ++ [h])) (last_out int_step 0 (hist ++ [h]) x) == x.
Proof. exact diff_int. Qed.
Print Assumptions C15_diff_int.

(* ---- bridge: the boolean spec evaluated by the correspondence check is satisfied by the model on every input ---- *)
From Signalo Require Spec.C03 Spec.C04 Spec.C10 Check.Common Check.C15 Proofs.Bridge.
(* C15: the four machines pass spec_at at every index *)
Theorem C15_model_passes_boolean_spec : forall k xs n, (k <= 3)%nat -> (n < length xs)%nat ->
  Signalo.Check.Common.qnth n (Signalo.Check.C15.model k xs) == Signalo.Check.C15.spec_at k xs n.
Proof. exact Signalo.Proofs.Bridge.bridge_c15. Qed.
Print Assumptions C15_model_passes_boolean_spec.

(* ---- the generic (float / integer) model of the bit-exact stream, instantiated at the rationals, is the model above ---- *)
From Signalo Require Base.Arith Model.Generic Proofs.Generic.
Theorem C15_generic_diff : forall s x, Signalo.Model.Generic.g_diff_step Signalo.Base.Arith.Qar s x = Signalo.Model.Smooth.diff_step s x.
Proof. exact Signalo.Proofs.Generic.gq_diff. Qed.
Print Assumptions C15_generic_diff.
Theorem C15_generic_int : forall s x, Signalo.Model.Generic.g_int_step Signalo.Base.Arith.Qar s x = Signalo.Model.Smooth.int_step s x.
Proof. exact Signalo.Proofs.Generic.gq_int. Qed.
Print Assumptions C15_generic_int.
