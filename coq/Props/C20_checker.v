(* C20: the checker theorem lives in its own file because Proofs/Sound_C20.v reuses the property theorems of Props/C20.v *)
(* No false alarm: the boolean reading of this property that the correspondence check evaluates on the IMPLEMENTATION's
   outputs (Check/C20.v, verdict bit 2) can never fail on outputs that agree with the model (bit 1 clear); side conditions,
   where there are any, are boolean and say which recorded observations the model comparison does not cover. *)
From Coq Require Import NArith.
From Signalo Require Base.Report Check.C20 Proofs.Sound_C20.
Theorem C20_checker_no_false_alarm : forall c : Signalo.Check.C20.case, Signalo.Proofs.Sound_C20.wf c = true -> N.land (Signalo.Base.Report.code (Signalo.Check.C20.check c)) 3 <> 2%N.
Proof. exact Signalo.Proofs.Sound_C20.C20_check_sound. Qed.
Print Assumptions C20_checker_no_false_alarm.
