(* C04 — Moving min/max/bounds equal the extrema of the last min(k,N) samples, also across the
   rebase of the sample counter.  Statements only. *)
From Coq Require Import NArith ZArith.
From Signalo Require Import Model.Bounds Spec.C04 Base.Machine Proofs.Bounds.
Local Open Scope N_scope.

(* For every word size maxu and width n with 1 <= n and n + 1 <= maxu, every totally (pre)ordered
   sample type, every history of ANY length (so the clock reaches maxu and is rebased arbitrarily
   often) and every next sample: no checked operation fails (no panic, hence debug and release
   builds agree) and the output is a largest element of the last min(k,n) samples. *)
Theorem C04_max_run :
  forall (T : Type) (leb : T -> T -> bool), total_preorder leb ->
  forall n maxu, 1 <= n -> n + 1 <= maxu -> forall hist x,
  exists s s' y, oexec (max_step leb n maxu false) init hist = Some s /\
    max_step leb n maxu false s x = Some (s', y) /\
    is_max leb (lastn (N.to_nat n) (hist ++ [x])) y.
Proof. exact max_run. Qed.
Print Assumptions C04_max_run.

Theorem C04_min_run :
  forall (T : Type) (leb : T -> T -> bool), total_preorder leb ->
  forall n maxu, 1 <= n -> n + 1 <= maxu -> forall hist x,
  exists s s' y, oexec (min_step leb n maxu false) init hist = Some s /\
    min_step leb n maxu false s x = Some (s', y) /\
    is_max (fun a b => leb b a) (lastn (N.to_nat n) (hist ++ [x])) y.
Proof. exact min_run. Qed.
Print Assumptions C04_min_run.

Theorem C04_bounds_run :
  forall (T : Type) (leb : T -> T -> bool), total_preorder leb ->
  forall n maxu, 1 <= n -> n + 1 <= maxu -> forall hist x,
  exists s s' lo hi, oexec (bounds_step leb n maxu false) (init, init) hist = Some s /\
    bounds_step leb n maxu false s x = Some (s', (lo, hi)) /\
    is_max (fun a b => leb b a) (lastn (N.to_nat n) (hist ++ [x])) lo /\
    is_max leb (lastn (N.to_nat n) (hist ++ [x])) hi.
Proof. exact bounds_run. Qed.
Print Assumptions C04_bounds_run.

(* on a total order (antisymmetric), the moving maximum and minimum commute with every order embedding of the sample type
   (positive scaling, translation, any strictly increasing map) *)
From Signalo Require Proofs.OrderEmbed.
Theorem C04_max_equivariant :
  forall (T : Type) (leb : T -> T -> bool), total_preorder leb -> (forall a b, leb a b = true -> leb b a = true -> a = b) ->
  forall f : T -> T, (forall a b, leb (f a) (f b) = leb a b) ->
  forall n maxu, 1 <= n -> n + 1 <= maxu -> forall hist x,
  exists s s' t t' y, oexec (max_step leb n maxu false) init hist = Some s /\ max_step leb n maxu false s x = Some (s', y) /\
    oexec (max_step leb n maxu false) init (map f hist) = Some t /\ max_step leb n maxu false t (f x) = Some (t', f y).
Proof. exact Signalo.Proofs.OrderEmbed.max_equivariant. Qed.
Print Assumptions C04_max_equivariant.
Theorem C04_min_equivariant :
  forall (T : Type) (leb : T -> T -> bool), total_preorder leb -> (forall a b, leb a b = true -> leb b a = true -> a = b) ->
  forall f : T -> T, (forall a b, leb (f a) (f b) = leb a b) ->
  forall n maxu, 1 <= n -> n + 1 <= maxu -> forall hist x,
  exists s s' t t' y, oexec (min_step leb n maxu false) init hist = Some s /\ min_step leb n maxu false s x = Some (s', y) /\
    oexec (min_step leb n maxu false) init (map f hist) = Some t /\ min_step leb n maxu false t (f x) = Some (t', f y).
Proof. exact Signalo.Proofs.OrderEmbed.min_equivariant. Qed.
Print Assumptions C04_min_equivariant.

(* The same from ANY well-formed state (reachable or injected through the public state fields,
   clock anywhere up to and including maxu) holding the window w. *)
Theorem C04_max_from_wellformed :
  forall (T : Type) (leb : T -> T -> bool), total_preorder leb ->
  forall n maxu, 1 <= n -> n + 1 <= maxu -> forall s w x,
  WF leb n maxu s w ->
  exists s' y, max_step leb n maxu false s x = Some (s', y) /\
    is_max leb (lastn (N.to_nat n) (w ++ [x])) y /\
    WF leb n maxu s' (lastn (N.to_nat n) (w ++ [x])).
Proof. exact max_step_wf. Qed.
Print Assumptions C04_max_from_wellformed.

(* non-vacuity: the fresh state is well-formed, and so is a state whose clock is AT the end of the
   64-bit range (the next step takes the rebase branch) *)
Theorem C04_wf_fresh :
  forall (T : Type) (leb : T -> T -> bool) n maxu, WF leb n maxu (@init T) [].
Proof. exact wf_init. Qed.
Print Assumptions C04_wf_fresh.

Theorem C04_wf_at_end_of_range :
  WF Z.leb 3 usize_max
     {| time := usize_max; taps := [(10%Z, usize_max - 2); (5%Z, usize_max - 1)] |} [10%Z; 5%Z] /\
  omap_outputs (orun (max_step Z.leb 3 usize_max false)
     {| time := usize_max; taps := [(10%Z, usize_max - 2); (5%Z, usize_max - 1)] |} [1%Z; 0%Z; 0%Z; 0%Z])
    = Some [10%Z; 5%Z; 1%Z; 0%Z].
Proof. exact wf_example_end_of_range. Qed.
Print Assumptions C04_wf_at_end_of_range.

(* the code before the repair (recorded as fixed in KNOWN_FINDINGS.txt): one tick before the end
   of the range `t + N` overflows -- a panic in the model (debug build); release builds wrap *)
Theorem C04_old_code_refuted :
  max_step Z.leb 3 usize_max true {| time := usize_max - 1; taps := [(10%Z, usize_max - 2)] |} 5%Z = None.
Proof. exact old_code_refuted. Qed.
Print Assumptions C04_old_code_refuted.

(* ---- bridge: the boolean spec evaluated by the correspondence check is satisfied by the model on every input ---- *)
From Signalo Require Spec.C03 Spec.C04 Spec.C10 Check.Common Check.C15 Proofs.Bridge.
(* C04: every output of the max / min model is accepted by is_maxb on the window (fresh filter, 64-bit word) *)
Theorem C04_model_passes_boolean_spec : forall n hist x s s' y, (1 <= n)%N -> (n + 1 <= Bounds.usize_max)%N ->
  oexec (Bounds.max_step Z.leb n Bounds.usize_max false) Bounds.init hist = Some s ->
  Bounds.max_step Z.leb n Bounds.usize_max false s x = Some (s', y) ->
  Signalo.Spec.C04.is_maxb Z.leb Z.eqb (lastn (N.to_nat n) (hist ++ [x])) y = true.
Proof. exact Signalo.Proofs.Bridge.bridge_c04. Qed.
Print Assumptions C04_model_passes_boolean_spec.
