(* C05 — Convolution is an edge-padded FIR; delay shifts by exactly N.  Statements only.
   [fir c sig n] (Spec/C05.v) = sum_j c[j] * sig[n - j] with truncated subtraction, i.e. samples before
   the first are taken equal to the first.  The preset-table obligations are regenerated from the Rust
   source on every run (translator/tables.py -> build/gen/SGTables.v, checked by SGOblig.v). *)
From Signalo Require Import Model.Convolve Spec.C05 Base.Lincomb Proofs.Convolve.

(* every coefficient vector (any width N >= 0), every signal of any length: no panic (the push loop
   terminates within its fuel) and output n is the edge-padded FIR sum *)
Theorem C05_conv_fir : forall coeffs x0 hist,
  let sig := x0 :: hist in
  exists ys, orun (conv_step (length coeffs) coeffs) [] sig = Some ys /\ length ys = length sig /\
    forall k, (k < length sig)%nat -> nth k ys 0 == fir coeffs sig k.
Proof. exact conv_fir. Qed.
Print Assumptions C05_conv_fir.

(* linear ... *)
Theorem C05_fir_linear : forall c xs ys a b k, length xs = length ys -> (k < length xs)%nat ->
  fir c (vadd (scale a xs) (scale b ys)) k == a * fir c xs k + b * fir c ys k.
Proof. exact fir_linear. Qed.
Print Assumptions C05_fir_linear.
(* ... and shift-invariant: delaying the (edge-padded) input by d delays the output by d, exactly *)
Theorem C05_fir_shift : forall c sig d k, sig <> [] ->
  fir c (repeat (sig_at sig 0) d ++ sig) k == fir c sig (k - d).
Proof. exact fir_shift. Qed.
Print Assumptions C05_fir_shift.

(* the normalising constructor: unit gain for constants whenever the coefficient sum is non-zero;
   coefficients untouched when it is zero *)
Theorem C05_normalized_unit_gain : forall coeffs K (hist : list Q), ~ qsum coeffs == 0 ->
  exists ys, orun (conv_step (length coeffs) (normalized coeffs)) [] (K :: map (fun _ => K) hist) = Some ys /\
    Forall (fun y => y == K) ys.
Proof. exact normalized_unit_gain. Qed.
Print Assumptions C05_normalized_unit_gain.
Theorem C05_normalized_zero_sum : forall coeffs, qsum coeffs == 0 -> normalized coeffs = coeffs.
Proof. exact normalized_zero_sum. Qed.
Print Assumptions C05_normalized_zero_sum.

(* delay of length N (any N >= 0, any sample type): output n = x[max(n-N, 0)] *)
Theorem C05_delay : forall (A : Type) n (x0 : A) hist,
  let sig := x0 :: hist in
  exists ys, orun (delay_step n) [] sig = Some ys /\ length ys = length sig /\
    forall k, (k < length sig)%nat -> nth k ys x0 = nth (k - n) sig x0.
Proof. exact delay_shift. Qed.
Print Assumptions C05_delay.

(* the exact least-squares end-point coefficients reproduce constants and ramps exactly ... *)
Theorem C05_sg_exact_reproduces_lines : forall N a b n, (0 < N)%nat -> (N - 1 <= n)%nat ->
  let e := map (sg_exact N) (seq 0 N) in
  let ramp := map (fun i => a + b * qnat i) (seq 0 (S n)) in
  fir e ramp n == a + b * qnat n.
Proof. exact sg_exact_reproduces_lines. Qed.
Print Assumptions C05_sg_exact_reproduces_lines.
(* ... and any table within 5e-6 of them does so to coefficient precision *)
Theorem C05_sg_table_reproduces_lines : forall N tbl a b n, (0 < N)%nat -> (N - 1 <= n)%nat ->
  sg_table_ok N tbl = true ->
  let ramp := map (fun i => a + b * qnat i) (seq 0 (S n)) in
  Qabs (fir tbl ramp n - (a + b * qnat n))
  <= qnat N * sg_tol * Qabs (a + b * qnat n) + qnat N * (qnat N - 1) / 2 * sg_tol * Qabs b.
Proof. exact sg_table_reproduces_lines. Qed.
Print Assumptions C05_sg_table_reproduces_lines.

(* ---- the generic (float / integer) model of the bit-exact stream, instantiated at the rationals, is the model above ---- *)
From Signalo Require Base.Arith Model.Generic Proofs.Generic.
Theorem C05_generic_conv : forall n coeffs taps x, Signalo.Model.Generic.g_conv_step Signalo.Base.Arith.Qar n coeffs taps x = Signalo.Model.Convolve.conv_step n coeffs taps x.
Proof. exact Signalo.Proofs.Generic.gq_conv. Qed.
Print Assumptions C05_generic_conv.
Theorem C05_generic_normalized : forall coeffs, Signalo.Model.Generic.g_normalized Signalo.Base.Arith.Qar coeffs = Signalo.Model.Convolve.normalized coeffs.
Proof. exact Signalo.Proofs.Generic.gq_normalized. Qed.
Print Assumptions C05_generic_normalized.

(* No false alarm: the boolean reading of this property that the correspondence check evaluates on the IMPLEMENTATION's
   outputs (Check/C05.v, verdict bit 2) can never fail on outputs that agree with the model (bit 1 clear); side conditions,
   where there are any, are boolean and say which recorded observations the model comparison does not cover. *)
From Coq Require Import NArith.
From Signalo Require Base.Report Check.C05 Proofs.Sound_C05.
Theorem C05_checker_no_false_alarm : forall c : Signalo.Check.C05.case, Signalo.Proofs.Sound_C05.wf c = true -> N.land (Signalo.Base.Report.code (Signalo.Check.C05.check c)) 3 <> 2%N.
Proof. exact Signalo.Proofs.Sound_C05.C05_check_sound. Qed.
Print Assumptions C05_checker_no_false_alarm.
