(* C01 — Pipes compose stages as sequential function application.  Statements only.
   For ALL stage behaviours (abstract fstep/sstep/kstep/fin threading an observable world W), all
   nestings of Pipe / `|` / UnitPipe, all inputs. *)
From Signalo Require Import Model.Pipes Proofs.Pipes.

Section C01.
Variables Id S X R W : Type.
Variable fstep : Id -> W -> S -> X -> W * S * X.
Variable sstep : Id -> W -> S -> W * S * option X.
Variable kstep : Id -> W -> S -> X -> W * S.
Variable fin : Id -> S -> R.

(* a pipe used as a filter maps x to sk(...s2(s1(x))...): the world is threaded through the stages in
   pipeline order, each stage is invoked exactly once, the resulting pipe has the same tree shape with
   exactly the stage states replaced (no state, latency or buffering of its own) *)
Theorem C01_filter_flat : forall w (p : pipe Id S) x,
  let '(w', p', y) := pfilter Id S X W fstep w p x in
  chain Id S X W fstep w (leaves Id S p) x = (w', leaves Id S p', y) /\
  p' = fst (relabel Id S p (leaves Id S p')).
Proof. exact (pfilter_flat Id S X W fstep). Qed.

(* a pipe whose first stage is a source: that source is pulled once; on the end marker the pipe ends and
   NO later stage is invoked (world and every other stage state untouched); otherwise the remaining
   stages are applied in order *)
Theorem C01_source_flat : forall w (p : pipe Id S),
  match leaves Id S p with
  | [] => True
  | (i, s) :: rest =>
      let '(w1, s', o) := sstep i w s in
      match o with
      | None => psource Id S X W fstep sstep w p = (w1, fst (relabel Id S p ((i, s') :: rest)), None)
      | Some x => let '(w2, rest', z) := chain Id S X W fstep w1 rest x in
                  psource Id S X W fstep sstep w p = (w2, fst (relabel Id S p ((i, s') :: rest')), Some z)
      end
  end.
Proof. exact (psource_flat Id S X W fstep sstep). Qed.

(* a pipe whose last stage is a sink: all other stages filter, the last one sinks ... *)
Theorem C01_sink_flat : forall w (p : pipe Id S) x,
  exists front i s, leaves Id S p = front ++ [(i, s)] /\
    let '(w1, front', y) := chain Id S X W fstep w front x in
    let '(w2, s') := kstep i w1 s y in
    psink Id S X W fstep kstep w p x = (w2, fst (relabel Id S p (front' ++ [(i, s')]))).
Proof. exact (psink_flat Id S X W fstep kstep). Qed.
(* ... and finalising the pipe is finalising that sink *)
Theorem C01_finalize_flat : forall (p : pipe Id S),
  exists front i s, leaves Id S p = front ++ [(i, s)] /\ pfinalize Id S R fin p = fin i s.
Proof. exact (pfinalize_flat Id S R fin). Qed.

(* constructor, `|` operator, unit wrappers, any nesting: same stage sequence, hence same behaviour *)
Theorem C01_assembly_irrelevant : forall (a b c : pipe Id S),
  leaves Id S (bitor Id S (bitor Id S a b) c) = leaves Id S (bitor Id S a (bitor Id S b c)) /\
  leaves Id S (Unit a) = leaves Id S a /\ leaves Id S (bitor Id S a b) = leaves Id S a ++ leaves Id S b.
Proof. exact (bitor_assoc_flat Id S). Qed.
Theorem C01_same_stages_same_filter : forall w (p q : pipe Id S) x, leaves Id S p = leaves Id S q ->
  let '(w1, p', y1) := pfilter Id S X W fstep w p x in let '(w2, q', y2) := pfilter Id S X W fstep w q x in
  w1 = w2 /\ y1 = y2 /\ leaves Id S p' = leaves Id S q'.
Proof. exact (same_leaves_same_filter Id S X W fstep). Qed.
End C01.
(* the property's wording made explicit: stages that log their calls, whatever else they compute *)
Theorem C01_each_stage_once_in_order : forall (Id S X : Type) (g : Id -> S -> X -> S * X) w (p : pipe Id S) x,
  exists tr, fst (fst (pfilter Id S X (list (Id * X)) (logged Id S X g) w p x)) = w ++ tr /\
             map fst tr = map fst (leaves Id S p).
Proof. exact each_stage_once_in_order. Qed.
Print Assumptions C01_each_stage_once_in_order.
Print Assumptions C01_filter_flat.
Print Assumptions C01_source_flat.
Print Assumptions C01_sink_flat.
Print Assumptions C01_finalize_flat.
Print Assumptions C01_assembly_irrelevant.
Print Assumptions C01_same_stages_same_filter.

(* No false alarm: the boolean reading of this property that the correspondence check evaluates on the IMPLEMENTATION's
   outputs (Check/C01.v, verdict bit 2) can never fail on outputs that agree with the model (bit 1 clear); side conditions,
   where there are any, are boolean and say which recorded observations the model comparison does not cover. *)
From Coq Require Import NArith.
From Signalo Require Base.Report Check.C01 Proofs.Sound_C01.
Theorem C01_checker_no_false_alarm : forall c : Signalo.Check.C01.case, N.land (Signalo.Base.Report.code (Signalo.Check.C01.check c)) 3 <> 2%N.
Proof. exact Signalo.Proofs.Sound_C01.C01_check_sound. Qed.
Print Assumptions C01_checker_no_false_alarm.
