(* C12 — Reset returns every filter to its freshly constructed behaviour. *)
From Signalo Require Import Base.Machine Model.Registry Proofs.Registry.

(* all 26 registry entries (23 filters, Cache<Integrate>, Cache<Median>, UnitSystem<Integrate>): after any
   history, reset yields exactly the freshly constructed state for the same configuration *)
Theorem C12_registry_reset_fresh : Forall reset_fresh registry.
Proof. exact registry_reset_fresh. Qed.
Print Assumptions C12_registry_reset_fresh.
(* hence: history, reset, probe = fresh filter, probe -- for every probe sequence *)
Theorem C12_reset_then_probe : forall m, reset_fresh m -> forall c hist s probe,
  oexec (mstep m c) (minit m c) hist = Some s ->
  orun (mstep m c) (mreset m c s) probe = orun (mstep m c) (minit m c) probe.
Proof. exact reset_then_probe. Qed.
Print Assumptions C12_reset_then_probe.
(* wrappers over ANY resettable inner filter *)
Theorem C12_cache_reset : forall m, reset_fresh m -> reset_fresh (m_cache m).
Proof. exact rf_cache. Qed.
Print Assumptions C12_cache_reset.
Theorem C12_unit_reset : forall m, reset_fresh m -> reset_fresh (m_unit m).
Proof. exact rf_unit. Qed.
Print Assumptions C12_unit_reset.
