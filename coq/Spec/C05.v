(* C05: y[n] = sum_j c[j] * x[n-j] with samples before the first taken equal to the first
   (n - j is truncated subtraction on nat, which is exactly that), and the exact least-squares
   straight-line end-point coefficients. *)
From Signalo Require Import Base.QR.
Definition sig_at (sig : list Q) (i : nat) : Q := nth i sig 0.
Definition fir (coeffs sig : list Q) (n : nat) : Q :=
  qsum (map (fun j => nth j coeffs 0 * sig_at sig (n - j)) (seq 0 (length coeffs))).
(* least-squares fit of a straight line through the last N samples, evaluated at the newest one:
   weight of the sample j steps back *)
Definition sg_exact (N j : nat) : Q := (2 * (2 * qnat N - 1) - 6 * qnat j) / (qnat N * (qnat N + 1)).
Definition sg_tol : Q := 5 # 1000000.
Definition sg_table_ok (N : nat) (tbl : list Q) : bool :=
  (length tbl =? N)%nat && forallb (fun j => Qle_bool (Qabs (nth j tbl 0 - sg_exact N j)) sg_tol) (seq 0 N).
