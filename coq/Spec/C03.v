(* C03 as a boolean on observed outputs: output k = (sum of last min(k+1,N) samples)/(their number) *)
From Signalo Require Import Base.QR Base.ListX.

Definition mean_spec_at (div : Q -> Q -> Q) (N : nat) (xs : list Q) (k : nat) : Q :=
  let w := lastn N (firstn (S k) xs) in div (qsum w) (qnat (length w)).

(* ys are the outputs for the LAST |ys| samples of xs (all of them in the usual case) *)
Definition mean_spec_okb (div : Q -> Q -> Q) (N : nat) (xs ys : list Q) : bool :=
  (length ys <=? length xs)%nat &&
  let off := (length xs - length ys)%nat in
  forallb (fun k => qeqb (nth k ys 0) (mean_spec_at div N xs (off + k)%nat)) (seq 0 (length ys)).
