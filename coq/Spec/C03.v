(* C03 as a boolean on observed outputs: output k = (sum of last min(k+1,N) samples)/(their number) *)
From Signalo Require Import Base.QR Base.ListX.

Definition mean_spec_at (div : Q -> Q -> Q) (N : nat) (xs : list Q) (k : nat) : Q :=
  let w := lastn N (firstn (S k) xs) in div (qsum w) (qnat (length w)).

Definition mean_spec_okb (div : Q -> Q -> Q) (N : nat) (xs ys : list Q) : bool :=
  (length xs =? length ys) &&
  forallb (fun k => qeqb (nth k ys 0) (mean_spec_at div N xs k)) (seq 0 (length xs)).
