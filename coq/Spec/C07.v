(* C07: combined impulse response of analysis followed by synthesis, and its distance from a pure
   delay by N-1 samples. *)
From Signalo Require Import Base.QR Spec.C05.
(* polynomial product (d * c)[k] = sum_{i+j=k} d[i] c[j] *)
Fixpoint padd (a b : list Q) : list Q :=
  match a, b with [], _ => b | _, [] => a | x :: a', y :: b' => Qred (x + y) :: padd a' b' end.
Fixpoint pconv (d c : list Q) : list Q :=
  match d with [] => [] | x :: d' => padd (map (fun y => Qred (x * y)) c) (0 :: pconv d' c) end.
Definition recon_kernel (lowA highA lowS highS : list Q) : list Q := padd (pconv lowS lowA) (pconv highS highA).
(* | r[delay] - 1 | + sum_{k <> delay} | r[k] | *)
Fixpoint residual_from (r : list Q) (k delay : nat) : Q :=
  match r with [] => 0 | x :: r' => Qred (Qabs (if (k =? delay)%nat then x - 1 else x) + residual_from r' (S k) delay) end.
Definition residual (r : list Q) (delay : nat) : Q := residual_from r 0 delay.
Definition qsum_red (l : list Q) : Q := fold_left (fun a x => Qred (a + x)) l 0.
(* the three per-table obligations *)
Definition daub_ok (tol_sum tol_res : Q) (lowA highA lowS highS : list Q) : bool :=
  let n := length lowA in
  Qle_bool (Qabs (qsum_red lowA - 1)) tol_sum && Qle_bool (Qabs (qsum_red highA)) tol_sum &&
  Qle_bool (residual (recon_kernel lowA highA lowS highS) (n - 1)) tol_res.
