(* C06: the textbook scalar Kalman recursion, written with plain rational operations. *)
From Signalo Require Import Base.QR.
Record kparams := { pr : Q; pq : Q; pa : Q; pb : Q; pc : Q }.
(* first estimate = measurement / c with covariance q / c^2 *)
Definition ref_init (p : kparams) (z : Q) : Q * Q := (z / pc p, pq p / (pc p * pc p)).
(* predict with a, b, r; correct with gain K = P- c / (P- c^2 + q) *)
Definition ref_step (p : kparams) (xP : Q * Q) (zu : Q * Q) : Q * Q :=
  let '(x, P) := xP in let '(z, u) := zu in
  let xm := pa p * x + pb p * u in
  let Pm := pa p * pa p * P + pr p in
  let K := Pm * pc p / (Pm * (pc p * pc p) + pq p) in
  (xm + K * (z - pc p * xm), (1 - K * pc p) * Pm).
(* the divisor of the gain at a given state *)
Definition ref_den (p : kparams) (P : Q) : Q := (pa p * pa p * P + pr p) * (pc p * pc p) + pq p.
