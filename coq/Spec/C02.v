(* C02/C17: order statistics of a window, written with an insertion sort (no reference to the
   filter's algorithm). *)
From Coq Require Export List Arith Bool.
Export ListNotations.

Section OrderStat.
Variable T : Type.
Variable leb : T -> T -> bool.
Fixpoint sinsert (x : T) (l : list T) : list T :=
  match l with [] => [x] | y :: r => if leb x y then x :: l else y :: sinsert x r end.
Fixpoint isort (l : list T) : list T := match l with [] => [] | x :: r => sinsert x (isort r) end.

(* the lower median: element of rank floor((m-1)/2) of the ascending order *)
Definition lower_median (w : list T) (d : T) : T := nth ((length w - 1) / 2) (isort w) d.
Definition window_min (w : list T) (d : T) : T := hd d (isort w).
Definition window_max (w : list T) (d : T) : T := last (isort w) d.
End OrderStat.
Arguments isort {T}. Arguments lower_median {T}. Arguments window_min {T}. Arguments window_max {T}.

(* "totally ordered sample type" *)
Definition total_order {T} (leb : T -> T -> bool) : Prop :=
  (forall a b, leb a b = true \/ leb b a = true) /\
  (forall a b c, leb a b = true -> leb b c = true -> leb a c = true) /\
  (forall a b, leb a b = true -> leb b a = true -> a = b).
