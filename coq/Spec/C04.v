(* C04: y is a largest element of the window w (smallest: use the reversed order). *)
From Coq Require Export List Bool.
Export ListNotations.
Section Extremum.
Variable T : Type.
Variable leb : T -> T -> bool.
Definition is_max (w : list T) (y : T) : Prop := In y w /\ forall v, In v w -> leb v y = true.
Definition is_maxb (eqb : T -> T -> bool) (w : list T) (y : T) : bool :=
  existsb (eqb y) w && forallb (fun v => leb v y) w.
(* total preorder: what "totally ordered input sequence" needs here (ties allowed) *)
Definition total_preorder : Prop :=
  (forall a b, leb a b = true \/ leb b a = true) /\
  (forall a b c, leb a b = true -> leb b c = true -> leb a c = true).
End Extremum.
Arguments is_max {T}. Arguments is_maxb {T}. Arguments total_preorder {T}.
