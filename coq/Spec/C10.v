(* C10: the first n items of the iterator analogue of a source expression, by list functions only. *)
From Coq Require Export ZArith List Bool.
From Signalo Require Import Model.Sources.
Export ListNotations.

Fixpoint sem (e : expr) (n : nat) : list Z :=
  match e with
  | EList l => firstn n l
  | EChain a b => let d := sem a n in d ++ sem b (n - length d)
  | ETake e c => sem e (Nat.min n c)
  | ESkip e c => skipn c (sem e (c + n))
  | ECycle e => let d := sem e n in if length d <? n then firstn n (concat (repeat d n)) else d
  | EConstant v => repeat v n
  | ERepeat v c => repeat v (Nat.min n c)
  | EIncrement a d => map (fun i => (a + Z.of_nat i * d)%Z) (seq 0 n)
  | EPadConst e v c =>
      let d := sem e n in firstn n (repeat v c ++ d ++ (if length d <? n then repeat v c else []))
  | EPadEdge e c =>
      let d := sem e n in
      match d with
      | [] => []
      | x :: _ => firstn n (repeat x c ++ d ++ (if length d <? n then repeat (last d x) c else []))
      end
  | EPeek e | ECache e | ERoundTrip e => sem e n
  end.

(* what a client observes for a program of root operations: pull = next item (None past the end),
   peek = the item the next pull will return, without consuming; cached = result of the last pull *)
Fixpoint observe (items : list Z) (pos : nat) (last : option Z) (ops : list op) : list (option Z) :=
  match ops with
  | [] => []
  | OPull :: r => nth_error items pos :: observe items (S pos) (nth_error items pos) r
  | OPeek :: r => nth_error items pos :: observe items pos last r
  | OCached :: r => last :: observe items pos last r
  end.
Definition spec_results (e : expr) (ops : list op) : list (option Z) :=
  observe (sem e (length ops)) 0 None ops.
