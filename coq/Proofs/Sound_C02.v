(* C02 — "no false alarm": the checker of Check/C02.v can never raise the spec alarm (bit 2) on recorded
   outputs that agree with the model (bit 1 clear).
   The model is run on [option Z] samples with the NaN-like order [nleb], which is NOT a total order, so
   C02_median_lower does not apply as it stands.  The invariant of Proofs/Median.v is re-used; its step
   lemma is strengthened (same proof script, one more conjunct) so that it also says HOW the sorted list
   of the window evolves: remove the evicted element, insert the new one at [ipos].  From this, "the
   non-NaN elements of the linked list are in ascending order" is an invariant for [nleb], whatever NaNs
   went through the window; hence as soon as the window is NaN-free the output is its lower median. *)
From Coq Require Import List Arith Lia Bool Permutation ZArith ZifyNat.
From Signalo Require Import Base.Machine Base.Report Spec.C02 Model.Median.
From Signalo Require Import Proofs.MedianBase Proofs.MedianSort Proofs.MedianPtr Proofs.MedianLoop Proofs.Median.
From Signalo Require Import Check.C02.
Import ListNotations.

(* ---------- verdict codes ---------- *)
Lemma mkv_sound m s nt : (m = true -> s = true) -> N.land (code (mkv m s nt)) 3 <> 2%N.
Proof. destruct m, s; intros H; try (specialize (H eq_refl); discriminate H); vm_compute; discriminate. Qed.

(* ---------- reflection of the boolean comparisons ---------- *)
Lemma oz_eqb_eq a b : oz_eqb a b = true -> a = b.
Proof. destruct a, b; simpl; intros H; try discriminate; auto. apply Z.eqb_eq in H. congruence. Qed.
Lemma oz_eqb_refl a : oz_eqb a a = true.
Proof. destruct a; simpl; auto. apply Z.eqb_refl. Qed.
Lemma list_eqb_eq {A} (e : A -> A -> bool) : (forall a b, e a b = true -> a = b) ->
  forall l1 l2, list_eqb e l1 l2 = true -> l1 = l2.
Proof.
  intros He. induction l1 as [|a l1 IH]; intros [|b l2]; simpl; intros H; try discriminate; auto.
  apply andb_true_iff in H. destruct H as [H1 H2]. f_equal; auto.
Qed.

(* ---------- panicking machines: run = orun_partial when nothing panics ---------- *)
Section OM.
Context {S X Y : Type}.
Variable step : S -> X -> option (S * Y).
Lemma orun_partial_of_orun s xs ys : orun step s xs = Some ys -> orun_partial step s xs = (ys, false).
Proof.
  revert s ys; induction xs as [|x xs IH]; intros s ys H; cbn [orun orun_partial] in *.
  - injection H as <-. reflexivity.
  - destruct (step s x) as [[s' y]|]; [|discriminate].
    destruct (orun step s' xs) as [yr|] eqn:E; [|discriminate]. injection H as <-.
    rewrite (IH s' yr E). reflexivity.
Qed.
Lemma orun_nth s xs ys dx dy : orun step s xs = Some ys ->
  length ys = length xs /\
  forall k, k < length xs -> exists s1 s2, oexec step s (firstn k xs) = Some s1 /\
                                            step s1 (nth k xs dx) = Some (s2, nth k ys dy).
Proof.
  revert s ys; induction xs as [|x xs IH]; intros s ys H; cbn [orun] in *.
  - injection H as <-. split; [reflexivity|]. simpl. intros k Hk. lia.
  - destruct (step s x) as [[s' y]|] eqn:Es; [|discriminate].
    destruct (orun step s' xs) as [yr|] eqn:E; [|discriminate]. injection H as <-.
    destruct (IH s' yr E) as [Hl Hk]. split; [simpl; congruence|].
    intros [|k] Hlt.
    + exists s, s'. split; [reflexivity|exact Es].
    + simpl in Hlt. destruct (Hk k) as [s1 [s2 [A B]]]; [lia|].
      exists s1, s2. split; [|exact B]. cbn [firstn oexec]. rewrite Es. exact A.
Qed.
Lemma orun_total s0 : (forall hist x, exists s1 s2 y, oexec step s0 hist = Some s1 /\ step s1 x = Some (s2, y)) ->
  forall xs, exists ys, orun step s0 xs = Some ys.
Proof.
  intros H xs. induction xs as [|x xs IH] using rev_ind.
  - exists []. reflexivity.
  - destruct IH as [ys E]. destruct (H xs x) as [s1 [s2 [y [A B]]]].
    destruct (orun_oexec_snoc step s0 xs x ys s1 s2 y E A B) as [C _]. eexists. exact C.
Qed.
End OM.

Lemma firstn_S_snoc {A} (l : list A) k d : k < length l -> firstn (S k) l = firstn k l ++ [nth k l d].
Proof.
  revert k; induction l as [|a l IH]; intros k H; simpl in H; [lia|].
  destruct k as [|k]; [reflexivity|]. cbn [firstn nth app]. f_equal. apply IH. lia.
Qed.

(* ---------- the strengthened step lemma ---------- *)
Section Strong.
Variable T : Type.
Variable leb : T -> T -> bool.
Notation node := (node T).
Notation mstate := (mstate T).

(* how the ascending list of the window changes when x arrives: the element at some position q leaves
   (nothing leaves while the window is filling: q past the end), x enters where insertion sort puts it *)
Definition step_rel (sorted : list T) (x : T) (sorted' : list T) : Prop :=
  exists q, sorted' = sinsert T leb x (remove_at q sorted).

Definition step_goal' N (s : mstate) hist sorted x : Prop :=
  exists s' ring' sorted',
    Median.filter leb s x = Some (s', nth ((length sorted' - 1) / 2) sorted' x) /\
    Inv T leb N s' (hist ++ [x]) ring' sorted' /\ step_rel sorted x sorted'.

Lemma Inv_step_1' s hist ring sorted x : Inv T leb 1 s hist ring sorted -> step_goal' 1 s hist sorted x.
Proof.
  intros I. pose proof (Inv_sorted_len T leb _ _ _ _ _ I) as Hl.
  destruct (Inv_step_1 T leb s hist ring sorted x I) as [s' [ring' [sorted' [Hf I']]]].
  exists s', ring', sorted'. split; [exact Hf|]. split; [exact I'|].
  pose proof (i_perm _ _ _ _ _ _ _ I') as P.
  rewrite (lastn_lastn_app 1 hist [x]) in P by (simpl; lia). change (lastn 1 [x]) with [x] in P.
  symmetry in P. apply Permutation_length_1_inv in P. subst sorted'.
  exists 0. destruct sorted as [|a [|b r]]; try reflexivity. cbn [length] in Hl. lia.
Qed.

Lemma Inv_step_ge2' N s hist ring sorted x : 2 <= N -> Inv T leb N s hist ring sorted -> step_goal' N s hist sorted x.
Proof.
  intros HN I. pose proof (Inv_sorted_len T leb _ _ _ _ _ I) as Hslen.
  destruct I as [Hlen L Hrlen Hhead Hvals Hperm Hage Hempty Hcur Hmed Hsorted].
  destruct s as [b c h m]. cbn [buffer cursor head median] in *.
  pose proof (lk_nd _ _ _ L) as Hnd. pose proof (lk_ne _ _ _ L) as Hne.
  assert (Hc : c < N) by (rewrite Hcur; apply Nat.mod_upper_bound; lia).
  (* the cursor slot is on the ring *)
  assert (Hcin : In c ring).
  { assert (Hincl : incl (seq 0 N) ring).
    { apply NoDup_length_incl; auto.
      - rewrite seq_length. lia.
      - intros i Hi. apply in_seq. pose proof (linked_lt _ _ _ _ L Hi). lia. }
    apply Hincl. apply in_seq. lia. }
  destruct (in_split c ring Hcin) as [l1 [l2 Er]].
  set (q := length l1).
  assert (Hlens : length l1 + S (length l2) = N).
  { rewrite <- Hrlen, Er, app_length. reflexivity. }
  assert (Hq : q < N) by (unfold q; lia).
  assert (Hnthq : nth q ring 0 = c).
  { rewrite Er. rewrite app_nth2 by (unfold q; lia). unfold q. rewrite Nat.sub_diag. reflexivity. }
  assert (Hinj : forall i j, i < N -> j < N -> nth i ring 0 = nth j ring 0 -> i = j).
  { intros i j Hi Hj. apply (proj1 (NoDup_nth ring 0) Hnd); lia. }
  (* unlink *)
  assert (Lrot : LinkedI b (c :: l2 ++ l1)).
  { change (c :: l2 ++ l1) with ((c :: l2) ++ l1). apply LinkedI_rot. rewrite <- Er. exact L. }
  assert (Hrest : l2 ++ l1 <> []).
  { intros E. apply (f_equal (@length nat)) in E. rewrite app_length in E. simpl in E. lia. }
  destruct (unlink_linked T b c (l2 ++ l1) Lrot Hrest) as [L0' Fvl0].
  apply LinkedI_rot in L0'.
  set (b0 := unlink b c) in *. set (ring0 := l1 ++ l2) in *.
  assert (Hb0len : length b0 = N) by (unfold b0; rewrite unlink_length; exact Hlen).
  assert (Hring0 : length ring0 = N - 1) by (unfold ring0; rewrite app_length; lia).
  assert (Hcnot : ~ In c ring0).
  { unfold ring0. rewrite Er in Hnd. apply NoDup_remove_2 in Hnd. exact Hnd. }
  assert (Hpc : pv b c < length b).
  { eapply linked_lt; [exact L|]. apply linked_pv_in; auto. }
  assert (Hsc : nx b c < length b).
  { eapply linked_lt; [exact L|]. apply linked_nx_in; auto. }
  (* head after move_head_forward *)
  assert (Hh : h < length b).
  { eapply linked_lt; [exact L|]. rewrite <- Hhead. apply nth_In. lia. }
  set (h1 := if c =? h then nx b h else h).
  assert (Hmove : move_head_forward T {| buffer := b; cursor := c; head := h; median := m |} =
                  Some {| buffer := b; cursor := c; head := h1; median := m |}).
  { unfold move_head_forward, h1. cbn [buffer cursor head median].
    destruct (c =? h); [|reflexivity]. rewrite getn_lt by exact Hh. reflexivity. }
  assert (Hh1 : h1 = nth 0 ring0 0).
  { unfold h1, ring0. destruct l1 as [|a l1'].
    - simpl in Er. rewrite Er in Hhead. simpl in Hhead. subst h. rewrite Nat.eqb_refl.
      assert (E : c = at_ ring 0) by (rewrite at_0 by auto; rewrite Er; reflexivity).
      rewrite E at 1. rewrite (lk_nx _ _ _ L). rewrite at_lt by lia. rewrite Er. reflexivity.
    - rewrite Er in Hhead. simpl in Hhead. subst h.
      destruct (Nat.eqb_spec c a) as [E|E]; [|reflexivity].
      exfalso. rewrite Er in Hnd. simpl in Hnd. inversion Hnd as [|? ? Hn _]; subst.
      apply Hn. apply in_or_app. right. left. reflexivity. }
  (* values along the reduced ring *)
  set (sorted0 := remove_at q sorted).
  assert (Hv0 : forall k, k < N - 1 -> vl b0 (nth k ring0 0) = nth_error sorted0 k).
  { intros k Hk. unfold ring0, sorted0. rewrite (nth_app_del l1 l2 c k 0), <- Er.
    rewrite nth_error_remove_at. fold q. rewrite Fvl0.
    destruct (Nat.ltb_spec k q).
    - destruct (Nat.eqb_spec (nth k ring 0) c) as [E|E].
      + rewrite <- Hnthq in E. apply Hinj in E; lia.
      + apply Hvals. lia.
    - destruct (Nat.eqb_spec (nth (S k) ring 0) c) as [E|E].
      + rewrite <- Hnthq in E. apply Hinj in E; lia.
      + apply Hvals. lia. }
  (* window bookkeeping *)
  assert (Hvc : vl b c = nth_error sorted q) by (rewrite <- Hnthq; apply Hvals; exact Hq).
  assert (Hwin : exists w0, Permutation sorted0 w0 /\ lastn N (hist ++ [x]) = w0 ++ [x] /\
                            length sorted0 <= N - 1).
  { destruct (Nat.lt_ge_cases (length hist) N) as [Hshort|Hfull].
    - assert (Ec : c = length hist) by (rewrite Hcur; apply Nat.mod_small; exact Hshort).
      assert (Hnone : nth_error sorted q = None).
      { rewrite <- Hvc. apply Hempty; lia. }
      apply nth_error_None in Hnone.
      exists (lastn N hist). unfold sorted0. rewrite remove_at_ge by exact Hnone.
      split; [exact Hperm|]. split; [apply lastn_app_short; exact Hshort|]. lia.
    - assert (Hj : vl b ((length hist - N) mod N) = nth_error hist (length hist - N))
        by (apply Hage; lia).
      rewrite mod_sub_self in Hj by lia. rewrite <- Hcur in Hj.
      rewrite nth_error_hd_skipn in Hj. change (skipn (length hist - N) hist) with (lastn N hist) in Hj.
      assert (Hwlen : length (lastn N hist) = N) by (rewrite lastn_length; lia).
      destruct (lastn N hist) as [|v0 wt] eqn:Ew; [simpl in Hwlen; lia|].
      simpl in Hj. rewrite Hvc in Hj.
      exists wt. split; [|split].
      + pose proof (remove_at_split q sorted v0 Hj) as Es.
        apply Permutation_cons_inv with (a := v0).
        etransitivity; [|exact Hperm]. unfold sorted0, remove_at.
        etransitivity; [apply Permutation_middle|]. rewrite <- Es. apply Permutation_refl.
      + rewrite lastn_app_full by lia. rewrite Ew. reflexivity.
      + assert (q < length sorted) by (apply nth_error_Some; congruence).
        pose proof (remove_at_length q sorted H). fold sorted0 in H0. lia. }
  destruct Hwin as [w0 [Hperm0 [Hwin Hr]]].
  (* the loop *)
  pose proof (insert_loop_spec T leb x c N b0 ring0 sorted0 HN Hb0len L0' Hring0 Hc Hcnot Hr Hv0) as Hloop.
  destruct (loop_link T leb x c N b0 ring0 sorted0 HN Hb0len L0' Hring0 Hc Hcnot Hr Hv0) as [L' Fvl'].
  pose proof (loop_vals T leb x c N b0 ring0 sorted0 HN Hb0len L0' Hring0 Hc Hcnot Hr Hv0) as Hv'.
  pose proof (fire_spec T leb x c N b0 ring0 sorted0 HN Hb0len L0' Hring0 Hc Hcnot Hr Hv0) as Hfire.
  pose proof (R_length T leb x c N b0 ring0 sorted0 HN Hb0len Hring0 Hc Hr Hv0) as HRlen.
  pose proof (b'_length T leb x c N b0 ring0 sorted0 Hb0len) as Hb'len.
  set (p := ipos T leb x sorted0) in *.
  set (R := ins_at p c ring0) in *.
  set (b' := link b0 c (at_ ring0 p) x) in *.
  set (sorted' := ins_at p x sorted0) in *.
  set (r := length sorted0) in *.
  assert (Hs'len : length sorted' = S r) by (unfold sorted'; apply ins_at_length).
  assert (Hple : p <= r) by (unfold p, r; apply ipos_le).
  assert (Hy : vl b' (at_ R (r / 2)) = Some (nth (r / 2) sorted' x)).
  { rewrite at_lt by (rewrite HRlen; lia). rewrite Hv' by lia.
    apply nth_error_lt_some. rewrite Hs'len. lia. }
  exists {| buffer := b'; cursor := (c + 1) mod N; head := if p =? 0 then c else h1; median := at_ R (r / 2) |},
         R, sorted'.
  split; [|split].
  - rewrite (filter_unfold T leb). rewrite Hmove. cbn [obind].
    rewrite remove_node_eq by (cbn [buffer cursor head median]; first [assumption|lia]).
    cbn [obind buffer cursor head median]. fold b0. rewrite Hb0len.
    rewrite Hh1. rewrite Hloop. cbn [obind].
    rewrite Hs'len. replace (S r - 1) with r by lia.
    rewrite <- Hh1.
    apply (finish_spec T leb b' R N (r / 2) h1 c x _ (p =? 0)); auto.
    + lia.
    + rewrite Hh1. rewrite <- Hb0len. eapply linked_lt; [exact L0'|]. apply nth_In. lia.
    + rewrite Hh1. exact Hfire.
  - assert (Hvl' : forall i, i <> c -> vl b' i = vl b i).
    { intros i Hi. rewrite Fvl'. destruct (Nat.eqb_spec i c); [congruence|].
      rewrite Fvl0. destruct (Nat.eqb_spec i c); [congruence|]. reflexivity. }
    assert (Hvc' : vl b' c = Some x) by (rewrite Fvl', Nat.eqb_refl; reflexivity).
    split; cbn [buffer cursor head median].
    + exact Hb'len.
    + exact L'.
    + exact HRlen.
    + unfold R. rewrite nth_ins_at by lia. rewrite Hh1.
      destruct (Nat.eqb_spec p 0) as [E|E].
      * rewrite E. reflexivity.
      * destruct (Nat.ltb_spec 0 p); [reflexivity|lia].
    + exact Hv'.
    + rewrite Hwin. etransitivity; [apply ins_at_perm|].
      etransitivity; [apply perm_skip; exact Hperm0|]. apply Permutation_cons_append.
    + intros j Hj1 Hj2. rewrite app_length in Hj1, Hj2. simpl in Hj1, Hj2.
      destruct (Nat.eq_dec j (length hist)) as [E|E].
      * subst j. rewrite <- Hcur. rewrite Hvc'.
        rewrite nth_error_app2 by lia. rewrite Nat.sub_diag. reflexivity.
      * rewrite Hvl'.
        -- rewrite nth_error_app1 by lia. apply Hage; lia.
        -- rewrite Hcur. apply mod_ne_window; lia.
    + intros i Hi1 Hi2. rewrite app_length in Hi1. simpl in Hi1.
      assert (Ec : c = length hist) by (rewrite Hcur; apply Nat.mod_small; lia).
      rewrite Hvl' by lia. apply Hempty; lia.
    + rewrite app_length. simpl. rewrite Hcur. rewrite Nat.add_mod_idemp_l by lia. reflexivity.
    + intros _. rewrite Hs'len. replace (S r - 1) with r by lia. reflexivity.
    + intros tot. unfold sorted', p. rewrite <- sinsert_ins_at. apply ssorted_sinsert; auto.
      unfold sorted0. apply ssorted_remove_at. apply Hsorted. exact tot.
  - exists q. unfold sorted', p. rewrite sinsert_ins_at. reflexivity.
Qed.

Lemma Inv_step' N s hist ring sorted x : 0 < N -> Inv T leb N s hist ring sorted -> step_goal' N s hist sorted x.
Proof.
  intros HN I. destruct (Nat.eq_dec N 1) as [->|E].
  - eapply Inv_step_1'; eauto.
  - eapply Inv_step_ge2'; eauto. lia.
Qed.

(* any property of the ascending list that survives one step holds in every reachable state *)
Variable P : list T -> Prop.
Hypothesis P_nil : P [].
Hypothesis P_step : forall l x l', P l -> step_rel l x l' -> P l'.

Lemma reach' N : 0 < N -> forall hist, exists s ring sorted,
  oexec (Median.filter leb) (init N) hist = Some s /\ Inv T leb N s hist ring sorted /\ P sorted.
Proof.
  intros HN hist. induction hist as [|x hist IH] using rev_ind.
  - exists (init N), (seq 0 N), []. split; [reflexivity|]. split; [apply Inv_init; exact HN|exact P_nil].
  - destruct IH as [s [ring [sorted [He [I HP]]]]].
    destruct (Inv_step' N s hist ring sorted x HN I) as [s' [ring' [sorted' [Hf [I' R]]]]].
    exists s', ring', sorted'. split; [|split; [exact I'|eapply P_step; eauto]].
    rewrite Proofs.Median.oexec_snoc, He, Hf. reflexivity.
Qed.

Lemma step_full N : 0 < N -> forall hist x, exists s s' ring' sorted',
  oexec (Median.filter leb) (init N) hist = Some s /\
  Median.filter leb s x = Some (s', nth ((length sorted' - 1) / 2) sorted' x) /\
  Inv T leb N s' (hist ++ [x]) ring' sorted' /\ P sorted'.
Proof.
  intros HN hist x. destruct (reach' N HN hist) as [s [ring [sorted [He [I HP]]]]].
  destruct (Inv_step' N s hist ring sorted x HN I) as [s' [ring' [sorted' [Hf [I' R]]]]].
  exists s, s', ring', sorted'. split; [exact He|]. split; [exact Hf|]. split; [exact I'|]. eapply P_step; eauto.
Qed.
End Strong.

(* ---------- the NaN-like order: the non-NaN elements stay in ascending order ---------- *)
Fixpoint somes (l : list (option Z)) : list Z :=
  match l with [] => [] | Some z :: r => z :: somes r | None :: r => somes r end.

Lemma In_somes z l : In z (somes l) <-> In (Some z) l.
Proof.
  induction l as [|[a|] l IH]; simpl; [tauto| |].
  - rewrite IH. split; intros [H|H]; auto; left; congruence.
  - rewrite IH. split; [auto|]. intros [H|H]; [discriminate|auto].
Qed.

Lemma zleb_total : total_order zleb.
Proof.
  unfold zleb. split; [|split].
  - intros a b. rewrite !Z.leb_le. lia.
  - intros a b c. rewrite !Z.leb_le. lia.
  - intros a b. rewrite !Z.leb_le. lia.
Qed.

Definition zsorted (l : list (option Z)) : Prop := ssorted Z zleb (somes l).

Lemma zsorted_remove_at q l : zsorted l -> zsorted (remove_at q l).
Proof.
  unfold zsorted. revert q; induction l as [|y l IH]; intros q H.
  - unfold remove_at. rewrite firstn_nil, skipn_nil. exact I.
  - destruct q as [|q].
    + change (remove_at 0 (y :: l)) with l. destruct y; [apply H|exact H].
    + change (remove_at (S q) (y :: l)) with (y :: remove_at q l). destruct y as [z|]; cbn [somes] in *.
      * destruct H as [H1 H2]. split; [|apply IH; exact H2].
        intros b Hb. apply H1. apply In_somes. apply In_somes in Hb. eapply In_remove_at; eauto.
      * apply IH; exact H.
Qed.

Lemma zsorted_sinsert x l : zsorted l -> zsorted (sinsert _ nleb x l).
Proof.
  unfold zsorted. induction l as [|y l IH]; intros H.
  - destruct x; simpl; [split; [intros ? []|exact I]|exact I].
  - cbn [sinsert]. destruct (nleb x y) eqn:E.
    + destruct x as [a|], y as [b|]; try discriminate. cbn [somes] in *. unfold nleb in E.
      destruct H as [H1 H2]. split; [|split; auto].
      intros c [<-|Hc]; [exact E|]. unfold zleb in *. specialize (H1 c Hc). rewrite Z.leb_le in *. lia.
    + destruct y as [b|]; cbn [somes] in *.
      * destruct H as [H1 H2]. split; [|apply IH; exact H2].
        intros c Hc. apply In_somes in Hc. apply In_sinsert in Hc. destruct Hc as [Hc|Hc].
        -- subst x. unfold nleb in E. unfold zleb. rewrite Z.leb_le. rewrite Z.leb_gt in E. lia.
        -- apply H1. apply In_somes. exact Hc.
      * apply IH; exact H.
Qed.

Lemma zsorted_step l x l' : zsorted l -> step_rel _ nleb l x l' -> zsorted l'.
Proof. intros H [q ->]. apply zsorted_sinsert, zsorted_remove_at, H. Qed.

Lemma somes_perm l l' : Permutation l l' -> Permutation (somes l) (somes l').
Proof.
  induction 1 as [|a l l' _ IH|a b l|l1 l2 l3 _ IH1 _ IH2].
  - constructor.
  - destruct a; simpl; [constructor|]; exact IH.
  - destruct a, b; simpl; try apply Permutation_refl. apply perm_swap.
  - etransitivity; eauto.
Qed.

Lemma no_nan_map l : has_nan l = false -> l = map Some (somes l).
Proof.
  unfold has_nan. induction l as [|[a|] l IH]; simpl; intros H; [reflexivity| |discriminate].
  f_equal. apply IH. exact H.
Qed.

Lemma has_nan_perm l l' : Permutation l l' -> has_nan l = false -> has_nan l' = false.
Proof.
  intros Pm H. unfold has_nan in *. destruct (existsb _ l') eqn:E; [|reflexivity].
  apply existsb_exists in E. destruct E as [x [Hx Hn]].
  assert (Hx' : In x l) by (eapply Permutation_in; [symmetry; exact Pm|exact Hx]).
  assert (E2 : existsb (fun x => negb (is_some x)) l = true) by (apply existsb_exists; eauto).
  congruence.
Qed.

Lemma sinsert_map_some a l : sinsert _ nleb (Some a) (map Some l) = map Some (sinsert _ zleb a l).
Proof.
  induction l as [|b l IH]; simpl; [reflexivity|]. unfold zleb at 1.
  destruct (Z.leb a b); [reflexivity|]. simpl. rewrite IH. reflexivity.
Qed.
Lemma isort_map_some l : isort nleb (map Some l) = map Some (isort zleb l).
Proof. induction l as [|a l IH]; simpl; [reflexivity|]. rewrite IH. apply sinsert_map_some. Qed.

(* a NaN-free window whose linked list has its non-NaN elements ascending IS the insertion sort of the window *)
Lemma zsorted_is_isort sorted w : zsorted sorted -> Permutation sorted w -> has_nan w = false ->
  sorted = isort nleb w.
Proof.
  intros Hs Pm Hn.
  assert (Hn' : has_nan sorted = false) by (eapply has_nan_perm; [symmetry; exact Pm|exact Hn]).
  rewrite (no_nan_map w Hn), isort_map_some. rewrite (no_nan_map sorted Hn') at 1. f_equal.
  apply (sorted_is_isort Z zleb zleb_total); [exact Hs|]. apply somes_perm. exact Pm.
Qed.

(* ---------- the model satisfies the boolean spec on every input ---------- *)
Lemma model_step_spec N : 0 < N -> forall hist x, exists s s' y,
  oexec (Median.filter nleb) (init N) hist = Some s /\ Median.filter nleb s x = Some (s', y) /\
  let w := lastn N (hist ++ [x]) in
  (if has_nan w then existsb (oz_eqb y) w else oz_eqb y (lower_median nleb w None)) = true.
Proof.
  intros HN hist x.
  destruct (step_full _ nleb zsorted I zsorted_step N HN hist x) as [s [s' [ring' [sorted' [He [Hf [Iv Hz]]]]]]].
  exists s, s', (nth ((length sorted' - 1) / 2) sorted' x). split; [exact He|]. split; [exact Hf|].
  cbv zeta. pose proof (i_perm _ _ _ _ _ _ _ Iv) as Pm.
  pose proof (Inv_sorted_ne _ nleb N s' hist x ring' sorted' HN Iv) as Hne.
  assert (Hlt : (length sorted' - 1) / 2 < length sorted').
  { destruct sorted'; [congruence|]. simpl length.
    apply Nat.le_lt_trans with (length sorted'); [|lia]. replace (S (length sorted') - 1) with (length sorted') by lia.
    apply Nat.div_le_upper_bound; lia. }
  destruct (has_nan (lastn N (hist ++ [x]))) eqn:En.
  - apply existsb_exists. eexists. split; [|apply oz_eqb_refl].
    eapply Permutation_in; [exact Pm|]. apply nth_In. exact Hlt.
  - pose proof (zsorted_is_isort sorted' _ Hz Pm En) as Es. subst sorted'. unfold lower_median.
    rewrite <- (Permutation_length Pm).
    rewrite (nth_indep _ x None Hlt). apply oz_eqb_refl.
Qed.

Lemma model_spec N xs ys p : 0 < N ->
  orun_partial (Median.filter nleb) (init N) xs = (ys, p) -> c02_spec_okb N xs ys p = true.
Proof.
  intros HN Hrun.
  destruct (orun_total (Median.filter nleb) (init N)) with (xs := xs) as [ys' Ho].
  { intros hist x. destruct (model_step_spec N HN hist x) as [s [s' [y [A [B _]]]]]. eauto. }
  rewrite (orun_partial_of_orun _ _ _ _ Ho) in Hrun. injection Hrun as <- <-.
  destruct (orun_nth _ _ _ _ None None Ho) as [Hl Hk].
  unfold c02_spec_okb. rewrite Hl, Nat.eqb_refl. cbn [negb andb].
  apply forallb_forall. intros k Hin. apply in_seq in Hin. cbv zeta.
  destruct (Hk k) as [s1 [s2 [A B]]]; [lia|].
  destruct (model_step_spec N HN (firstn k xs) (nth k xs None)) as [s [s' [y [A' [B' C]]]]].
  rewrite A in A'. injection A' as <-. rewrite B in B'. injection B' as _ <-.
  unfold window. rewrite (firstn_S_snoc xs k None) by lia. exact C.
Qed.

(* ---------- the checker ---------- *)
(* Side conditions.
   (a) 1 <= cN: Median<T,0> panics on the first sample (the model says so too: `% 0` / empty buffer), and the
       property forbids panics, so for N = 0 an implementation that behaves like the model is flagged. *)
Example C02_width_zero_flagged :
  N.land (code (check (mk 0 [Some 1%Z] [] true []))) 3 = 2%N.
Proof. vm_compute. reflexivity. Qed.
(* (b) cN <= 1000: for wider windows [check] does not run the model at all (bit 1 is never raised), so
       "bit 1 clear" carries no information and the boolean spec alone decides. *)
Example C02_wide_not_compared :
  N.land (code (check (mk 1001 [Some 1%Z] [Some 2%Z] false []))) 3 = 2%N.
Proof. vm_compute. reflexivity. Qed.

Theorem C02_check_sound : forall c : case, 1 <= cN c -> wide (cN c) = false ->
  N.land (code (check c)) 3 <> 2%N.
Proof.
  intros c HN Hw. unfold check. rewrite Hw.
  destruct (orun_partial (Median.filter nleb) (init (cN c)) (cxs c)) as [ys p] eqn:Hrun.
  apply mkv_sound. intros Hm. apply andb_true_iff in Hm. destruct Hm as [Hp Hy].
  apply Bool.eqb_prop in Hp. apply (list_eqb_eq oz_eqb oz_eqb_eq) in Hy. subst p ys.
  apply model_spec; [lia|exact Hrun].
Qed.
Print Assumptions C02_check_sound.
