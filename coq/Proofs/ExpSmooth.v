From Signalo Require Import Model.Smooth Base.Lincomb.

(* ---------------- exponential moving average ---------------- *)
Lemma ema_exec_snoc w hist h : exec (ema_step w) None (hist ++ [h]) = Some (last_out (ema_step w) None hist h).
Proof. rewrite exec_snoc. unfold last_out. reflexivity. Qed.

Theorem ema_first w x : last_out (ema_step w) None [] x = x.
Proof. reflexivity. Qed.
Theorem ema_rec w hist h x :
  let prev := last_out (ema_step w) None hist h in
  last_out (ema_step w) None (hist ++ [h]) x == prev + w * (x - prev).
Proof.
  cbv zeta. unfold last_out at 1. rewrite ema_exec_snoc. simpl.
  rewrite radd_ok, rmul_ok, rsub_ok. ring.
Qed.

Lemma ema_step_conv w s x xs : 0 <= w -> w <= 1 ->
  match s with Some y => Conv xs y | None => xs = [] end ->
  Conv (xs ++ [x]) (snd (ema_step w s x)).
Proof.
  intros H0 H1 Hs. destruct s as [y|]; simpl.
  - apply (Conv_proper _ (y + (x - y) * w)).
    { rewrite radd_ok, rmul_ok, rsub_ok. reflexivity. }
    apply Conv_mix; auto; [apply Conv_weaken; auto | apply Conv_last].
  - subst. apply (Conv_last [] x).
Qed.

Theorem ema_conv w hist x : 0 <= w -> w <= 1 ->
  Conv (hist ++ [x]) (last_out (ema_step w) None hist x).
Proof.
  intros H0 H1. unfold last_out. apply ema_step_conv; auto.
  induction hist as [|h hist IH] using rev_ind; [reflexivity|].
  rewrite ema_exec_snoc. unfold last_out. apply ema_step_conv; auto.
Qed.
Theorem ema_hull w hist x lo hi : 0 <= w -> w <= 1 ->
  Forall (fun v => lo <= v <= hi) (hist ++ [x]) ->
  lo <= last_out (ema_step w) None hist x <= hi.
Proof. intros. eapply Conv_hull; eauto using ema_conv. Qed.
Theorem ema_const w c k : 0 <= w -> w <= 1 ->
  last_out (ema_step w) None (repeat c k) c == c.
Proof.
  intros. apply (Conv_const c (S k)).
  replace (repeat c (S k)) with (repeat c k ++ [c]) by (rewrite <- repeat_cons; reflexivity).
  apply ema_conv; auto.
Qed.

(* ---------------- exponential median approximation ---------------- *)
Section XM.
Variable c : xm_cfg.
Notation step := (xm_step c).

Theorem xm_first x : last_out step xm_init [] x = x.
Proof. reflexivity. Qed.

(* the pre-smoother is the EMA with gain `pre` over the raw samples *)
Lemma xm_pre_state xs : mean_pre (exec step xm_init xs) = exec (ema_step (xpre c)) None xs.
Proof.
  induction xs as [|x xs IH] using rev_ind; [reflexivity|].
  rewrite !exec_snoc, <- IH. unfold xm_step. simpl. reflexivity.
Qed.
(* after at least one sample: the post-smoother's state and the stored median are the previous output *)
Lemma xm_state_snoc hist h :
  let s := exec step xm_init (hist ++ [h]) in
  let prev := last_out step xm_init hist h in
  xmedian s = Some prev /\ mean_post s = Some prev.
Proof. cbv zeta. rewrite exec_snoc. unfold last_out, xm_step. simpl. split; reflexivity. Qed.

(* out[n] = post(prev + mid * (pre(x[n]) - prev)), post(m) = prev + w_post * (m - prev) *)
Theorem xm_rec hist h x :
  let s := exec step xm_init (hist ++ [h]) in
  let prev := last_out step xm_init hist h in
  let pre_x := snd (ema_step (xpre c) (exec (ema_step (xpre c)) None (hist ++ [h])) x) in
  let med := prev + xmid c * (pre_x - prev) in
  last_out step xm_init (hist ++ [h]) x == prev + xpost c * (med - prev).
Proof.
  cbv zeta. destruct (xm_state_snoc hist h) as [Hm Hp]. cbv zeta in Hm, Hp.
  unfold last_out at 1. unfold xm_step at 1.
  rewrite Hm, Hp, xm_pre_state.
  set (pre := ema_step (xpre c) _ x). destruct pre as [pre' m].
  unfold ema_step. cbn [fst snd]. qsimp. ring.
Qed.

Hypothesis Hpre : 0 <= xpre c <= 1.
Hypothesis Hmid : 0 <= xmid c <= 1.
Hypothesis Hpost : 0 <= xpost c <= 1.

Definition XInv (s : xm_st) (xs : list Q) : Prop :=
  match mean_pre s with Some y => Conv xs y | None => xs = [] end /\
  match mean_post s with Some y => Conv xs y | None => xs = [] end /\
  match xmedian s with Some y => Conv xs y | None => xs = [] end.

Lemma xm_step_inv s xs x : XInv s xs ->
  XInv (fst (step s x)) (xs ++ [x]) /\ Conv (xs ++ [x]) (snd (step s x)).
Proof.
  intros (I1 & I2 & I3). destruct Hpre, Hmid, Hpost.
  unfold xm_step.
  pose proof (ema_step_conv (xpre c) (mean_pre s) x xs) as C1.
  destruct (ema_step (xpre c) (mean_pre s) x) as [pre' m] eqn:E1. simpl in C1.
  assert (Cm : Conv (xs ++ [x]) m) by auto.
  assert (Cmed : Conv (xs ++ [x]) (match xmedian s with None => m
            | Some st => radd st (rmul (rsub m st) (xmid c)) end)).
  { destruct (xmedian s) as [st|]; auto.
    apply (Conv_proper _ (st + (m - st) * xmid c)).
    { rewrite radd_ok, rmul_ok, rsub_ok. reflexivity. }
    apply Conv_mix; auto. apply Conv_weaken; auto. }
  set (med := match xmedian s with None => m | Some st => _ end) in *.
  assert (Cout : Conv (xs ++ [x]) (snd (ema_step (xpost c) (mean_post s) med))).
  { destruct (mean_post s) as [y|]; simpl; auto.
    apply (Conv_proper _ (y + (med - y) * xpost c)).
    { rewrite radd_ok, rmul_ok, rsub_ok. reflexivity. }
    apply Conv_mix; auto. apply Conv_weaken; auto. }
  destruct (ema_step (xpost c) (mean_post s) med) as [post' out] eqn:E2. simpl in Cout. simpl.
  assert (pre' = Some m) by (unfold ema_step in E1; inversion E1; reflexivity).
  assert (post' = Some out) by (unfold ema_step in E2; inversion E2; reflexivity).
  subst pre' post'. repeat split; auto.
Qed.

Lemma xm_inv_exec xs : XInv (exec step xm_init xs) xs.
Proof.
  induction xs as [|x xs IH] using rev_ind; [repeat split|].
  rewrite exec_snoc. apply xm_step_inv, IH.
Qed.

Theorem xm_conv hist x : Conv (hist ++ [x]) (last_out step xm_init hist x).
Proof. unfold last_out. apply xm_step_inv, xm_inv_exec. Qed.
Theorem xm_hull hist x lo hi :
  Forall (fun v => lo <= v <= hi) (hist ++ [x]) -> lo <= last_out step xm_init hist x <= hi.
Proof. intros. eapply Conv_hull; eauto using xm_conv. Qed.
Theorem xm_const v k : last_out step xm_init (repeat v k) v == v.
Proof.
  apply (Conv_const v (S k)).
  replace (repeat v (S k)) with (repeat v k ++ [v]) by (rewrite <- repeat_cons; reflexivity).
  apply xm_conv.
Qed.
End XM.

Example smooth_example :
  run (ema_step (1#4)) None [8; 4; 4] = [8; 7; 25#4] /\
  run (xm_step {| xpre := 1#2; xmid := 1#2; xpost := 1#2 |}) xm_init [8; 0; 4] = [8; 7; 25#4].
Proof. vm_compute. split; reflexivity. Qed.
