(* C10, one section per adapter: for arbitrary fused inner states, the adapter state is fused and
   its items are the list function of the inner items that [sem] uses. *)
From Coq Require Import ZArith List Bool Lia Arith.
From Signalo Require Import Model.Sources Proofs.SourcesFuel Proofs.SourcesSem.
Import ListNotations.

Ltac dnext i := let v := fresh "v" in let i' := fresh i "'" in let E := fresh "E" in
  destruct (next i) as [[v|] i'] eqn:E.

(* ---------------- leaves ---------------- *)
Lemma items_FromList : forall n l, items (FromList l) n = firstn n l.
Proof.
  induction n; intros; auto. rewrite items_S. destruct l.
  - rewrite next_FromList_nil. reflexivity.
  - rewrite next_FromList_cons. simpl. f_equal; auto.
Qed.
Lemma Good_FromList : forall l, Good (FromList l).
Proof.
  intros l. apply (Good_coind (fun s => exists l, s = FromList l)); eauto.
  - intros s [[|x r] ->]; [rewrite next_FromList_nil | rewrite next_FromList_cons]; simpl; eauto.
  - intros s [[|x r] ->]; [rewrite next_FromList_nil | rewrite next_FromList_cons]; simpl; intros;
      [rewrite next_FromList_nil; auto | discriminate].
Qed.

Lemma items_Constant : forall n v, items (Constant v) n = repeat v n.
Proof. induction n; intros; auto. rewrite items_S, next_Constant. simpl. f_equal; auto. Qed.
Lemma Good_Constant : forall v, Good (Constant v).
Proof.
  intros v. apply (Good_coind (fun s => s = Constant v)); auto.
  - intros s ->. rewrite next_Constant. reflexivity.
  - intros s ->. rewrite next_Constant. discriminate.
Qed.

Lemma items_Repeat : forall n v c, items (Repeat v c) n = repeat v (Nat.min n c).
Proof.
  induction n; intros; auto. rewrite items_S. destruct c.
  - rewrite next_Repeat_0. reflexivity.
  - rewrite next_Repeat_S. simpl. f_equal; auto.
Qed.
Lemma Good_Repeat : forall v c, Good (Repeat v c).
Proof.
  intros v c. apply (Good_coind (fun s => exists c, s = Repeat v c)); eauto.
  - intros s [[|c'] ->]; [rewrite next_Repeat_0 | rewrite next_Repeat_S]; simpl; eauto.
  - intros s [[|c'] ->]; [rewrite next_Repeat_0 | rewrite next_Repeat_S]; simpl; intros;
      [rewrite next_Repeat_0; auto | discriminate].
Qed.

Lemma items_Increment : forall n a d,
  items (Increment a d) n = map (fun i => (a + Z.of_nat i * d)%Z) (seq 0 n).
Proof.
  induction n; intros; auto. rewrite items_S, next_Increment.
  change (seq 0 (S n)) with (0 :: seq 1 n). rewrite <- seq_shift, map_cons, map_map, IHn.
  f_equal; [lia|]. apply map_ext. intros. lia.
Qed.
Lemma Good_Increment : forall a d, Good (Increment a d).
Proof.
  intros a d. apply (Good_coind (fun s => exists a, s = Increment a d)); eauto.
  - intros s [a' ->]. rewrite next_Increment. simpl; eauto.
  - intros s [a' ->]. rewrite next_Increment. discriminate.
Qed.

(* ---------------- pass-through adapters ---------------- *)
Lemma items_RoundTrip : forall n i, items (RoundTrip i) n = items i n.
Proof.
  induction n; intros; auto. rewrite !items_S, next_RoundTrip. dnext i; auto. f_equal; auto.
Qed.
Lemma Good_RoundTrip : forall i, Good i -> Good (RoundTrip i).
Proof.
  intros i Hi. apply (Good_coind (fun s => exists i, s = RoundTrip i /\ Good i)); eauto.
  - intros s (j & -> & Hj). rewrite next_RoundTrip. pose proof (Good_next j Hj).
    destruct (next j); simpl in *; eauto.
  - intros s (j & -> & Hj). rewrite next_RoundTrip. pose proof (Good_none j Hj) as H.
    destruct (next j) as [o j']; simpl in *. intros ->. rewrite next_RoundTrip.
    destruct (next j'); simpl in *; auto.
Qed.

Lemma items_Cache : forall n i c, items (Cache i c) n = items i n.
Proof.
  induction n; intros; auto. rewrite !items_S, next_Cache. dnext i; auto. f_equal; auto.
Qed.
Lemma Good_Cache : forall i c, Good i -> Good (Cache i c).
Proof.
  intros i c Hi. apply (Good_coind (fun s => exists i c, s = Cache i c /\ Good i)); eauto.
  - intros s (j & d & -> & Hj). rewrite next_Cache. pose proof (Good_next j Hj).
    destruct (next j); simpl in *; eauto.
  - intros s (j & d & -> & Hj). rewrite next_Cache. pose proof (Good_none j Hj) as H.
    destruct (next j) as [o j']; simpl in *. intros ->. rewrite next_Cache.
    destruct (next j'); simpl in *; auto.
Qed.

Lemma items_Peek : forall n i, items (Peek i None) n = items i n.
Proof.
  induction n; intros; auto. rewrite !items_S, next_Peek_none. dnext i; auto. f_equal; auto.
Qed.
Lemma Good_Peek : forall i, Good i -> Good (Peek i None).
Proof.
  intros i Hi. apply (Good_coind (fun s => exists i, s = Peek i None /\ Good i)); eauto.
  - intros s (j & -> & Hj). rewrite next_Peek_none. pose proof (Good_next j Hj).
    destruct (next j); simpl in *; eauto.
  - intros s (j & -> & Hj). rewrite next_Peek_none. pose proof (Good_none j Hj) as H.
    destruct (next j) as [o j']; simpl in *. intros ->. rewrite next_Peek_none.
    destruct (next j'); simpl in *; auto.
Qed.

(* ---------------- take ---------------- *)
Lemma items_Take : forall n i c, items (Take i c) n = items i (Nat.min n c).
Proof.
  induction n; intros; auto. destruct c.
  - rewrite items_S, next_Take_0. rewrite Nat.min_0_r. reflexivity.
  - change (Nat.min (S n) (S c)) with (S (Nat.min n c)).
    rewrite !items_S, next_Take_S. dnext i; auto. f_equal; auto.
Qed.
Lemma Good_Take : forall i c, Good i -> Good (Take i c).
Proof.
  intros i c Hi. apply (Good_coind (fun s => exists i c, s = Take i c /\ Good i)); eauto.
  - intros s (j & [|d] & -> & Hj); [rewrite next_Take_0; simpl; eauto|].
    rewrite next_Take_S. pose proof (Good_next j Hj).
    destruct (next j); simpl in *; eauto.
  - intros s (j & [|d] & -> & Hj); [rewrite next_Take_0; simpl; rewrite next_Take_0; auto|].
    rewrite next_Take_S. pose proof (Good_none j Hj) as H.
    destruct (next j) as [o j']; simpl in *. intros ->.
    destruct d; [rewrite next_Take_0; auto|]. rewrite next_Take_S.
    destruct (next j'); simpl in *; auto.
Qed.

(* ---------------- chain ---------------- *)
Lemma items_Chain_back : forall n f b, items (Chain f b true) n = items b n.
Proof.
  induction n; intros; auto. rewrite !items_S, next_Chain_back. dnext b; auto. f_equal; auto.
Qed.
Lemma items_Chain : forall n f b,
  items (Chain f b false) n = items f n ++ items b (n - length (items f n)).
Proof.
  induction n; intros; auto. rewrite (items_S (Chain f b false)), next_Chain_front.
  rewrite (items_S f). dnext f.
  - simpl. f_equal. auto.
  - cbn [app length]. rewrite Nat.sub_0_r, (items_S b). dnext b; auto. f_equal. apply items_Chain_back.
Qed.
Lemma Good_Chain : forall f b fl, Good f -> Good b -> Good (Chain f b fl).
Proof.
  intros f b fl Hf Hb.
  apply (Good_coind (fun s => exists f b fl, s = Chain f b fl /\ Good f /\ Good b)).
  3: eauto 7.
  - intros s (f0 & b0 & [|] & -> & Hf0 & Hb0).
    + rewrite next_Chain_back. pose proof (Good_next b0 Hb0). destruct (next b0); simpl in *; eauto 7.
    + rewrite next_Chain_front. pose proof (Good_next b0 Hb0). pose proof (Good_next f0 Hf0).
      destruct (next f0) as [[v|] f']; simpl in *; eauto 7.
      destruct (next b0); simpl in *; eauto 7.
  - intros s (f0 & b0 & [|] & -> & Hf0 & Hb0).
    + rewrite next_Chain_back. pose proof (Good_none b0 Hb0).
      destruct (next b0) as [o b']; simpl in *. intros ->. rewrite next_Chain_back.
      destruct (next b'); simpl in *; auto.
    + rewrite next_Chain_front. pose proof (Good_none b0 Hb0).
      destruct (next f0) as [[v|] f']; simpl; [discriminate|].
      destruct (next b0) as [o b']; simpl in *. intros ->. rewrite next_Chain_back.
      destruct (next b'); simpl in *; auto.
Qed.

(* ---------------- skip ---------------- *)
Lemma Good_skiploop : forall c i, Good i -> Good (skiploop c i).
Proof.
  induction c; simpl; intros; auto.
  pose proof (Good_next i H). destruct (next i) as [[v|] i']; simpl in *; auto.
Qed.
Lemma skiploop_items : forall c i m, Good i -> skipn c (items i (c + m)) = items (skiploop c i) m.
Proof.
  induction c; intros i m Hi; auto.
  change (S c + m) with (S (c + m)). rewrite items_S. cbn [skiploop].
  pose proof (Good_next i Hi) as Hn. pose proof (Good_none i Hi) as H0.
  destruct (next i) as [[v|] i']; simpl in *.
  - apply IHc; auto.
  - symmetry. apply items_none. auto.
Qed.
Lemma items_Skip_0 : forall n i, items (Skip i 0) n = items i n.
Proof.
  induction n; intros; auto. rewrite !items_S, next_Skip. cbn [skiploop].
  dnext i; auto. f_equal; auto.
Qed.
Lemma items_Skip : forall n i c, Good i -> items (Skip i c) n = skipn c (items i (c + n)).
Proof.
  intros n i c Hi. destruct n.
  - rewrite skipn_all2; auto. rewrite Nat.add_0_r. apply items_length.
  - rewrite skiploop_items by auto. rewrite <- (items_Skip_0 (S n) (skiploop c i)).
    apply items_next_eq. rewrite !next_Skip. reflexivity.
Qed.
Lemma Good_Skip : forall i c, Good i -> Good (Skip i c).
Proof.
  intros i c Hi. apply (Good_coind (fun s => exists i c, s = Skip i c /\ Good i)); eauto.
  - intros s (j & d & -> & Hj). rewrite next_Skip.
    pose proof (Good_next _ (Good_skiploop d j Hj)).
    destruct (next (skiploop d j)); simpl in *; eauto.
  - intros s (j & d & -> & Hj). rewrite next_Skip.
    pose proof (Good_none _ (Good_skiploop d j Hj)) as H.
    destruct (next (skiploop d j)) as [o j']; simpl in *. intros ->.
    rewrite next_Skip. cbn [skiploop]. destruct (next j'); simpl in *; auto.
Qed.

(* ---------------- cycle ---------------- *)
Lemma next_Cycle_restart : forall o cur, fst (next cur) = None -> next (Cycle o cur) = next (Cycle o o).
Proof.
  intros o cur H. rewrite !next_Cycle.
  destruct (next cur) as [[v|] cur']; simpl in H; [discriminate|].
  destruct (next o) as [[v|] c2]; reflexivity.
Qed.
Lemma items_Cycle_split : forall n o cur,
  items (Cycle o cur) n = items cur n ++ items (Cycle o o) (n - length (items cur n)).
Proof.
  induction n; intros; auto. rewrite (items_S cur). dnext cur.
  - rewrite items_S, next_Cycle, E. simpl. f_equal. auto.
  - cbn [app length]. rewrite Nat.sub_0_r. apply items_next_eq. apply next_Cycle_restart. rewrite E; auto.
Qed.
Lemma items_Cycle_full : forall n o cur, length (items cur n) = n -> items (Cycle o cur) n = items cur n.
Proof.
  intros. rewrite items_Cycle_split, H, Nat.sub_diag. simpl. apply app_nil_r.
Qed.
Lemma items_Cycle : forall m o,
  items (Cycle o o) m = let d := items o m in if length d <? m then rot d m else d.
Proof.
  induction m as [m IH] using lt_wf_ind. intros o. cbv zeta.
  pose proof (items_length m o) as Hl.
  destruct (Nat.ltb_spec (length (items o m)) m) as [Hlt|Hge].
  2: { apply items_Cycle_full. lia. }
  destruct (items o m) as [|x D'] eqn:ED.
  - rewrite rot_nil. destruct m; auto.
    rewrite items_S, next_Cycle. rewrite items_S in ED.
    destruct (next o) as [[v|] o']; [discriminate | reflexivity].
  - rewrite <- ED in *. assert (H1 : 1 <= length (items o m)) by (rewrite ED; simpl; lia).
    rewrite items_Cycle_split, rot_unroll by lia. f_equal.
    rewrite IH by lia. cbv zeta.
    assert (Hp : items o (m - length (items o m)) = firstn (m - length (items o m)) (items o m))
      by (apply items_prefix_le; lia).
    destruct (Nat.ltb_spec (length (items o (m - length (items o m)))) (m - length (items o m))) as [Hs|Hs].
    + rewrite <- (items_short_le _ m o Hs) by lia. reflexivity.
    + rewrite Hp in *. rewrite firstn_length in Hs. rewrite rot_small by lia. reflexivity.
Qed.
Lemma Good_Cycle : forall o cur, Good o -> Good cur -> Good (Cycle o cur).
Proof.
  intros o cur Ho Hc. apply (Good_coind (fun s => exists cur, s = Cycle o cur /\ Good cur)); eauto.
  - intros s (c & -> & Hc'). rewrite next_Cycle.
    pose proof (Good_next c Hc'). pose proof (Good_next o Ho).
    destruct (next c) as [[v|] c']; simpl in *; eauto.
    destruct (next o) as [o2 c2]; simpl in *; eauto.
  - intros s (c & -> & Hc'). rewrite next_Cycle.
    pose proof (Good_none o Ho) as H.
    destruct (next c) as [[v|] c']; simpl; [discriminate|].
    destruct (next o) as [o2 c2] eqn:Eo; simpl in *. intros ->.
    rewrite next_Cycle. rewrite (surjective_pairing (next c2)), H by auto.
    rewrite Eo. reflexivity.
Qed.

(* ---------------- constant padding ---------------- *)
Section PadConst.
Variables (v : Z) (b : nat).
Let T := fun _ : list Z => repeat v b.

Lemma items_PadConst_back : forall n i f b', items (PadConst i v f b' CBack) n = repeat v (Nat.min n b').
Proof.
  induction n; intros; auto. rewrite items_S. destruct b'.
  - rewrite next_PadConst_back_0. reflexivity.
  - rewrite next_PadConst_back_S. simpl. f_equal; auto.
Qed.
Lemma items_PadConst_inner : forall n i f,
  items (PadConst i v f b CInner) n = firstn n (ext T (items i n) n).
Proof.
  induction n; intros; auto.
  rewrite (items_S (PadConst _ _ _ _ _)), next_PadConst_inner, (items_S i). dnext i.
  - rewrite ext_cons by reflexivity. f_equal. auto.
  - unfold ext. cbn [length]. change (0 <? S n) with true. cbn [app]. unfold T.
    rewrite firstn_repeat, <- items_PadConst_back with (i := i') (f := f).
    rewrite items_S. reflexivity.
Qed.
Lemma items_PadConst_front : forall f n i,
  items (PadConst i v f b CFront) n = firstn n (repeat v f ++ ext T (items i n) n).
Proof.
  induction f; intros.
  - simpl. rewrite <- items_PadConst_inner with (f := 0).
    apply items_next_eq, next_PadConst_front_0.
  - destruct n; auto. rewrite items_S, next_PadConst_front_S. simpl. f_equal.
    rewrite IHf. symmetry. apply pad_step.
Qed.
End PadConst.

Lemma Good_PadConst : forall i v f b ph, Good i -> Good (PadConst i v f b ph).
Proof.
  intros i v f b ph Hi.
  apply (Good_coind (fun s => exists i f b ph, s = PadConst i v f b ph /\ Good i)); eauto 7.
  - assert (HB : forall j f0 b0, Good j ->
       exists i f b ph, snd (next (PadConst j v f0 b0 CBack)) = PadConst i v f b ph /\ Good i).
    { intros j f0 [|b0] Hj; [rewrite next_PadConst_back_0 | rewrite next_PadConst_back_S]; simpl; eauto 7. }
    assert (HI : forall j f0 b0, Good j ->
       exists i f b ph, snd (next (PadConst j v f0 b0 CInner)) = PadConst i v f b ph /\ Good i).
    { intros j f0 b0 Hj. rewrite next_PadConst_inner. pose proof (Good_next j Hj).
      destruct (next j) as [[x|] j']; simpl in *; eauto 7. }
    intros s (j & f0 & b0 & [| |] & -> & Hj); auto.
    destruct f0; [rewrite next_PadConst_front_0; auto | rewrite next_PadConst_front_S; simpl; eauto 7].
  - assert (HB : forall j f0 b0, fst (next (PadConst j v f0 b0 CBack)) = None ->
       fst (next (snd (next (PadConst j v f0 b0 CBack)))) = None).
    { intros j f0 [|b0]; [rewrite next_PadConst_back_0 | rewrite next_PadConst_back_S]; simpl;
        [rewrite next_PadConst_back_0; auto | discriminate]. }
    assert (HI : forall j f0 b0, fst (next (PadConst j v f0 b0 CInner)) = None ->
       fst (next (snd (next (PadConst j v f0 b0 CInner)))) = None).
    { intros j f0 b0. rewrite next_PadConst_inner.
      destruct (next j) as [[x|] j']; simpl; [discriminate | auto]. }
    intros s (j & f0 & b0 & [| |] & -> & Hj); auto.
    destruct f0; [rewrite next_PadConst_front_0; auto | rewrite next_PadConst_front_S; simpl; discriminate].
Qed.

(* ---------------- edge padding ---------------- *)
Section PadEdge.
Variable c : nat.
Definition TE (l : Z) := fun d : list Z => repeat (last d l) c.

Lemma items_PadEdge_after : forall n i, items (PadEdge i c After) n = [].
Proof. intros. apply items_none. rewrite next_PadEdge_after. reflexivity. Qed.
Lemma items_PadEdge_back : forall n i l r, items (PadEdge i c (Back l r)) n = repeat l (Nat.min n r).
Proof.
  induction n; intros; auto. rewrite items_S. destruct r.
  - rewrite next_PadEdge_back_0. reflexivity.
  - rewrite next_PadEdge_back_S. simpl. f_equal; auto.
Qed.
Lemma ext_TE_cons : forall x d l n,
  firstn (S n) (ext (TE l) (x :: d) (S n)) = x :: firstn n (ext (TE x) d n).
Proof.
  intros. unfold ext, TE. rewrite last_cons_default. reflexivity.
Qed.
Lemma items_PadEdge_inner : forall n i l,
  items (PadEdge i c (Inner l)) n = firstn n (ext (TE l) (items i n) n).
Proof.
  induction n; intros; auto.
  rewrite (items_S (PadEdge _ _ _)), next_PadEdge_inner, (items_S i). dnext i.
  - rewrite ext_TE_cons. f_equal. auto.
  - unfold ext, TE. cbn [length]. change (0 <? S n) with true. cbn [app last].
    rewrite firstn_repeat. destruct c as [|c'] eqn:Ec; auto.
    simpl. f_equal. rewrite <- Ec. apply items_PadEdge_back.
Qed.
Lemma items_PadEdge_front : forall r n i l,
  items (PadEdge i c (Front l r)) n = firstn n (repeat l r ++ ext (TE l) (items i n) n).
Proof.
  induction r; intros.
  - simpl. rewrite <- items_PadEdge_inner.
    apply items_next_eq. rewrite next_PadEdge_front_0, next_PadEdge_inner. reflexivity.
  - destruct n; auto. rewrite items_S, next_PadEdge_front_S. simpl. f_equal.
    rewrite IHr. symmetry. apply pad_step.
Qed.
Lemma items_PadEdge_before : forall n i,
  items (PadEdge i c Before) n =
  let d := items i n in
  match d with
  | [] => []
  | x :: _ => firstn n (repeat x c ++ d ++ (if length d <? n then repeat (last d x) c else []))
  end.
Proof.
  intros. cbv zeta. destruct n; auto.
  rewrite (items_S (PadEdge _ _ _)), next_PadEdge_before, (items_S i). dnext i; auto.
  rewrite items_PadEdge_front.
  rewrite <- app_comm_cons, repeat_app_cons, last_cons_default. reflexivity.
Qed.
End PadEdge.

Lemma Good_PadEdge : forall i c ph, Good i -> Good (PadEdge i c ph).
Proof.
  intros i c ph Hi.
  apply (Good_coind (fun s => exists i ph, s = PadEdge i c ph /\ Good i)); eauto.
  - intros s (j & [|fi [|r]|la|la [|r]|] & -> & Hj); pose proof (Good_next j Hj).
    + rewrite next_PadEdge_before. destruct (next j) as [[x|] j']; simpl in *; eauto.
    + rewrite next_PadEdge_front_0. destruct (next j) as [[x|] j']; simpl in *; eauto.
      destruct c; simpl; eauto.
    + rewrite next_PadEdge_front_S; simpl; eauto.
    + rewrite next_PadEdge_inner. destruct (next j) as [[x|] j']; simpl in *; eauto.
      destruct c; simpl; eauto.
    + rewrite next_PadEdge_back_0; simpl; eauto.
    + rewrite next_PadEdge_back_S; simpl; eauto.
    + rewrite next_PadEdge_after; simpl; eauto.
  - intros s (j & [|fi [|r]|la|la [|r]|] & -> & Hj).
    + rewrite next_PadEdge_before. destruct (next j) as [[x|] j']; simpl; [discriminate|].
      intros _. rewrite next_PadEdge_after. reflexivity.
    + rewrite next_PadEdge_front_0. destruct (next j) as [[x|] j']; simpl; [discriminate|].
      destruct c; simpl; [|discriminate]. intros _. rewrite next_PadEdge_back_0. reflexivity.
    + rewrite next_PadEdge_front_S; simpl; discriminate.
    + rewrite next_PadEdge_inner. destruct (next j) as [[x|] j']; simpl; [discriminate|].
      destruct c; simpl; [|discriminate]. intros _. rewrite next_PadEdge_back_0. reflexivity.
    + rewrite next_PadEdge_back_0; simpl. intros _. rewrite next_PadEdge_after. reflexivity.
    + rewrite next_PadEdge_back_S; simpl; discriminate.
    + rewrite next_PadEdge_after; simpl. intros _. rewrite next_PadEdge_after. reflexivity.
Qed.
