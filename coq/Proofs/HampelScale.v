(* The Hampel filter is equivariant under positive scaling and under translation of the signal: its decision only
   depends on ratios of distances.  (What an f32 / f64 instance adds to this is overflow and underflow of the
   intermediate products at extreme amplitudes; the theorem says that nothing else can depend on the amplitude.) *)
From Coq Require Import List Arith Lia QArith Qcanon Qcabs.
From Signalo Require Import Model.Hampel Spec.C02 Base.ListX Base.Machine Proofs.Hampel Proofs.OrderEmbed.
Import ListNotations.

(* ---------- the affine maps x |-> c * x + d with c > 0 ---------- *)
Local Open Scope Qc_scope.

Definition aff (c d x : Qc) : Qc := c * x + d.

Lemma aff_le c d a b : 0 < c -> (aff c d a <= aff c d b <-> a <= b).
Proof.
  intros Hc. unfold aff. split; intros H.
  - apply (Qcmult_lt_0_le_reg_r _ _ c Hc).
    apply (Qcplus_le_compat _ _ (- d) (- d)) in H; [|apply Qcle_refl].
    replace (c * a + d + - d) with (a * c) in H by ring.
    replace (c * b + d + - d) with (b * c) in H by ring. exact H.
  - apply Qcplus_le_compat; [|apply Qcle_refl].
    rewrite (Qcmult_comm c a), (Qcmult_comm c b).
    apply Qcmult_le_compat_r; [exact H|apply Qclt_le_weak; exact Hc].
Qed.

Lemma aff_qcleb c d a b : 0 < c -> qcleb (aff c d a) (aff c d b) = qcleb a b.
Proof.
  intros Hc. destruct (qcleb a b) eqn:E.
  - apply qcleb_iff. apply aff_le; [exact Hc|]. apply qcleb_iff. exact E.
  - destruct (qcleb (aff c d a) (aff c d b)) eqn:E'; [|reflexivity].
    apply qcleb_iff in E'. apply aff_le in E'; [|exact Hc]. apply qcleb_iff in E'. congruence.
Qed.

Lemma scale_qcltb c a b : 0 < c -> qcltb (c * a) (c * b) = qcltb a b.
Proof.
  intros Hc. unfold qcltb. f_equal.
  pose proof (aff_qcleb c 0 b a Hc) as H. unfold aff in H.
  replace (c * b + 0) with (c * b) in H by ring. replace (c * a + 0) with (c * a) in H by ring. exact H.
Qed.

Lemma abs_aff_diff c d a b : 0 < c -> Qcabs (aff c d a - aff c d b) = c * Qcabs (a - b).
Proof.
  intros Hc. unfold aff. replace (c * a + d - (c * b + d)) with (c * (a - b)) by ring.
  rewrite Qcabs_Qcmult, (Qcabs_pos c); [reflexivity|apply Qclt_le_weak; exact Hc].
Qed.

Lemma hampel_out_aff thr c d mn med mx x : 0 < c ->
  hampel_out thr (aff c d mn) (aff c d med) (aff c d mx) (aff c d x) = aff c d (hampel_out thr mn med mx x).
Proof.
  intros Hc. unfold hampel_out. rewrite !abs_aff_diff by exact Hc.
  rewrite (scale_qcltb c (Qcabs (med - mn)) (Qcabs (mx - med)) Hc).
  destruct (qcltb (Qcabs (med - mn)) (Qcabs (mx - med))).
  - replace (c * Qcabs (mx - med) * mad_factor * thr) with (c * (Qcabs (mx - med) * mad_factor * thr)) by ring.
    rewrite (scale_qcltb c _ _ Hc).
    destruct (qcltb (Qcabs (mx - med) * mad_factor * thr) (Qcabs (x - med))); reflexivity.
  - replace (c * Qcabs (med - mn) * mad_factor * thr) with (c * (Qcabs (med - mn) * mad_factor * thr)) by ring.
    rewrite (scale_qcltb c _ _ Hc).
    destruct (qcltb (Qcabs (med - mn) * mad_factor * thr) (Qcabs (x - med))); reflexivity.
Qed.

(* ---------- the statement of Props/C18.v ---------- *)
Lemma hampel_affine_equivariant : forall N thr c d h p x, (0 < N)%nat -> 0 < c ->
  exists s s' o t t',
    oexec (hampel_step thr) (init N) (h ++ [p]) = Some s /\ hampel_step thr s x = Some (s', o) /\
    oexec (hampel_step thr) (init N) (map (aff c d) (h ++ [p])) = Some t /\
    hampel_step thr t (aff c d x) = Some (t', aff c d o).
Proof.
  intros N thr c d h p x HN Hc.
  destruct (hampel_step_nonempty thr N h p x HN) as (s & s' & E & _ & F).
  destruct (hampel_step_nonempty thr N (map (aff c d) h) (aff c d p) (aff c d x) HN) as (t & t' & E2 & _ & F2).
  exists s, s', (hampel_out thr (window_min qcleb (lastn N (h ++ [p])) p) (lower_median qcleb (lastn N (h ++ [p])) p) p x), t, t'.
  split; [exact E|]. split; [exact F|]. split.
  - rewrite map_app. exact E2.
  - rewrite F2. f_equal. f_equal.
    replace (map (aff c d) h ++ [aff c d p]) with (map (aff c d) (h ++ [p])) by (rewrite map_app; reflexivity).
    rewrite lastn_map.
    rewrite (window_min_map qcleb (aff c d) (fun a b => aff_qcleb c d a b Hc)).
    rewrite (lower_median_map qcleb (aff c d) (fun a b => aff_qcleb c d a b Hc)).
    apply hampel_out_aff. exact Hc.
Qed.

(* the first sample too: it is returned as is, whatever the amplitude *)
Lemma hampel_affine_first : forall N thr c d x, (0 < N)%nat ->
  exists s' t', hampel_step thr (init N) x = Some (s', x) /\ hampel_step thr (init N) (aff c d x) = Some (t', aff c d x).
Proof.
  intros N thr c d x HN.
  destruct (hampel_first N thr x HN) as (s' & E). destruct (hampel_first N thr (aff c d x) HN) as (t' & E').
  exists s', t'. split; assumption.
Qed.
