(* C16 — no false alarm: whenever the recorded (mean, variance) outputs agree with the model (bit 1 clear),
   every clause of the boolean spec of Check/C16 outside the known-finding class holds, so the verdict is
   0 or 4 (known finding) but never 2. *)
From Coq Require Import NArith Morphisms.
From Signalo Require Import Check.Common Model.MeanVar Spec.C03 Base.Lincomb.
From Signalo Require Import Proofs.Mean Proofs.ExpSmooth Proofs.MeanVar Proofs.Bridge Check.C16 Proofs.Sound_LibB.

(* ---------- pairs up to Qeq ---------- *)
Lemma qpair_eqb_iff a b : qpair_eqb a b = true <-> peq a b.
Proof.
  unfold qpair_eqb, peq. rewrite Bool.andb_true_iff, !qeqb_iff. reflexivity.
Qed.
Lemma pl_eqb_iff a b : list_eqb qpair_eqb a b = true <-> pleq a b.
Proof. apply list_eqb_iff, qpair_eqb_iff. Qed.

(* ---------- the two filters respect pointwise Qeq of their inputs ---------- *)
Section Window.
Variable N : nat.
Hypothesis HN : (0 < N)%nat.

Lemma lastn_qleq n a b : qleq a b -> qleq (lastn n a) (lastn n b).
Proof. intros H. unfold lastn. rewrite (qleq_length _ _ H). apply qleq_skipn, H. Qed.

Lemma mean_run_compat ys ys' : qleq ys ys' -> qleq (run (mstep N) Mean.init ys) (run (mstep N) Mean.init ys').
Proof.
  intros H. apply (Forall2_of_nth _ _ _ 0 0).
  - rewrite !run_length. apply (qleq_length _ _ H).
  - intros n Hn. rewrite run_length in Hn.
    rewrite (nth_run _ n _ ys 0 0) by lia.
    rewrite (nth_run _ n _ ys' 0 0) by (rewrite <- (qleq_length _ _ H); lia).
    apply (mean_last_compat N HN); [apply qleq_firstn, H | apply (qleq_qnth _ _ n H)].
Qed.

Lemma old_mean_compat h h' x x' : qleq h h' -> x == x' ->
  oget (Mean.mean (exec (mstep N) Mean.init h)) x == oget (Mean.mean (exec (mstep N) Mean.init h')) x'.
Proof.
  intros Hh Hx.
  destruct (Inv_exec rdiv rdiv_proper N HN h) as (_ & _ & Hm).
  destruct (Inv_exec rdiv rdiv_proper N HN h') as (_ & _ & Hm').
  destruct (Mean.mean (exec (mstep N) Mean.init h)) as [m|], (Mean.mean (exec (mstep N) Mean.init h')) as [m'|]; cbn [oget].
  - destruct Hm as [_ Hm], Hm' as [_ Hm']. rewrite Hm, Hm'. apply qleq_qsum, lastn_qleq, Hh.
  - subst h'. destruct Hm as [Hne _]. inversion Hh; subst. congruence.
  - subst h. destruct Hm' as [Hne _]. inversion Hh; subst. congruence.
  - exact Hx.
Qed.

Lemma mvw_sqs_compat xs : forall xs', qleq xs xs' -> qleq (mvw_sqs N mvw_init xs) (mvw_sqs N mvw_init xs').
Proof.
  induction xs as [|x xs IH] using rev_ind; intros xs' H.
  - inversion H; subst. constructor.
  - apply Forall2_app_inv_l in H as (h' & t' & Hh & Ht & ->).
    inversion Ht as [|? x' ? ? Hx Ht']; subst. inversion Ht'; subst.
    rewrite !mvw_sqs_snoc. apply qleq_app; [apply IH, Hh|]. constructor; [|constructor].
    unfold mvw_sq. rewrite !mvw_exec_mean. cbn [mv_mean mvw_init].
    apply sqv_proper; [exact Hx | apply old_mean_compat; assumption|].
    apply (mean_last_compat N HN xs h' x x' Hh Hx).
Qed.

Lemma mvw_compat xs xs' : qleq xs xs' -> pleq (run (mvw_step N) mvw_init xs) (run (mvw_step N) mvw_init xs').
Proof.
  intros H. apply pleq_of_maps.
  - rewrite !mvw_run_fst. apply mean_run_compat, H.
  - rewrite !mvw_run_snd. apply mean_run_compat, mvw_sqs_compat, H.
Qed.

(* the spec's mean column *)
Lemma mvw_mean_ref xs :
  qleq (map (mean_spec_at rdiv N xs) (seq 0 (length xs))) (map fst (run (mvw_step N) mvw_init xs)).
Proof.
  rewrite mvw_mean_is_mean. apply (Forall2_of_nth _ _ _ 0 0).
  - rewrite map_length, seq_length, run_length. reflexivity.
  - intros n Hn. rewrite map_length, seq_length in Hn.
    rewrite (nth_indep _ 0 (mean_spec_at rdiv N xs 0)) by (rewrite map_length, seq_length; lia).
    rewrite (map_nth (mean_spec_at rdiv N xs)), seq_nth by lia. cbn [Nat.add].
    rewrite (nth_run _ n _ xs 0 0) by lia.
    rewrite (mean_window rdiv rdiv_proper N HN). cbv zeta. unfold mean_spec_at. cbv zeta.
    rewrite (firstn_S_nth n xs 0) by lia. reflexivity.
Qed.
End Window.

Lemma mve_compat w xs xs' : qleq xs xs' -> forall s s', oQeq (fst s) (fst s') -> oQeq (snd s) (snd s') ->
  pleq (run (mve_step w) s xs) (run (mve_step w) s' xs').
Proof.
  intros F. induction F as [|x x' xs xs' Hx F IH]; intros s s' H1 H2; cbn [run]; [constructor|].
  rewrite !mve_step_eq. cbn [fst snd].
  assert (E1 : snd (ema_step w (fst s) x) == snd (ema_step w (fst s') x')) by (apply ema_out_compat; assumption).
  assert (Esq : mve_sq w s x == mve_sq w s' x').
  { unfold mve_sq. apply sqv_proper; [exact Hx| |exact E1].
    destruct (fst s) as [a|], (fst s') as [a'|]; cbn [oQeq oget] in *; try contradiction; assumption. }
  assert (E2 : snd (ema_step w (snd s) (mve_sq w s x)) == snd (ema_step w (snd s') (mve_sq w s' x')))
    by (apply ema_out_compat; assumption).
  constructor; [split; assumption|].
  apply IH; cbn [fst snd]; rewrite !ema_fst_snd; cbn [oQeq]; assumption.
Qed.

Lemma ema_ref_ok w xs : forall prev s, oQeq prev s -> qleq (ema_ref w prev xs) (run (ema_step w) s xs).
Proof.
  induction xs as [|x xs IH]; intros prev s H; cbn [ema_ref run]; [constructor|].
  assert (E : match prev with None => x | Some p => p + w * (x - p) end == snd (ema_step w s x)).
  { destruct prev as [p|], s as [y|]; cbn [oQeq] in H; try contradiction; cbn [ema_step snd]; [|reflexivity].
    rok. rewrite H. ring. }
  constructor; [exact E|]. apply IH. rewrite ema_fst_snd. cbn [oQeq]. rewrite Qred_correct. exact E.
Qed.

(* ---------- facts about [model c] that hold for every case ---------- *)
Lemma model_len c xs : length (model c xs) = length xs.
Proof. unfold model. destruct (ckind c); apply run_length. Qed.
Lemma run_prefix_nth {St X Y} (step : St -> X -> St * Y) s xs k d : (k < length xs)%nat ->
  nth k (run step s xs) d = nth k (run step s (firstn (S k) xs)) d.
Proof. intros H. rewrite run_firstn, nth_firstn' by lia. reflexivity. Qed.
Lemma model_prefix c xs k d : (k < length xs)%nat -> nth k (model c xs) d = nth k (model c (firstn (S k) xs)) d.
Proof. unfold model. destruct (ckind c); apply run_prefix_nth. Qed.

Lemma nth_repeat_lt' {A} (c d : A) m i : (i < m)%nat -> nth i (repeat c m) d = c.
Proof. revert i; induction m as [|m IH]; intros [|i] H; simpl; try lia; auto. apply IH; lia. Qed.

(* ---------- the verdict arithmetic ---------- *)
Lemma code_shape (m o i nt : bool) : (m = true -> o = true) ->
  N.land (code {| code := ((if m then 0 else 1) + (if o then (if i then 0 else if m then 4 else 2) else 2))%N;
                  nontriv := nt |}) 3 <> 2%N.
Proof. intros H. destruct m, o, i; cbn; try discriminate; specialize (H eq_refl); discriminate. Qed.

(* ---------- the generic argument ---------- *)
Section Main.
Variable c : case.
Let inclass (k : nat) : bool := match ckind c with 0%nat => (2 <=? cN c)%nat && (2 <=? k)%nat | _ => false end.
Let gains : bool := match ckind c with 0%nat => true | _ => unit_ok (cw c) end.
Hypothesis H_compat : forall xs xs', qleq xs xs' -> pleq (model c xs) (model c xs').
Hypothesis H_const : forall v k, Forall (fun mv => snd mv == 0) (model c (repeat v k)).
Hypothesis H_off : forall o xs k, (k < length xs)%nat -> inclass k = false ->
  snd (nth k (model c xs) (0, 0)) == snd (nth k (model c (map (fun x => x + o) xs)) (0, 0)).
Hypothesis H_mean : forall xs, qleq (mean_ref c xs) (map fst (model c xs)).
Hypothesis H_nonneg : gains = true -> forall xs, Forall (fun mv => 0 <= snd mv) (model c xs).

Lemma const_at xs k : (k < length xs)%nat -> all_eq (firstn (S k) xs) = true -> snd (nth k (model c xs) (0, 0)) == 0.
Proof.
  intros Hk Ha. rewrite model_prefix by exact Hk.
  set (p := firstn (S k) xs) in *.
  assert (Lp : length p = S k) by (unfold p; rewrite firstn_length; lia).
  assert (Hp : qleq p (repeat (qnth 0 p) (S k))).
  { apply (Forall2_of_nth _ _ _ 0 0); [rewrite repeat_length; exact Lp|].
    intros n Hn. rewrite nth_repeat_lt' by lia. apply (all_eq_forall p Ha). apply nth_In, Hn. }
  rewrite (pleq_nth_snd _ _ k (H_compat _ _ Hp)).
  pose proof (H_const (qnth 0 p) (S k)) as Hz. rewrite Forall_forall in Hz.
  apply Hz. apply nth_In. rewrite model_len, repeat_length. lia.
Qed.

Lemma off_at_radd o xs k : (k < length xs)%nat -> inclass k = false ->
  snd (nth k (model c xs) (0, 0)) == snd (nth k (model c (map (fun x => radd x o) xs)) (0, 0)).
Proof.
  intros Hk Hc. rewrite (H_off o xs k Hk Hc). apply pleq_nth_snd, H_compat.
  apply Forall2_map_same. intros x _. symmetry. apply radd_ok.
Qed.

Lemma nonneg_transfer a b : pleq a b -> Forall (fun mv => 0 <= snd mv) a -> forallb (fun o => qleb 0 (snd o)) b = true.
Proof.
  intros F H. apply forallb_forall. apply Forall_forall.
  apply (Forall2_Forall_transfer peq (fun mv => 0 <= snd mv) _ a b); [|exact F|exact H].
  intros x y [_ E] Hx. apply qleb_iff. rewrite <- E. exact Hx.
Qed.

Theorem main : N.land (code (check c)) 3 <> 2%N.
Proof.
  unfold check. cbv zeta. apply code_shape. intros Hm.
  apply andb_prop in Hm as [Hm H2]. apply andb_prop in Hm as [Hp H1].
  apply pl_eqb_iff in H1. apply pl_eqb_iff in H2.
  set (xs := cxs c) in *. set (xs2 := map (fun x => radd x (coff c)) xs) in *.
  assert (L1 : length (couts c) = length xs) by (rewrite <- (Forall2_length' _ _ _ H1); apply model_len).
  assert (L2 : length (couts2 c) = length xs).
  { rewrite <- (Forall2_length' _ _ _ H2), model_len. unfold xs2. apply map_length. }
  rewrite Hp. cbn [andb]. rewrite L1, L2, Nat.eqb_refl. cbn [andb].
  (* mean column *)
  assert (Hmean : qlist_eqb (mean_ref c xs) (map fst (couts c)) && qlist_eqb (mean_ref c xs2) (map fst (couts2 c)) = true).
  { apply andb_true_intro. split; apply qlist_eqb_iff.
    - etransitivity; [apply H_mean | apply pleq_fst, H1].
    - etransitivity; [apply H_mean | apply pleq_fst, H2]. }
  rewrite Hmean. cbn [andb].
  (* non-negativity *)
  assert (Hnn : negb gains || (forallb (fun o => qleb 0 (snd o)) (couts c) && forallb (fun o => qleb 0 (snd o)) (couts2 c)) = true).
  { destruct gains eqn:G; [|reflexivity]. cbn [negb orb]. apply andb_true_intro.
    split; [apply (nonneg_transfer _ _ H1) | apply (nonneg_transfer _ _ H2)]; apply H_nonneg; reflexivity. }
  fold gains inclass. rewrite Hnn. cbn [andb].
  apply andb_true_intro. split.
  - (* constant prefixes *)
    apply forallb_forall. intros k Hk. apply in_seq in Hk.
    destruct (all_eq (firstn (S k) xs)) eqn:Ea; [|reflexivity]. cbn [negb orb]. apply qeqb_iff.
    rewrite <- (pleq_nth_snd _ _ k H1). apply const_at; [lia | exact Ea].
  - (* offsets outside the known-finding class *)
    apply forallb_forall. intros k Hk. apply in_seq in Hk.
    change (inclass k || qeqb (snd (nth k (couts c) (0, 0))) (snd (nth k (couts2 c) (0, 0))) = true).
    destruct (inclass k) eqn:Ec; [reflexivity|]. cbn [orb]. apply qeqb_iff.
    rewrite <- (pleq_nth_snd _ _ k H1), <- (pleq_nth_snd _ _ k H2). apply off_at_radd; [lia | exact Ec].
Qed.
End Main.

(* ---------- window width 0: weight stays 0, every output is x / 0 = 0 ---------- *)
Lemma mstep0_out s x : Mean.weight s == 0 ->
  snd (mstep 0 s x) == 0 /\ Mean.weight (fst (mstep 0 s x)) == 0.
Proof.
  intros H. unfold Mean.step, push_back. cbn [Nat.eqb fst snd Mean.weight].
  split; [|exact H]. rewrite rdiv_ok, H. unfold Qdiv. change (/ 0) with 0. ring.
Qed.
Lemma mean0_run ys : forall s, Mean.weight s == 0 -> Forall (fun v => v == 0) (run (mstep 0) s ys).
Proof.
  induction ys as [|y ys IH]; intros s H; cbn [run]; [constructor|].
  destruct (mstep0_out s y H) as [A B]. constructor; [exact A | apply IH, B].
Qed.
Definition pzero (mv : Q * Q) : Prop := fst mv == 0 /\ snd mv == 0.
Lemma mvw0_zero xs : Forall pzero (run (mvw_step 0) mvw_init xs).
Proof.
  assert (A : Forall (fun v => v == 0) (map fst (run (mvw_step 0) mvw_init xs))).
  { rewrite mvw_run_fst. apply mean0_run. reflexivity. }
  assert (B : Forall (fun v => v == 0) (map snd (run (mvw_step 0) mvw_init xs))).
  { rewrite mvw_run_snd. apply mean0_run. reflexivity. }
  induction (run (mvw_step 0) mvw_init xs) as [|a l IH]; [constructor|].
  cbn [map] in A, B. inversion A; inversion B; subst. constructor; [split; assumption | apply IH; assumption].
Qed.
Lemma zeros_pleq a b : length a = length b -> Forall pzero a -> Forall pzero b -> pleq a b.
Proof.
  revert b; induction a as [|x a IH]; intros [|y b] L Ha Hb; try discriminate; [constructor|].
  inversion Ha as [|? ? [X1 X2] Ha']; inversion Hb as [|? ? [Y1 Y2] Hb']; subst. constructor.
  - split; [rewrite X1, Y1 | rewrite X2, Y2]; reflexivity.
  - apply IH; [simpl in L; lia | assumption | assumption].
Qed.
Lemma zeros_nth a k : Forall pzero a -> snd (nth k a (0, 0)) == 0.
Proof. intros H. revert k; induction H; intros [|k]; simpl; try reflexivity; [apply H | apply IHForall]. Qed.
Lemma mean_spec0 xs k : mean_spec_at rdiv 0 xs k == 0.
Proof.
  unfold mean_spec_at. cbv zeta.
  assert (E : lastn 0 (firstn (S k) xs) = []) by (apply length_zero_iff_nil; rewrite lastn_length; reflexivity).
  rewrite E. vm_compute. reflexivity.
Qed.

Theorem C16_check_sound : forall c : case, N.land (code (check c)) 3 <> 2%N.
Proof.
  intros c. apply main.
  - (* compat *) intros xs xs' H. unfold model. destruct (ckind c) eqn:Ek; [destruct (cN c) as [|n] eqn:En|].
    + apply zeros_pleq; [rewrite !run_length; apply (qleq_length _ _ H) | apply mvw0_zero | apply mvw0_zero].
    + apply mvw_compat; [lia | exact H].
    + apply mve_compat; [exact H | exact I | exact I].
  - (* const *) intros v k. unfold model. destruct (ckind c) eqn:Ek; [destruct (cN c) as [|n] eqn:En|].
    + eapply Forall_impl; [|apply mvw0_zero]. intros a [_ Ha]. exact Ha.
    + apply mvw_var_const_zero. lia.
    + apply mve_var_const_zero.
  - (* offset *) intros o xs k Hk Hc. unfold model. destruct (ckind c) eqn:Ek; [destruct (cN c) as [|n] eqn:En|].
    + rewrite !zeros_nth by apply mvw0_zero. reflexivity.
    + assert (HN : (0 < S n)%nat) by lia.
      destruct (mvw_var_offset_partial (S n) o xs HN) as [A B].
      rewrite <- !(map_nth snd). change (snd (0, 0)) with 0.
      apply Bool.andb_false_iff in Hc as [Hc|Hc].
      * apply Nat.leb_gt in Hc. assert (E1 : S n = 1%nat) by lia.
        apply (qleq_qnth _ _ k (A E1)).
      * apply Nat.leb_gt in Hc.
        rewrite <- (nth_firstn' 2 (map snd (run (mvw_step (S n)) mvw_init xs)) k 0) by lia.
        rewrite <- (nth_firstn' 2 (map snd (run (mvw_step (S n)) mvw_init (map (fun x => x + o) xs))) k 0) by lia.
        apply (qleq_qnth _ _ k B).
    + rewrite <- !(map_nth snd). change (snd (0, 0)) with 0.
      apply (qleq_qnth _ _ k). apply pleq_snd_rel. apply mve_var_offset.
  - (* mean *) intros xs. unfold mean_ref, model. destruct (ckind c) eqn:Ek; [destruct (cN c) as [|n] eqn:En|].
    + apply (Forall2_of_nth _ _ _ 0 0); [rewrite !map_length, seq_length, run_length; reflexivity|].
      intros k Hk. rewrite map_length, seq_length in Hk.
      rewrite (nth_indep _ 0 (mean_spec_at rdiv 0 xs 0)) by (rewrite map_length, seq_length; lia).
      rewrite (map_nth (mean_spec_at rdiv 0 xs)), mean_spec0.
      pose proof (mvw0_zero xs) as Hz. rewrite Forall_forall in Hz.
      rewrite (nth_indep _ 0 (fst (0, 0))) by (rewrite map_length, run_length; lia).
      rewrite (map_nth fst). symmetry. apply Hz. apply nth_In. rewrite run_length. lia.
    + apply mvw_mean_ref. lia.
    + rewrite mve_mean_is_mean. apply ema_ref_ok. exact I.
  - (* non-negative *) intros G xs. unfold model. destruct (ckind c) eqn:Ek; [destruct (cN c) as [|n] eqn:En|].
    + eapply Forall_impl; [|apply mvw0_zero]. intros a [_ Ha]. rewrite Ha. apply Qle_refl.
    + apply mvw_var_nonneg. lia.
    + unfold unit_ok in G. apply andb_prop in G as [G0 G1]. apply qleb_iff in G0. apply qleb_iff in G1.
      apply mve_var_nonneg; assumption.
Qed.
Print Assumptions C16_check_sound.

(* the remaining non-zero verdict of a model-exact case is the known finding (code 4): sliding window, width >= 2,
   offset clause from the third output on *)
Definition known_case : case :=
  let c0 := mk 0 3 0 [1; 2; 4] 10 [] [] false in
  mk 0 3 0 [1; 2; 4] 10 (model c0 [1; 2; 4]) (model c0 [11; 12; 14]) false.
Example C16_model_exact_known_finding : code (check known_case) = 4%N.
Proof. vm_compute. reflexivity. Qed.
