From Signalo Require Import Model.Sinks.

(* ---- min / max ---- *)
Definition is_least (xs : list Q) (m : Q) : Prop := In m xs /\ forall v, In v xs -> m <= v.
Definition is_greatest (xs : list Q) (m : Q) : Prop := In m xs /\ forall v, In v xs -> v <= m.

Lemma qltb_true a b : qltb a b = true -> a < b.
Proof. unfold qltb. intros H. apply Bool.negb_true_iff in H. apply Qnot_le_lt. intros C. apply Qle_bool_iff in C. congruence. Qed.
Lemma qltb_false a b : qltb a b = false -> b <= a.
Proof. unfold qltb. intros H. apply Bool.negb_false_iff in H. apply Qle_bool_iff, H. Qed.

Lemma min_inv xs : match exec min_step None xs with Some m => is_least xs m | None => xs = [] end.
Proof.
  induction xs as [|x xs IH] using rev_ind; [reflexivity|].
  rewrite exec_snoc. unfold min_step at 1. cbn [fst].
  destruct (exec min_step None xs) as [m|].
  - destruct IH as [Hin Hle]. destruct (qltb x m) eqn:E.
    + apply qltb_true in E. split; [apply in_or_app; right; left; reflexivity|].
      intros v Hv. apply in_app_or in Hv as [Hv|[<-|[]]]; [|apply Qle_refl].
      apply Qle_trans with m; [apply Qlt_le_weak, E | apply Hle, Hv].
    + apply qltb_false in E. split; [apply in_or_app; left; exact Hin|].
      intros v Hv. apply in_app_or in Hv as [Hv|[<-|[]]]; auto.
  - subst xs. split; [left; reflexivity|]. intros v [<-|[]]. apply Qle_refl.
Qed.
Lemma max_inv xs : match exec max_step None xs with Some m => is_greatest xs m | None => xs = [] end.
Proof.
  induction xs as [|x xs IH] using rev_ind; [reflexivity|].
  rewrite exec_snoc. unfold max_step at 1. cbn [fst].
  destruct (exec max_step None xs) as [m|].
  - destruct IH as [Hin Hle]. destruct (qltb m x) eqn:E.
    + apply qltb_true in E. split; [apply in_or_app; right; left; reflexivity|].
      intros v Hv. apply in_app_or in Hv as [Hv|[<-|[]]]; [|apply Qle_refl].
      apply Qle_trans with m; [apply Hle, Hv | apply Qlt_le_weak, E].
    + apply qltb_false in E. split; [apply in_or_app; left; exact Hin|].
      intros v Hv. apply in_app_or in Hv as [Hv|[<-|[]]]; auto.
  - subst xs. split; [left; reflexivity|]. intros v [<-|[]]. apply Qle_refl.
Qed.

Theorem min_finalize xs :
  match exec min_step None xs with Some m => xs <> [] /\ is_least xs m | None => xs = [] end.
Proof. pose proof (min_inv xs) as H. destruct (exec min_step None xs); auto. split; auto. destruct H as [H _]. destruct xs; [destruct H|discriminate]. Qed.
Theorem max_finalize xs :
  match exec max_step None xs with Some m => xs <> [] /\ is_greatest xs m | None => xs = [] end.
Proof. pose proof (max_inv xs) as H. destruct (exec max_step None xs); auto. split; auto. destruct H as [H _]. destruct xs; [destruct H|discriminate]. Qed.
(* used as running filters: the output after each sample is the extremum of the prefix *)
Lemma min_out_state s x : fst (min_step s x) = Some (snd (min_step s x)).
Proof. reflexivity. Qed.
Theorem min_running hist x : is_least (hist ++ [x]) (last_out min_step None hist x).
Proof.
  pose proof (min_inv (hist ++ [x])) as H. rewrite exec_snoc, min_out_state in H. exact H.
Qed.
Theorem max_running hist x : is_greatest (hist ++ [x]) (last_out max_step None hist x).
Proof.
  pose proof (max_inv (hist ++ [x])) as H. rewrite exec_snoc in H. exact H.
Qed.
Lemma bounds_exec xs : exec bounds_step (None, None) xs = (exec min_step None xs, exec max_step None xs).
Proof.
  induction xs as [|x xs IH] using rev_ind; [reflexivity|].
  rewrite !exec_snoc, IH. reflexivity.
Qed.
Theorem bounds_finalize xs :
  match bounds_fin (exec bounds_step (None, None) xs) with
  | Some (lo, hi) => xs <> [] /\ is_least xs lo /\ is_greatest xs hi
  | None => xs = [] end.
Proof.
  rewrite bounds_exec. pose proof (min_finalize xs) as H1. pose proof (max_finalize xs) as H2.
  destruct (exec min_step None xs), (exec max_step None xs); simpl; try tauto;
    subst; try (destruct H1 as [H1 _]; congruence); try (destruct H2 as [H2 _]; congruence).
Qed.
Theorem bounds_running hist x :
  let '(lo, hi) := last_out bounds_step (None, None) hist x in
  is_least (hist ++ [x]) lo /\ is_greatest (hist ++ [x]) hi.
Proof.
  unfold last_out. rewrite bounds_exec. unfold bounds_step. cbn [fst snd].
  split; [apply min_running | apply max_running].
Qed.

(* ---- last, sum, collect ---- *)
Theorem last_finalize xs : fold_left last_sink xs None = match xs with [] => None | _ => Some (last xs 0) end.
Proof.
  induction xs as [|x xs IH] using rev_ind; [reflexivity|].
  rewrite fold_left_app. simpl. unfold last_sink. rewrite last_last. destruct (xs ++ [x]) eqn:E; [destruct xs; discriminate|reflexivity].
Qed.
Lemma sum_inv xs : match exec sum_step None xs with Some v => xs <> [] /\ v == qsum xs | None => xs = [] end.
Proof.
  induction xs as [|x xs IH] using rev_ind; [reflexivity|].
  rewrite exec_snoc. unfold sum_step at 1. cbn [fst]. split; [destruct xs; discriminate|].
  rewrite radd_ok, qsum_app. simpl. destruct (exec sum_step None xs) as [v|].
  - destruct IH as [_ ->]. ring.
  - subst. simpl. ring.
Qed.
Theorem sum_running hist x : last_out sum_step None hist x == qsum (hist ++ [x]).
Proof. pose proof (sum_inv (hist ++ [x])) as H. rewrite exec_snoc in H. apply H. Qed.
Theorem collect_spec xs : exec collect_step [] xs = xs.
Proof.
  induction xs as [|x xs IH] using rev_ind; [reflexivity|]. rewrite exec_snoc, IH. reflexivity.
Qed.

(* ---- Welford mean ---- *)
Lemma mean_inv xs :
  match exec mean_step None xs with
  | Some (c, m) => xs <> [] /\ c == qnat (length xs) /\ m == qsum xs / qnat (length xs)
  | None => xs = [] end.
Proof.
  induction xs as [|x xs IH] using rev_ind; [reflexivity|].
  rewrite exec_snoc. unfold mean_step at 1.
  assert (L : length (xs ++ [x]) = S (length xs)) by (rewrite app_length; simpl; lia).
  destruct (exec mean_step None xs) as [[c m]|].
  - destruct IH as (Hne & Hc & Hm). cbn [fst]. split; [destruct xs; discriminate|].
    assert (Hn : 0 < qnat (length xs)) by (apply qnat_pos; destruct xs; [congruence|simpl; lia]).
    rewrite L, qnat_S, qsum_app. simpl qsum. rok. rewrite Hc, Hm. split; [reflexivity|].
    field. split; lra.
  - subst xs. cbn [fst app length qsum]. change (qnat 1) with 1. rok.
    split; [discriminate|]. split; [ring | field].
Qed.
Theorem mean_finalize xs :
  match mean_fin (exec mean_step None xs) with
  | Some m => xs <> [] /\ m == qsum xs / qnat (length xs) | None => xs = [] end.
Proof. pose proof (mean_inv xs) as H. destruct (exec mean_step None xs) as [[c m]|]; simpl; tauto. Qed.
Lemma mean_step_out s x : exists c, fst (mean_step s x) = Some (c, snd (mean_step s x)).
Proof. unfold mean_step. destruct (match s with Some cm => cm | None => (0, 0) end) as [c m]. eexists; reflexivity. Qed.
Theorem mean_running hist x : last_out mean_step None hist x == qsum (hist ++ [x]) / qnat (length (hist ++ [x])).
Proof.
  pose proof (mean_inv (hist ++ [x])) as H. rewrite exec_snoc in H. unfold last_out.
  destruct (mean_step_out (exec mean_step None hist) x) as [c E]. rewrite E in H. apply H.
Qed.

(* ---- Welford mean and M2 ---- *)
Fixpoint sumsq (xs : list Q) : Q := match xs with [] => 0 | x :: r => x * x + sumsq r end.
Fixpoint sqdev (xs : list Q) (m : Q) : Q := match xs with [] => 0 | x :: r => (x - m) * (x - m) + sqdev r m end.
Lemma sumsq_app a b : sumsq (a ++ b) == sumsq a + sumsq b.
Proof. induction a as [|x a IH]; simpl; [ring | rewrite IH; ring]. Qed.
Lemma sqdev_expand xs m : sqdev xs m == sumsq xs - 2 * m * qsum xs + qnat (length xs) * m * m.
Proof.
  induction xs as [|x xs IH]; [unfold qnat; simpl; ring|].
  cbn [sqdev sumsq qsum length]. rewrite IH, qnat_S. ring.
Qed.
Instance sqdev_proper xs : Proper (Qeq ==> Qeq) (sqdev xs).
Proof. intros a b E. induction xs as [|x xs IH]; simpl; [reflexivity | rewrite IH, E; reflexivity]. Qed.

Lemma mv_inv xs :
  match exec mv_step None xs with
  | Some s => xs <> [] /\ mv_count s == qnat (length xs) /\ mv_mean s == qsum xs / qnat (length xs) /\
              mv_m2 s == sumsq xs - qsum xs * qsum xs / qnat (length xs)
  | None => xs = [] end.
Proof.
  induction xs as [|x xs IH] using rev_ind; [reflexivity|].
  rewrite exec_snoc. unfold mv_step at 1.
  assert (L : length (xs ++ [x]) = S (length xs)) by (rewrite app_length; simpl; lia).
  destruct (exec mv_step None xs) as [s|].
  - destruct IH as (Hne & Hc & Hm & Hv). cbn [fst mv_count mv_mean mv_m2]. split; [destruct xs; discriminate|].
    assert (Hn : 0 < qnat (length xs)) by (apply qnat_pos; destruct xs; [congruence|simpl; lia]).
    rewrite L, qnat_S, qsum_app, sumsq_app. cbn [qsum sumsq]. rok. rewrite Hc, Hm, Hv.
    split; [reflexivity|]. split; field; split; lra.
  - subst xs. cbn [fst app length qsum sumsq mv_count mv_mean mv_m2]. change (qnat 1) with 1. rok.
    split; [discriminate|]. split; [ring|]. split; field.
Qed.

(* prefix mean and prefix sum of squared deviations from it (running filter) *)
Lemma mv_step_out s x : exists c,
  fst (mv_step s x) = Some {| mv_count := c; mv_mean := fst (snd (mv_step s x)); mv_m2 := snd (snd (mv_step s x)) |}.
Proof.
  unfold mv_step. destruct (match s with Some s0 => (mv_count s0, mv_mean s0, mv_m2 s0) | None => (0, 0, 0) end) as [[c m] v].
  eexists; reflexivity.
Qed.
Theorem mv_running hist x :
  let xs := hist ++ [x] in
  let '(m, v) := last_out mv_step None hist x in
  m == qsum xs / qnat (length xs) /\ v == sqdev xs m.
Proof.
  cbv zeta. pose proof (mv_inv (hist ++ [x])) as H. rewrite exec_snoc in H. unfold last_out.
  destruct (mv_step_out (exec mv_step None hist) x) as [c E]. rewrite E in H.
  destruct (snd (mv_step (exec mv_step None hist) x)) as [m v]. cbn [fst snd mv_count mv_mean mv_m2] in H.
  destruct H as (Hne & Hc & Hm & Hv).
  split; [exact Hm|]. rewrite Hv, sqdev_expand. rewrite Hm.
  assert (Hn : 0 < qnat (length (hist ++ [x]))) by (apply qnat_pos; rewrite app_length; simpl; lia).
  field. lra.
Qed.
(* finalize: mean and unbiased sample variance (divisor n-1; zero for one sample; none when empty) *)
Theorem mv_finalize xs :
  match mv_fin (exec mv_step None xs) with
  | Some (m, v) => xs <> [] /\ m == qsum xs / qnat (length xs) /\
                   ((2 <= length xs)%nat -> v == sqdev xs m / (qnat (length xs) - 1)) /\
                   (length xs = 1%nat -> v == 0)
  | None => xs = [] end.
Proof.
  pose proof (mv_inv xs) as H. destruct (exec mv_step None xs) as [s|]; [|exact H].
  destruct H as (Hne & Hc & Hm & Hv). cbn [mv_fin]. split; [exact Hne|]. split; [exact Hm|].
  assert (Hn : 0 < qnat (length xs)) by (apply qnat_pos; destruct xs; [congruence|simpl; lia]).
  assert (Edev : mv_m2 s == sqdev xs (mv_mean s)).
  { rewrite Hv, sqdev_expand, Hm. field. lra. }
  split.
  - intros H2. assert (1 < qnat (length xs)).
    { remember (length xs) as k eqn:Ek. clear Ek. destruct k as [|[|n]]; try lia. rewrite !qnat_S. pose proof (qnat_nonneg n) as Hq. clear - Hq. lra. }
    destruct (qltb 1 (mv_count s)) eqn:E.
    + rok. rewrite Edev, Hc. reflexivity.
    + apply qltb_false in E. rewrite Hc in E. clear - E H. lra.
  - intros H1. destruct (qltb 1 (mv_count s)) eqn:E.
    + apply qltb_true in E. rewrite Hc, H1 in E. change (qnat 1) with 1 in E. clear - E. lra.
    + rewrite Hv. destruct xs as [|a [|b r]]; try discriminate. cbn [length qsum sumsq]. change (qnat 1) with 1. field.
Qed.

(* ---- statistics = bounds + mean_variance ---- *)
Lemma stat_exec xs : exec stat_step ((None, None), None) xs = (exec bounds_step (None, None) xs, exec mv_step None xs).
Proof.
  induction xs as [|x xs IH] using rev_ind; [reflexivity|].
  rewrite !exec_snoc, IH. unfold stat_step. cbn [fst snd].
  destruct (bounds_step (exec bounds_step (None, None) xs) x) as [sb [lo hi]].
  destruct (mv_step (exec mv_step None xs) x) as [sm [m v]]. reflexivity.
Qed.
Theorem statistics_agrees xs :
  stat_fin (exec stat_step ((None, None), None) xs) =
  match bounds_fin (exec bounds_step (None, None) xs), mv_fin (exec mv_step None xs) with
  | Some (lo, hi), Some (m, v) => Some (lo, hi, m, v) | _, _ => None end.
Proof. rewrite stat_exec. reflexivity. Qed.
Theorem statistics_none_iff_empty xs : stat_fin (exec stat_step ((None, None), None) xs) = None <-> xs = [].
Proof.
  rewrite statistics_agrees. pose proof (bounds_finalize xs) as Hb. pose proof (mv_finalize xs) as Hm.
  destruct (bounds_fin _) as [[lo hi]|], (mv_fin _) as [[m v]|]; split; intros; try tauto; try discriminate;
  subst; try (destruct Hb as [Hb _]; congruence); try (destruct Hm as [Hm _]; congruence).
Qed.

Example sinks_example :
  mv_fin (exec mv_step None [2; 4; 4; 4; 5; 5; 7; 9]) = Some (5, 32#7) /\
  mean_fin (exec mean_step None [1; 2; 6]) = Some 3 /\
  bounds_fin (exec bounds_step (None, None) [3; 1; 2]) = Some (1, 3) /\ mv_fin (exec mv_step None [7]) = Some (7, 0).
Proof. vm_compute. repeat split. Qed.
