(* C08 — no false alarm: whenever the recorded outputs agree with the threshold / Schmitt / debounce
   model (bit 1 clear), the observation-level reference automata `ref_on` of Check/C08 accept them
   (bit 2 clear).

   One side condition is needed, for the debounce kind only: the configured threshold fits the
   counter (cthr <= usize::MAX).  The model's counter saturates at usize::MAX while the reference run
   length `cc0 + r` of the spec is unbounded, so for a threshold above usize::MAX the two disagree
   (C08_alarm_big_threshold below).  No condition on the injected counter cc0 is needed. *)
From Coq Require Import NArith ZArith List Bool Lia.
From Signalo Require Import Check.Common Model.Classify Proofs.Classify Check.C08 Proofs.Sound_LibB.
Import ListNotations.

Lemma z_list_eqb_eq a b : list_eqb Z.eqb a b = true -> a = b.
Proof.
  revert b; induction a as [|x a IH]; intros [|y b] H; simpl in H; try discriminate; [reflexivity|].
  apply andb_prop in H as [H1 H2]. apply Z.eqb_eq in H1. rewrite H1, (IH b H2). reflexivity.
Qed.

(* ---------- the k-th output of a run is the last output on the prefix of length k+1 ---------- *)
Section Nth.
Context {S X Y : Type}.
Variable step : S -> X -> S * Y.
Lemma nth_run s xs k dx dy : (k < length xs)%nat ->
  nth k (run step s xs) dy = last_out step s (firstn k xs) (nth k xs dx).
Proof.
  revert s k; induction xs as [|x xs IH]; intros s k Hk; [simpl in Hk; lia|].
  destruct k as [|k]; [reflexivity|]. cbn [run nth firstn]. rewrite (IH _ k) by (simpl in Hk; lia).
  reflexivity.
Qed.
End Nth.
Lemma firstn_S_nth {A} (xs : list A) k d : (k < length xs)%nat -> firstn (S k) xs = firstn k xs ++ [nth k xs d].
Proof.
  revert k; induction xs as [|x xs IH]; intros k Hk; [simpl in Hk; lia|].
  destruct k as [|k]; [reflexivity|]. cbn [firstn nth app]. rewrite <- IH by (simpl in Hk; lia). reflexivity.
Qed.

(* ---------- kind 1: the Schmitt trigger ---------- *)
Lemma schmitt_next_ref lo hi on x :
  schmitt_next Z.leb lo hi on x = if on then negb (x <? lo)%Z else (hi <? x)%Z.
Proof.
  unfold schmitt_next. destruct on.
  - rewrite (Z.ltb_antisym lo x), negb_involutive. reflexivity.
  - rewrite (Z.ltb_antisym x hi). reflexivity.
Qed.
Lemma schmitt_run_ref lo hi (outs : Z * Z) on xs :
  run (schmitt_step Z.leb lo hi outs) on xs = map (pick outs) (ref_schmitt lo hi on xs).
Proof.
  revert on; induction xs as [|x xs IH]; intros on; [reflexivity|].
  cbn [run ref_schmitt map schmitt_step fst snd]. rewrite IH, schmitt_next_ref. reflexivity.
Qed.

(* ---------- kind 2: debounce, from ANY injected counter value ---------- *)
Section Deb.
Variable T : Type.
Variable eqb : T -> T -> bool.
Variable U : Type.
Variable maxu : N.
Variable pred : T.
(* the counter and the (unbounded) reference run length agree below the saturation point *)
Lemma deb_inv threshold (outs : U * U) c0 hist :
  N.min (exec (deb_step eqb maxu threshold pred outs) c0 hist) maxu = N.min (total_run T eqb pred c0 hist) maxu.
Proof.
  induction hist as [|x hist IH] using rev_ind.
  - unfold total_run, runlen. cbn [rev runlen_rev length N.of_nat N.eqb exec]. rewrite N.add_0_r. reflexivity.
  - rewrite exec_snoc, total_run_snoc. unfold deb_step at 1. cbn [fst]. unfold deb_next, sat_succ.
    destruct (eqb x pred); [|reflexivity].
    set (cnt := exec (deb_step eqb maxu threshold pred outs) c0 hist) in *.
    set (tot := total_run T eqb pred c0 hist) in *.
    destruct (N.ltb_spec cnt maxu); lia.
Qed.
Lemma deb_out threshold (outs : U * U) c0 hist x : (threshold <= maxu)%N ->
  last_out (deb_step eqb maxu threshold pred outs) c0 hist x
  = pick outs (threshold <=? total_run T eqb pred c0 (hist ++ [x]))%N.
Proof.
  intros Ht. pose proof (deb_inv threshold outs c0 (hist ++ [x])) as H. rewrite exec_snoc in H.
  unfold last_out. unfold deb_step at 1. cbn [snd]. unfold deb_step at 1 in H. cbn [fst] in H.
  set (cnt := deb_next eqb maxu pred (exec (deb_step eqb maxu threshold pred outs) c0 hist) x) in *.
  set (tot := total_run T eqb pred c0 (hist ++ [x])) in *.
  f_equal. destruct (N.leb_spec threshold cnt); destruct (N.leb_spec threshold tot); try reflexivity; lia.
Qed.
End Deb.

Lemma run_of_pred_runlen p rl : run_of_pred p rl = runlen_rev Z Z.eqb p rl.
Proof. induction rl as [|x r IH]; [reflexivity|]. cbn [run_of_pred runlen_rev]. rewrite IH. reflexivity. Qed.

(* ---------- every output of the model is the reference automaton's output ---------- *)
Definition wf (c : case) : bool := (cthr c <=? umax)%N.

Lemma model_length c : length (fst (model c)) = length (cxs c).
Proof. unfold model. destruct (ckind c) as [|[|k]]; cbn [fst]; apply run_length. Qed.

Lemma model_nth c k : wf c = true -> (k < length (cxs c))%nat ->
  nth k (fst (model c)) 0%Z = if ref_on c k then con c else coff c.
Proof.
  intros Hwf Hk. unfold model, ref_on. destruct (ckind c) as [|[|kind]]; cbn [fst].
  - rewrite (nth_run _ _ _ _ 0%Z) by exact Hk. reflexivity.
  - rewrite schmitt_run_ref.
    rewrite (nth_indep _ 0%Z (pick (coff c, con c) false))
      by (rewrite <- (schmitt_run_ref (ca c) (cb c) (coff c, con c) false (cxs c)), run_length; exact Hk).
    rewrite map_nth. reflexivity.
  - rewrite (nth_run _ _ _ _ 0%Z) by exact Hk.
    rewrite deb_out by (apply N.leb_le; exact Hwf).
    rewrite <- (firstn_S_nth (cxs c) k 0%Z Hk).
    cbv zeta. rewrite run_of_pred_runlen. reflexivity.
Qed.

(* the side condition is necessary: a threshold above usize::MAX with a saturated injected counter.
   Generated cases satisfy wf because the threshold is read back from a Rust `usize`. *)
Example C08_alarm_big_threshold :
  let c := mk 2 7 0 (umax + 1) umax 0 1 [7%Z] [0%Z] false umax in
  wf c = false /\ N.land (code (check c)) 3 = 2%N.
Proof. vm_compute. split; reflexivity. Qed.

Theorem C08_check_sound : forall c : case, wf c = true -> N.land (code (check c)) 3 <> 2%N.
Proof.
  intros c Hwf. unfold check.
  pose proof (model_length c) as HL. pose proof (fun k => model_nth c k Hwf) as HN.
  destruct (model c) as [ys fin]. cbn [fst] in HL, HN.
  apply mkv_sound. intros H.
  apply andb_prop in H as [H _]. apply andb_prop in H as [Hp Hys].
  apply z_list_eqb_eq in Hys. subst ys.
  rewrite Hp. cbn [andb]. apply andb_true_intro. split.
  - apply Nat.eqb_eq. symmetry. exact HL.
  - apply forallb_forall. intros k Hin. apply in_seq in Hin. apply Z.eqb_eq. apply HN. lia.
Qed.
Print Assumptions C08_check_sound.
