From Signalo Require Import Model.Pipes.
From Coq Require Import Lia.

Section PipesProofs.
Variables Id S X R W : Type.
Variable fstep : Id -> W -> S -> X -> W * S * X.
Variable sstep : Id -> W -> S -> W * S * option X.
Variable kstep : Id -> W -> S -> X -> W * S.
Variable fin : Id -> S -> R.
Notation pipe := (@pipe Id S).
Notation pfilter := (pfilter Id S X W fstep).
Notation psource := (psource Id S X W fstep sstep).
Notation psink := (psink Id S X W fstep kstep).
Notation pfinalize := (pfinalize Id S R fin).
Notation chain := (chain Id S X W fstep).
Notation leaves := (@leaves Id S).
Notation relabel := (@relabel Id S).

Lemma chain_app w a b x :
  chain w (a ++ b) x =
  let '(w1, a', y) := chain w a x in let '(w2, b', z) := chain w1 b y in (w2, a' ++ b', z).
Proof.
  revert w x; induction a as [|[i s] a IH]; intros w x; cbn [chain app].
  - destruct (chain w b x) as [[w2 b'] z]. reflexivity.
  - destruct (fstep i w s x) as [[w1 s'] y]. rewrite IH.
    destruct (chain w1 a y) as [[w2 a'] y2]. destruct (chain w2 b y2) as [[w3 b'] z]. reflexivity.
Qed.
Lemma chain_length w ls x : length (snd (fst (chain w ls x))) = length ls.
Proof.
  revert w x; induction ls as [|[i s] r IH]; intros w x; cbn [chain]; [reflexivity|].
  destruct (fstep i w s x) as [[w1 s'] y]. specialize (IH w1 y).
  destruct (chain w1 r y) as [[w2 r'] z]. cbn in *. lia.
Qed.
Lemma relabel_app p a b : length a = length (leaves p) -> relabel p (a ++ b) = (fst (relabel p a), b) /\ snd (relabel p a) = [].
Proof.
  revert a b; induction p as [i s|q IH|l IHl r IHr]; intros a b L; cbn [relabel leaves] in *.
  - destruct a as [|[j t] [|? ?]]; try discriminate. split; reflexivity.
  - destruct (IH a b L) as [E1 E2]. rewrite E1. destruct (relabel q a) as [q' rest]. cbn in *. subst. split; reflexivity.
  - rewrite app_length in L.
    remember (firstn (length (leaves l)) a) as a1 eqn:Ea1. remember (skipn (length (leaves l)) a) as a2 eqn:Ea2.
    assert (Ha : a = a1 ++ a2) by (subst a1 a2; symmetry; apply firstn_skipn).
    assert (L1 : length a1 = length (leaves l)) by (subst a1; rewrite firstn_length; lia).
    assert (L2 : length a2 = length (leaves r)) by (subst a2; rewrite skipn_length; lia).
    clear Ea1 Ea2. subst a. rewrite <- app_assoc.
    destruct (IHl a1 (a2 ++ b) L1) as [E1 _]. destruct (IHl a1 a2 L1) as [E1' _]. rewrite E1, E1'.
    destruct (IHr a2 b L2) as [E2 E3]. cbn [fst snd]. rewrite E2.
    destruct (relabel r a2) as [r' rest]. cbn in *. subst. split; reflexivity.
Qed.

Lemma relabel_pipe l r a b : length a = length (leaves l) ->
  fst (relabel (Pipe l r) (a ++ b)) = Pipe (fst (relabel l a)) (fst (relabel r b)).
Proof.
  intros L. cbn [relabel]. destruct (relabel_app l a b L) as [E _]. rewrite E.
  destruct (relabel r b) as [r' rest]. reflexivity.
Qed.
Lemma relabel_unit q a : fst (relabel (Unit q) a) = Unit (fst (relabel q a)).
Proof. cbn [relabel]. destruct (relabel q a). reflexivity. Qed.
Lemma relabel_id p : fst (relabel p (leaves p)) = p.
Proof.
  induction p as [j t|q IHq|a IHa b IHb]; cbn [leaves]; [reflexivity| |].
  - rewrite relabel_unit, IHq. reflexivity.
  - rewrite relabel_pipe, IHa, IHb by reflexivity. reflexivity.
Qed.
Lemma leaves_nonempty p : leaves p <> [].
Proof. induction p; cbn [leaves]; try discriminate; auto. intros E. apply app_eq_nil in E as [E _]; auto. Qed.

(* Filter: the pipe maps x to sk(...s1(x)...), each stage once, in order, same tree shape, and no
   state besides the stages' *)
Theorem pfilter_flat w p x :
  let '(w', p', y) := pfilter w p x in
  chain w (leaves p) x = (w', leaves p', y) /\ p' = fst (relabel p (leaves p')).
Proof.
  revert w x; induction p as [i s|q IH|l IHl r IHr]; intros w x; cbn [Pipes.pfilter leaves chain].
  - destruct (fstep i w s x) as [[w' s'] y]. cbn. split; reflexivity.
  - specialize (IH w x). destruct (pfilter w q x) as [[w' q'] y]. destruct IH as [E1 E2].
    cbn [leaves]. split; [exact E1|]. rewrite relabel_unit, <- E2. reflexivity.
  - specialize (IHl w x). destruct (pfilter w l x) as [[w1 l'] y]. destruct IHl as [A1 A2].
    specialize (IHr w1 y). destruct (pfilter w1 r y) as [[w2 r'] z]. destruct IHr as [B1 B2].
    cbn [leaves]. rewrite chain_app, A1, B1. split; [reflexivity|].
    assert (L1 : length (leaves l') = length (leaves l)).
    { pose proof (chain_length w (leaves l) x) as H. rewrite A1 in H. exact H. }
    rewrite relabel_pipe by exact L1. rewrite <- A2, <- B2. reflexivity.
Qed.

(* Source: the first stage is pulled once; on the end marker NO later stage is invoked (world and
   all other stage states untouched); otherwise the rest is the filter chain *)
Theorem psource_flat w p :
  match leaves p with
  | [] => True
  | (i, s) :: rest =>
      let '(w1, s', o) := sstep i w s in
      match o with
      | None => psource w p = (w1, fst (relabel p ((i, s') :: rest)), None)
      | Some x => let '(w2, rest', z) := chain w1 rest x in
                  psource w p = (w2, fst (relabel p ((i, s') :: rest')), Some z)
      end
  end.
Proof.
  revert w; induction p as [i s|q IH|l IHl r IHr]; intros w; cbn [leaves].
  - cbn [Pipes.psource]. destruct (sstep i w s) as [[w1 s'] [x|]]; cbn; reflexivity.
  - specialize (IH w). destruct (leaves q) as [|[i s] rest] eqn:El; [exact I|].
    destruct (sstep i w s) as [[w1 s'] [x|]].
    + destruct (chain w1 rest x) as [[w2 rest'] z]. cbn [Pipes.psource]. rewrite IH, relabel_unit. reflexivity.
    + cbn [Pipes.psource]. rewrite IH, relabel_unit. reflexivity.
  - specialize (IHl w). destruct (leaves l) as [|[i s] restl] eqn:El; [exfalso; exact (leaves_nonempty l El)|].
    cbn [app]. destruct (sstep i w s) as [[w1 s'] [x|]].
    + rewrite chain_app. destruct (chain w1 restl x) as [[w2 restl'] y] eqn:Ec.
      pose proof (pfilter_flat w2 r y) as Hr. destruct (pfilter w2 r y) as [[w3 r'] z] eqn:Er. destruct Hr as [B1 B2].
      rewrite B1. cbn [Pipes.psource]. rewrite IHl, Er.
      assert (L : length ((i, s') :: restl') = length (leaves l)).
      { rewrite El. cbn [length]. f_equal. pose proof (chain_length w1 restl x) as H. rewrite Ec in H. exact H. }
      change ((i, s') :: restl' ++ leaves r') with (((i, s') :: restl') ++ leaves r').
      rewrite relabel_pipe by exact L. rewrite <- B2. reflexivity.
    + cbn [Pipes.psource]. rewrite IHl.
      assert (L : length ((i, s') :: restl) = length (leaves l)) by (rewrite El; reflexivity).
      change ((i, s') :: restl ++ leaves r) with (((i, s') :: restl) ++ leaves r).
      rewrite relabel_pipe by exact L. rewrite relabel_id. reflexivity.
Qed.

(* Sink and Finalize: everything but the last stage filters, the last stage sinks; finalising the
   pipe is finalising the last stage *)
Theorem psink_flat w p x :
  exists front i s, leaves p = front ++ [(i, s)] /\
    let '(w1, front', y) := chain w front x in
    let '(w2, s') := kstep i w1 s y in
    psink w p x = (w2, fst (relabel p (front' ++ [(i, s')]))).
Proof.
  revert w x; induction p as [i s|q IH|l IHl r IHr]; intros w x; cbn [leaves].
  - exists [], i, s. split; [reflexivity|]. cbn [chain Pipes.psink app relabel]. destruct (kstep i w s x); reflexivity.
  - destruct (IH w x) as (front & i & s & E & H). exists front, i, s. split; [exact E|].
    destruct (chain w front x) as [[w1 front'] y]. destruct (kstep i w1 s y) as [w2 s'].
    cbn [Pipes.psink]. rewrite H, relabel_unit. reflexivity.
  - pose proof (pfilter_flat w l x) as Hl. destruct (pfilter w l x) as [[w1 l'] y] eqn:El. destruct Hl as [A1 A2].
    destruct (IHr w1 y) as (front & i & s & E & H).
    exists (leaves l ++ front), i, s. split; [rewrite E, app_assoc; reflexivity|].
    rewrite chain_app, A1. destruct (chain w1 front y) as [[w2 front'] z] eqn:Ec.
    destruct (kstep i w2 s z) as [w3 s'] eqn:Ek.
    cbn [Pipes.psink]. rewrite El, H.
    assert (L1 : length (leaves l') = length (leaves l)).
    { pose proof (chain_length w (leaves l) x) as Hc. rewrite A1 in Hc. exact Hc. }
    rewrite <- app_assoc, relabel_pipe by exact L1. rewrite <- A2. reflexivity.
Qed.
Theorem pfinalize_flat p :
  exists front i s, leaves p = front ++ [(i, s)] /\ pfinalize p = fin i s.
Proof.
  induction p as [i s|q IH|l _ r IHr]; cbn [leaves Pipes.pfinalize].
  - exists [], i, s. split; reflexivity.
  - exact IH.
  - destruct IHr as (front & i & s & E & H). exists (leaves l ++ front), i, s. rewrite E, app_assoc. split; [reflexivity|exact H].
Qed.

(* any way of assembling the same stage sequence (constructor, `|`, unit wrappers, any nesting) has the
   same stage list, hence by the theorems above the same behaviour *)
Theorem bitor_assoc_flat a b c :
  leaves (bitor Id S (bitor Id S a b) c) = leaves (bitor Id S a (bitor Id S b c)) /\
  leaves (Unit a) = leaves a /\ leaves (bitor Id S a b) = leaves a ++ leaves b.
Proof. cbn. rewrite app_assoc. repeat split. Qed.
Theorem same_leaves_same_filter w p q x : leaves p = leaves q ->
  let '(w1, p', y1) := pfilter w p x in let '(w2, q', y2) := pfilter w q x in
  w1 = w2 /\ y1 = y2 /\ leaves p' = leaves q'.
Proof.
  intros E. pose proof (pfilter_flat w p x) as Hp. pose proof (pfilter_flat w q x) as Hq.
  destruct (pfilter w p x) as [[w1 p'] y1]. destruct (pfilter w q x) as [[w2 q'] y2].
  destruct Hp as [A _], Hq as [B _]. rewrite E in A. rewrite A in B. inversion B. repeat split; auto.
Qed.
End PipesProofs.

(* non-vacuity: three stateful Z stages (integrator, delay-1, 2x+1) with a call log as the world *)
From Coq Require Import ZArith.
Definition ex_fstep (i : nat) (w : list (nat * Z)) (s : Z) (x : Z) : list (nat * Z) * Z * Z :=
  let w' := w ++ [(i, x)] in
  match i with
  | 0%nat => (w', (s + x)%Z, (s + x)%Z)
  | 1%nat => (w', x, s)
  | _ => (w', s, (2 * x + 1)%Z)
  end.
Example pipes_example :
  let p := Pipe (Leaf 0%nat 0%Z) (Unit (Pipe (Leaf 1%nat 7%Z) (Leaf 2%nat 0%Z))) in
  let '(w1, p1, y1) := pfilter nat Z Z _ ex_fstep [] p 5%Z in
  let '(w2, p2, y2) := pfilter nat Z Z _ ex_fstep w1 p1 3%Z in
  (y1, y2) = (15%Z, 11%Z) /\ w2 = [(0%nat, 5%Z); (1%nat, 5%Z); (2%nat, 7%Z); (0%nat, 3%Z); (1%nat, 8%Z); (2%nat, 5%Z)].
Proof. vm_compute. split; reflexivity. Qed.

(* "invoking each stage exactly once per sample in pipeline order": with a call log as the world and stages
   that append (identity, input) to it -- whatever else they compute -- one sample through ANY pipe appends
   exactly the stage identities, each once, in pipeline order *)
Section Logging.
Variables Id S X : Type.
Variable g : Id -> S -> X -> S * X.
Definition logged (i : Id) (w : list (Id * X)) (s : S) (x : X) : list (Id * X) * S * X :=
  let '(s', y) := g i s x in (w ++ [(i, x)], s', y).
Lemma chain_logged w ls x :
  exists tr, fst (fst (chain Id S X (list (Id * X)) logged w ls x)) = w ++ tr /\ map fst tr = map fst ls.
Proof.
  revert w x; induction ls as [|[i s] r IH]; intros w x; cbn [chain].
  - exists []. rewrite app_nil_r. split; reflexivity.
  - unfold logged at 1. destruct (g i s x) as [s' y].
    destruct (IH (w ++ [(i, x)]) y) as (tr & E & M).
    destruct (chain Id S X (list (Id * X)) logged (w ++ [(i, x)]) r y) as [[w2 r'] z]. cbn [fst] in *.
    exists ((i, x) :: tr). rewrite E, <- app_assoc. split; [reflexivity|]. cbn. f_equal. exact M.
Qed.
Theorem each_stage_once_in_order w (p : pipe Id S) x :
  exists tr, fst (fst (pfilter Id S X (list (Id * X)) logged w p x)) = w ++ tr /\
             map fst tr = map fst (leaves Id S p).
Proof.
  pose proof (pfilter_flat Id S X (list (Id * X)) logged w p x) as H.
  destruct (pfilter Id S X (list (Id * X)) logged w p x) as [[w' p'] y]. destruct H as [E _].
  destruct (chain_logged w (leaves Id S p) x) as (tr & A & B). rewrite E in A. cbn [fst] in *. exists tr. split; assumption.
Qed.
End Logging.
