(* C10 — "no false alarm": the checker of Check/C10.v can never raise the spec alarm (bit 2) on recorded
   results that agree with the model (bit 1 clear).  No side condition: a program of root operations on which
   the model does not get stuck is all-pulls, or pull/peek on a Peek root, or pull/cached on a Cache root, and
   for these the model's results are [spec_results] (C10_pulls_spec, C10_peek_spec, C10_cache_spec). *)
From Coq Require Import ZArith List Bool Lia Arith.
From Signalo Require Import Base.Report Model.Sources Spec.C10 Proofs.Sources Check.C10.
Import ListNotations.
Local Open Scope nat_scope.

Lemma mkv_sound m s nt : (m = true -> s = true) -> N.land (code (mkv m s nt)) 3 <> 2%N.
Proof. destruct m, s; intros H; try (specialize (H eq_refl); discriminate H); vm_compute; discriminate. Qed.

(* ---------- the root adapter never changes its kind ---------- *)
Definition kind (s : src) : nat := match s with Peek _ _ => 1 | Cache _ _ => 2 | _ => 0 end.

Lemma step_kind rec s r : (forall x r', rec x = Some r' -> kind (snd r') = kind x) ->
  step rec s = Some r -> kind (snd r) = kind s.
Proof.
  intros Hrec H. destruct s; cbn [step] in H;
  repeat match type of H with
  | context [obind ?a _] => first [destruct a as [[? ?]|] eqn:? | destruct a as [?|] eqn:?]; cbn [obind] in H
  | context [match ?x with _ => _ end] => destruct x eqn:?
  end; try discriminate H; try (injection H as <-; reflexivity); try (apply Hrec in H; exact H).
Qed.

Lemma pull_kind fuel : forall s r, pull false fuel s = Some r -> kind (snd r) = kind s.
Proof.
  induction fuel as [|fuel IH]; intros s r H; [rewrite pull_0 in H; discriminate H|].
  rewrite pull_S in H. eapply step_kind; eauto.
Qed.

(* ---------- which programs the model can run ---------- *)
Lemma run_ops_kind0 : forall ops s r, kind s = 0 -> run_ops false s ops = Some r -> ops = repeat OPull (length ops).
Proof.
  induction ops as [|o ops IH]; intros s r K H; [reflexivity|].
  cbn [run_ops] in H. destruct o.
  - destruct (pull false (height s) s) as [[res s']|] eqn:E; [|discriminate H]. cbn [obind] in H.
    destruct (run_ops false s' ops) as [rest|] eqn:E'; [|discriminate H].
    cbn [length repeat]. f_equal. apply (IH s' rest); [|exact E'].
    apply pull_kind in E. cbn [snd] in E. congruence.
  - destruct s; try discriminate K; discriminate H.
  - destruct s; try discriminate K; discriminate H.
Qed.

Lemma run_ops_peek : forall ops i pk r, run_ops false (Peek i pk) ops = Some r ->
  Forall (fun o => o = OPull \/ o = OPeek) ops.
Proof.
  induction ops as [|o ops IH]; intros i pk r H; [constructor|].
  cbn [run_ops] in H. destruct o.
  - constructor; [left; reflexivity|]. rewrite pull_height in H. destruct pk as [o|].
    + rewrite next_Peek_some in H. cbn [obind] in H.
      destruct (run_ops false (Peek i None) ops) as [rest|] eqn:E; [|discriminate H]. eapply IH; eauto.
    + rewrite next_Peek_none in H. destruct (next i) as [o i']. cbn [obind] in H.
      destruct (run_ops false (Peek i' None) ops) as [rest|] eqn:E; [|discriminate H]. eapply IH; eauto.
  - constructor; [right; reflexivity|]. destruct pk as [o|]; cbn [peek] in H.
    + cbn [obind] in H. destruct (run_ops false (Peek i (Some o)) ops) as [rest|] eqn:E; [|discriminate H].
      eapply IH; eauto.
    + destruct (pull false (height (Peek i None)) i) as [[o i']|]; [|discriminate H]. cbn [obind] in H.
      destruct (run_ops false (Peek i' (Some o)) ops) as [rest|] eqn:E; [|discriminate H]. eapply IH; eauto.
  - discriminate H.
Qed.

Lemma run_ops_cache : forall ops i c r, run_ops false (Cache i c) ops = Some r ->
  Forall (fun o => o = OPull \/ o = OCached) ops.
Proof.
  induction ops as [|o ops IH]; intros i c r H; [constructor|].
  cbn [run_ops] in H. destruct o.
  - constructor; [left; reflexivity|]. rewrite pull_height, next_Cache in H.
    destruct (next i) as [o i']. cbn [obind] in H.
    destruct (run_ops false (Cache i' o) ops) as [rest|] eqn:E; [|discriminate H]. eapply IH; eauto.
  - discriminate H.
  - constructor; [right; reflexivity|]. cbn [cached obind] in H.
    destruct (run_ops false (Cache i c) ops) as [rest|] eqn:E; [|discriminate H]. eapply IH; eauto.
Qed.

(* ---------- whenever the model runs, its results are the spec's ---------- *)
Theorem run_ops_spec e ops r : run_ops false (init e) ops = Some r -> r = spec_results e ops.
Proof.
  intros H.
  assert (C : kind (init e) = 0 \/ (exists e', e = EPeek e') \/ (exists e', e = ECache e'))
    by (destruct e; cbn; eauto).
  destruct C as [K|[[e' ->]|[e' ->]]].
  - pose proof (run_ops_kind0 ops _ r K H) as E. rewrite E in H |- *. rewrite pulls_spec in H. congruence.
  - pose proof (run_ops_peek ops _ _ r H) as F. rewrite (peek_spec e' ops F) in H. congruence.
  - pose proof (run_ops_cache ops _ _ r H) as F. rewrite (cache_spec e' ops F) in H. congruence.
Qed.

Lemma run_ops_state_fst old : forall ops s r sf, run_ops_state old s ops = Some (r, sf) -> run_ops old s ops = Some r.
Proof.
  induction ops as [|o ops IH]; intros s r sf H; cbn [run_ops_state run_ops] in *.
  - injection H as <- _. reflexivity.
  - destruct (match o with OPull => pull old (height s) s | OPeek => peek old (height s) s
                         | OCached => c <- cached s;; Some (c, s) end) as [[res s']|]; [|discriminate H].
    cbn [obind] in *. destruct (run_ops_state old s' ops) as [[rest sf']|] eqn:E; [|discriminate H].
    cbn [obind] in H. injection H as <- _. rewrite (IH s' rest sf' E). reflexivity.
Qed.

(* ---------- the checker ---------- *)
Theorem C10_check_sound : forall c : case, N.land (code (check c)) 3 <> 2%N.
Proof.
  intros c. unfold check. apply mkv_sound. intros Hm.
  apply andb_true_iff in Hm. destruct Hm as [Hp Hr]. rewrite Hp. cbn [andb].
  destruct (run_ops_state false (init (ce c)) (cops c)) as [[r sf]|] eqn:E; [|discriminate Hr].
  apply andb_true_iff in Hr. destruct Hr as [Hr _].
  apply run_ops_state_fst, run_ops_spec in E. rewrite <- E. exact Hr.
Qed.
Print Assumptions C10_check_sound.
