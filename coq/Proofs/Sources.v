(* C10: the run-time model of the source adapters agrees with the list-function spec [sem], for
   expressions of any nesting depth and any number of pulls; peek/cached on the root. *)
From Coq Require Import ZArith List Bool Lia Arith.
From Signalo Require Import Model.Sources Spec.C10.
From Signalo Require Export Proofs.SourcesFuel Proofs.SourcesSem Proofs.SourcesAdapters.
Import ListNotations.

(* ---- every initial state is fused and yields the items of the spec ---- *)
Theorem init_spec : forall e, Good (init e) /\ forall n, items (init e) n = sem e n.
Proof.
  induction e as [l|a [Ga Ia] b [Gb Ib]|e [G I] c|e [G I] c|e [G I]|v|v c|a d|e [G I] v c|e [G I] c
                 |e [G I]|e [G I]|e [G I]]; cbn [init sem].
  - split; [apply Good_FromList | intros; apply items_FromList].
  - split; [apply Good_Chain; auto | intros; rewrite items_Chain, Ia, Ib; reflexivity].
  - split; [apply Good_Take; auto | intros; rewrite items_Take, I; reflexivity].
  - split; [apply Good_Skip; auto | intros; rewrite items_Skip, I; auto].
  - split; [apply Good_Cycle; auto | intros; rewrite items_Cycle, I; reflexivity].
  - split; [apply Good_Constant | intros; apply items_Constant].
  - split; [apply Good_Repeat | intros; apply items_Repeat].
  - split; [apply Good_Increment | intros; apply items_Increment].
  - split; [apply Good_PadConst; auto | intros; rewrite items_PadConst_front, I; reflexivity].
  - split; [apply Good_PadEdge; auto | intros; rewrite items_PadEdge_before, I; reflexivity].
  - split; [apply Good_Peek; auto | intros; rewrite items_Peek, I; reflexivity].
  - split; [apply Good_Cache; auto | intros; rewrite items_Cache, I; reflexivity].
  - split; [apply Good_RoundTrip; auto | intros; rewrite items_RoundTrip, I; reflexivity].
Qed.

Lemma init_Good : forall e, Good (init e).
Proof. intros; apply init_spec. Qed.
Lemma init_items : forall e n, items (init e) n = sem e n.
Proof. intros; apply init_spec. Qed.

(* the fuel [run_ops] supplies always suffices *)
Theorem pull_never_out_of_fuel : forall s fuel, height s <= fuel -> pull false fuel s = Some (next s).
Proof. intros. apply pull_next. pose proof (need_height s). lia. Qed.

(* ---- k pulls ---- *)
Fixpoint results (s : src) (k : nat) : list (option Z) :=
  match k with
  | 0 => []
  | S k' => fst (next s) :: results (snd (next s)) k'
  end.

Lemma run_pulls : forall k s, run_ops false s (repeat OPull k) = Some (results s k).
Proof.
  induction k; intros; auto.
  cbn [repeat run_ops results]. rewrite pull_height. cbn [obind].
  destruct (next s) as [o s']. rewrite IHk. reflexivity.
Qed.

Lemma results_observe : forall k s L pos last,
  (forall j, j < k -> nth_error L (pos + j) = str s j) ->
  results s k = observe L pos last (repeat OPull k).
Proof.
  induction k; intros s L pos last H; auto.
  cbn [repeat results observe]. f_equal.
  - rewrite <- (Nat.add_0_r pos), H by lia. reflexivity.
  - apply IHk. intros j Hj. replace (S pos + j) with (pos + S j) by lia. rewrite H by lia. reflexivity.
Qed.

Lemma pulls_spec : forall e k,
  run_ops false (init e) (repeat OPull k) = Some (spec_results e (repeat OPull k)).
Proof.
  intros. rewrite run_pulls. f_equal. unfold spec_results. rewrite repeat_length.
  apply results_observe. intros j Hj. rewrite <- init_items. apply items_nth; auto using init_Good.
Qed.

Lemma results_dead : forall k s, (forall j, str s j = None) -> results s k = repeat None k.
Proof.
  induction k; intros; auto. cbn [results repeat]. f_equal.
  - exact (H 0).
  - apply IHk. intros j. exact (H (S j)).
Qed.

Lemma results_items : forall k s, Good s ->
  results s k = map Some (items s k) ++ repeat None (k - length (items s k)).
Proof.
  induction k; intros s G; auto.
  cbn [results]. rewrite items_S.
  pose proof (Good_next s G) as Gn. pose proof (Good_dead s G) as Gd.
  destruct (next s) as [[v|] s'] eqn:E; cbn [fst snd] in *.
  - cbn [map length app Nat.sub]. f_equal. apply IHk; auto.
  - cbn [map length app Nat.sub repeat]. f_equal. apply results_dead.
    intros j. specialize (Gd eq_refl (S j)). unfold str in *. cbn [nexts] in Gd.
    rewrite E in Gd. exact Gd.
Qed.

Lemma end_is_sticky : forall e k, exists items,
  run_ops false (init e) (repeat OPull k) = Some (map Some items ++ repeat None (k - length items)).
Proof.
  intros. exists (sem e k). rewrite run_pulls, results_items by apply init_Good.
  rewrite init_items. reflexivity.
Qed.

(* ---- peek on the root ---- *)
Definition pstr (i : src) (pk : option (option Z)) (j : nat) : option Z :=
  match pk with
  | None => str i j
  | Some o => match j with 0 => o | S j' => str i j' end
  end.

Lemma peek_run : forall ops i pk L pos last,
  Forall (fun o => o = OPull \/ o = OPeek) ops ->
  Good i -> (pk = Some None -> fst (next i) = None) ->
  (forall j, j < length ops -> nth_error L (pos + j) = pstr i pk j) ->
  run_ops false (Peek i pk) ops = Some (observe L pos last ops).
Proof.
  induction ops as [|o r IH]; intros i pk L pos last HF G Hpk H; auto.
  inversion HF as [|? ? Ho HF']; subst.
  pose proof (H 0 (Nat.lt_0_succ _)) as H0. rewrite Nat.add_0_r in H0.
  destruct Ho as [-> | ->]; cbn [run_ops observe].
  - (* pull *)
    rewrite pull_height. destruct pk as [o|].
    + rewrite next_Peek_some. cbn [obind].
      rewrite (IH i None L (S pos) (nth_error L pos)); auto; [ | discriminate | ].
      * rewrite H0. reflexivity.
      * intros j Hj. replace (S pos + j) with (pos + S j) by lia.
        rewrite H by (simpl; lia). reflexivity.
    + rewrite next_Peek_none. pose proof (Good_next i G) as Gn.
      cbn [pstr] in H0. unfold str in H0. cbn [nexts] in H0.
      destruct (next i) as [o i'] eqn:E. cbn [obind fst snd] in *.
      rewrite (IH i' None L (S pos) (nth_error L pos)); auto; [ | discriminate | ].
      * rewrite H0. reflexivity.
      * intros j Hj. replace (S pos + j) with (pos + S j) by lia.
        rewrite H by (simpl; lia). cbn [pstr]. unfold str. cbn [nexts]. rewrite E. reflexivity.
  - (* peek *)
    destruct pk as [o|]; cbn [peek].
    + cbn [obind]. rewrite (IH i (Some o) L pos last); auto.
      * rewrite H0. reflexivity.
      * intros j Hj. apply H. simpl; lia.
    + cbn [height]. rewrite pull_next by (pose proof (need_height i); lia).
      pose proof (Good_next i G) as Gn. pose proof (Good_none i G) as Gz.
      cbn [pstr] in H0. unfold str in H0. cbn [nexts] in H0.
      destruct (next i) as [o i'] eqn:E. cbn [obind fst snd] in *.
      rewrite (IH i' (Some o) L pos last); auto.
      * rewrite H0. reflexivity.
      * intros Ho. inversion Ho; subst. auto.
      * intros [|j] Hj.
        -- rewrite Nat.add_0_r. exact H0.
        -- rewrite H by (simpl; lia). cbn [pstr]. unfold str. cbn [nexts]. rewrite E. reflexivity.
Qed.

Lemma peek_spec : forall e ops, Forall (fun o => o = OPull \/ o = OPeek) ops ->
  run_ops false (init (EPeek e)) ops = Some (spec_results (EPeek e) ops).
Proof.
  intros e ops HF. cbn [init]. unfold spec_results. cbn [sem].
  apply peek_run; auto using init_Good; [discriminate|].
  intros j Hj. rewrite <- init_items. cbn [pstr]. apply items_nth; auto using init_Good.
Qed.

(* ---- cached on the root ---- *)
Lemma cache_run : forall ops i c L pos,
  Forall (fun o => o = OPull \/ o = OCached) ops ->
  Good i ->
  (forall j, j < length ops -> nth_error L (pos + j) = str i j) ->
  run_ops false (Cache i c) ops = Some (observe L pos c ops).
Proof.
  induction ops as [|o r IH]; intros i c L pos HF G H; auto.
  inversion HF as [|? ? Ho HF']; subst.
  destruct Ho as [-> | ->]; cbn [run_ops observe].
  - pose proof (H 0 (Nat.lt_0_succ _)) as H0. rewrite Nat.add_0_r in H0.
    rewrite pull_height, next_Cache. pose proof (Good_next i G) as Gn.
    unfold str in H0. cbn [nexts] in H0.
    destruct (next i) as [o i'] eqn:E. cbn [obind fst snd] in *.
    rewrite H0. rewrite (IH i' o L (S pos)); auto.
    intros j Hj. replace (S pos + j) with (pos + S j) by lia.
    rewrite H by (simpl; lia). unfold str. cbn [nexts]. rewrite E. reflexivity.
  - cbn [cached obind]. rewrite (IH i c L pos); auto.
    intros j Hj. apply H. simpl; lia.
Qed.

Lemma cache_spec : forall e ops, Forall (fun o => o = OPull \/ o = OCached) ops ->
  run_ops false (init (ECache e)) ops = Some (spec_results (ECache e) ops).
Proof.
  intros e ops HF. cbn [init]. unfold spec_results. cbn [sem].
  apply cache_run; auto using init_Good.
  intros j Hj. rewrite <- init_items. apply items_nth; auto using init_Good.
Qed.

(* ---- the corner cases the property names; the edge pad before the repair ---- *)
(* NOT local on purpose: Props/C10.v writes its example lists ([7], [1; 2; 3] ...) without a scope
   annotation, so the file that imports this one needs Z_scope open to parse them as list Z;
   all its nat literals sit in argument positions whose scope is nat_scope. *)
Open Scope Z_scope.
Lemma spec_examples :
  sem (EPadEdge (EList [7]) 2%nat) 8%nat = [7; 7; 7; 7; 7]%Z /\
  sem (EPadEdge (EList [1; 2; 3]) 0%nat) 8%nat = [1; 2; 3]%Z /\
  sem (EPadEdge (EList []) 3%nat) 8%nat = [] /\
  sem (EPadConst (EList []) 9 2%nat) 8%nat = [9; 9; 9; 9]%Z /\
  sem (ECycle (EList [1; 2])) 5%nat = [1; 2; 1; 2; 1]%Z /\
  sem (ESkip (ETake (EIncrement 5 2) 4%nat) 1%nat) 8%nat = [7; 9; 11]%Z /\
  sem (EChain (EList []) (ERepeat 4 2%nat)) 8%nat = [4; 4]%Z.
Proof. vm_compute. repeat split. Qed.

Lemma old_edge_pad_refuted :
  run_ops true (init (EPadEdge (EList [1; 2; 3]) 0%nat)) (repeat OPull 5%nat)
    = Some [Some 1; Some 2; Some 3; Some 3; None]%Z /\
  run_ops true (init (EPadEdge (EList [7]) 2%nat)) (repeat OPull 6%nat)
    = Some [Some 7; Some 7; Some 7; None; None; None]%Z.
Proof. vm_compute. split; reflexivity. Qed.
