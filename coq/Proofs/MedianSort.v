(* Median proof: insertion position, sortedness, uniqueness of the sorted permutation. *)
From Coq Require Import List Arith Lia Bool Permutation.
From Signalo Require Import Model.Median Spec.C02 Proofs.MedianBase.
Import ListNotations.

Section Sort.
Variable T : Type.
Variable leb : T -> T -> bool.

(* position at which [sinsert] puts x: the first element y with leb x y *)
Fixpoint ipos (x : T) (l : list T) : nat :=
  match l with [] => 0 | y :: r => if leb x y then 0 else S (ipos x r) end.

Lemma sinsert_ins_at x l : sinsert T leb x l = ins_at (ipos x l) x l.
Proof.
  induction l as [|y l IH]; simpl; [reflexivity|].
  destruct (leb x y); [reflexivity|]. rewrite IH. reflexivity.
Qed.

Lemma ipos_le x l : ipos x l <= length l.
Proof. induction l as [|y l IH]; simpl; [lia|]. destruct (leb x y); lia. Qed.

Lemma ipos_before x l k : k < ipos x l -> exists w, nth_error l k = Some w /\ leb x w = false.
Proof.
  revert k; induction l as [|y l IH]; simpl; intros k H; [lia|].
  destruct (leb x y) eqn:E; [lia|]. destruct k as [|k]; simpl.
  - exists y; auto.
  - apply IH. lia.
Qed.

Lemma ipos_at x l : ipos x l < length l -> exists w, nth_error l (ipos x l) = Some w /\ leb x w = true.
Proof.
  induction l as [|y l IH]; simpl; intros H; [lia|].
  destruct (leb x y) eqn:E; simpl.
  - exists y; auto.
  - apply IH. lia.
Qed.

Lemma ipos_zero x l : (ipos x l =? 0) = match l with [] => true | w :: _ => leb x w end.
Proof. destruct l as [|y l]; simpl; [reflexivity|]. destruct (leb x y); reflexivity. Qed.

Lemma ins_at_perm {A} p (x : A) l : Permutation (ins_at p x l) (x :: l).
Proof.
  unfold ins_at. rewrite <- (firstn_skipn p l) at 3. symmetry. apply Permutation_middle.
Qed.

(* strong sortedness *)
Fixpoint ssorted (l : list T) : Prop :=
  match l with [] => True | a :: r => (forall b, In b r -> leb a b = true) /\ ssorted r end.

Lemma ssorted_remove_at q l : ssorted l -> ssorted (remove_at q l).
Proof.
  revert q; induction l as [|y l IH]; intros q H.
  - unfold remove_at. rewrite firstn_nil, skipn_nil. exact I.
  - destruct q as [|q].
    + apply H.
    + change (remove_at (S q) (y :: l)) with (y :: remove_at q l). destruct H as [H1 H2]. split.
      * intros b Hb. apply H1. eapply In_remove_at; eauto.
      * apply IH; auto.
Qed.

Lemma In_sinsert x l b : In b (sinsert T leb x l) -> b = x \/ In b l.
Proof.
  induction l as [|y l IH]; simpl; intros H.
  - destruct H; auto.
  - destruct (leb x y); simpl in H.
    + destruct H as [H|[H|H]]; auto.
    + destruct H as [H|H]; auto. destruct (IH H); auto.
Qed.

Hypothesis tot : total_order leb.

Lemma ssorted_sinsert x l : ssorted l -> ssorted (sinsert T leb x l).
Proof.
  destruct tot as [Htot [Htr _]].
  induction l as [|y l IH]; simpl; intros H.
  - split; [intros b []|exact I].
  - destruct H as [H1 H2]. destruct (leb x y) eqn:E.
    + split; [|split; auto]. intros b [Hb|Hb]; [subst; auto|].
      eapply Htr; [exact E|]. apply H1; auto.
    + split; [|apply IH; auto]. intros b Hb. destruct (In_sinsert _ _ _ Hb) as [->|Hb'].
      * destruct (Htot x y) as [C|C]; [congruence|exact C].
      * apply H1; auto.
Qed.

Lemma ssorted_isort l : ssorted (isort leb l).
Proof. induction l as [|y l IH]; simpl; [exact I|]. apply ssorted_sinsert. exact IH. Qed.

Lemma ssorted_unique l1 l2 : ssorted l1 -> ssorted l2 -> Permutation l1 l2 -> l1 = l2.
Proof.
  destruct tot as [_ [_ Hanti]].
  revert l2; induction l1 as [|a l1 IH]; intros l2 H1 H2 P.
  - apply Permutation_nil in P. auto.
  - destruct l2 as [|b l2]; [symmetry in P; apply Permutation_nil in P; discriminate|].
    destruct H1 as [H1a H1b]. destruct H2 as [H2a H2b].
    assert (E : a = b).
    { assert (Ia : In a (b :: l2)) by (eapply Permutation_in; [exact P|left; auto]).
      assert (Ib : In b (a :: l1)) by (eapply Permutation_in; [symmetry; exact P|left; auto]).
      destruct Ia as [Ia|Ia]; [auto|]. destruct Ib as [Ib|Ib]; [auto|].
      apply Hanti; auto. }
    subst b. f_equal. apply IH; auto. eapply Permutation_cons_inv; eauto.
Qed.

End Sort.

Lemma sinsert_perm T leb x l : Permutation (sinsert T leb x l) (x :: l).
Proof. rewrite sinsert_ins_at. apply ins_at_perm. Qed.

Lemma isort_perm T (leb : T -> T -> bool) l : Permutation (isort leb l) l.
Proof.
  induction l as [|y l IH]; simpl; [constructor|].
  etransitivity; [apply sinsert_perm|]. constructor. exact IH.
Qed.

Lemma sorted_is_isort T (leb : T -> T -> bool) : total_order leb ->
  forall s w, ssorted T leb s -> Permutation s w -> s = isort leb w.
Proof.
  intros tot s w Hs P. apply (ssorted_unique T leb tot); auto.
  - apply ssorted_isort; auto.
  - etransitivity; [exact P|]. symmetry. apply isort_perm.
Qed.

(* last element of a sorted list dominates *)
Lemma ssorted_last_max T (leb : T -> T -> bool) l d v :
  ssorted T leb l -> In v l -> v = last l d \/ leb v (last l d) = true.
Proof.
  induction l as [|a l IH]; intros H Hv; [destruct Hv|].
  destruct H as [H1 H2]. destruct l as [|a' l'].
  - destruct Hv as [->|[]]. left; reflexivity.
  - destruct Hv as [->|Hv].
    + right. apply H1. change (last (v :: a' :: l') d) with (last (a' :: l') d).
      clear. revert a'. induction l' as [|x l IH]; intros a'; [left; reflexivity|].
      right. apply IH.
    + change (last (a :: a' :: l') d) with (last (a' :: l') d). apply IH; auto.
Qed.
