(* C07: wavelet analysis / synthesis = pairs of convolutions; their cascade is one FIR filter with the
   polynomial-product kernel; reconstruction error bound; shape of the macro-derived kernels. *)
From Signalo Require Import Model.Wavelet Spec.C05 Spec.C07 Base.Lincomb Proofs.Convolve.

(* ---------- product machines ---------- *)
Lemma ana_prod n low high : forall xs s1 s2 a b,
  orun (conv_step n low) s1 xs = Some a -> orun (conv_step n high) s2 xs = Some b ->
  orun (ana_step n low high) (s1, s2) xs = Some (combine a b).
Proof.
  induction xs as [|x xs IH]; intros s1 s2 a b Ha Hb.
  - cbn [orun] in *. injection Ha as <-. injection Hb as <-. reflexivity.
  - cbn [orun] in *. unfold ana_step at 1. cbn [fst snd].
    destruct (conv_step n low s1 x) as [[t1 l]|]; [|discriminate].
    destruct (conv_step n high s2 x) as [[t2 h]|]; [|discriminate].
    cbn [obind].
    destruct (orun (conv_step n low) t1 xs) as [a'|] eqn:Ea; [|discriminate].
    destruct (orun (conv_step n high) t2 xs) as [b'|] eqn:Eb; [|discriminate].
    injection Ha as <-. injection Hb as <-.
    rewrite (IH t1 t2 a' b' Ea Eb). reflexivity.
Qed.

Definition sum2 (a b : list Q) : list Q := map (fun p => radd (fst p) (snd p)) (combine a b).
Lemma syn_prod n low high : forall xs s1 s2 a b,
  orun (conv_step n low) s1 (map fst xs) = Some a -> orun (conv_step n high) s2 (map snd xs) = Some b ->
  orun (syn_step n low high) (s1, s2) xs = Some (sum2 a b).
Proof.
  induction xs as [|x xs IH]; intros s1 s2 a b Ha Hb.
  - cbn [orun map] in *. injection Ha as <-. injection Hb as <-. reflexivity.
  - cbn [orun map] in *. unfold syn_step at 1. cbn [fst snd].
    destruct (conv_step n low s1 (fst x)) as [[t1 l]|]; [|discriminate].
    destruct (conv_step n high s2 (snd x)) as [[t2 h]|]; [|discriminate].
    cbn [obind].
    destruct (orun (conv_step n low) t1 (map fst xs)) as [a'|] eqn:Ea; [|discriminate].
    destruct (orun (conv_step n high) t2 (map snd xs)) as [b'|] eqn:Eb; [|discriminate].
    injection Ha as <-. injection Hb as <-.
    rewrite (IH t1 t2 a' b' Ea Eb). reflexivity.
Qed.
Lemma nth_sum2 a b k : length a = length b -> (k < length a)%nat ->
  nth k (sum2 a b) 0 = radd (nth k a 0) (nth k b 0).
Proof.
  intros L Hk. unfold sum2.
  rewrite (nth_indep _ 0 ((fun p => radd (fst p) (snd p)) (0, 0)))
    by (rewrite map_length, combine_length; lia).
  rewrite (map_nth (fun p => radd (fst p) (snd p))), combine_nth by exact L. reflexivity.
Qed.

Lemma analyze_is_two_convs : forall low high x0 hist, length high = length low ->
  let sig := x0 :: hist in
  exists ys, orun (ana_step (length low) low high) ([], []) sig = Some ys /\ length ys = length sig /\
    forall k, (k < length sig)%nat ->
      fst (nth k ys (0, 0)) == fir low sig k /\ snd (nth k ys (0, 0)) == fir high sig k.
Proof.
  intros low high x0 hist HL. cbv zeta.
  destruct (conv_fir low x0 hist) as (a & Ra & La & Fa).
  destruct (conv_fir high x0 hist) as (b & Rb & Lb & Fb).
  cbv zeta in *. rewrite HL in Rb.
  exists (combine a b). split; [apply ana_prod; assumption|]. split.
  - rewrite combine_length, La, Lb. apply Nat.min_id.
  - intros k Hk. rewrite combine_nth by congruence. cbn [fst snd]. split; [apply Fa|apply Fb]; exact Hk.
Qed.

Lemma synthesize_is_sum : forall low high lh0 lhs, length high = length low ->
  let sig := lh0 :: lhs in
  exists ys, orun (syn_step (length low) low high) ([], []) sig = Some ys /\ length ys = length sig /\
    forall k, (k < length sig)%nat ->
      nth k ys 0 == fir low (map fst sig) k + fir high (map snd sig) k.
Proof.
  intros low high lh0 lhs HL. cbv zeta.
  destruct (conv_fir low (fst lh0) (map fst lhs)) as (a & Ra & La & Fa).
  destruct (conv_fir high (snd lh0) (map snd lhs)) as (b & Rb & Lb & Fb).
  cbv zeta in *. rewrite HL in Rb.
  change (fst lh0 :: map fst lhs) with (map fst (lh0 :: lhs)) in *.
  change (snd lh0 :: map snd lhs) with (map snd (lh0 :: lhs)) in *.
  rewrite map_length in La, Lb, Fa, Fb.
  exists (sum2 a b). split; [apply syn_prod; assumption|]. split.
  - unfold sum2. rewrite map_length, combine_length, La, Lb. apply Nat.min_id.
  - intros k Hk. rewrite nth_sum2 by congruence. rok. rewrite Fa, Fb by exact Hk. reflexivity.
Qed.

(* ---------- kernels acting on index functions ---------- *)
Fixpoint kdot (c : list Q) (g : nat -> Q) : Q :=
  match c with [] => 0 | a :: c' => a * g 0%nat + kdot c' (fun j => g (S j)) end.
Lemma kdot_seq c : forall g, qsum (map (fun j => nth j c 0 * g j) (seq 0 (length c))) == kdot c g.
Proof.
  induction c as [|a c IH]; intros g; [reflexivity|].
  cbn [length seq map qsum nth kdot]. rewrite <- seq_shift, map_map. cbn [nth].
  rewrite (IH (fun j => g (S j))). reflexivity.
Qed.
Lemma fir_kdot c sig k : fir c sig k == kdot c (fun j => sig_at sig (k - j)).
Proof. unfold fir. apply (kdot_seq c (fun j => sig_at sig (k - j))). Qed.
Lemma kdot_ext c : forall g h, (forall j, (j < length c)%nat -> g j == h j) -> kdot c g == kdot c h.
Proof.
  induction c as [|a c IH]; intros g h H; [reflexivity|].
  cbn [kdot]. rewrite (H 0%nat) by (cbn [length]; lia).
  rewrite (IH (fun j => g (S j)) (fun j => h (S j))); [reflexivity|].
  intros j Hj. apply H. cbn [length]. lia.
Qed.
Lemma kdot_padd a : forall b g, kdot (padd a b) g == kdot a g + kdot b g.
Proof.
  induction a as [|x a IH]; intros [|y b] g; cbn [padd kdot]; try ring.
  rewrite IH, Qred_correct. ring.
Qed.
Lemma kdot_scale x c : forall g, kdot (map (fun y => Qred (x * y)) c) g == x * kdot c g.
Proof.
  induction c as [|a c IH]; intros g; cbn [map kdot]; [ring|].
  rewrite IH, Qred_correct. ring.
Qed.
Lemma kdot_pconv d c : forall g, kdot (pconv d c) g == kdot d (fun i => kdot c (fun j => g (i + j)%nat)).
Proof.
  induction d as [|x d IH]; intros g; [reflexivity|].
  cbn [pconv]. rewrite kdot_padd, kdot_scale. cbn [kdot].
  rewrite (IH (fun j => g (S j))). cbn [plus]. change (fun j : nat => g j) with g. ring.
Qed.

(* a filter applied to (something pointwise equal to) the output of a filter *)
Lemma fir_fir d c sig ys k : (k < length sig)%nat ->
  (forall m, (m < length sig)%nat -> sig_at ys m == fir c sig m) ->
  fir d ys k == fir (pconv d c) sig k.
Proof.
  intros Hk H. rewrite !fir_kdot, kdot_pconv. apply kdot_ext. intros i _.
  cbv beta. rewrite H by lia. rewrite fir_kdot. apply kdot_ext. intros j _.
  cbv beta. replace (k - i - j)%nat with (k - (i + j))%nat by lia. reflexivity.
Qed.

Lemma cascade : forall lowA highA lowS highS x0 hist,
  length highA = length lowA -> length lowS = length lowA -> length highS = length lowA ->
  let n := length lowA in let sig := x0 :: hist in
  exists das ys, orun (ana_step n lowA highA) ([], []) sig = Some das /\
    orun (syn_step n lowS highS) ([], []) das = Some ys /\ length ys = length sig /\
    forall k, (k < length sig)%nat -> nth k ys 0 == fir (recon_kernel lowA highA lowS highS) sig k.
Proof.
  intros lowA highA lowS highS x0 hist H1 H2 H3. cbv zeta.
  destruct (analyze_is_two_convs lowA highA x0 hist H1) as (das & Ra & La & Fa). cbv zeta in *.
  destruct das as [|lh0 lhs]; [discriminate|].
  assert (H3' : length highS = length lowS) by congruence.
  destruct (synthesize_is_sum lowS highS lh0 lhs H3') as (ys & Rs & Ls & Fs). cbv zeta in *.
  rewrite H2 in Rs.
  exists (lh0 :: lhs), ys. split; [exact Ra|]. split; [exact Rs|]. split; [congruence|].
  intros k Hk. rewrite Fs by congruence. unfold recon_kernel.
  rewrite (fir_kdot (padd _ _)), kdot_padd, <- !fir_kdot.
  rewrite (fir_fir lowS lowA (x0 :: hist)), (fir_fir highS highA (x0 :: hist)); try exact Hk.
  - reflexivity.
  - intros m Hm. unfold sig_at. change 0 with (snd (0, 0)) at 1. rewrite map_nth. apply Fa. exact Hm.
  - intros m Hm. unfold sig_at. change 0 with (fst (0, 0)) at 1. rewrite map_nth. apply Fa. exact Hm.
Qed.

(* ---------- distance from a pure delay ---------- *)
Lemma Qabs_mul_le x v M : Qabs v <= M -> Qabs (x * v) <= Qabs x * M.
Proof.
  intros H. rewrite Qabs_Qmult. rewrite (Qmult_comm (Qabs x) (Qabs v)), (Qmult_comm (Qabs x) M).
  apply Qmult_le_compat_r; [exact H|apply Qabs_nonneg].
Qed.
Lemma residual_past r M : forall s delay g, (delay < s)%nat -> (forall m, Qabs (g m) <= M) ->
  Qabs (kdot r g) <= residual_from r s delay * M.
Proof.
  induction r as [|x r IH]; intros s delay g Hs Hg.
  - cbn [kdot residual_from]. setoid_replace (0 * M) with 0 by ring. apply Qle_refl.
  - cbn [kdot residual_from]. rewrite Qred_correct.
    destruct (Nat.eqb_spec s delay); [lia|].
    eapply Qle_trans; [apply Qabs_triangle|].
    setoid_replace ((Qabs x + residual_from r (S s) delay) * M)
      with (Qabs x * M + residual_from r (S s) delay * M) by ring.
    apply Qplus_le_compat; [apply Qabs_mul_le, Hg|].
    apply IH; [lia|]. intros m. apply Hg.
Qed.
Lemma residual_hit r M : forall s delay g, (s <= delay < s + length r)%nat -> (forall m, Qabs (g m) <= M) ->
  Qabs (kdot r g - g (delay - s)%nat) <= residual_from r s delay * M.
Proof.
  induction r as [|x r IH]; intros s delay g Hs Hg; [cbn [length] in Hs; lia|].
  cbn [kdot residual_from]. rewrite Qred_correct. cbn [length] in Hs.
  destruct (Nat.eqb_spec s delay) as [E|E].
  - subst s. rewrite Nat.sub_diag.
    setoid_replace (x * g 0%nat + kdot r (fun j => g (S j)) - g 0%nat)
      with ((x - 1) * g 0%nat + kdot r (fun j => g (S j))) by ring.
    eapply Qle_trans; [apply Qabs_triangle|].
    setoid_replace ((Qabs (x - 1) + residual_from r (S delay) delay) * M)
      with (Qabs (x - 1) * M + residual_from r (S delay) delay * M) by ring.
    apply Qplus_le_compat; [apply Qabs_mul_le, Hg|].
    apply residual_past; [lia|]. intros m. apply Hg.
  - replace (delay - s)%nat with (S (delay - S s)) by lia.
    setoid_replace (x * g 0%nat + kdot r (fun j => g (S j)) - g (S (delay - S s)))
      with (x * g 0%nat + (kdot r (fun j => g (S j)) - g (S (delay - S s)))) by ring.
    eapply Qle_trans; [apply Qabs_triangle|].
    setoid_replace ((Qabs x + residual_from r (S s) delay) * M)
      with (Qabs x * M + residual_from r (S s) delay * M) by ring.
    apply Qplus_le_compat; [apply Qabs_mul_le, Hg|].
    apply (IH (S s) delay (fun j => g (S j))); [lia|]. intros m. apply Hg.
Qed.

Lemma padd_length a : forall b, length (padd a b) = Nat.max (length a) (length b).
Proof.
  induction a as [|x a IH]; intros [|y b]; cbn [padd length]; try reflexivity.
  rewrite IH. reflexivity.
Qed.
Lemma pconv_length_ge d c : d <> [] -> (length c <= length (pconv d c))%nat.
Proof.
  destruct d as [|x d]; [congruence|]. intros _. cbn [pconv]. rewrite padd_length, map_length. lia.
Qed.

Lemma sig_at_bound sig M m : sig <> [] -> Forall (fun v => Qabs v <= M) sig -> Qabs (sig_at sig m) <= M.
Proof.
  intros Hne H. unfold sig_at. destruct (Nat.ltb_spec m (length sig)) as [L|L].
  - rewrite Forall_forall in H. apply H. apply nth_In. exact L.
  - rewrite nth_overflow by exact L. destruct sig as [|v sig]; [congruence|].
    inversion H as [|? ? Hv _]; subst. eapply Qle_trans; [|exact Hv]. apply Qabs_nonneg.
Qed.

Lemma recon_bound : forall lowA highA lowS highS x0 hist M,
  length highA = length lowA -> length lowS = length lowA -> length highS = length lowA ->
  (0 < length lowA)%nat ->
  let n := length lowA in let sig := x0 :: hist in
  Forall (fun v => Qabs v <= M) sig ->
  exists das ys, orun (ana_step n lowA highA) ([], []) sig = Some das /\
    orun (syn_step n lowS highS) ([], []) das = Some ys /\
    forall k, (k < length sig)%nat ->
      Qabs (nth k ys 0 - sig_at sig (k - (n - 1))) <= residual (recon_kernel lowA highA lowS highS) (n - 1) * M.
Proof.
  intros lowA highA lowS highS x0 hist M H1 H2 H3 Hn. cbv zeta. intros HM.
  destruct (cascade lowA highA lowS highS x0 hist H1 H2 H3) as (das & ys & Ra & Rs & _ & F). cbv zeta in *.
  exists das, ys. split; [exact Ra|]. split; [exact Rs|].
  intros k Hk. rewrite (F k Hk), fir_kdot. unfold residual.
  set (r := recon_kernel lowA highA lowS highS). set (d := (length lowA - 1)%nat).
  pose proof (residual_hit r M 0 d (fun j => sig_at (x0 :: hist) (k - j))) as B.
  cbv beta in B. rewrite Nat.sub_0_r in B. apply B.
  - split; [lia|]. cbn [plus]. unfold r, recon_kernel. rewrite padd_length.
    assert (length lowA <= length (pconv lowS lowA))%nat.
    { apply pconv_length_ge. destruct lowS; [cbn [length] in H2; lia|discriminate]. }
    unfold d. lia.
  - intros m. apply sig_at_bound; [discriminate|exact HM].
Qed.

(* ---------- constants ---------- *)
Lemma fir_constant : forall c K n k, (k <= n)%nat -> fir c (repeat K (S n)) k == K * qsum c.
Proof. intros c K n k H. apply fir_const. lia. Qed.

(* ---------- the macro-derived kernels ---------- *)
Lemma norm_by_sum_length tbl : length (norm_by_sum tbl) = length tbl.
Proof. unfold norm_by_sum. destruct (Qeq_bool _ _); [reflexivity|apply map_length]. Qed.
Lemma alt_sign_from_length l : forall b, length (alt_sign_from b l) = length l.
Proof. induction l as [|c l IH]; intros b; cbn [alt_sign_from length]; [reflexivity|]. rewrite IH. reflexivity. Qed.
Lemma daub_lengths : forall tbl,
  length (daub_high tbl) = length (daub_low tbl) /\
  length (fst (daub_synthesis tbl)) = length (daub_low tbl) /\
  length (snd (daub_synthesis tbl)) = length (daub_low tbl) /\ length (daub_low tbl) = length tbl.
Proof.
  intros tbl. unfold daub_synthesis, daub_high, alt_sign, daub_low. cbn [fst snd].
  rewrite !rev_length, !alt_sign_from_length, !rev_length, norm_by_sum_length. repeat split.
Qed.
