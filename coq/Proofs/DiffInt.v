From Signalo Require Import Model.Smooth.

(* state lemmas *)
Lemma diff_exec_snoc hist h : exec diff_step None (hist ++ [h]) = Some h.
Proof. rewrite exec_snoc. reflexivity. Qed.

Theorem diff_first x : last_out diff_step None [] x = 0.
Proof. reflexivity. Qed.
Theorem diff_spec hist h x : last_out diff_step None (hist ++ [h]) x == x - h.
Proof. unfold last_out. rewrite diff_exec_snoc. simpl. apply rsub_ok. Qed.

Lemma int_exec s xs : exec int_step s xs == s + qsum xs.
Proof.
  revert s; induction xs as [|x xs IH]; intros s; simpl; [ring|].
  rewrite IH, radd_ok. ring.
Qed.
Theorem int_spec hist x : last_out int_step 0 hist x == qsum (hist ++ [x]).
Proof.
  unfold last_out. simpl. rewrite radd_ok, int_exec, qsum_app. simpl. ring.
Qed.

Lemma last_cons {A} (x : A) l d : last (x :: l) d = last l x.
Proof. revert x d; induction l as [|y l IH]; intros x d; [reflexivity|]. change (last (x :: y :: l) d) with (last (y :: l) d). rewrite (IH y d), (IH y x). reflexivity. Qed.

(* telescoping: the differences of x0..xn sum to xn - x0 *)
Lemma qsum_run_diff p xs :
  qsum (run diff_step (Some p) xs) == last xs p - p.
Proof.
  revert p; induction xs as [|x xs IH]; intros p; [simpl; ring|].
  cbn [run diff_step fst snd qsum]. rewrite IH, rsub_ok, last_cons. ring.
Qed.
Lemma qsum_run_diff_fresh x0 xs :
  qsum (run diff_step None (x0 :: xs)) == last xs x0 - x0.
Proof. cbn [run diff_step fst snd qsum]. rewrite qsum_run_diff. ring. Qed.

(* integrate after differentiate: x[n] - x[0] *)
Theorem int_diff x0 xs :
  let sig := x0 :: xs in
  last (run int_step 0 (run diff_step None sig)) 0 == last sig 0 - x0.
Proof.
  cbv zeta.
  assert (G : forall s ys, ys <> [] -> last (run int_step s ys) 0 == s + qsum ys).
  { intros s ys; revert s; induction ys as [|y ys IH]; intros s Hne; [congruence|].
    destruct ys as [|y' ys].
    - simpl. rewrite radd_ok. ring.
    - change (last (run int_step s (y :: y' :: ys)) 0) with (last (run int_step (radd s y) (y' :: ys)) 0).
      rewrite IH by discriminate. rewrite radd_ok. simpl. ring. }
  rewrite G by (simpl; discriminate).
  rewrite qsum_run_diff_fresh, last_cons. ring.
Qed.

(* differentiate after integrate: 0 at n = 0, x[n] for n >= 1 *)
Theorem diff_int_first x : run diff_step None (run int_step 0 [x]) = [0].
Proof. reflexivity. Qed.
Theorem diff_int hist h x :
  last_out diff_step None (run int_step 0 (hist ++ [h])) (last_out int_step 0 (hist ++ [h]) x) == x.
Proof.
  unfold last_out. rewrite run_snoc, diff_exec_snoc.
  rewrite exec_snoc. simpl. rewrite rsub_ok, radd_ok. ring.
Qed.

Example diffint_example :
  run diff_step None [3; 5; 4; 4] = [0; 2; -1; 0] /\ run int_step 0 [3; 5; 4] = [3; 8; 12] /\
  run int_step 0 (run diff_step None [3; 5; 4; 9]) = [0; 2; 1; 6] /\
  run diff_step None (run int_step 0 [3; 5; 4; 9]) = [0; 5; 4; 9].
Proof. vm_compute. repeat split. Qed.
