(* C14 - no false alarm: whenever the recorded outputs / final velocity / affine-pair outputs of the alpha-beta
   tracker agree with the model (bit 1 clear), the boolean spec of Check/C14 (reference recurrence ab_ref, affine
   equivariance and constant preservation from the fresh state) accepts them.

   Side condition  wf c :  a start state WITHOUT a position estimate has velocity 0  (cx0 = None -> cv0 == 0).
   The generated cases satisfy it: harness/src/props/sc14.rs records (v0, x0) = (v0, Some x0) for the states
   injected through FromGuts and (0, None) for every other case (fresh filter, f64 cases).
   Without it the statement is FALSE (C14_check_unsound_without_wf below): the model keeps the injected velocity
   of a state (v <> 0, None) while the reference ab_ref and the affine pair start from velocity 0. *)
From Coq Require Import NArith Morphisms.
From Signalo Require Import Check.Common Model.Smooth Proofs.Sound_LibB Check.C14.

Definition wf (c : case) : bool := match cx0 c with None => qeqb (cv0 c) 0 | Some _ => true end.

Section AB.
Variables alpha beta : Q.
Notation step := (ab_step alpha beta).

(* ---------- affine simulation: s' is the image of s under z |-> a z + b (velocities scale by a) ---------- *)
Definition Sim (a b : Q) (s s' : ab_st) : Prop :=
  velocity s' == a * velocity s /\
  match abvalue s, abvalue s' with
  | Some p, Some p' => p' == a * p + b
  | None, None => True
  | _, _ => False
  end.

Lemma sim_step a b s s' x x' : Sim a b s s' -> x' == a * x + b ->
  Sim a b (fst (step s x)) (fst (step s' x')) /\ snd (step s' x') == a * snd (step s x) + b.
Proof.
  intros [Hv Hp] Hx. unfold ab_step, Sim.
  destruct (abvalue s) as [p|], (abvalue s') as [p'|]; try contradiction; cbn [fst snd velocity abvalue].
  - rok. rewrite Hv, Hp, Hx. repeat split; ring.
  - repeat split; assumption.
Qed.

Lemma sim_run a b xs : forall xs' s s', Sim a b s s' -> Forall2 (fun x x' => x' == a * x + b) xs xs' ->
  Forall2 (fun y y' => y' == a * y + b) (run step s xs) (run step s' xs') /\
  Sim a b (exec step s xs) (exec step s' xs').
Proof.
  induction xs as [|x xs IH]; intros xs' s s' HS F; inversion F; subst; cbn [run exec].
  - split; [constructor | exact HS].
  - destruct (sim_step a b s s' x y HS H1) as [HS' Hy].
    destruct (IH _ _ _ HS' H3) as [Hr He]. split; [constructor; assumption | exact He].
Qed.

(* ---------- the reference recursion of the checker is the model up to Qeq ---------- *)
Definition Rel (st : option (Q * Q)) (s : ab_st) : Prop :=
  match st with
  | None => abvalue s = None /\ velocity s == 0
  | Some (x, v) => exists p, abvalue s = Some p /\ p == x /\ velocity s == v
  end.

Lemma ref_ok xs : forall st s, Rel st s ->
  qleq (fst (ab_ref alpha beta st xs)) (run step s xs) /\
  snd (ab_ref alpha beta st xs) == velocity (exec step s xs).
Proof.
  induction xs as [|z xs IH]; intros st s R.
  - cbn [ab_ref run exec fst snd]. split; [constructor|].
    destruct st as [[x v]|]; cbn [Rel] in R.
    + destruct R as (p & _ & _ & Hv). symmetry. exact Hv.
    + destruct R as [_ Hv]. symmetry. exact Hv.
  - cbn [ab_ref run exec].
    set (xv := match st with
               | None => (z, 0)
               | Some (x, v) => let x' := x + v in let res := z - x' in (x' + alpha * res, v + beta * res)
               end).
    assert (Hstep : snd (step s z) == fst xv /\ Rel (Some (Qred (fst xv), Qred (snd xv))) (fst (step s z))).
    { unfold xv, ab_step. destruct st as [[x v]|]; cbn [Rel] in R.
      - destruct R as (p & Ep & Hp & Hv). rewrite Ep. cbn zeta. cbn [fst snd Rel velocity abvalue].
        assert (E1 : radd (radd p (velocity s)) (rmul alpha (rsub z (radd p (velocity s))))
                     == x + v + alpha * (z - (x + v))) by (rok; rewrite Hp, Hv; ring).
        split; [exact E1|]. eexists. split; [reflexivity|]. rewrite !Qred_correct. split; [exact E1|].
        rok. rewrite Hp, Hv. ring.
      - destruct R as [Ep Hv]. rewrite Ep. cbn [fst snd Rel velocity abvalue].
        split; [reflexivity|]. exists z. rewrite !Qred_correct. repeat split; try reflexivity; exact Hv. }
    destruct Hstep as [Hy HR]. destruct xv as [x1 v1]. cbn [fst snd] in Hy, HR.
    specialize (IH _ _ HR). destruct (ab_ref alpha beta (Some (Qred x1, Qred v1)) xs) as [ys vf].
    cbn [fst snd] in *. destruct IH as [IHy IHv].
    split; [constructor; [symmetry; exact Hy | exact IHy] | exact IHv].
Qed.

(* ---------- constants from a fresh state ---------- *)
Lemma const_run v xs : forall s, velocity s == 0 ->
  match abvalue s with Some p => p == v | None => True end ->
  Forall (fun x => x == v) xs -> Forall (fun y => y == v) (run step s xs).
Proof.
  induction xs as [|x xs IH]; intros s Hv Hp F; cbn [run]; [constructor|].
  inversion F as [|? ? Hx F']; subst.
  assert (H : snd (step s x) == v /\ velocity (fst (step s x)) == 0 /\
              match abvalue (fst (step s x)) with Some p => p == v | None => True end).
  { unfold ab_step. destruct (abvalue s) as [p|]; cbn [fst snd velocity abvalue].
    - assert (E : radd (radd p (velocity s)) (rmul alpha (rsub x (radd p (velocity s)))) == v)
        by (rok; rewrite Hv, Hp, Hx; ring).
      repeat split; [exact E| |exact E]. rok. rewrite Hv, Hp, Hx. ring.
    - repeat split; assumption. }
  destruct H as (H1 & H2 & H3). constructor; [exact H1|]. apply IH; assumption.
Qed.
End AB.

Lemma F2_refl_map {A B} (R : A -> B -> Prop) (f : A -> B) l : (forall x, R x (f x)) -> Forall2 R l (map f l).
Proof. intros H. induction l; cbn [map]; constructor; auto. Qed.
Lemma affine_chain a b m ys : qleq m ys -> forall m2 ys2,
  Forall2 (fun y y' => y' == a * y + b) m m2 -> qleq m2 ys2 -> qleq (map (fun y => a * y + b) ys) ys2.
Proof.
  intros F. induction F as [|u y m ys E F IH]; intros m2 ys2 G H; inversion G; subst; inversion H; subst;
    cbn [map]; constructor.
  - rewrite <- E. etransitivity; [symmetry; eassumption | assumption].
  - eapply IH; eassumption.
Qed.

Theorem C14_check_sound : forall c : case, wf c = true -> N.land (code (check c)) 3 <> 2%N.
Proof.
  intros c Hwf. unfold check.
  set (st0 := match cx0 c with Some x => Some (x, cv0 c) | None => None end).
  set (s0 := {| velocity := cv0 c; abvalue := cx0 c |}).
  assert (R0 : Rel st0 s0).
  { unfold st0, s0, wf in *. destruct (cx0 c) as [x|]; cbn [Rel velocity abvalue].
    - exists x. repeat split; reflexivity.
    - split; [reflexivity | apply qeqb_iff; exact Hwf]. }
  pose proof (ref_ok (calpha c) (cbeta c) (cxs c) st0 s0 R0) as [Hry Hrv].
  destruct (ab_ref (calpha c) (cbeta c) st0 (cxs c)) as [rys rv]. cbn [fst snd] in Hry, Hrv.
  apply mkv_sound. intros H.
  apply andb_prop in H as [H Hy2]. apply andb_prop in H as [H Hvel]. apply andb_prop in H as [Hp Hys].
  rewrite Hp. cbn [andb].
  rewrite (transfer_q _ _ _ Hry Hys). cbn [andb].
  assert (Ev : qeqb rv (cvel c) = true).
  { apply qeqb_iff. apply qeqb_iff in Hvel. rewrite Hrv. exact Hvel. }
  rewrite Ev. cbn [andb].
  apply qlist_eqb_iff in Hys. apply qlist_eqb_iff in Hy2.
  unfold wf in Hwf. destruct (cx0 c) as [x0|] eqn:Ex0; [reflexivity|]. cbn [negb orb].
  apply qeqb_iff in Hwf.
  apply andb_true_intro. split.
  - (* affine pair *)
    apply qlist_eqb_iff.
    assert (S0 : Sim (ca c) (cb c) s0 ab_init).
    { unfold Sim, s0, ab_init. cbn [velocity abvalue]. split; [rewrite Hwf; ring | exact I]. }
    destruct (sim_run (calpha c) (cbeta c) (ca c) (cb c) (cxs c)
                (map (fun x => radd (rmul (ca c) x) (cb c)) (cxs c)) s0 ab_init S0) as [F _].
    { apply F2_refl_map. intros x. rok. reflexivity. }
    exact (affine_chain _ _ _ _ Hys _ _ F Hy2).
  - (* constants *)
    destruct (all_eq (cxs c)) eqn:Ea; [|reflexivity]. cbn [negb orb].
    assert (Fx : Forall (fun x => x == qnth 0 (cxs c)) (cxs c)).
    { apply Forall_forall. apply all_eq_forall. exact Ea. }
    pose proof (const_run (calpha c) (cbeta c) (qnth 0 (cxs c)) (cxs c) s0 Hwf I Fx) as Fy.
    apply forallb_forall. intros y Hy. apply qeqb_iff.
    assert (G : Forall (fun y => y == qnth 0 (cxs c)) (cys c)).
    { apply (Forall2_Forall_transfer Qeq (fun y => y == qnth 0 (cxs c)) (fun y => y == qnth 0 (cxs c))
               (run (ab_step (calpha c) (cbeta c)) s0 (cxs c)) (cys c)); [|exact Hys|exact Fy].
      intros a b E Ha. rewrite <- E. exact Ha. }
    rewrite Forall_forall in G. symmetry. apply G, Hy.
Qed.
Print Assumptions C14_check_sound.

(* The side condition is necessary: a start state (velocity 1, no position estimate), unreachable from a fresh
   filter and never generated by the harness. The model keeps the velocity: outputs [0; 1]; ab_ref says [0; 0]. *)
Definition c14_no_wf : case :=
  mk 0 0 1 None [0; 0] [0; 1] 1 1 0 [0; 0] false.
Example C14_check_unsound_without_wf : exists c, wf c = false /\ N.land (code (check c)) 3 = 2%N.
Proof. exists c14_no_wf. split; vm_compute; reflexivity. Qed.
Print Assumptions C14_check_unsound_without_wf.
