From Signalo Require Import Model.Classify.
From Coq Require Import ZArith.

Section ClassifyProofs.
Variable T : Type.
Variable leb : T -> T -> bool.
Variable U : Type.

(* ---- threshold: on exactly when x >= threshold, emitting outputs[state] ---- *)
Theorem threshold_spec thr (outs : U * U) hist x :
  last_out (thr_step leb thr outs) tt hist x = pick outs (leb thr x).
Proof. reflexivity. Qed.

(* ---- Schmitt trigger: the reference automaton, for every relation of low to high ---- *)
Definition above (hi x : T) : Prop := leb x hi = false.          (* x > high *)
Definition below (lo x : T) : Prop := leb lo x = false.          (* x < low, i.e. not (x >= low) *)

Theorem schmitt_starts_off lo hi (outs : U * U) :
  exec (schmitt_step leb lo hi outs) false [] = false.
Proof. reflexivity. Qed.
Theorem schmitt_transitions lo hi (outs : U * U) hist x :
  let on := exec (schmitt_step leb lo hi outs) false hist in
  let on' := exec (schmitt_step leb lo hi outs) false (hist ++ [x]) in
  (on = false -> (on' = true <-> above hi x)) /\
  (on = true -> (on' = false <-> below lo x)) /\
  last_out (schmitt_step leb lo hi outs) false hist x = pick outs on'.
Proof.
  cbv zeta. rewrite exec_snoc. unfold last_out.
  set (on := exec (schmitt_step leb lo hi outs) false hist).
  unfold schmitt_step. cbn [fst snd]. unfold schmitt_next, above, below.
  destruct on, (leb x hi), (leb lo x); cbn; intuition congruence.
Qed.

(* for low <= high on a transitive total order, the state is a function of the history alone:
   on  <->  some sample was strictly above high and no later sample was strictly below low *)
Hypothesis leb_total : forall a b, leb a b = true \/ leb b a = true.
Hypothesis leb_trans : forall a b c, leb a b = true -> leb b c = true -> leb a c = true.
Definition schmitt_on (lo hi : T) (hist : list T) : Prop :=
  exists h1 x h2, hist = h1 ++ x :: h2 /\ above hi x /\ Forall (fun y => ~ below lo y) h2.

Theorem schmitt_history lo hi (outs : U * U) hist : leb lo hi = true ->
  (exec (schmitt_step leb lo hi outs) false hist = true <-> schmitt_on lo hi hist).
Proof.
  intros Hlh. induction hist as [|x hist IH] using rev_ind.
  - simpl. split; [discriminate|]. intros (h1 & y & h2 & E & _). destruct h1; discriminate.
  - rewrite exec_snoc. unfold schmitt_step at 1. cbn [fst]. unfold schmitt_next.
    destruct (exec (schmitt_step leb lo hi outs) false hist) eqn:Eon.
    + destruct IH as [IH _]. destruct (IH eq_refl) as (h1 & y & h2 & E & Hy & Hf).
      split.
      * intros Hx. exists h1, y, (h2 ++ [x]). subst hist. rewrite <- app_assoc. repeat split; auto.
        apply Forall_app; split; auto. constructor; [|constructor]. unfold below. congruence.
      * intros (g1 & z & g2 & E' & Hz & Hg).
        destruct (leb lo x) eqn:Elo; auto. exfalso.
        destruct g2 as [|w g2 _] using rev_ind.
        -- apply app_inj_tail in E' as [_ <-]. unfold above in Hz.
           destruct (leb_total x hi) as [C|C]; [congruence|].
           rewrite (leb_trans _ _ _ Hlh C) in Elo. discriminate.
        -- rewrite app_comm_cons, app_assoc in E'. apply app_inj_tail in E' as [_ <-].
           apply Forall_app in Hg as [_ Hw]. inversion Hw; subst. unfold below in *. contradiction.
    + split.
      * intros Hx. exists hist, x, []. repeat split; auto. unfold above. destruct (leb x hi); [discriminate|reflexivity].
      * intros (g1 & z & g2 & E' & Hz & Hg).
        destruct g2 as [|w g2 _] using rev_ind.
        -- apply app_inj_tail in E' as [_ <-]. unfold above in Hz. rewrite Hz. reflexivity.
        -- rewrite app_comm_cons, app_assoc in E'. apply app_inj_tail in E' as [E'' <-].
           exfalso. destruct IH as [_ IH].
           assert (H : schmitt_on lo hi hist).
           { exists g1, z, g2. repeat split; auto. apply Forall_app in Hg as [Hg _]. exact Hg. }
           specialize (IH H). discriminate.
Qed.
End ClassifyProofs.

(* ---- debounce: run length of the predicate, with a saturating counter ---- *)
Section Debounce.
Variable T : Type.
Variable eqb : T -> T -> bool.
Variable U : Type.
Variable maxu : N.
Variable pred : T.

(* number of most recent consecutive samples (up to and including the newest) equal to the predicate *)
Fixpoint runlen_rev (rl : list T) : N :=
  match rl with x :: r => if eqb x pred then (1 + runlen_rev r)%N else 0%N | [] => 0%N end.
Definition runlen (hist : list T) : N := runlen_rev (rev hist).

Lemma runlen_snoc hist x : runlen (hist ++ [x]) = if eqb x pred then (1 + runlen hist)%N else 0%N.
Proof. unfold runlen. rewrite rev_app_distr. reflexivity. Qed.

(* from a state that stands for an earlier run of r0 samples (count = min r0 maxu; fresh: r0 = 0;
   injected saturated counter: r0 >= maxu), after any history the counter is min (run length) maxu *)
Definition total_run (r0 : N) (hist : list T) : N :=
  if (runlen hist =? N.of_nat (length hist))%N then (r0 + runlen hist)%N else runlen hist.

Lemma runlen_le hist : (runlen hist <= N.of_nat (length hist))%N.
Proof.
  unfold runlen. rewrite <- rev_length. induction (rev hist) as [|x r IH]; cbn [runlen_rev length]; [lia|].
  rewrite Nat2N.inj_succ. destruct (eqb x pred); lia.
Qed.

Lemma total_run_snoc r0 hist x :
  total_run r0 (hist ++ [x]) = if eqb x pred then (1 + total_run r0 hist)%N else 0%N.
Proof.
  unfold total_run. rewrite runlen_snoc, app_length. cbn [length].
  replace (N.of_nat (length hist + 1)) with (1 + N.of_nat (length hist))%N by lia.
  pose proof (runlen_le hist) as Hle.
  destruct (eqb x pred).
  - destruct (N.eqb_spec (runlen hist) (N.of_nat (length hist))) as [E|E];
    destruct (N.eqb_spec (1 + runlen hist) (1 + N.of_nat (length hist))) as [E'|E']; lia.
  - destruct (N.eqb_spec 0 (1 + N.of_nat (length hist))); lia.
Qed.

Theorem debounce_count threshold (outs : U * U) r0 hist :
  exec (deb_step eqb maxu threshold pred outs) (N.min r0 maxu) hist = N.min (total_run r0 hist) maxu.
Proof.
  induction hist as [|x hist IH] using rev_ind.
  - unfold total_run, runlen. cbn [rev runlen_rev length N.of_nat N.eqb exec]. rewrite N.add_0_r. reflexivity.
  - rewrite exec_snoc, IH, total_run_snoc. unfold deb_step at 1. cbn [fst]. unfold deb_next, sat_succ.
    destruct (eqb x pred); [|lia].
    destruct (N.ltb_spec (N.min (total_run r0 hist) maxu) maxu); lia.
Qed.

(* on exactly when at least `threshold` of the most recent consecutive samples equal the predicate,
   for every threshold up to the counter maximum, also when the counter saturates *)
Theorem debounce_spec threshold (outs : U * U) r0 hist x : (threshold <= maxu)%N ->
  last_out (deb_step eqb maxu threshold pred outs) (N.min r0 maxu) hist x
  = pick outs (threshold <=? total_run r0 (hist ++ [x]))%N.
Proof.
  intros Ht. unfold last_out. 
  pose proof (debounce_count threshold outs r0 (hist ++ [x])) as H. rewrite exec_snoc in H.
  unfold deb_step at 1. cbn [snd]. unfold deb_step at 1 in H. cbn [fst] in H. rewrite H.
  f_equal. destruct (N.leb_spec threshold (N.min (total_run r0 (hist ++ [x])) maxu));
  destruct (N.leb_spec threshold (total_run r0 (hist ++ [x]))); try reflexivity; lia.
Qed.
Theorem debounce_fresh threshold (outs : U * U) hist x : (threshold <= maxu)%N ->
  last_out (deb_step eqb maxu threshold pred outs) 0%N hist x
  = pick outs (threshold <=? runlen (hist ++ [x]))%N.
Proof.
  intros Ht. pose proof (debounce_spec threshold outs 0 hist x Ht) as H.
  replace (N.min 0 maxu) with 0%N in H by lia. rewrite H. f_equal. f_equal.
  unfold total_run. destruct (N.eqb_spec (runlen (hist ++ [x])) (N.of_nat (length (hist ++ [x])))); lia.
Qed.
End Debounce.

Example classify_example :
  run (schmitt_step Z.leb 2 5 (false, true))%Z false [3; 6; 5; 2; 1; 5; 6]%Z = [false; true; true; true; false; false; true] /\
  run (deb_step Z.eqb 18446744073709551615 2 7%Z (false, true)) 0%N [7; 7; 1; 7; 7; 7]%Z = [false; true; false; false; true; true] /\
  (* a saturated injected counter keeps reporting on *)
  run (deb_step Z.eqb 18446744073709551615 18446744073709551615 7%Z (false, true)) 18446744073709551614%N [7; 7; 1]%Z = [true; true; false].
Proof. vm_compute. repeat split. Qed.

(* ======================= slopes and peaks ======================= *)
Section SlopesProofs.
Variable T : Type.
Variable cmp : T -> T -> option comparison.

Lemma slopes_exec_snoc hist h : exec (slopes_step cmp) None (hist ++ [h]) = Some h.
Proof. rewrite exec_snoc. reflexivity. Qed.
Theorem slopes_first x : last_out (slopes_step cmp) None [] x = Flat.
Proof. reflexivity. Qed.
Theorem slopes_spec hist h x :
  last_out (slopes_step cmp) None (hist ++ [h]) x =
  match cmp h x with Some Lt => Rising | Some Gt => Falling | _ => Flat end.
Proof. unfold last_out. rewrite slopes_exec_snoc. simpl. destruct (cmp h x) as [[| |]|]; reflexivity. Qed.

(* the two ways of driving the peak detector agree, for all inputs of all lengths *)
Theorem peaks_paths_agree xs :
  run (peaks_step cmp) (None, None) xs = run peaks_slope_step None (run (slopes_step cmp) None xs).
Proof.
  assert (G : forall s p, run (peaks_step cmp) (s, p) xs = run peaks_slope_step p (run (slopes_step cmp) s xs)).
  { induction xs as [|x xs IH]; intros s p; [reflexivity|]. simpl. f_equal. apply IH. }
  apply G.
Qed.

Lemma peaks_exec_snoc2 hist a b :
  exec (peaks_step cmp) (None, None) (hist ++ [a; b]) = (Some b, Some (slope_of cmp (Some a) b)).
Proof.
  replace (hist ++ [a; b]) with ((hist ++ [a]) ++ [b]) by (rewrite <- app_assoc; reflexivity).
  rewrite exec_snoc. 
  assert (E : fst (exec (peaks_step cmp) (None, None) (hist ++ [a])) = Some a).
  { rewrite exec_snoc. reflexivity. }
  unfold peaks_step at 1. rewrite E. reflexivity.
Qed.

Theorem peaks_first_two x y :
  run (peaks_step cmp) (None, None) [x; y] = [PNone; PNone].
Proof. reflexivity. Qed.

(* totally ordered samples: lt/gt read off cmp *)
Definition lt a b := cmp a b = Some Lt.
Definition gt a b := cmp a b = Some Gt.
Theorem peaks_values_spec hist a b c :
  let out := last_out (peaks_step cmp) (None, None) (hist ++ [a; b]) c in
  (out = PMax <-> lt a b /\ gt b c) /\ (out = PMin <-> gt a b /\ lt b c).
Proof.
  cbv zeta. unfold last_out. rewrite peaks_exec_snoc2. unfold peaks_step. cbn [fst snd slopes_step slope_of peak_of].
  unfold lt, gt. destruct (cmp a b) as [[| |]|], (cmp b c) as [[| |]|]; cbn; split; split; intros; try discriminate; try tauto;
  try (destruct H; discriminate); auto.
Qed.
End SlopesProofs.

Definition zcmp (a b : Z) : option comparison := Some (Z.compare a b).
Example peaks_example :
  run (peaks_step zcmp) (None, None) [1; 3; 2; 2; 1; 4; 4; 5; 0]%Z = [PNone; PNone; PMax; PNone; PNone; PMin; PNone; PNone; PMax].
Proof. vm_compute. reflexivity. Qed.

(* the 4 x 3 decision table *)
Lemma peaks_table :
  map (fun p => map (peak_of p) [Rising; Flat; Falling]) [None; Some Rising; Some Flat; Some Falling]
  = [[PNone; PNone; PNone]; [PNone; PNone; PMax]; [PNone; PNone; PNone]; [PMin; PNone; PNone]].
Proof. reflexivity. Qed.
