(* Median proof, layer 0: list/arith helpers, cyclic indexing, field-level view of the node buffer. *)
From Coq Require Import List Arith Lia Bool Permutation ZifyNat.
From Signalo Require Import Model.Median.
Import ListNotations.

Arguments Nat.modulo : simpl never.
Arguments Nat.div : simpl never.

(* ---------- arithmetic ---------- *)
Lemma mod_S_case k n : k < n -> (S k) mod n = if S k =? n then 0 else S k.
Proof.
  intros H. destruct (Nat.eqb_spec (S k) n) as [E|E].
  - subst. apply Nat.mod_same. lia.
  - apply Nat.mod_small. lia.
Qed.

Lemma mod_sub_self a n : 0 < n -> n <= a -> (a - n) mod n = a mod n.
Proof.
  intros Hn H. replace a with ((a - n) + 1 * n) at 2 by lia.
  rewrite Nat.mod_add by lia. reflexivity.
Qed.

Lemma mod_pred_succ c n : c < n -> ((c + 1) mod n + n - 1) mod n = c.
Proof.
  intros H. replace (c + 1) with (S c) by lia. rewrite mod_S_case by lia.
  destruct (Nat.eqb_spec (S c) n) as [E|E].
  - replace (0 + n - 1) with c by lia. apply Nat.mod_small. lia.
  - replace (S c + n - 1) with (c + 1 * n) by lia. rewrite Nat.mod_add by lia.
    apply Nat.mod_small. lia.
Qed.

Lemma mod_ne_window a b n : a < b -> b < a + n -> a mod n <> b mod n.
Proof.
  intros H1 H2 E. assert (Hn : n <> 0) by lia.
  pose proof (Nat.div_mod a n Hn). pose proof (Nat.div_mod b n Hn).
  pose proof (Nat.mod_upper_bound a n Hn). pose proof (Nat.mod_upper_bound b n Hn).
  assert (n * (b / n) = n * (a / n) + (b - a)) by lia.
  destruct (Nat.lt_trichotomy (a / n) (b / n)) as [L|[L|L]]; nia.
Qed.

Lemma half_S_odd k : Nat.odd k = true -> S k / 2 = S (k / 2).
Proof. intros H. apply Nat.odd_spec in H. destruct H as [q ->]. lia. Qed.
Lemma half_S_even k : Nat.odd k = false -> S k / 2 = k / 2.
Proof.
  intros H. assert (E : Nat.even k = true) by (rewrite <- Nat.negb_odd, H; reflexivity).
  apply Nat.even_spec in E. destruct E as [q ->]. lia.
Qed.

(* ---------- generic list helpers ---------- *)
Section Lists.
Context {A : Type}.

Lemma upd_length (l : list A) i a : length (upd l i a) = length l.
Proof. revert i; induction l as [|y l IH]; intros [|i]; simpl; auto. Qed.

Lemma nth_upd (l : list A) i j a d : i < length l ->
  nth j (upd l i a) d = if j =? i then a else nth j l d.
Proof.
  revert i j; induction l as [|y l IH]; intros [|i] [|j] H; simpl in *; try lia; auto.
  apply IH. lia.
Qed.

Definition ins_at (p : nat) (c : A) (l : list A) : list A := firstn p l ++ c :: skipn p l.
Definition remove_at (q : nat) (l : list A) : list A := firstn q l ++ skipn (S q) l.

Lemma ins_at_length p c l : length (ins_at p c l) = S (length l).
Proof.
  unfold ins_at. rewrite app_length. simpl.
  pose proof (f_equal (@length A) (firstn_skipn p l)) as E. rewrite app_length in E. lia.
Qed.

Lemma nth_ins_at p c l k d : p <= length l ->
  nth k (ins_at p c l) d = if k <? p then nth k l d else if k =? p then c else nth (k - 1) l d.
Proof.
  revert p k; induction l as [|y l IH]; intros [|p] [|k] H; simpl in *; try lia; auto.
  - destruct k; reflexivity.
  - rewrite Nat.sub_0_r. reflexivity.
  - unfold ins_at in IH. rewrite IH by lia.
    change (S k <? S p) with (k <? p). change (S k =? S p) with (k =? p).
    destruct (k <? p) eqn:E1; auto. destruct (k =? p) eqn:E2; auto.
    apply Nat.ltb_ge in E1. apply Nat.eqb_neq in E2.
    destruct k; [lia|]. simpl. rewrite Nat.sub_0_r. reflexivity.
Qed.

Lemma nth_error_ins_at p c l k : p <= length l ->
  nth_error (ins_at p c l) k =
  if k <? p then nth_error l k else if k =? p then Some c else nth_error l (k - 1).
Proof.
  revert p k; induction l as [|y l IH]; intros [|p] [|k] H; simpl in *; try lia; auto.
  - destruct k; reflexivity.
  - rewrite Nat.sub_0_r. reflexivity.
  - unfold ins_at in IH. rewrite IH by lia.
    change (S k <? S p) with (k <? p). change (S k =? S p) with (k =? p).
    destruct (k <? p) eqn:E1; auto. destruct (k =? p) eqn:E2; auto.
    apply Nat.ltb_ge in E1. apply Nat.eqb_neq in E2.
    destruct k; [lia|]. simpl. rewrite Nat.sub_0_r. reflexivity.
Qed.

Lemma nth_error_remove_at q l k :
  nth_error (remove_at q l) k = if k <? q then nth_error l k else nth_error l (S k).
Proof.
  revert q k; induction l as [|y l IH]; intros q k.
  - unfold remove_at. rewrite firstn_nil, skipn_nil. simpl.
    destruct (k <? q); destruct k; reflexivity.
  - destruct q as [|q].
    + reflexivity.
    + destruct k as [|k]; [reflexivity|].
      change (nth_error (remove_at (S q) (y :: l)) (S k)) with (nth_error (remove_at q l) k).
      rewrite IH. reflexivity.
Qed.

Lemma remove_at_ge q (l : list A) : length l <= q -> remove_at q l = l.
Proof.
  intros H. unfold remove_at. rewrite firstn_all2 by lia. rewrite skipn_all2 by lia.
  apply app_nil_r.
Qed.

Lemma remove_at_split q (l : list A) v : nth_error l q = Some v ->
  l = firstn q l ++ v :: skipn (S q) l.
Proof.
  revert q; induction l as [|y l IH]; intros [|q] H; simpl in *; try discriminate.
  - congruence.
  - f_equal. apply IH. exact H.
Qed.

Lemma In_remove_at q (l : list A) a : In a (remove_at q l) -> In a l.
Proof.
  revert q; induction l as [|y l IH]; intros q H.
  - unfold remove_at in H. rewrite firstn_nil, skipn_nil in H. exact H.
  - destruct q as [|q].
    + right. exact H.
    + change (remove_at (S q) (y :: l)) with (y :: remove_at q l) in H.
      destruct H as [H|H]; [left; exact H|right; eapply IH; exact H].
Qed.

Lemma remove_at_length q (l : list A) : q < length l -> S (length (remove_at q l)) = length l.
Proof.
  revert q; induction l as [|y l IH]; intros q H; simpl in *; [lia|].
  destruct q as [|q].
  - reflexivity.
  - change (remove_at (S q) (y :: l)) with (y :: remove_at q l). simpl. rewrite IH; lia.
Qed.

Lemma nth_app_del (l1 l2 : list A) c k d :
  nth k (l1 ++ l2) d =
  if k <? length l1 then nth k (l1 ++ c :: l2) d else nth (S k) (l1 ++ c :: l2) d.
Proof.
  destruct (Nat.ltb_spec k (length l1)).
  - rewrite !app_nth1 by lia. reflexivity.
  - rewrite !app_nth2 by lia. replace (S k - length l1) with (S (k - length l1)) by lia.
    reflexivity.
Qed.

Lemma nth_error_hd_skipn (l : list A) k : nth_error l k = hd_error (skipn k l).
Proof. revert k; induction l as [|y l IH]; intros [|k]; simpl; auto. Qed.

Lemma nth_error_nth_d (l : list A) k v d : nth_error l k = Some v -> nth k l d = v.
Proof. revert k; induction l as [|y l IH]; intros [|k] H; simpl in *; try discriminate; [congruence|auto]. Qed.

Lemma nth_error_lt_some (l : list A) k d : k < length l -> nth_error l k = Some (nth k l d).
Proof. revert k; induction l as [|y l IH]; intros [|k] H; simpl in *; try lia; auto. apply IH; lia. Qed.

Lemma hd_error_tl (l : list A) v : hd_error l = Some v -> l = v :: tl l.
Proof. destruct l; simpl; intros H; [discriminate|congruence]. Qed.

End Lists.

(* ---------- cyclic indexing ---------- *)
Definition at_ (ring : list nat) (k : nat) : nat := nth (k mod length ring) ring 0.

Lemma at_lt ring k : k < length ring -> at_ ring k = nth k ring 0.
Proof. intros H. unfold at_. rewrite Nat.mod_small by lia. reflexivity. Qed.

Lemma at_0 ring : ring <> [] -> at_ ring 0 = nth 0 ring 0.
Proof. intros H. apply at_lt. destruct ring; [congruence|simpl; lia]. Qed.

Lemma at_len ring : ring <> [] -> at_ ring (length ring) = nth 0 ring 0.
Proof.
  intros H. unfold at_. rewrite Nat.mod_same; auto. destruct ring; [congruence|simpl; lia].
Qed.

Lemma at_add_len ring k : ring <> [] -> at_ ring (k + length ring) = at_ ring k.
Proof.
  intros H. unfold at_. assert (length ring <> 0) by (destruct ring; [congruence|simpl; lia]).
  replace (k + length ring) with (k + 1 * length ring) by lia. rewrite Nat.mod_add by lia. reflexivity.
Qed.

Lemma at_S_mod ring k : ring <> [] -> at_ ring (S (k mod length ring)) = at_ ring (S k).
Proof.
  intros H. unfold at_. assert (length ring <> 0) by (destruct ring; [congruence|simpl; lia]).
  replace (S (k mod length ring)) with (k mod length ring + 1) by lia.
  rewrite Nat.add_mod_idemp_l by lia. replace (k + 1) with (S k) by lia. reflexivity.
Qed.

Lemma at_S_lt ring k : k < length ring ->
  at_ ring (S k) = if S k =? length ring then nth 0 ring 0 else nth (S k) ring 0.
Proof. intros H. unfold at_. rewrite mod_S_case by lia. destruct (S k =? length ring); reflexivity. Qed.

Lemma at_in ring k : ring <> [] -> In (at_ ring k) ring.
Proof.
  intros H. unfold at_. apply nth_In. apply Nat.mod_upper_bound.
  destruct ring; [congruence|simpl; lia].
Qed.

Lemma in_at ring i : In i ring -> exists k, k < length ring /\ at_ ring k = i.
Proof.
  intros H. destruct (In_nth ring i 0 H) as [k [Hk E]]. exists k. split; auto.
  rewrite at_lt; auto.
Qed.

(* ---------- field-level view of the buffer ---------- *)
Section Buf.
Variable T : Type.
Notation node := (node T).

Definition dnode : node := {| value := None; previous := 0; next := 0 |}.
Definition gt (b : list node) (i : nat) : node := nth i b dnode.
Definition nx (b : list node) i := next (gt b i).
Definition pv (b : list node) i := previous (gt b i).
Definition vl (b : list node) i := value (gt b i).

Lemma getn_lt b i : i < length b -> getn T b i = Some (gt b i).
Proof. intros H. unfold getn, gt. apply nth_error_lt_some. exact H. Qed.

Lemma setn_lt b i nd : i < length b -> setn T b i nd = Some (upd b i nd).
Proof. intros H. unfold setn. apply Nat.ltb_lt in H. rewrite H. reflexivity. Qed.

Lemma gt_upd b i j nd : i < length b -> gt (upd b i nd) j = if j =? i then nd else gt b j.
Proof. intros H. unfold gt. apply nth_upd. exact H. Qed.

Lemma nx_upd b i j nd : i < length b -> nx (upd b i nd) j = if j =? i then next nd else nx b j.
Proof. intros H. unfold nx. rewrite gt_upd by auto. destruct (j =? i); reflexivity. Qed.
Lemma pv_upd b i j nd : i < length b -> pv (upd b i nd) j = if j =? i then previous nd else pv b j.
Proof. intros H. unfold pv. rewrite gt_upd by auto. destruct (j =? i); reflexivity. Qed.
Lemma vl_upd b i j nd : i < length b -> vl (upd b i nd) j = if j =? i then value nd else vl b j.
Proof. intros H. unfold vl. rewrite gt_upd by auto. destruct (j =? i); reflexivity. Qed.

(* the three in-place writes of remove_node / insert as pure functions *)
Definition unlink (b : list node) (c : nat) : list node :=
  let pred := pv b c in let succ := nx b c in
  let b1 := upd b pred {| value := vl b pred; previous := pv b pred; next := succ |} in
  let b2 := upd b1 c {| value := None; previous := length b1; next := length b1 |} in
  upd b2 succ {| value := vl b2 succ; previous := pred; next := nx b2 succ |}.

Definition link (b : list node) (c cur : nat) (v : T) : list node :=
  let pred := pv b cur in
  let b1 := upd b pred {| value := vl b pred; previous := pv b pred; next := c |} in
  let b2 := upd b1 c {| value := Some v; previous := pred; next := cur |} in
  upd b2 cur {| value := vl b2 cur; previous := c; next := nx b2 cur |}.

Lemma unlink_length b c : length (unlink b c) = length b.
Proof. unfold unlink. rewrite !upd_length. reflexivity. Qed.
Lemma link_length b c cur v : length (link b c cur v) = length b.
Proof. unfold link. rewrite !upd_length. reflexivity. Qed.

Ltac fields :=
  repeat (rewrite ?nx_upd, ?pv_upd, ?vl_upd, ?upd_length by (rewrite ?upd_length; assumption); cbn [value previous next]).

Lemma unlink_fields b c : c < length b -> pv b c < length b -> nx b c < length b ->
  (forall j, nx (unlink b c) j = if j =? c then length b else if j =? pv b c then nx b c else nx b j) /\
  (forall j, pv (unlink b c) j = if j =? nx b c then pv b c else if j =? c then length b else pv b j) /\
  (forall j, vl (unlink b c) j = if j =? c then None else vl b j).
Proof.
  intros Hc Hp Hs. unfold unlink. repeat split; intros j; fields;
  repeat (match goal with |- context [?a =? ?b] => destruct (Nat.eqb_spec a b); subst; try lia end);
  try reflexivity; try congruence.
Qed.

Lemma link_fields b c cur v : c < length b -> cur < length b -> pv b cur < length b ->
  (forall j, nx (link b c cur v) j = if j =? c then cur else if j =? pv b cur then c else nx b j) /\
  (forall j, pv (link b c cur v) j = if j =? cur then c else if j =? c then pv b cur else pv b j) /\
  (forall j, vl (link b c cur v) j = if j =? c then Some v else vl b j).
Proof.
  intros Hc Hp Hs. unfold link. repeat split; intros j; fields;
  repeat (match goal with |- context [?a =? ?b] => destruct (Nat.eqb_spec a b); subst; try lia end);
  try reflexivity; try congruence.
Qed.

Lemma remove_node_eq (s : mstate T) :
  let b := buffer s in let c := cursor s in
  c < length b -> pv b c < length b -> nx b c < length b ->
  remove_node T s = Some {| buffer := unlink b c; cursor := c; head := head s; median := median s |}.
Proof.
  intros b c Hc Hp Hs. unfold remove_node. fold b c.
  rewrite (getn_lt b c Hc). cbn [obind]. fold (pv b c) (nx b c).
  rewrite (getn_lt b (pv b c) Hp). cbn [obind].
  rewrite setn_lt by assumption. cbn [obind].
  rewrite setn_lt by (rewrite upd_length; assumption). cbn [obind].
  rewrite getn_lt by (rewrite !upd_length; assumption). cbn [obind].
  rewrite setn_lt by (rewrite !upd_length; assumption). cbn [obind].
  reflexivity.
Qed.

Lemma insert_eq b c v cur : c < length b -> cur < length b -> pv b cur < length b ->
  insert T b c v cur = Some (link b c cur v).
Proof.
  intros Hc Hcur Hp. unfold insert.
  rewrite (getn_lt b cur Hcur). cbn [obind]. fold (pv b cur).
  rewrite (getn_lt b (pv b cur) Hp). cbn [obind].
  rewrite setn_lt by assumption. cbn [obind].
  rewrite setn_lt by (rewrite upd_length; assumption). cbn [obind].
  rewrite getn_lt by (rewrite !upd_length; assumption). cbn [obind].
  rewrite setn_lt by (rewrite !upd_length; assumption).
  reflexivity.
Qed.

End Buf.

Arguments dnode {T}. Arguments gt {T}. Arguments nx {T}. Arguments pv {T}. Arguments vl {T}.
Arguments unlink {T}. Arguments link {T}.
