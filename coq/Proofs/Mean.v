From Signalo Require Import Model.Mean.
From Coq Require Import Morphisms.

Section MeanProofs.
Variable div : Q -> Q -> Q.
Hypothesis div_proper : Proper (Qeq ==> Qeq ==> Qeq) div.
Variable N : nat.
Hypothesis Npos : (0 < N)%nat.

Notation stepf := (step div N false).

(* invariant after history [hist]: taps = last N samples, mean = their sum, weight = their number *)
Definition Inv (s : st) (hist : list Q) : Prop :=
  let w := lastn N hist in
  taps s = w /\ weight s == qnat (length w) /\
  match mean s with Some m => hist <> [] /\ m == qsum w | None => hist = [] end.

Lemma Inv_init : Inv (init) [].
Proof. unfold Inv, init; simpl. rewrite lastn_nil. simpl. repeat split; reflexivity. Qed.

Lemma qsum_tl_hd (l : list Q) o : hd_error l = Some o -> qsum (tl l) == qsum l - o.
Proof. destruct l; simpl; intros H; inversion H; subst. ring. Qed.

Lemma Inv_step s hist x :
  Inv s hist ->
  Inv (fst (stepf s x)) (hist ++ [x]) /\
  snd (stepf s x) == div (qsum (lastn N (hist ++ [x]))) (qnat (length (lastn N (hist ++ [x])))).
Proof.
  intros (Ht & Hw & Hm).
  assert (Hlen : length (lastn N hist) = Nat.min N (length hist)) by apply lastn_length.
  unfold step, push_back. rewrite Ht.
  destruct (Nat.eqb_spec N 0) as [|_]; [lia|].
  assert (Hsum : match mean s with Some m => m | None => 0 end == qsum (lastn N hist)).
  { destruct (mean s) as [m|]; [tauto|]. subst hist. rewrite lastn_nil. reflexivity. }
  destruct (Nat.ltb_spec (length (lastn N hist)) N) as [Hlt|Hge].
  - (* window not yet full *)
    assert (Hshort : (length hist < N)%nat) by lia.
    rewrite (lastn_app_short _ _ _ Hshort).
    simpl fst; simpl snd. unfold Inv. simpl.
    rewrite (lastn_app_short _ _ _ Hshort).
    assert (E1 : radd (match mean s with Some m => m | None => 0 end) x == qsum (lastn N hist ++ [x])).
    { rewrite radd_ok, qsum_app, Hsum. simpl. ring. }
    assert (E2 : radd (weight s) 1 == qnat (length (lastn N hist ++ [x]))).
    { rewrite radd_ok, Hw, app_length. simpl. rewrite Nat.add_1_r, qnat_S. reflexivity. }
    split; [split; [reflexivity|split; [exact E2|]]|].
    + split; [destruct hist; discriminate| exact E1].
    + apply div_proper; assumption.
  - (* window full: evict the oldest *)
    assert (Hfull : (N <= length hist)%nat) by lia.
    rewrite (lastn_app_full _ _ _ Npos Hfull).
    destruct (hd_error (lastn N hist)) as [o|] eqn:Hhd.
    2:{ destruct (lastn N hist); simpl in *; [lia|discriminate]. }
    simpl fst; simpl snd. unfold Inv. simpl.
    rewrite (lastn_app_full _ _ _ Npos Hfull).
    assert (E1 : radd (rsub (match mean s with Some m => m | None => 0 end) o) x
                 == qsum (tl (lastn N hist) ++ [x])).
    { rewrite radd_ok, rsub_ok, qsum_app, Hsum, (qsum_tl_hd _ _ Hhd). simpl. ring. }
    assert (E2 : weight s == qnat (length (tl (lastn N hist) ++ [x]))).
    { rewrite Hw, app_length. simpl. destruct (lastn N hist); simpl in *; [lia|].
      rewrite Nat.add_1_r. reflexivity. }
    split; [split; [reflexivity|split; [exact E2|]]|].
    + split; [destruct hist; discriminate| exact E1].
    + apply div_proper; assumption.
Qed.

Lemma Inv_exec hist : Inv (exec stepf init hist) hist.
Proof.
  induction hist as [|x hist IH] using rev_ind; [apply Inv_init|].
  rewrite exec_snoc. apply Inv_step, IH.
Qed.

(* C03, main clause: after k samples the output is (sum of the last min(k,N)) / min(k,N) *)
Theorem mean_window hist x :
  let w := lastn N (hist ++ [x]) in
  last_out stepf init hist x == div (qsum w) (qnat (length w)).
Proof. unfold last_out. apply Inv_step, Inv_exec. Qed.

(* finite memory: histories with the same last-N suffix give the same output *)
Theorem mean_finite_memory h1 h2 suffix :
  (N <= length suffix)%nat ->
  forall x, last_out stepf init (h1 ++ suffix) x == last_out stepf init (h2 ++ suffix) x.
Proof.
  intros Hs x. rewrite !mean_window. cbv zeta.
  rewrite <- !app_assoc.
  rewrite !(lastn_lastn_app N _ (suffix ++ [x])) by (rewrite app_length; simpl; lia).
  reflexivity.
Qed.
End MeanProofs.

(* constant signals are reproduced exactly, for field division and for truncating division *)
Lemma qsum_repeat c n : qsum (repeat c n) == qnat n * c.
Proof.
  induction n as [|n IH]; [unfold qnat; simpl; ring|].
  cbn [repeat qsum]. rewrite IH, qnat_S. ring.
Qed.

Lemma lastn_repeat {A} (c : A) N n : lastn N (repeat c n) = repeat c (Nat.min N n).
Proof.
  unfold lastn. rewrite repeat_length.
  replace n with ((n - N) + Nat.min N n)%nat at 2 by lia.
  rewrite repeat_app, skipn_app, repeat_length, Nat.sub_diag, skipn_all2 by (rewrite repeat_length; lia).
  reflexivity.
Qed.

Global Instance Qdiv_proper' : Proper (Qeq ==> Qeq ==> Qeq) Qdiv.
Proof. intros a b H c d H'. rewrite H, H'. reflexivity. Qed.

Global Instance rdiv_proper' : Proper (Qeq ==> Qeq ==> Qeq) rdiv := rdiv_proper.

Global Instance qquot_proper : Proper (Qeq ==> Qeq ==> Qeq) qquot.
Proof.
  intros a b H c d H'. unfold qquot.
  rewrite (Qred_complete _ _ H), (Qred_complete _ _ H'). reflexivity.
Qed.

Theorem mean_constant_field N c k : (0 < N)%nat ->
  last_out (step rdiv N false) (init) (repeat c k) c == c.
Proof.
  intros HN. rewrite (mean_window rdiv rdiv_proper N HN). cbv zeta.
  replace (repeat c k ++ [c]) with (repeat c (S k)).
  2:{ replace (S k) with (k + 1)%nat by lia. rewrite repeat_app. reflexivity. }
  rewrite lastn_repeat, repeat_length, qsum_repeat, rdiv_ok.
  assert (0 < qnat (Nat.min N (S k))) by (apply qnat_pos; lia).
  field. intros E. rewrite E in H. apply (Qlt_irrefl 0), H.
Qed.

Lemma Qred_inject_Z z : Qred (inject_Z z) = inject_Z z.
Proof.
  unfold Qred, inject_Z.
  generalize (Z.ggcd_gcd z 1) (Z.ggcd_correct_divisors z 1).
  destruct (Z.ggcd z 1) as (g & a & b). simpl. intros Hg (H1 & H2).
  rewrite Z.gcd_1_r in Hg. subst g. rewrite Z.mul_1_l in H1, H2. subst. reflexivity.
Qed.

Theorem mean_constant_trunc N (c : Z) k : (0 < N)%nat ->
  last_out (step qquot N false) (init) (repeat (inject_Z c) k) (inject_Z c) == inject_Z c.
Proof.
  intros HN. rewrite (mean_window qquot qquot_proper N HN). cbv zeta.
  replace (repeat (inject_Z c) k ++ [inject_Z c]) with (repeat (inject_Z c) (S k)).
  2:{ replace (S k) with (k + 1)%nat by lia. rewrite repeat_app. reflexivity. }
  rewrite lastn_repeat, repeat_length, qsum_repeat.
  set (m := Nat.min N (S k)). assert (Hm : (0 < m)%nat) by (unfold m; lia).
  assert (E : qnat m * inject_Z c == inject_Z (Z.of_nat m * c)).
  { unfold qnat. rewrite inject_Z_mult. reflexivity. }
  rewrite E. unfold qquot, qnat.
  rewrite !Qred_inject_Z. cbn [Qnum inject_Z].
  rewrite Z.mul_comm, Z.quot_mul by lia. reflexivity.
Qed.

(* non-vacuity and the pre-repair behaviour *)
Example mean_example :
  run (step rdiv 3 false) (init) [4;4;4;4] = [4;4;4;4] /\
  run (step qquot 3 false) (init) [3;6;9;12;15] = [3;4;6;9;12].
Proof. vm_compute. split; reflexivity. Qed.

(* the code before the repair adds the first sample twice (recorded as fixed in KNOWN_FINDINGS) *)
Lemma mean_old_refuted :
  run (step rdiv 3 true) (init) [4;4;4;4] = [8; 6; 16#3; 16#3].
Proof. vm_compute. reflexivity. Qed.
