(* C19 — no false alarm for the ownership-ledger checker of Check/C19.v.

   Non-fault cases.  The model comparison (bit 1) covers clive (live counts after every operation).  The spec
   (bit 2) asks, on top of "no panic": canom = 0, cfinal = 0 and one live count per operation.
     - canom and cfinal are recorded observations that `check` never compares with the model.  The model's opinion
       on both is fixed: the ledger model has no anomalies at all (operations on a dropped slot are no-ops, nothing
       is ever dropped twice or used after its drop), and after every slot has been dropped nothing is live
       (C19_ledger_ops, last clause: live (map (fun _ => None) pool) = 0).  So "bit 1 clear" is completed by the
       side condition that these two observations are the model's: canom = 0 and cfinal = 0.
     - the length clause is where a proof is needed: clive equals the model's run_ops list, and run_ops stops at a
       model panic; it has one entry per operation because the model NEVER panics on any operation program, for a
       window of at least 1 (and below the end of the usize range for the deque filters).  This is proved here from
       the totality results behind C02 (median: Proofs.Median.reach), C04 (max/min/bounds: max_run, min_run,
       bounds_run), C05 (convolution, delay: taps_inv, delay_run): every pool instance is reachable from the fresh
       instance, under any interleaving of filter / clone / reset / guts / drop.
   Fault-injection cases (cfault = true) have NO model half: model_ok is the constant true and bit 2 is the only
   judgement (canom = 0), so "bit 2 without bit 1" is reachable by construction (C19_fault_alarm); excluded. *)
From Coq Require Import ZArith NArith List Arith Lia Bool.
From Signalo Require Import Base.QR Base.Opt Base.ListX Base.Machine Spec.C04.
From Signalo Require Model.Median Model.Mean Model.Bounds Model.Convolve.
From Signalo Require Proofs.Median Proofs.Bounds Proofs.Convolve.
From Signalo Require Import Check.Common Model.Ledger Proofs.Ledger Props.C19 Check.C19.
Import ListNotations.

Lemma mkv_sound m s nt : (m = true -> s = true) -> N.land (code (mkv m s nt)) 3 <> 2%N.
Proof. intros H. destruct m, s; cbn; try discriminate. specialize (H eq_refl). discriminate. Qed.

Lemma list_eqb_nat_eq a : forall b, list_eqb Nat.eqb a b = true -> a = b.
Proof.
  induction a as [|x a IH]; intros [|y b] H; cbn [list_eqb] in H; try discriminate; [reflexivity|].
  apply andb_prop in H as [H1 H2]. apply Nat.eqb_eq in H1. rewrite H1, (IH b H2). reflexivity.
Qed.

Lemma zleb_total_preorder : total_preorder Z.leb.
Proof.
  split.
  - intros a b. destruct (Z.leb_spec a b); [left; reflexivity | right; apply Z.leb_le; lia].
  - intros a b c H1 H2. apply Z.leb_le in H1, H2. apply Z.leb_le. lia.
Qed.

(* ---------- a total panicking machine never panics from a reachable state ---------- *)
Lemma step_of_total {S X Y} (f : S -> X -> option (S * Y)) s0 :
  (forall hist, exists s, oexec f s0 hist = Some s) ->
  forall hist s v, oexec f s0 hist = Some s ->
  exists s' y, f s v = Some (s', y) /\ oexec f s0 (hist ++ [v]) = Some s'.
Proof.
  intros Htot hist s v H. destruct (Htot (hist ++ [v])) as [s2 E].
  rewrite (oexec_snoc f s0 hist v s H) in E.
  destruct (f s v) as [[s' y]|] eqn:Ef; [|discriminate]. injection E as <-.
  exists s', y. split; [reflexivity|]. rewrite (oexec_snoc f s0 hist v s H), Ef. reflexivity.
Qed.

Section Total.
Variable n : nat.
Hypothesis Hn : (1 <= n)%nat.
Hypothesis Hmax : (N.of_nat n + 1 <= Bounds.usize_max)%N.

Lemma Hn' : (1 <= bn n)%N.
Proof. unfold bn. lia. Qed.

Lemma median_total hist : exists s, oexec (Median.filter Z.leb) (Median.init n) hist = Some s.
Proof. destruct (Proofs.Median.reach Z Z.leb n Hn hist) as (s & _ & _ & E & _). exists s. exact E. Qed.
Lemma max_total hist : exists s, oexec (Bounds.max_step Z.leb (bn n) Bounds.usize_max false) Bounds.init hist = Some s.
Proof.
  destruct (Proofs.Bounds.max_run Z Z.leb zleb_total_preorder (bn n) Bounds.usize_max Hn' Hmax hist 0%Z) as (s & _ & _ & E & _).
  exists s. exact E.
Qed.
Lemma min_total hist : exists s, oexec (Bounds.min_step Z.leb (bn n) Bounds.usize_max false) Bounds.init hist = Some s.
Proof.
  destruct (Proofs.Bounds.min_run Z Z.leb zleb_total_preorder (bn n) Bounds.usize_max Hn' Hmax hist 0%Z) as (s & _ & _ & E & _).
  exists s. exact E.
Qed.
Lemma bounds_total hist :
  exists s, oexec (Bounds.bounds_step Z.leb (bn n) Bounds.usize_max false) (Bounds.init, Bounds.init) hist = Some s.
Proof.
  destruct (Proofs.Bounds.bounds_run Z Z.leb zleb_total_preorder (bn n) Bounds.usize_max Hn' Hmax hist 0%Z) as (s & _ & _ & _ & E & _).
  exists s. exact E.
Qed.
Lemma conv_total hist : exists t, oexec (Convolve.conv_step n (repeat 1 n)) [] hist = Some t.
Proof.
  destruct hist as [|x0 hist]; [exists []; reflexivity|].
  eexists. apply Proofs.Convolve.taps_inv.
Qed.
Lemma delay_total (hist : list Z) : exists t, oexec (Convolve.delay_step n) [] hist = Some t.
Proof.
  destruct hist as [|x0 hist]; [exists []; reflexivity|].
  destruct (Proofs.Convolve.delay_run n x0 hist) as (ys & _ & E & _). eexists. exact E.
Qed.

(* ---------- every instance in the pool is reachable from the fresh instance of the case's kind ---------- *)
Definition reachable (k : kind) (i : inst) : Prop :=
  match k, i with
  | KMedian, IMedian s => exists hist, oexec (Median.filter Z.leb) (Median.init n) hist = Some s
  | KMean, IMean _ => True
  | KMax, IMax s => exists hist, oexec (Bounds.max_step Z.leb (bn n) Bounds.usize_max false) Bounds.init hist = Some s
  | KMin, IMin s => exists hist, oexec (Bounds.min_step Z.leb (bn n) Bounds.usize_max false) Bounds.init hist = Some s
  | KBounds, IBounds a b =>
      exists hist, oexec (Bounds.bounds_step Z.leb (bn n) Bounds.usize_max false) (Bounds.init, Bounds.init) hist = Some (a, b)
  | KConv, IConv t => exists hist, oexec (Convolve.conv_step n (repeat 1 n)) [] hist = Some t
  | KDelay, IDelay t => exists hist : list Z, oexec (Convolve.delay_step n) [] hist = Some t
  | _, _ => False
  end.

Lemma reachable_fresh k : reachable k (fresh k n).
Proof. destruct k; cbn [reachable fresh]; try exact I; exists []; reflexivity. Qed.

Lemma reachable_step k i v : reachable k i -> exists i', step n i v = Some i' /\ reachable k i'.
Proof.
  destruct k, i; cbn [reachable]; try contradiction; intros H.
  - destruct H as [hist H]. destruct (step_of_total _ _ median_total hist s v H) as (s' & y & E & R).
    exists (IMedian s'). cbn [step]. rewrite E. cbn [obind]. split; [reflexivity | exists (hist ++ [v]); exact R].
  - eexists. cbn [step]. split; [reflexivity | exact I].
  - destruct H as [hist H]. destruct (step_of_total _ _ max_total hist s v H) as (s' & y & E & R).
    exists (IMax s'). cbn [step]. rewrite E. cbn [obind]. split; [reflexivity | exists (hist ++ [v]); exact R].
  - destruct H as [hist H]. destruct (step_of_total _ _ min_total hist s v H) as (s' & y & E & R).
    exists (IMin s'). cbn [step]. rewrite E. cbn [obind]. split; [reflexivity | exists (hist ++ [v]); exact R].
  - destruct H as [hist H]. destruct (step_of_total _ _ bounds_total hist (a, b) v H) as ([a' b'] & y & E & R).
    exists (IBounds a' b'). cbn [step]. rewrite E. cbn [obind fst snd]. split; [reflexivity | exists (hist ++ [v]); exact R].
  - destruct H as [hist H]. destruct (step_of_total _ _ conv_total hist taps (inject_Z v) H) as (t' & y & E & R).
    exists (IConv t'). cbn [step]. rewrite E. cbn [obind]. split; [reflexivity | exists (hist ++ [inject_Z v]); exact R].
  - destruct H as [hist H]. destruct (step_of_total _ _ delay_total hist taps v H) as (t' & y & E & R).
    exists (IDelay t'). cbn [step]. rewrite E. cbn [obind]. split; [reflexivity | exists (hist ++ [v]); exact R].
Qed.

Definition pool_ok (k : kind) (pool : list (option inst)) : Prop :=
  Forall (fun o => match o with Some i => reachable k i | None => True end) pool.

Lemma pool_ok_nth k pool j i : pool_ok k pool -> nth j pool None = Some i -> reachable k i.
Proof.
  intros P H. destruct (Nat.lt_ge_cases j (length pool)) as [L|L].
  - unfold pool_ok in P. rewrite Forall_forall in P. specialize (P _ (nth_In pool None L)). rewrite H in P. exact P.
  - rewrite nth_overflow in H by exact L. discriminate.
Qed.
Lemma Forall_firstn {A} (P : A -> Prop) k l : Forall P l -> Forall P (firstn k l).
Proof. intros F. revert k. induction F; intros [|k]; cbn [firstn]; constructor; auto. Qed.
Lemma Forall_skipn {A} (P : A -> Prop) k l : Forall P l -> Forall P (skipn k l).
Proof. intros F. revert k. induction F; intros [|k]; cbn [skipn]; try constructor; auto. Qed.
Lemma pool_ok_set k pool j x : pool_ok k pool -> match x with Some i => reachable k i | None => True end ->
  pool_ok k (set_slot pool j x).
Proof.
  intros P Hx. unfold pool_ok, set_slot. apply Forall_app. split; [apply Forall_firstn, P|].
  constructor; [exact Hx | apply Forall_skipn, P].
Qed.

Lemma exec_op_total k pool o : pool_ok k pool -> exists p', exec_op k n pool o = Some p' /\ pool_ok k p'.
Proof.
  intros P. destruct o as [j v|j|j|j|j]; cbn [exec_op].
  - destruct (nth j pool None) as [i|] eqn:E; [|exists pool; split; [reflexivity | exact P]].
    destruct (reachable_step k i v (pool_ok_nth k pool j i P E)) as (i' & Es & R).
    rewrite Es. cbn [obind]. eexists. split; [reflexivity|]. apply pool_ok_set; assumption.
  - destruct (nth j pool None) as [i|] eqn:E; [|exists pool; split; [reflexivity | exact P]].
    eexists. split; [reflexivity|]. apply Forall_app. split; [exact P|].
    constructor; [exact (pool_ok_nth k pool j i P E) | constructor].
  - destruct (nth j pool None) as [i|] eqn:E; [|exists pool; split; [reflexivity | exact P]].
    eexists. split; [reflexivity|]. apply pool_ok_set; [exact P | apply reachable_fresh].
  - exists pool. split; [reflexivity | exact P].
  - destruct (nth j pool None) as [i|] eqn:E; [|exists pool; split; [reflexivity | exact P]].
    eexists. split; [reflexivity|]. apply pool_ok_set; [exact P | exact I].
Qed.

(* the model produces one live count per operation: it never panics *)
Lemma run_ops_length k ops : forall pool, pool_ok k pool -> length (run_ops k n pool ops) = length ops.
Proof.
  induction ops as [|o ops IH]; intros pool P; cbn [run_ops]; [reflexivity|].
  destruct (exec_op_total k pool o P) as (p' & E & P'). rewrite E. cbn [length]. f_equal. apply IH, P'.
Qed.
End Total.

Theorem C19_model_never_panics : forall k n ops, (1 <= n)%nat -> (N.of_nat n + 1 <= Bounds.usize_max)%N ->
  length (run_ops k n [Some (fresh k n)] ops) = length ops.
Proof.
  intros k n ops Hn Hmax. apply (run_ops_length n Hn Hmax k ops).
  constructor; [apply reachable_fresh | constructor].
Qed.

(* Side condition.
   (a) cfault = false: the ledger-count cases (see the header for the fault-injection cases);
   (b) canom = 0 and cfinal = 0: the two recorded observations `check` does not compare with the model are the
       model's (no anomalies exist in the model; everything dropped = nothing live, C19_ledger_ops);
   (c) window at least 1 and below the end of the usize range -- conditions on the INPUT only; every generated
       configuration has 1 <= N <= a few dozen (a zero-width median / deque panics in the model and in Rust).
   Generated cases of a correct implementation satisfy (b): that is the property itself. *)
Definition wf (c : case) : bool :=
  negb (cfault c) && (canom c =? 0)%nat && (cfinal c =? 0)%nat &&
  (1 <=? cn c)%nat && (N.of_nat (cn c) + 1 <=? Bounds.usize_max)%N.

Theorem C19_check_sound : forall c : case, wf c = true -> N.land (code (check c)) 3 <> 2%N.
Proof.
  intros c Hwf. unfold wf in Hwf.
  apply andb_prop in Hwf as [Hwf Hmax]. apply andb_prop in Hwf as [Hwf Hn].
  apply andb_prop in Hwf as [Hwf Hfin]. apply andb_prop in Hwf as [Hf Han].
  apply negb_true_iff in Hf. apply Nat.leb_le in Hn. apply N.leb_le in Hmax.
  unfold check. rewrite Hf. apply mkv_sound. intros H.
  apply andb_prop in H as [Hp Hl]. apply list_eqb_nat_eq in Hl.
  rewrite Hp, Han, Hfin. cbn [andb]. apply Nat.eqb_eq.
  rewrite <- Hl. apply C19_model_never_panics; assumption.
Qed.
Print Assumptions C19_check_sound.

(* ---------- the side condition is needed ---------- *)
(* fault-injection cases have no model half: an anomaly alone gives bit 2 *)
Example C19_fault_alarm : N.land (code (check (mk KMean 1 [] [] 1 0 false true))) 3 = 2%N.
Proof. vm_compute. reflexivity. Qed.
(* an anomaly / a leak recorded by the harness while the live counts agree: true alarms the model comparison
   does not look at *)
Example C19_alarm_anomaly : N.land (code (check (mk KMean 1 [] [] 1 0 false false))) 3 = 2%N.
Proof. vm_compute. reflexivity. Qed.
Example C19_alarm_leak : N.land (code (check (mk KMean 1 [] [] 0 1 false false))) 3 = 2%N.
Proof. vm_compute. reflexivity. Qed.
(* window 0: the median model panics on the first sample, the recorded (truncated) counts agree, no panic flag:
   only the length clause fires *)
Example C19_alarm_zero_width : N.land (code (check (mk KMedian 0 [OFilter 0 1%Z] [] 0 0 false false))) 3 = 2%N.
Proof. vm_compute. reflexivity. Qed.
